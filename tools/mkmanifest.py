#!/usr/bin/env python3
"""Regenerate MANIFEST.json from the table of claimed properties below."""
import json
import os

VERIF = os.path.dirname(os.path.dirname(os.path.abspath(__file__)))
CLAIMS = json.load(open(os.path.join(VERIF, "tools", "claims.json")))
props = [json.loads(l) for l in open(os.path.join(VERIF, "properties.jsonl"))]

checks, na = [], []
for p in props:
    c = CLAIMS.get(p["id"])
    if not c:
        na.append({"property_id": p["id"], "reason": "pending: check under construction in this round (not a statement that the technique does not apply)"})
        continue
    checks.append({
        "property_id": p["id"],
        "quick_cmd": "VERIF_TIER=quick ./check %s" % p["id"],
        "thorough_cmd": "VERIF_TIER=thorough ./check %s" % p["id"],
        "evidence_file": "/verif/evidence/%s.json" % p["id"],
        "replay_cmd_template": "./check %s --replay {path}" % p["id"],
        "engine": "coq-model",
        "level_claimed": {"category": "proof", "text": c["text"], "design_ref": c["design_ref"]},
        "level_note": c["note"],
        "technique": c["technique"],
    })

m = {
    "version": 1,
    "setup_cmd": "./setup.sh",
    "hooks": {"guard": "verif", "enable": "go build -tags verif (files verif_hooks.go, internal/matcher/verif_describe.go)",
              "baseline_off_cmd": "cd /repo && GOFLAGS=-mod=mod go test -vet=off -count=1 ./...",
              "source_commits": CLAIMS.get("_hook_commits", []), "add_only": True},
    "engines": [{"name": "coq-model", "path": "/verif/coq",
                 "serves_properties": [c["property_id"] for c in checks],
                 "kind_free_text": "hand-written executable Gallina model of mow.cli + reference semantics; property theorems in coq/P<id>.v checked by coqc 8.16.1; model tied to /repo by a correspondence check (extracted OCaml model vs the Go code through verif-tagged hooks) and direct oracles on the implementation"}],
    "checks": checks,
    "notes": "See DESIGN.md. ./check <id> rebuilds the harness from /repo's working tree on every run; VERIF_TIER and VERIF_SEED are honoured.",
    "not_applicable": na,
}
json.dump(m, open(os.path.join(VERIF, "MANIFEST.json"), "w"), indent=1)
print("claimed:", [c["property_id"] for c in checks])
