"""Check framework: build, proof obligations, correspondence runs, violation protocol,
known findings, evidence and replay files."""
import json
import os
import random
import re
import sys
import time

import core
from core import VERIF, COQ, log


class Ctx:
    def __init__(self, prop, tier, seed):
        self.prop = prop
        self.tier = tier
        self.seed = seed
        self.rng = random.Random("%s:%s" % (prop, seed))
        self.t0 = time.time()
        self.violations = []       # dicts: kind, detail, case(s), observations
        self.mismatches = []       # Impl != M on the property's observable (not yet a violation)
        self.known = []            # KNOWN-FINDING lines
        self.cov = {"streams": {}, "samples": []}
        self.evaluations = 0
        self.distinct = set()
        self.obligations = []
        self.discharged = []
        self.axioms = {}
        self.build_s = 0
        self.notes = []
        self.timeouts = 0

    @property
    def thorough(self):
        return self.tier == "thorough"

    def scale(self, quick, thorough):
        return thorough if self.thorough else quick

    def stream(self, name, n, **info):
        s = self.cov["streams"].setdefault(name, {"cases": 0})
        s["cases"] += n
        for k, v in info.items():
            s[k] = v

    def count(self, case, nontrivial=True):
        self.evaluations += 1
        if nontrivial:
            self.distinct.add(core.case_hash(case))

    def sample(self, x):
        if len(self.cov["samples"]) < 6:
            self.cov["samples"].append(x)

    def violation(self, kind, detail, **data):
        self.violations.append(dict(kind=kind, detail=detail, **data))

    def mismatch(self, detail, **data):
        self.mismatches.append(dict(detail=detail, **data))


# ---------------------------------------------------------------------------------------
# proofs
# ---------------------------------------------------------------------------------------

FORBIDDEN = re.compile(r"\b(Admitted|admit|Axiom|Axioms|Parameter|Parameters|Conjecture|Conjectures|"
                       r"Admit Obligations|Unset Guard Checking|Unset Positivity Checking|Unset Universe Checking|"
                       r"bypass_check|Hypothesis|Hypotheses)\b")


def scan_forbidden():
    """no Admitted/admit/Axiom/Parameter/..., no Variable/Hypothesis outside a Section"""
    bad = []
    for f in sorted(os.listdir(COQ)):
        if not f.endswith(".v"):
            continue
        depth = 0
        txt = open(os.path.join(COQ, f)).read()
        txt = re.sub(r"\(\*.*?\*\)", lambda m: "\n" * m.group(0).count("\n"), txt, flags=re.S)
        for i, line in enumerate(txt.split("\n"), 1):
            s = line.strip()
            if re.match(r"^(Section|Module)\b", s) and not re.match(r"^Module\s+(Import|Export)\b", s):
                depth += 1
            if re.match(r"^End\b", s):
                depth -= 1
            m = FORBIDDEN.search(s)
            if m:
                w = m.group(1)
                if w in ("Hypothesis", "Hypotheses") and depth > 0:
                    continue
                bad.append("%s:%d: %s" % (f, i, w))
            if depth <= 0 and re.match(r"^(Variable|Variables|Context)\b", s):
                bad.append("%s:%d: Variable outside a section" % (f, i))
    return bad


def property_theorems(prop):
    """(theorem names, assumptions per theorem) from coq/P<prop>.v, compiled now"""
    f = os.path.join(COQ, "P%s.v" % prop)
    if not os.path.exists(f):
        return [], {}, "no property file"
    src = open(f).read()
    names = re.findall(r"^\s*Theorem\s+(%s_\w+)" % prop, src, flags=re.M)
    rc, out = core.sh("timeout 1200 coqc -Q . MowCli P%s.v" % prop, cwd=COQ, check=False)
    if rc != 0:
        return names, {}, out[-2000:]
    # Print Assumptions output, in order of the commands
    asked = re.findall(r"^\s*Print Assumptions\s+(\w+)\.", src, flags=re.M)
    blocks = re.split(r"(?m)^(?=Closed under the global context|Axioms:)", out)
    blocks = [b for b in blocks if b.startswith("Closed under") or b.startswith("Axioms:")]
    ax = {}
    for n, b in zip(asked, blocks):
        ax[n] = "closed" if b.startswith("Closed under") else b.strip()
    return names, ax, None


def prove(ctx):
    """build everything; collect the property's obligations"""
    clean = ctx.thorough and os.environ.get("VERIF_NO_CLEAN") != "1"
    try:
        out, secs = core.build_all(clean=clean, race=(ctx.prop == "C20"))
        ctx.build_s = secs
    except core.BuildError as e:
        ctx.build_error = str(e)
        # Go side must build for any check to mean something
        if "go build" in e.cmd:
            ctx.violation("build", "the harness does not build against /repo: " + e.out[-1500:])
            return False
        ctx.violation("proof", "the Coq development does not build: " + e.out[-1500:])
        return False
    bad = scan_forbidden()
    if bad:
        ctx.violation("proof", "forbidden declarations in the development: " + "; ".join(bad[:10]))
    names, ax, err = property_theorems(ctx.prop)
    ctx.obligations = names
    if not names and not err:
        err = "no property theorem found in P%s.v" % ctx.prop
    if err:
        ctx.violation("proof", "property theorems of %s do not check: %s" % (ctx.prop, err))
        return True
    for n in names:
        a = ax.get(n)
        if a is None:
            ctx.violation("proof", "no Print Assumptions for " + n)
        else:
            ctx.axioms[n] = a
            ctx.discharged.append(n)
    if ctx.thorough and os.environ.get("VERIF_NO_COQCHK") != "1":
        # independent re-check of the compiled property file and everything it depends on
        rc, out = core.sh("timeout 3000 coqchk -silent -o -Q . MowCli MowCli.P%s" % ctx.prop, cwd=COQ, check=False)
        m = re.search(r"\* Axioms:(.*?)\n\s*\n", out, flags=re.S)
        axs = (m.group(1).strip() if m else "?")
        ctx.notes.append("coqchk: rc=%d axioms=%s" % (rc, " ".join(axs.split())))
        if rc != 0 or axs != "<none>":
            ctx.violation("proof", "coqchk does not accept P%s.vo without axioms: %s" % (ctx.prop, out[-1500:]))
    return True


# ---------------------------------------------------------------------------------------
# corpus: the witnesses of the repaired defects run first, for the properties they belong to
# ---------------------------------------------------------------------------------------

def run_corpus(ctx):
    path = os.path.join(VERIF, "corpus", "defects.json")
    if not os.path.exists(path):
        return
    entries = [e for e in json.load(open(path)) if ctx.prop in e["properties"]]
    if not entries:
        return
    cases = []
    for k, e in enumerate(entries):
        c = json.loads(json.dumps(e["case"]))
        c["id"] = "corpus%d" % k
        cases.append(c)
    impl = core.run_impl(cases, timeout_ms=10000)
    model = core.run_model(cases)
    for e, c in zip(entries, cases):
        ctx.count(c)
        a = core.obs_impl(impl[c["id"]])
        b = core.obs_model(model[c["id"]])
        acc = a["outcome"] == ("ret", None) and any(t.startswith("A:") for t in a["trace"])
        exp = e["expect_accepted"]
        bad = None
        if a["outcome"][0] in ("timeout", "died", "stackoverflow", "crash", "memory"):
            bad = "does not end normally: %r" % (a["outcome"],)
        elif exp is None:
            if not (a["outcome"][0] == "panic" and str(a["outcome"][1]).startswith("parse:")):
                bad = "must be refused as a spec error, the end is %r" % (a["outcome"],)
        elif acc != exp:
            bad = "must be %s, the end is %r" % ("accepted" if exp else "rejected", a["outcome"])
        if not bad and e.get("expect_sbu") is not None and a["sbu"] != e["expect_sbu"]:
            bad = "must leave the SetByUser flags %r, they are %r" % (e["expect_sbu"], a["sbu"])
        if bad:
            ctx.violation("corpus", "defect %s is back (%s): spec %r env %r argv %r %s"
                          % (e["id"], e["note"], c["root"]["spec"], c["env"], c["argv"], bad), case=c)
        elif b["outcome"][0] == "model-error":
            ctx.timeouts += 1       # the model's plain search exceeds its time limit where the library's memoised one does not (D10)
        elif (a["outcome"], a["trace"]) != (b["outcome"], b["trace"]):
            ctx.mismatch("corpus %s: Impl and model differ" % e["id"], case=c, impl=a["outcome"], model=b["outcome"])
    ctx.stream("corpus of repaired defects", len(cases), ids=[e["id"] for e in entries])


# ---------------------------------------------------------------------------------------
# finishing
# ---------------------------------------------------------------------------------------

def finish(ctx, rule, assumptions, extra=None):
    wall = time.time() - ctx.t0
    ev = {
        "property_id": ctx.prop, "tier": ctx.tier, "seed": ctx.seed, "level": "proof",
        "coverage": {
            "obligations": len(ctx.obligations), "discharged": len(ctx.discharged),
            "theorems": ctx.obligations, "axioms": ctx.axioms,
            "checker_cmd": "cd /verif/coq && make (coqc 8.16.1, full .vo build) && coqc -Q . MowCli P%s.v" % ctx.prop,
            "trusted_base": TRUSTED_BASE,
            "evaluations": ctx.evaluations, "distinct_nontrivial": len(ctx.distinct), "rule": rule,
            "samples": ctx.cov["samples"] or ["(none)"], "streams": ctx.cov["streams"],
            "correspondence_mismatches": len(ctx.mismatches), "skipped_timeouts": ctx.timeouts,
            "known_findings": ctx.known, "notes": ctx.notes, "build_s": round(ctx.build_s, 1),
        },
        "assumptions": assumptions,
        "wall_s": round(wall, 2),
        "violations": len(ctx.violations) + (1 if ctx.mismatches and not ctx.violations else 0),
    }
    if extra:
        ev["coverage"].update(extra)
    rc = 0
    lines = []
    for k in ctx.known:
        lines.append("KNOWN-FINDING: property=%s %s" % (ctx.prop, k))
    if ctx.violations or ctx.mismatches:
        rc = 1
        rp = os.path.join(VERIF, "replays", "%s-%s-%d.json" % (ctx.prop, ctx.tier, ctx.seed))
        concrete = [v for v in ctx.violations if v["kind"] not in ("proof", "build")]
        replay = {"property": ctx.prop, "tier": ctx.tier, "seed": ctx.seed}
        if concrete:
            replay["violation"] = concrete[0]
            replay["more"] = concrete[1:10]
            replay["mismatches"] = ctx.mismatches[:5]
            core.write_json(rp, replay)
            lines.append("VIOLATION property=%s replay=%s" % (ctx.prop, rp))
        else:
            replay["no_failing_input_found"] = True
            replay["broken"] = [v for v in ctx.violations] or None
            replay["correspondence"] = ("Impl and model disagree on the observable of %s; no input was found on "
                                        "which the implementation itself contradicts the property" % ctx.prop) \
                if ctx.mismatches else None
            replay["mismatches"] = ctx.mismatches[:10]
            core.write_json(rp, replay)
            lines.append("VIOLATION property=%s replay=%s no-failing-input-found" % (ctx.prop, rp))
    core.write_json(os.path.join(os.environ.get("VERIF_EVIDENCE_DIR") or os.path.join(VERIF, "evidence"), "%s.json" % ctx.prop), ev)
    for l in lines:
        print(l, flush=True)
    log("%s %s: %d evaluations, %d distinct, %d violations, %d mismatches, %.1fs" %
        (ctx.prop, ctx.tier, ctx.evaluations, len(ctx.distinct), len(ctx.violations), len(ctx.mismatches), wall))
    return rc


TRUSTED_BASE = [
    "Coq 8.16.1 kernel (coqc); vm_compute in Example lemmas; no native_compute",
    "no axioms: Print Assumptions of every property theorem is recorded under coverage.axioms",
    "Section variables of the model: getenv, strconv.ParseFloat/FormatFloat (per-case table produced by Go's strconv), user callbacks and custom flag.Values as data",
    "extraction: ExtrOcamlBasic only (bool, option, unit, list, prod, sumbool, sumor), no Extract Constant; OCaml 4.13.1 ocamlfind ocamlopt; ocaml/driver.ml",
    "correspondence machinery: verif-tagged hook files in /repo, harness/main.go, tools/*.py (generators, canonicalisation)",
    "the model is hand-written: all of mow.cli is modelled, none of the Go text is verified directly",
]
