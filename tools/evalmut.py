#!/usr/bin/env python3
"""Evaluate one seeded change: confirm it (builds, existing suite passes, demo fails with it and
passes without), then run the checks against a scratch copy of the repository with the change
applied and record which of them report a violation.

  evalmut.py <dir with patch.diff, demo_test.go, notes.md> <name> <property> [checks...]
Nothing is ever applied to /repo; scratch copies live under /tmp and are removed at the end."""
import json
import os
import re
import shutil
import subprocess
import sys
import time

src, name, prop = sys.argv[1], sys.argv[2], sys.argv[3]
checks = sys.argv[4:] or ["C%02d" % i for i in range(1, 21)]
ENV = dict(os.environ, GOFLAGS="-mod=mod", GOPROXY="off", GOSUMDB="off", GOTOOLCHAIN="local")
repo = "/tmp/ev_%s_repo" % name
verif = "/tmp/ev_%s_verif" % name
VERIF_SRC = os.environ.get("VERIF_SRC", "/verif")          # the machinery to evaluate (a snapshot under vp run)
SEEDED_DST = os.environ.get("SEEDED_DST", "/verif/seeded")  # where meta.json is written


def sh(cmd, cwd=None, env=ENV, timeout=3000):
    p = subprocess.run(cmd, shell=True, cwd=cwd, env=env, stdout=subprocess.PIPE, stderr=subprocess.STDOUT, text=True, timeout=timeout)
    return p.returncode, p.stdout


meta = {"name": name, "property": prop, "source": src, "ran": []}
sh("git -C /repo worktree remove --force %s" % repo)
rc, out = sh("git -C /repo worktree add -q --detach %s %s" % (repo, os.environ.get("EVAL_BASE", "HEAD")))   # EVAL_BASE: an earlier commit of /repo
assert rc == 0, out
try:
    notes = open(os.path.join(src, "notes.md")).read() if os.path.exists(os.path.join(src, "notes.md")) else ""
    m = re.search(r"(internal/[a-z/]+)", notes) if "internal-package test" in notes or "package matcher" in notes or "package fsm" in notes else None
    demo = open(os.path.join(src, "demo_test.go")).read()
    pkg = re.search(r"^package (\w+)", demo, re.M).group(1)
    demodir = {"cli": ".", "cli_test": ".", "fsm": "internal/fsm", "matcher": "internal/matcher", "lexer": "internal/lexer",
               "parser": "internal/parser", "values": "internal/values", "flow": "internal/flow"}.get(pkg, ".")
    # demo passes without the change
    shutil.copy(os.path.join(src, "demo_test.go"), os.path.join(repo, demodir, "zz_demo_test.go"))
    rc0, out0 = sh("go test -count=1 ./%s 2>&1 | tail -5" % demodir, cwd=repo)
    ok_without = "ok" in out0 and "FAIL" not in out0
    os.remove(os.path.join(repo, demodir, "zz_demo_test.go"))
    # apply; builds; the existing suite passes
    rc, out = sh("git apply %s" % os.path.join(src, "patch.diff"), cwd=repo)
    assert rc == 0, "patch does not apply: " + out
    rc1, out1 = sh("go build ./... && go test -count=1 ./... 2>&1 | tail -12", cwd=repo)
    suite_ok = rc1 == 0 and "FAIL" not in out1
    shutil.copy(os.path.join(src, "demo_test.go"), os.path.join(repo, demodir, "zz_demo_test.go"))
    rc2, out2 = sh("go test -count=1 ./%s 2>&1 | tail -15" % demodir, cwd=repo)
    fails_with = "FAIL" in out2
    os.remove(os.path.join(repo, demodir, "zz_demo_test.go"))
    meta.update(demo_passes_without=ok_without, suite_passes_with=suite_ok, demo_fails_with=fails_with,
                demo_dir=demodir)
    meta["ran"] += ["git apply patch.diff (scratch worktree of /repo HEAD)", "go build ./... && go test -count=1 ./...",
                    "go test with demo_test.go copied to %s, with and without the patch" % demodir]
    confirmed = ok_without and suite_ok and fails_with
    meta["confirmed"] = confirmed
    caught = {}
    if confirmed:
        shutil.rmtree(verif, ignore_errors=True)
        sh("rsync -a --exclude .git --exclude work --exclude replays --exclude evidence --exclude seeded %s/ %s/" % (VERIF_SRC.rstrip("/"), verif))
        os.makedirs(os.path.join(verif, "replays"), exist_ok=True)
        sh("sed -i 's|=> /repo|=> %s|' harness/go.mod" % repo, cwd=verif)
        env = dict(ENV, VERIF_REPO=repo, VERIF_TIER="quick", VERIF_SEED=os.environ.get("VERIF_SEED", "1"), VERIF_NO_CLEAN="1")
        for c in checks:
            t0 = time.time()
            rc, out = sh("./check %s" % c, cwd=verif, env=env)
            lines = [l for l in out.splitlines() if l.startswith("VIOLATION") or l.startswith("KNOWN-FINDING")]
            detail = None
            rp = os.path.join(verif, "replays", "%s-quick-%s.json" % (c, env["VERIF_SEED"]))
            if rc != 0 and os.path.exists(rp):
                r = json.load(open(rp))
                v = r.get("violation")
                detail = (v or {}).get("detail") or (r.get("mismatches") or [{}])[0].get("detail") or str(r.get("broken"))[:300]
            caught[c] = {"rc": rc, "violation": any(l.startswith("VIOLATION") for l in lines),
                         "no_failing_input": any("no-failing-input-found" in l for l in lines),
                         "detail": (detail or "")[:400], "secs": round(time.time() - t0, 1)}
            meta["ran"].append("VERIF_REPO=<scratch copy with the change> ./check %s -> rc %d" % (c, rc))
        if os.environ.get("EVAL_MERGE") and os.path.exists(os.path.join(SEEDED_DST, name, "meta.json")):
            old = json.load(open(os.path.join(SEEDED_DST, name, "meta.json"))).get("checks", {})
            old.update(caught)
            caught = dict(sorted(old.items()))
        meta["checks"] = caught
        meta["caught_by"] = sorted(c for c, v in caught.items() if v["violation"])
        meta["caught_with_concrete_input"] = sorted(c for c, v in caught.items() if v["violation"] and not v["no_failing_input"])
    dst = os.path.join(SEEDED_DST, name)
    os.makedirs(dst, exist_ok=True)
    for f in ("patch.diff", "demo_test.go", "notes.md"):
        if os.path.exists(os.path.join(src, f)) and os.path.abspath(src) != os.path.abspath(dst):
            shutil.copy(os.path.join(src, f), os.path.join(dst, f))
    meta["needs"] = ""
    json.dump(meta, open(os.path.join(dst, "meta.json"), "w"), indent=1)
    print(name, "confirmed" if confirmed else "NOT CONFIRMED", meta.get("caught_by"), meta.get("caught_with_concrete_input"))
    if not confirmed:
        print(out0[-300:], out1[-300:], out2[-300:])
finally:
    sh("git -C /repo worktree remove --force %s" % repo)
    shutil.rmtree(verif, ignore_errors=True)
