#!/bin/sh
# Evaluate every seeded change under seeded/<name>/ (patch.diff, demo_test.go, notes.md) with the
# machinery in the current directory: confirm it in a scratch worktree of /repo, run all twenty
# quick checks against the scratch copy, write seeded/<name>/meta.json. Nothing is applied to /repo.
#   sh tools/evalall.sh [name ...]          (run from /verif, or from a snapshot: vp run -- sh tools/evalall.sh)
cd "$(dirname "$0")/.." || exit 1
export VERIF_SRC="$PWD" SEEDED_DST="$PWD/seeded"
[ -f coq/Entry.vo ] || ./setup.sh >/dev/null 2>&1
names="$*"
[ -n "$names" ] || names=$(ls seeded | grep -v README)
for n in $names; do
  [ -f seeded/$n/patch.diff ] || continue
  p=${n%%-*}
  python3 tools/evalmut.py "$PWD/seeded/$n" "$n" "$p"
done
echo ALLDONE
