#!/bin/sh
# Harmless rewrites must raise no alarm: apply harmless/patch.diff (refactorings that keep every property: loops rewritten,
# helpers extracted, byte predicates reordered, a message reworded, a constant-like package variable added, the sorted visit
# of fillContainers built differently, a variable renamed) to a scratch worktree of /repo, run the twenty quick checks of a
# fresh copy of this directory against it, report. Nothing is applied to /repo; the scratch copies are removed.
#   sh tools/harmless.sh            -> prints one line per check and HARMLESS: n/20 pass
cd "$(dirname "$0")/.." || exit 1
export GOFLAGS=-mod=mod GOPROXY=off GOSUMDB=off GOTOOLCHAIN=local
R=/tmp/harmless_repo V=/tmp/harmless_verif
git -C /repo worktree remove --force $R 2>/dev/null; rm -rf $V
git -C /repo worktree add -q --detach $R HEAD || exit 2
(cd $R && git apply "$OLDPWD/harmless/patch.diff") || { echo "patch does not apply"; git -C /repo worktree remove --force $R; exit 2; }
(cd $R && go build ./... && go test -count=1 ./... >/dev/null 2>&1) || { echo "the rewritten tree does not pass its own suite"; git -C /repo worktree remove --force $R; exit 2; }
rsync -a --exclude .git --exclude work --exclude replays --exclude evidence --exclude seeded --exclude '*.vo' --exclude '*.vok' --exclude '*.vos' --exclude '*.glob' --exclude '.*.aux' ./ $V/
mkdir -p $V/replays $V/evidence
pass=0
for i in 01 02 03 04 05 06 07 08 09 10 11 12 13 14 15 16 17 18 19 20; do
  out=$(cd $V && VERIF_REPO=$R VERIF_NO_CLEAN=1 ./check C$i 2>&1); rc=$?
  echo "C$i rc=$rc $(echo "$out" | grep -c '^VIOLATION') violation line(s): $(echo "$out" | tail -n 1)"
  [ $rc -eq 0 ] && pass=$((pass+1))
done
echo "HARMLESS: $pass/20 pass"
git -C /repo worktree remove --force $R; rm -rf $V
[ $pass -eq 20 ]
