// srcscan re-derives, from the current sources of the library, the facts that the Coq
// development takes as given: package-level variables and the statements that assign them,
// matcher priorities, and the character-class predicates of the lexer (as Gallina terms).
//
//	srcscan <repo>            prints JSON
//	srcscan -coq <repo>       prints coq/Generated.v
package main

import (
	"encoding/json"
	"fmt"
	"bytes"
	"go/ast"
	"go/parser"
	"go/printer"
	"go/token"
	"os"
	"os/exec"
	"path/filepath"
	"sort"
	"strconv"
	"strings"
)

type pkgVar struct {
	Pkg       string `json:"pkg"`
	Name      string `json:"name"`
	File      string `json:"file"`
	ConstLike bool   `json:"const_like"`
}

type write struct {
	Pkg  string `json:"pkg"`
	Name string `json:"name"`
	File string `json:"file"`
	Line int    `json:"line"`
	Func string `json:"func"`
}

type result struct {
	Vars       []pkgVar          `json:"vars"`
	Writes     []write           `json:"writes"`
	Priorities map[string]int    `json:"priorities"`
	Classes    map[string]string `json:"classes"`
	// Tables: the lexer's byte predicates evaluated on all 256 bytes by running their own source text
	// (name -> 256 characters '0'/'1'; a predicate with a second, boolean parameter has the two entries
	// name+"/false" and name+"/true")
	Tables map[string]string `json:"tables"`
	// predSrc: source text of the predicates, for the table program
	predSrc  []string
	predSigs map[string]int
	predCast map[string]string
	// Strings: the string literals of the lexer and of the parser (their error messages among them)
	Strings map[string][]string `json:"strings"`
	// Api: the exported functions and methods of the root package (the hook files excepted), "Recv.Name" or "Name"
	Api []string `json:"api"`
}

func main() {
	coq := false
	args := os.Args[1:]
	if len(args) > 0 && args[0] == "-coq" {
		coq = true
		args = args[1:]
	}
	if len(args) != 1 {
		fmt.Fprintln(os.Stderr, "usage: srcscan [-coq] <repo>")
		os.Exit(2)
	}
	root := args[0]
	res := result{Priorities: map[string]int{}, Classes: map[string]string{}, Strings: map[string][]string{},
		Tables: map[string]string{}, predSigs: map[string]int{}, predCast: map[string]string{}}
	fset := token.NewFileSet()
	dirs := map[string][]string{}
	filepath.Walk(root, func(p string, info os.FileInfo, err error) error {
		if err != nil {
			return nil
		}
		if info.IsDir() {
			if info.Name() == ".git" || info.Name() == "testdata" {
				return filepath.SkipDir
			}
			return nil
		}
		if strings.HasSuffix(p, ".go") && !strings.HasSuffix(p, "_test.go") {
			dirs[filepath.Dir(p)] = append(dirs[filepath.Dir(p)], p)
		}
		return nil
	})
	var dirNames []string
	for d := range dirs {
		dirNames = append(dirNames, d)
	}
	sort.Strings(dirNames)
	for _, d := range dirNames {
		rel, _ := filepath.Rel(root, d)
		// test helper packages are not part of the library proper
		if strings.HasSuffix(rel, "fsmtest") || strings.HasSuffix(rel, "matchertest") {
			continue
		}
		var files []*ast.File
		var names []string
		sort.Strings(dirs[d])
		for _, f := range dirs[d] {
			af, err := parser.ParseFile(fset, f, nil, 0)
			if err != nil {
				fmt.Fprintln(os.Stderr, "parse error:", err)
				os.Exit(1)
			}
			files = append(files, af)
			names = append(names, f)
			if relf, _ := filepath.Rel(root, f); relf == "internal/lexer/lexer.go" || relf == "internal/parser/parser.go" {
				key := "lexer"
				if strings.HasSuffix(relf, "parser.go") {
					key = "parser"
				}
				seenLit := map[string]bool{}
				ast.Inspect(af, func(n ast.Node) bool {
					if _, isImport := n.(*ast.ImportSpec); isImport {
						return false
					}
					if bl, ok := n.(*ast.BasicLit); ok && bl.Kind == token.STRING {
						if v, err := strconv.Unquote(bl.Value); err == nil && !seenLit[v] {
							seenLit[v] = true
							res.Strings[key] = append(res.Strings[key], v)
						}
					}
					return true
				})
				sort.Strings(res.Strings[key])
			}
		}
		vars := map[string]bool{}
		for i, af := range files {
			relf, _ := filepath.Rel(root, names[i])
			for _, decl := range af.Decls {
				gd, ok := decl.(*ast.GenDecl)
				if !ok || gd.Tok != token.VAR {
					continue
				}
				for _, sp := range gd.Specs {
					vs := sp.(*ast.ValueSpec)
					for i, n := range vs.Names {
						if n.Name == "_" {
							continue
						}
						vars[n.Name] = true
						cl := len(vs.Values) == len(vs.Names) && constLike(vs.Values[i])
						res.Vars = append(res.Vars, pkgVar{Pkg: rel, Name: n.Name, File: relf, ConstLike: cl})
					}
				}
			}
		}
		for i, af := range files {
			relf, _ := filepath.Rel(root, names[i])
			for _, decl := range af.Decls {
				fd, ok := decl.(*ast.FuncDecl)
				if !ok || fd.Body == nil {
					continue
				}
				scanFunc(fset, rel, relf, fd, vars, &res)
				if rel == "." && ast.IsExported(fd.Name.Name) && !strings.HasPrefix(relf, "verif_") {
					n := fd.Name.Name
					if fd.Recv != nil && len(fd.Recv.List) > 0 {
						if r := recvName(fd); ast.IsExported(r) {
							res.Api = append(res.Api, r+"."+n)
						}
					} else {
						res.Api = append(res.Api, n)
					}
				}
			}
		}
	}
	sort.Strings(res.Api)
	evalPredicates(&res)
	if coq {
		printCoq(res)
		return
	}
	out, _ := json.Marshal(res)
	fmt.Println(string(out))
}

func scanFunc(fset *token.FileSet, pkg, file string, fd *ast.FuncDecl, vars map[string]bool, res *result) {
	// priorities: func (x T) Priority() int { return N }
	if fd.Name.Name == "Priority" && fd.Recv != nil && len(fd.Body.List) == 1 {
		if rs, ok := fd.Body.List[0].(*ast.ReturnStmt); ok && len(rs.Results) == 1 {
			if bl, ok := rs.Results[0].(*ast.BasicLit); ok {
				n, _ := strconv.Atoi(bl.Value)
				res.Priorities[recvName(fd)] = n
			}
		}
	}
	// byte predicates of the lexer: func f(c uint8[, b bool]) bool, whatever their bodies look like
	if strings.HasSuffix(pkg, "lexer") && fd.Recv == nil {
		if n := predArity(fd); n > 0 {
			var buf bytes.Buffer
			printer.Fprint(&buf, fset, fd)
			res.predSrc = append(res.predSrc, buf.String())
			res.predSigs[fd.Name.Name] = n
			res.predCast[fd.Name.Name] = fd.Type.Params.List[0].Type.(*ast.Ident).Name
		}
	}
	// character classes of the lexer
	if strings.HasSuffix(pkg, "lexer") && strings.HasPrefix(fd.Name.Name, "is") && len(fd.Body.List) == 1 {
		if rs, ok := fd.Body.List[0].(*ast.ReturnStmt); ok && len(rs.Results) == 1 {
			res.Classes[fd.Name.Name] = gallina(rs.Results[0])
		}
	}
	// locals shadowing a package-level name
	shadow := map[string]bool{}
	if fd.Type.Params != nil {
		for _, f := range fd.Type.Params.List {
			for _, n := range f.Names {
				shadow[n.Name] = true
			}
		}
	}
	ast.Inspect(fd.Body, func(n ast.Node) bool {
		switch x := n.(type) {
		case *ast.AssignStmt:
			for _, l := range x.Lhs {
				id, ok := l.(*ast.Ident)
				if !ok {
					// x[i] = …, x.f = …, *x = … with x a package-level variable change what it refers to
					if root := rootIdent(l); root != nil && vars[root.Name] && !shadow[root.Name] {
						res.Writes = append(res.Writes, write{pkg, root.Name + "[…]", file, fset.Position(root.Pos()).Line, fd.Name.Name})
					}
					continue
				}
				if x.Tok == token.DEFINE {
					shadow[id.Name] = true
					continue
				}
				if vars[id.Name] && !shadow[id.Name] {
					res.Writes = append(res.Writes, write{pkg, id.Name, file, fset.Position(id.Pos()).Line, fd.Name.Name})
				}
			}
		case *ast.IncDecStmt:
			if id, ok := x.X.(*ast.Ident); ok && vars[id.Name] && !shadow[id.Name] {
				res.Writes = append(res.Writes, write{pkg, id.Name, file, fset.Position(id.Pos()).Line, fd.Name.Name})
			}
		case *ast.UnaryExpr:
			// taking the address of a package-level variable lets it be written elsewhere
			if x.Op == token.AND {
				if id, ok := x.X.(*ast.Ident); ok && vars[id.Name] && !shadow[id.Name] {
					res.Writes = append(res.Writes, write{pkg, "&" + id.Name, file, fset.Position(id.Pos()).Line, fd.Name.Name})
				}
			}
		case *ast.DeclStmt:
			if gd, ok := x.Decl.(*ast.GenDecl); ok {
				for _, sp := range gd.Specs {
					if vs, ok := sp.(*ast.ValueSpec); ok {
						for _, nm := range vs.Names {
							shadow[nm.Name] = true
						}
					}
				}
			}
		}
		return true
	})
}

// constLike: an initialiser whose value no code can change afterwards other than by assigning the variable
// itself (which is reported as a write): literals of basic types, arithmetic/concatenation of those, and the
// immutable values of errors.New, fmt.Errorf and regexp.MustCompile
func constLike(e ast.Expr) bool {
	switch x := e.(type) {
	case *ast.BasicLit:
		return true
	case *ast.ParenExpr:
		return constLike(x.X)
	case *ast.UnaryExpr:
		return x.Op != token.AND && constLike(x.X)
	case *ast.BinaryExpr:
		return constLike(x.X) && constLike(x.Y)
	case *ast.Ident:
		return x.Name == "true" || x.Name == "false"
	case *ast.CallExpr:
		if sel, ok := x.Fun.(*ast.SelectorExpr); ok {
			if pk, ok := sel.X.(*ast.Ident); ok {
				name := pk.Name + "." + sel.Sel.Name
				if name == "errors.New" || name == "fmt.Errorf" || name == "regexp.MustCompile" {
					for _, a := range x.Args {
						if !constLike(a) {
							return false
						}
					}
					return true
				}
			}
		}
	}
	return false
}

// predArity: 1 for func(uint8|byte) bool, 2 for func(uint8|byte, bool) bool, 0 otherwise
func predArity(fd *ast.FuncDecl) int {
	ft := fd.Type
	if ft.Results == nil || len(ft.Results.List) != 1 || ft.Params == nil {
		return 0
	}
	if id, ok := ft.Results.List[0].Type.(*ast.Ident); !ok || id.Name != "bool" || len(ft.Results.List[0].Names) > 1 {
		return 0
	}
	var types []string
	for _, f := range ft.Params.List {
		id, ok := f.Type.(*ast.Ident)
		if !ok {
			return 0
		}
		n := len(f.Names)
		if n == 0 {
			n = 1
		}
		for i := 0; i < n; i++ {
			types = append(types, id.Name)
		}
	}
	// a character may also be passed as a rune or an int: the table is over the 256 byte values all the same
	isByte := func(t string) bool { return t == "uint8" || t == "byte" || t == "rune" || t == "int32" || t == "int" }
	switch {
	case len(types) == 1 && isByte(types[0]):
		return 1
	case len(types) == 2 && isByte(types[0]) && types[1] == "bool":
		return 2
	}
	return 0
}

// evalPredicates runs the predicates' own source text on every byte (a throw-away main package made
// of nothing but these functions); when that program does not build — a predicate that uses
// something else of its package — no table is produced and the tie lemmas over them fail.
func evalPredicates(res *result) {
	if len(res.predSrc) == 0 {
		return
	}
	dir, err := os.MkdirTemp("", "srcscan-pred")
	if err != nil {
		return
	}
	defer os.RemoveAll(dir)
	var names []string
	for n := range res.predSigs {
		names = append(names, n)
	}
	sort.Strings(names)
	var b bytes.Buffer
	b.WriteString("package main\n\nimport \"fmt\"\n\n")
	for _, src := range res.predSrc {
		b.WriteString(src + "\n\n")
	}
	b.WriteString("func bit(x bool) string {\n\tif x {\n\t\treturn \"1\"\n\t}\n\treturn \"0\"\n}\n\nfunc main() {\n")
	for _, n := range names {
		if res.predSigs[n] == 1 {
			fmt.Fprintf(&b, "\tfmt.Print(%q, \" \")\n\tfor c := 0; c < 256; c++ {\n\t\tfmt.Print(bit(%s(%s(c))))\n\t}\n\tfmt.Println()\n", n, n, res.predCast[n])
		} else {
			for _, fl := range []string{"false", "true"} {
				fmt.Fprintf(&b, "\tfmt.Print(%q, \" \")\n\tfor c := 0; c < 256; c++ {\n\t\tfmt.Print(bit(%s(%s(c), %s)))\n\t}\n\tfmt.Println()\n", n+"/"+fl, n, res.predCast[n], fl)
			}
		}
	}
	b.WriteString("}\n")
	if err := os.WriteFile(filepath.Join(dir, "main.go"), b.Bytes(), 0o644); err != nil {
		return
	}
	os.WriteFile(filepath.Join(dir, "go.mod"), []byte("module srcscanpred\n\ngo 1.21\n"), 0o644)
	cmd := exec.Command("go", "run", ".")
	cmd.Dir = dir
	out, err := cmd.Output()
	if err != nil {
		fmt.Fprintln(os.Stderr, "srcscan: the lexer's byte predicates do not run on their own:", err)
		return
	}
	for _, line := range strings.Split(strings.TrimSpace(string(out)), "\n") {
		f := strings.Fields(line)
		if len(f) == 2 && len(f[1]) == 256 {
			res.Tables[f[0]] = f[1]
		}
	}
}

func rootIdent(e ast.Expr) *ast.Ident {
	for {
		switch x := e.(type) {
		case *ast.Ident:
			return x
		case *ast.IndexExpr:
			e = x.X
		case *ast.SelectorExpr:
			e = x.X
		case *ast.StarExpr:
			e = x.X
		case *ast.ParenExpr:
			e = x.X
		default:
			return nil
		}
	}
}

func recvName(fd *ast.FuncDecl) string {
	t := fd.Recv.List[0].Type
	if st, ok := t.(*ast.StarExpr); ok {
		t = st.X
	}
	if id, ok := t.(*ast.Ident); ok {
		return id.Name
	}
	return "?"
}

// gallina translates the boolean expressions used by the lexer's predicates
func gallina(e ast.Expr) string {
	switch x := e.(type) {
	case *ast.ParenExpr:
		return "(" + gallina(x.X) + ")"
	case *ast.BinaryExpr:
		switch x.Op {
		case token.LAND:
			return "(" + gallina(x.X) + " && " + gallina(x.Y) + ")"
		case token.LOR:
			return "(" + gallina(x.X) + " || " + gallina(x.Y) + ")"
		case token.GEQ:
			return "(" + num(x.Y) + " <=? " + num(x.X) + ")%N"
		case token.LEQ:
			return "(" + num(x.X) + " <=? " + num(x.Y) + ")%N"
		case token.EQL:
			return "(" + num(x.X) + " =? " + num(x.Y) + ")%N"
		}
	case *ast.UnaryExpr:
		if x.Op == token.NOT {
			return "negb " + gallina(x.X)
		}
	case *ast.CallExpr:
		if id, ok := x.Fun.(*ast.Ident); ok {
			var as []string
			for _, a := range x.Args {
				as = append(as, gallina(a))
			}
			return "(g_" + id.Name + " " + strings.Join(as, " ") + ")"
		}
	case *ast.Ident:
		return x.Name
	}
	return "UNSUPPORTED"
}

func num(e ast.Expr) string {
	switch x := e.(type) {
	case *ast.Ident:
		return "(code " + x.Name + ")"
	case *ast.BasicLit:
		if x.Kind == token.CHAR {
			s, _ := strconv.Unquote(x.Value)
			return strconv.Itoa(int(s[0]))
		}
		return x.Value
	}
	return "UNSUPPORTED"
}

func printCoq(res result) {
	fmt.Println("(** GENERATED by tools/srcscan from /repo's current sources. Do not edit. *)")
	fmt.Println("From MowCli Require Import Base.")
	fmt.Println()
	fmt.Println("(** Priority() of each matcher type *)")
	var ks []string
	for k := range res.Priorities {
		ks = append(ks, k)
	}
	sort.Strings(ks)
	for _, k := range ks {
		fmt.Printf("Definition g_priority_%s : nat := %d.\n", k, res.Priorities[k])
	}
	fmt.Println()
	fmt.Println("(** byte predicates of internal/lexer: their own source text evaluated on all 256 bytes *)")
	var tks []string
	for k := range res.Tables {
		tks = append(tks, k)
	}
	sort.Strings(tks)
	for _, k := range tks {
		var bits []string
		for _, ch := range res.Tables[k] {
			if ch == '1' {
				bits = append(bits, "true")
			} else {
				bits = append(bits, "false")
			}
		}
		name := strings.NewReplacer("/false", "_notfirst", "/true", "_first").Replace(k)
		fmt.Printf("Definition g_tbl_%s : list bool := [%s].\n", name, strings.Join(bits, "; "))
	}
	for _, k := range []string{"isLowercase", "isUppercase", "isDigit", "isLetter", "isOkInArg"} {
		if _, ok := res.Tables[k]; ok {
			fmt.Printf("Definition g_%s (c : ascii) : bool := nth (N.to_nat (code c)) g_tbl_%s false.\n", k, k)
		}
	}
	if _, ok := res.Tables["isOkLongOpt/true"]; ok {
		fmt.Println("Definition g_isOkLongOpt (c : ascii) (first : bool) : bool :=")
		fmt.Println("  nth (N.to_nat (code c)) (if first then g_tbl_isOkLongOpt_first else g_tbl_isOkLongOpt_notfirst) false.")
	}
	fmt.Println()
	fmt.Println("(** package-level variables of the library (name, package) whose initial value is not a constant-like immutable value, and the functions assigning any package-level variable *)")
	fmt.Println("Definition g_package_vars : list (String.string * String.string) := [")
	var store []pkgVar
	for _, v := range res.Vars {
		if !v.ConstLike {
			store = append(store, v)
		}
	}
	for i, v := range store {
		sep := ";"
		if i == len(store)-1 {
			sep = ""
		}
		fmt.Printf("  (%q, %q)%s\n", v.Name, v.Pkg, sep)
	}
	fmt.Println("]%string.")
	fmt.Println("Definition g_package_var_writes : list (String.string * String.string) := [")
	var ws []write
	for _, w := range res.Writes {
		if !strings.HasPrefix(filepath.Base(w.File), "verif_") {
			ws = append(ws, w)
		}
	}
	for i, w := range ws {
		sep := ";"
		if i == len(ws)-1 {
			sep = ""
		}
		fmt.Printf("  (%q, %q)%s\n", w.Name, w.Func, sep)
	}
	fmt.Println("]%string.")
	fmt.Println()
	fmt.Println("(** string literals of internal/lexer/lexer.go and internal/parser/parser.go (error messages among them) *)")
	for _, key := range []string{"lexer", "parser"} {
		fmt.Printf("Definition g_strings_%s : list String.string := [\n", key)
		for i, v := range res.Strings[key] {
			sep := ";"
			if i == len(res.Strings[key])-1 {
				sep = ""
			}
			fmt.Printf("  %s%s\n", coqString(v), sep)
		}
		fmt.Println("]%string.")
	}
}

// coqString renders a Go string as a Coq string literal (only printable ASCII is expected here)
func coqString(v string) string {
	return "\"" + strings.ReplaceAll(v, "\"", "\"\"") + "\""
}
