#!/usr/bin/env python3
"""import_round.py <worktree> <letter> ... : copy <worktree>/MUTATION/<letter>/{patch.diff,demo_test.go,notes.md} to
seeded/<property>-<letter>/ (the property is read from the second line of notes.md)."""
import os, re, shutil, sys
wt, letters = sys.argv[1], sys.argv[2:]
for L in letters:
    src = os.path.join(wt, "MUTATION", L)
    notes = open(os.path.join(src, "notes.md")).read()
    m = re.search(r"^Property:\s*(C\d\d)", notes, re.M)
    assert m, "no property line in " + src
    name = "%s-%s" % (m.group(1), L)
    dst = os.path.join("/verif/seeded", name)
    assert not os.path.exists(dst), dst + " exists"
    os.makedirs(dst)
    for f in ("patch.diff", "demo_test.go", "notes.md"):
        shutil.copy(os.path.join(src, f), os.path.join(dst, f))
    print(name)
