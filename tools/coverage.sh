#!/bin/sh
# Statement coverage of jawher/mow.cli by the generated cases of the twenty quick checks: the
# harness is built with -cover for every package of the library, every check is run once, and the
# per-function table is written to coverage/impl_coverage.txt (the measure of how much of the code
# the model-implementation tie exercises; not evidence for any property).
cd "$(dirname "$0")/.." || exit 1
export GOFLAGS=-mod=mod GOPROXY=off GOSUMDB=off GOTOOLCHAIN=local
cov="$PWD/work/cov"; rm -rf "$cov"; mkdir -p "$cov" coverage
export VERIF_COVER="$cov" VERIF_TIER=quick VERIF_EVIDENCE_DIR="$PWD/work/cov_evidence"
mkdir -p "$VERIF_EVIDENCE_DIR"
for i in 01 02 03 04 05 06 07 08 09 10 11 12 13 14 15 16 17 18 19 20; do ./check C$i >/dev/null 2>&1; done
unset VERIF_COVER
( cd harness && go tool covdata func -i="$cov" ) | grep -v "verif_hooks.go\|verif_describe.go\|fsmdot\|flowdot\|fsmtest\|matchertest\|/harness/" > coverage/impl_coverage.txt
tail -1 coverage/impl_coverage.txt
( cd harness && go build -tags verif -o harness . )   # back to the plain binary
