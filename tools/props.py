"""Per-property checks: generators, correspondence projections and direct oracles."""
import copy
import os
import itertools
import json

import core
import gen
from core import obs_impl, obs_model, diff_obs

ALL = ["outcome", "trace", "stderr", "values", "sbu", "logs"]


def number(cases, start=0):
    for i, c in enumerate(cases, start):
        c["id"] = i
    return cases


def run_both(ctx, cases, timeout_ms=4000):
    number(cases)
    impl = core.run_impl(cases, timeout_ms=timeout_ms)
    model = core.run_model(cases)
    return impl, model


def correspond(ctx, cases, fields, stream, canon=None, timeout_ms=4000, skip=None):
    """run Impl and M on run-cases, record disagreements on [fields]; returns {id: (impl, model)}"""
    impl, model = run_both(ctx, cases, timeout_ms)
    out = {}
    for c in cases:
        a = obs_impl(impl[c["id"]])
        b = obs_model(model[c["id"]], c) if False else obs_model(model[c["id"]])
        strip_version(c, b)
        if not accepted(a) and not accepted(b):
            # without an Action the final logs of a rejected level depend on map order; the
            # declaration-time part is covered through the accepted runs (C19)
            a["logs"], b["logs"] = {}, {}
        if canon:
            canon(c, a, b)
        out[c["id"]] = (a, b)
        ctx.count(c)
        if skip and skip(c, a, b):
            continue
        if a["outcome"][0] == "timeout" or b["outcome"] == ("model-error", '["model-timeout"]'):
            # exponential backtracking on an ambiguous spec: neither side is compared (C03 judges liveness)
            ctx.timeouts += 1
            continue
        if a["outcome"][0] in ("crash", "died", "stackoverflow", "memory") and b["outcome"][0] not in ("model-error",):
            # a runtime error is never one of the documented outcomes, whatever the property
            ctx.violation("runtime-error", "argv %r (spec %r, env %r): the library dies with %r" %
                          (c["argv"], c["root"].get("spec"), c.get("env"), a["outcome"]), case=c)
            continue
        d = diff_obs(a, b, fields)
        if d:
            ctx.mismatch("Impl and model differ on %s (%s)" % (",".join(d), stream), case=c,
                         impl={k: a[k] for k in d}, model={k: b[k] for k in d})
        if a.get("stdout") and "stderr" in fields:
            # the library has one stream for everything it prints: the error stream (the model has no other)
            if ctx.prop == "C07" and any(l.startswith("Error:") or l.startswith("Usage:") for l in a["stdout"]):
                ctx.violation("stream", "argv %r: the error or the usage of a rejected invocation went to the output stream, not to the "
                              "error stream: %r" % (c["argv"], a["stdout"][:3]), case=c)
            else:
                ctx.mismatch("Impl wrote to its output stream (%s)" % stream, case=c, impl={"stdout": a["stdout"][:5]}, model={"stdout": []})
    ctx.stream(stream, len(cases))
    return out


def strip_version(case, b):
    v = case.get("version")
    if v:
        for nm in [v["name"]] + ([v["again"]["name"]] if v.get("again") else []):
            key = "%s|%s" % (case["root"]["name"], nm)
            b["values"].pop(key, None)
            b["sbu"].pop(key, None)


def accepted(o):
    return any(t.startswith("A:") for t in o["trace"])


def rejected(o):
    """a usage rejection (by any policy)"""
    return o["outcome"] in (("ret", "usage"), ("ret", "conv"), ("exit", 2), ("panic", "err:usage"),
                            ("panic", "err:conv")) and not o["trace"]


def sentence_cases(cases):
    """model-side queries to the reference semantics for run cases with a single command"""
    out = []
    for c in cases:
        out.append({"op": "sentence", "id": c["id"], "env": c.get("env", {}), "decls": c["root"]["decls"],
                    "spec": c["root"]["spec"], "argv": c["argv"], "target": c.get("_target")})
    return out


# =======================================================================================
# C05  Before / Action / After
# =======================================================================================

def flow_spec(befores, action, afters):
    """the property text, read directly: (trace as (kind, level) list, end)"""
    d = len(befores)
    trace, pending, completed = [], None, 0

    def fire(kind, lvl, h):
        nonlocal pending
        if h is None:
            return True
        trace.append((kind, lvl))
        if h["k"] == "ret":
            return True
        pending = ("exit", h["n"]) if h["k"] == "exit" else ("panic", "user:%d" % h["v"])
        return False

    ok = True
    for i in range(d):
        if fire("B", i, befores[i]):
            completed += 1
        else:
            ok = False
            break
    if ok:
        fire("A", d - 1, action)
    for i in reversed(range(completed)):
        fire("F", i, afters[i])
    return trace, (pending or ("ret", None))


def path_names(root, argv_path):
    names = [root["name"]]
    cur = root
    for a in argv_path:
        for s in cur["subs"]:
            if a in s["name"].split():
                names.append(s["name"].split()[0])
                cur = s
                break
    return names


def plain_program(ctx, which):
    """the library used as a program uses it, WITHOUT the hooks: a child process with the real os.Stderr, os.Stdout and
    os.Exit (harness/plain); exit status and what went to which descriptor are judged from the property texts"""
    import subprocess
    binary = os.path.join(core.HARNESS, "plainprog")
    rows = {
        "C07": [(["0", "ret", "x"], 0, "ran x|after|returned: nil|", None),
                (["0", "ret"], 40, "returned: incorrect usage|", "reject"),
                (["1", "ret"], 2, "", "reject"), (["1", "ret", "-z", "x"], 2, "", "reject"), (["1", "ret", "x", "y"], 2, "", "reject"),
                (["2", "ret"], 2, "", "reject+panic"), (["1", "ret", "x"], 0, "ran x|after|returned: nil|", None)],
        "C14": [(["1", "ret", "-h"], 0, "", "help"), (["1", "ret", "x", "--help"], 0, "", "help"), (["0", "ret", "-h"], 0, "returned: nil|", "help"),
                (["1", "ret", "-V"], 0, "", "version"), (["1", "ret", "--version", "junk", "-z"], 0, "", "version"), (["0", "ret", "-V"], 0, "returned: nil|", "version")],
        "C05": [(["1", "exit7", "x"], 7, "after|", None), (["0", "exit7", "x"], 7, "after|", None), (["1", "ret", "x"], 0, "ran x|after|returned: nil|", None)],
    }[which]
    n = 0
    for argv, want_rc, want_out, kind in rows:
        p = subprocess.run([binary] + argv, stdout=subprocess.PIPE, stderr=subprocess.PIPE, text=True, timeout=60)
        n += 1
        out = p.stdout.replace("\n", "|")
        err = p.stderr
        ok = p.returncode == want_rc and out == want_out
        if kind is None:
            ok = ok and err == ""
        elif kind.startswith("reject"):
            ok = ok and err.startswith("Error: ") and "\nUsage: plain [-f] X\n" in err and ("panic:" in err) == kind.endswith("panic")
        elif kind == "help":
            ok = ok and "Usage: plain [-f] X" in err and "Error:" not in err
        elif kind == "version":
            ok = ok and err == "v1.2\n"
        ctx.count({"op": "plain", "argv": argv})
        if not ok:
            ctx.violation("process", "a program without hooks, invoked as %r: exit status %d, output stream %r, error stream %r; expected status %d, "
                          "output %r and %s on the error stream" % (argv, p.returncode, out[:120], err[:160], want_rc, want_out,
                                                                   {None: "nothing", "help": "the help", "version": "the version string"}.get(kind, "the error and the usage")),
                          case={"op": "plain", "argv": argv})
    ctx.stream("a program without the hooks (real descriptors and exit status)", n)


def check_C05(ctx):
    cases = []
    meta = {}
    depths = [1, 2] if not ctx.thorough else [1, 2, 3]
    for d in depths:
        for hooks in gen.hook_assignments(d):
            if hooks[d] is None:
                continue        # no Action: the library prints help instead (Q7, not claimed here)
            root, argv = gen.chain_tree(d, hooks)
            root["policy"] = 0
            c = {"op": "run", "env": {}, "version": None, "root": root, "argv": argv}
            cases.append(c)
            meta[id(c)] = (d, hooks)
    # panic values of a type that is not comparable (slices), the same and different ones, at every pair of callbacks
    nc_kinds = [None, {"k": "ret"}, {"k": "panic", "v": 5, "nc": True}, {"k": "panic", "v": 6, "nc": True}, {"k": "panic", "v": 5}]
    for d in (1, 2):
        for combo in itertools.product(range(len(nc_kinds)), repeat=2 * d + 1):
            hooks = [nc_kinds[i_] for i_ in combo]
            if hooks[d] is None or sum(1 for h in hooks if h and h.get("nc")) < 2:
                continue
            root, argv = gen.chain_tree(d, hooks)
            root["policy"] = 0
            c = {"op": "run", "env": {}, "version": None, "root": root, "argv": argv}
            cases.append(c)
            meta[id(c)] = (d, hooks)
    nex = len(cases)
    # random deeper paths, with values 0..255 for exits and every policy
    for k_ in range(ctx.scale(1500, 20000)):
        d = ctx.rng.randint(1, 6) if k_ % 25 else ctx.rng.choice([8, 12, 17])     # a few much deeper paths
        hooks = [gen.gen_hook(ctx.rng) for _ in range(2 * d + 1)]
        if hooks[d] is None:
            hooks[d] = {"k": "ret"}
        root, argv = gen.chain_tree(d, hooks)
        root["policy"] = ctx.rng.choice([0, 1, 2])
        c = {"op": "run", "env": {}, "version": None, "root": root, "argv": argv}
        cases.append(c)
        meta[id(c)] = (d, hooks)
    res = correspond(ctx, cases, ["outcome", "trace"], "hook assignments")
    ctx.stream("hook assignments", 0, exhaustive_depths=depths, exhaustive_cases=nex)
    plain_program(ctx, "C05")
    for c in cases:
        d, hooks = meta[id(c)]
        a, _ = res[c["id"]]
        names = path_names(c["root"], c["argv"])
        befores, action, afters_leaf_first = hooks[:d], hooks[d], hooks[d + 1:]
        afters = list(reversed(afters_leaf_first))
        tr, end = flow_spec(befores, action, afters)
        exp_trace = ["%s:%s" % (k, "/".join(names[:lvl + 1])) for k, lvl in tr]
        if a["trace"] != exp_trace or tuple(a["outcome"]) != tuple(end):
            ctx.violation("flow", "callbacks ran as %s ending %s; the property demands %s ending %s"
                          % (a["trace"], a["outcome"], exp_trace, end), case=c)
    ctx.sample({"depth": 2, "hooks": "B0=ret B1=panic(5) A=ret F1=exit(3) F0=ret",
                "expected": "B:app B:app/c1 F:app -> panic user:5"})
    return ("all 5^(2d+1) (6^(2d+1) for d <= 2: a negative exit status too) assignments of {absent, returns, panics, exits, fails with a run-time error} to the callbacks of a path of depth d "
            "(Action present) for d in %s, plus random assignments for depth <= 6 under all three policies; "
            "distinct = distinct (tree, argv); every case is non-trivial (at least the Action runs or is skipped)" % depths)


# =======================================================================================
# C01 / C02  sentences and derivations
# =======================================================================================

def spec_cases(ctx, n, observable, env_prob=0.0, allow_dd=True, mutate_prob=0.45):
    """random (declared set, spec, argv) as single-command run cases"""
    cases = []
    rng = ctx.rng
    while len(cases) < n:
        decls = gen.declared_set(rng, observable=observable, env_prob=env_prob)
        spec = gen.gen_spec(rng, decls, depth=rng.randint(1, 3), allow_dd=allow_dd)
        text = gen.render_seq(spec)
        envnames = [d["env"] for d in decls if d.get("env")]
        for _ in range(rng.randint(2, 6)):
            env = {e: "ev" for e in envnames if rng.random() < 0.6}
            envset = [d["name"] for d in decls if d.get("env") in env]
            argv, muts = gen.gen_argv(rng, spec, decls, envset, mutate_prob)
            root = gen.mkcmd("app", decls=copy.deepcopy(decls), spec=text, policy=0)
            cases.append({"op": "run", "env": env, "version": None, "root": root, "argv": argv, "_muts": muts})
    return cases[:n]


def small_scope_cases(ctx, maxsize, maxlen, limit=None):
    """all specs up to [maxsize] atoms over a small alphabet x all argv up to [maxlen] tokens"""
    decls = [gen.mkopt("custom", "a", custom=dict(gen.CUSTOM_FLAG)),
             gen.mkopt("strings", "o"),
             gen.mkarg("strings", "X"), gen.mkarg("strings", "Y")]
    atoms = [("arg", "X"), ("arg", "Y"), ("opt", "-a", ""), ("opt", "-o", ""), ("grp", "ao"), ("dd",)]
    toks = ["-a", "-o", "v", "-ov", "-ao", "--", "-", "-z"]
    specs = [s for s in gen.small_specs(atoms, maxsize) if gen.dd_ok(s)]
    argvs = []
    for n in range(0, maxlen + 1):
        argvs += [list(t) for t in itertools.product(toks, repeat=n)]
    cases = []
    pairs = [(s, a) for s in specs for a in argvs]
    if limit and len(pairs) > limit:
        pairs = ctx.rng.sample(pairs, limit)
    for s, a in pairs:
        root = gen.mkcmd("app", decls=decls, spec=gen.render_seq(s), policy=0)
        cases.append({"op": "run", "env": {}, "version": None, "root": root, "argv": a})
    return cases, len(specs), len(argvs)


def dd_env_cases(ctx, limit):
    """a spec-level `--` inside repetitions and choices, next to options that the environment may satisfy, on lines with
    dash-prefixed tokens that are no occurrence of a declared option: the search has to come back, after the `--` took
    effect, to states it had already left"""
    decls0 = [gen.mkopt("custom", "f", custom=dict(gen.CUSTOM_FLAG), env="EF", sbu=True), gen.mkopt("strings", "t", env="ET", sbu=True),
              gen.mkarg("strings", "X", sbu=True), gen.mkarg("strings", "Y", sbu=True)]
    specs = ["(-t X | -- )...", "(-f (-- | X))...", "(-t (-- | X))...", "[-t] (X | --)...", "(-- | -t X)...", "(-f [X] | --)... Y",
             "-t (-- X | X)...", "([-f] -- | X)...", "(-t | -- | X)...", "(-f -- X)...", "[-f --]... X", "(-f | --)... X", "(-t --)... [X]",
             "((-t | --) X)...", "(-f X | -- Y)...", "[-f | --]... X Y", "(X -f [--])...", "(-f (X | -- Y...))..."]
    toks = ["-5", "-v", "x", "--", "-t", "-t=1", "-f", "-tx", "-"]
    cases = []
    for sp in specs:
        for envset in ({}, {"EF": "true"}, {"ET": "e"}, {"EF": "true", "ET": "e"}):
            for n in (0, 1, 2, 3):
                for av in itertools.product(toks, repeat=n):
                    cases.append({"op": "run", "env": dict(envset), "version": None, "argv": list(av),
                                  "root": gen.mkcmd("app", decls=copy.deepcopy(decls0), spec=sp, policy=0)})
    if len(cases) > limit:
        cases = ctx.rng.sample(cases, limit)
    return cases


def target_of(case, o):
    """per-variable bound strings as observed (custom flags log Set calls, strings hold the tokens)"""
    opts = [d for d in case["root"]["decls"] if d["t"] == "opt"]
    args = [d for d in case["root"]["decls"] if d["t"] == "arg"]
    tgt = []
    for kind, ds in (("o", opts), ("a", args)):
        for i, d in enumerate(ds):
            key = "app|" + d["name"]
            if d.get("sbu"):
                supplied = o["sbu"].get(key)
            vals = o["values"].get(key, [])
            if d["kind"] == "custom":
                # log: declaration-time calls, then (iff bound) C, S:v1, S:v2 ...
                if "C" in vals and d["custom"]["clear"]:
                    last = len(vals) - 1 - vals[::-1].index("C")
                    bound = [v[2:] for v in vals[last + 1:]]
                    # a Clear at declaration time (env) is followed by env values; told apart by sbu
                    if d.get("sbu") and not o["sbu"].get(key):
                        bound = []
                else:
                    bound = []
            elif d["kind"] == "strings":
                bound = vals if (not d.get("sbu") or o["sbu"].get(key)) else []
            else:
                return None
            tgt.append(["%s:%d" % (kind, i), bound])
    return tgt


def is_subseq(xs, ys):
    it = iter(ys)
    return all(any(x == y for y in it) for x in xs)


def written_values(ctx, cases, res):
    """Direct oracle from the property text, with the reading computed by the extracted model
    (View.view): on an accepted command line that reads cleanly, under a spec without '--', every
    option variable holds exactly the values of its occurrences in command-line order, and the
    positional tokens are bound exactly once each, in order (theorem C02_written_values_exactly
    says so of the model)."""
    acc = [c for c in cases if accepted(res[c["id"]][0]) and target_of(c, res[c["id"]][0]) is not None]
    qs = [{"op": "views", "id": "w%s" % c["id"], "env": c.get("env", {}), "decls": c["root"]["decls"],
           "spec": c["root"]["spec"], "argvs": [c["argv"]]} for c in acc]
    sm = core.run_model(qs) if qs else {}
    st = {"accepted": len(acc), "under_theorem": 0, "spec_dd": 0, "not_sane": 0, "unreadable_or_q1": 0}
    for c in acc:
        r = sm.get("w%s" % c["id"])
        if not isinstance(r, list) or r[0] != "ok":
            continue
        _, sane, nodd, views = r[:4]
        if sane != "1":
            st["not_sane"] += 1
            continue
        if nodd != "1":
            st["spec_dd"] += 1
            continue
        u = views[0]
        if u == "none":
            st["unreadable_or_q1"] += 1
            continue
        st["under_theorem"] += 1
        a = res[c["id"]][0]
        tgt = target_of(c, a)
        pos = [x[1] for x in u if x[0] == "p"]
        bound_pos = []
        for k, vals in tgt:
            if k.startswith("o:"):
                want = [x[2] for x in u if x[0] == "o" and x[1] == k[2:]]
                if vals != want:
                    ctx.violation("written-values", "spec %r, command line %r: option %s holds %r but the values written for it are %r"
                                  % (c["root"]["spec"], c["argv"], k, vals, want), case=c, impl=a["values"])
            else:
                bound_pos += vals
                if not is_subseq(vals, pos):
                    ctx.violation("written-values", "spec %r, command line %r: argument %s holds %r, not a subsequence of the positionals %r"
                                  % (c["root"]["spec"], c["argv"], k, vals, pos), case=c, impl=a["values"])
        if sorted(bound_pos) != sorted(pos):
            ctx.violation("written-values", "spec %r, command line %r: positionals %r but bound %r (dropped, invented or duplicated)"
                          % (c["root"]["spec"], c["argv"], pos, bound_pos), case=c, impl=a["values"])
    return st



JUDGE_KIND = {"C09": "spec-dd", "C19": "protocol", "C11": "swap", "C02": "derivation", "C12": "required", "C01b": "sentence"}
JUDGE_TEXT = {
    "C09": ("with the spec's -- read as a -- at that position of the command line",
            "a reading with options ended where the spec says --"),
    "C19": ("with only the types whose IsBoolFlag() answers true read as flags",
            "the tokens of a reading in which only the types whose IsBoolFlag() answers true are flags"),
    "C12": ("with every option whose environment variable is set counted as satisfied where the spec requires it",
            "a reading in which the environment only satisfies options absent from the line"),
}


def judge_sentences(ctx, cases, res, prop):
    """direct oracle for C01/C02: the reference semantics against the implementation"""
    qs = sentence_cases(cases)
    if prop == "C02" or prop in JUDGE_TEXT:
        for q, c in zip(qs, cases):
            a, _ = res[c["id"]]
            if accepted(a):
                q["target"] = target_of(c, a)
    sm = core.run_model(qs)
    stats = {"claimed": 0, "accept": 0, "reject": 0, "unclaimed": 0, "k2": 0, "derivations": 0}
    if prop == "C02":
        stats["theorem_C02_written_values_exactly"] = written_values(ctx, cases, res)
    for c in cases:
        a, b = res[c["id"]]
        r = sm[c["id"]]
        if not isinstance(r, list) or r[0] != "ok":
            continue
        _, mv, lo, hi, ideal, hh, q1, dv = r
        if hh == "1" or q1 == "1" or lo != hi or lo == "unclaimed":
            stats["unclaimed"] += 1
            continue
        if a["outcome"][0] in ("timeout", "died", "stackoverflow", "crash", "memory"):
            continue        # C03's business
        if a["outcome"] == ("ret", "conv"):
            continue
        stats["claimed"] += 1
        acc = accepted(a)
        stats["accept" if acc else "reject"] += 1
        if prop in JUDGE_TEXT:
            # acceptance and bound values judged by the reference semantics, reported under the calling property
            why_acc, why_dv = JUDGE_TEXT[prop]
            if acc != (lo == "yes"):
                ctx.violation(JUDGE_KIND[prop], "spec %r, command line %r: the implementation %s it, but %s it is %sa sentence of the spec"
                              % (c["root"]["spec"], c["argv"], "accepts" if acc else "rejects", why_acc, "" if lo == "yes" else "not "),
                              case=c, impl=a["outcome"], reference=lo)
            if acc and dv:
                stats["derivations"] += 1
            if acc and lo == "yes" and dv == "no":
                ctx.violation(JUDGE_KIND[prop], "spec %r, command line %r: the bound values %r are not %s"
                              % (c["root"]["spec"], c["argv"], a["values"], why_dv), case=c, impl=a["values"])
        elif prop == "C01":
            if acc != (lo == "yes"):
                ctx.violation("sentence", "spec %r, command line %r: the implementation %s it, but it is %sa sentence of the spec"
                              % (c["root"]["spec"], c["argv"], "accepts" if acc else "rejects", "" if lo == "yes" else "not "),
                              case=c, impl=a["outcome"], reference=lo)
            elif (not acc) and ideal == "yes":
                stats["k2"] += 1
                if known_k2(ctx, c):
                    continue
                ctx.violation("sentence-ideal", "spec %r, command line %r is a sentence when a group may take a subset of "
                              "the adjacent occurrences, but is rejected (greedy group)" % (c["root"]["spec"], c["argv"]),
                              case=c)
        else:
            if acc and dv:
                stats["derivations"] += 1
                if dv == "no":
                    ctx.violation("derivation", "spec %r, command line %r: the bound values %r are not a derivation"
                                  % (c["root"]["spec"], c["argv"], a["values"]), case=c, impl=a["values"])
    return stats


def known_k2(ctx, case):
    for kind, prop, rest in core.known_findings():
        if kind == "known" and prop == "C01" and "id=K2" in rest:
            line = "id=K2 greedy option group is never backtracked (e.g. spec %r argv %r)" % (case["root"]["spec"], case["argv"])
            if not any(k.startswith("id=K2") for k in ctx.known):
                ctx.known.append(line)
            return True
    return False


def check_C01(ctx):
    fields = ["outcome", "trace"]
    cases = spec_cases(ctx, ctx.scale(6000, 60000), observable=False, env_prob=0.25)
    # "the Action runs iff the line is a sentence" also on an application object that has already parsed another line:
    # a seventh of the cases run on an object that first ran the previous case's line (same declarations and spec or not:
    # the spec is assigned before each run); only the verdict and the callbacks are compared here, the variables keep
    # what the first run wrote
    # (without environment-backed options: fillContainers clears ValueSetFromEnv of an option given on the line, so on a later
    # run of the same object that option is no longer satisfied by its environment value -- Q12, history of one object, which
    # no property quantifies over)
    for k_ in range(1, len(cases)):
        if ctx.rng.random() < 0.2 and cases[k_]["root"]["spec"] == cases[k_ - 1]["root"]["spec"] and not cases[k_]["env"] \
                and not cases[k_ - 1]["env"]:
            cases[k_]["before"] = {"spec": cases[k_]["root"]["spec"], "argv": list(cases[k_ - 1]["argv"])}
    res = correspond(ctx, cases, fields, "random specs x sentences and mutations")
    st1 = judge_sentences(ctx, cases, res, "C01")
    sc, ns, na = small_scope_cases(ctx, 3, ctx.scale(3, 4), limit=ctx.scale(40000, 400000))
    res2 = correspond(ctx, sc, fields, "small scope")
    st2 = judge_sentences(ctx, sc, res2, "C01")
    # concrete syntax: specs made of blanks only (a well-formed spec without tokens: only the empty line is a sentence)
    # and specs padded or separated with tabs and runs of blanks
    bdecls = [gen.mkopt("custom", "a", custom=dict(gen.CUSTOM_FLAG)), gen.mkopt("strings", "o"), gen.mkarg("strings", "X"), gen.mkarg("strings", "Y")]
    btoks = ["-a", "-o", "v", "x", "--", "-ov"]
    blank = []
    for sp in (" ", "\t", "   ", " \t ", " X ", "\tX\t-a", "X  \t [-a]  ", "  [OPTIONS]\tX...", "\t[-a]\t", " -- X "):
        for n in (0, 1, 2, 3):
            for t in itertools.product(btoks, repeat=n):
                blank.append({"op": "run", "env": {}, "version": None, "root": gen.mkcmd("app", decls=copy.deepcopy(bdecls), spec=sp, policy=0), "argv": list(t)})
    # the recorded witness of K2, so that the finding is looked at (and reported) on every run
    kd = [gen.mkopt("custom", "a", custom=dict(gen.CUSTOM_FLAG)), gen.mkopt("custom", "b", custom=dict(gen.CUSTOM_FLAG))]
    blank.append({"op": "run", "env": {}, "version": None, "root": gen.mkcmd("app", decls=kd, spec="-ab -a", policy=0), "argv": ["-a", "-a"]})
    # two flags bound to the very same destination (one *bool through the ...Ptr forms, one flag.Value object given to
    # two VarOpt): they remain two options for the spec
    for kind in ("bool", "custom"):
        mk = (lambda n: gen.mkopt("bool", n, destshare="d", ptr=True, **{"def": ["false"]})) if kind == "bool" else \
             (lambda n: gen.mkopt("custom", n, custom=dict(gen.CUSTOM_FLAG), destshare="d"))
        sd2 = [mk("a all"), mk("b both"), gen.mkarg("strings", "X")]
        for sp in ("[--all] X", "[-a] X", "-a [-b] X", "(-a | -b) X", "[-b] [X]", "-a... X", "[OPTIONS] X"):
            for n in (1, 2, 3):
                for t in itertools.product(["--both", "--all", "-a", "-b", "x", "-ab", "--both=true", "-b=true"], repeat=n):
                    blank.append({"op": "run", "env": {}, "version": None, "root": gen.mkcmd("app", decls=copy.deepcopy(sd2), spec=sp, policy=0), "argv": list(t)})
    # long command lines (20-60 tokens) on specs whose search stays linear
    ld = [gen.mkopt("custom", "a", custom=dict(gen.CUSTOM_FLAG)), gen.mkopt("strings", "o out"), gen.mkopt("custom", "v", custom=dict(gen.CUSTOM_FLAG)),
          gen.mkarg("strings", "X"), gen.mkarg("strings", "Y")]
    for sp in ("[OPTIONS] X...", "-a... -o... X", "X... Y", "[OPTIONS] X [Y...]", "(-a -v)... X...", ""):
        for _ in range(ctx.scale(12, 120)):
            n = ctx.rng.randint(20, 60)
            toks = []
            for _ in range(n):
                toks += ctx.rng.choice([["-a"], ["-o", "v"], ["--out=w"], ["-v"], ["-av"], ["-aov"], ["p"], ["q"], ["-ox"]])
            ctx.rng.shuffle(toks) if ctx.rng.random() < 0.3 else None
            if ctx.rng.random() < 0.6:      # options first, then positionals: mostly sentences
                toks = [t for t in toks if t.startswith("-") or t in ("v",)] and toks
                opts_ = []
                i_ = 0
                while i_ < len(toks):
                    if toks[i_] == "-o" and i_ + 1 < len(toks):
                        opts_ += toks[i_:i_ + 2]
                        i_ += 2
                    elif toks[i_].startswith("-"):
                        opts_.append(toks[i_])
                        i_ += 1
                    else:
                        i_ += 1
                toks = opts_ + [t for t in toks if not t.startswith("-") and t not in ("v",)][:ctx.rng.randint(1, 8)]
            blank.append({"op": "run", "env": {}, "version": None, "root": gen.mkcmd("app", decls=copy.deepcopy(ld), spec=sp, policy=0), "argv": toks})
    # size outliers that the model's list-based construction is too slow for: a repeated group with 24-48 optional flags and
    # a positional; the lines are built round by round, so whether they are sentences is known by construction (library alone)
    big_letters = "abcdefgijklmnopqrstuvwxyzABCDEFGIJKLMNOPQRSTUVWXYZ"
    big = []
    for n_ in (24, 34, 40, 48):
        bdecl = [gen.mkopt("bool", ch, **{"def": ["false"]}) for ch in big_letters[:n_]] + [gen.mkarg("strings", "X")]
        bspec = "(" + " ".join("[-%s]" % ch for ch in big_letters[:n_]) + " X)..."
        for _ in range(ctx.scale(6, 40)):
            rounds = ctx.rng.randint(1, 4)
            line, xs = [], []
            for r_ in range(rounds):
                fl = ctx.rng.sample(big_letters[:n_], ctx.rng.randint(0, 3))
                if ctx.rng.random() < 0.5:
                    fl.sort(key=big_letters.index)
                line += ["-" + ch for ch in fl] + ["x%d" % r_]
                xs.append("x%d" % r_)
            good = True
            if ctx.rng.random() < 0.25:
                line.append("-" + ctx.rng.choice(big_letters[:n_]))     # a round that lacks its positional
                good = False
            big.append({"op": "run", "env": {}, "version": None, "root": gen.mkcmd("app", decls=copy.deepcopy(bdecl), spec=bspec, policy=0),
                        "argv": line, "_good": good, "_xs": xs})
    number(big, start=3 * 10 ** 6)
    bres = core.run_impl(big, timeout_ms=10000)
    for c in big:
        ctx.count(c)
        a = obs_impl(bres[c["id"]])
        if a["outcome"][0] == "timeout":
            continue
        if accepted(a) != c["_good"] or (c["_good"] and a["values"].get("app|X") != c["_xs"]):
            ctx.violation("sentence", "spec (a repeated group of %d optional flags and X), command line %r: the implementation %s it (X = %r), but it is %sa "
                          "sentence of the spec" % (len(c["root"]["decls"]) - 1, c["argv"], "accepts" if accepted(a) else "rejects",
                                                    a["values"].get("app|X"), "" if c["_good"] else "not "), case=c, impl=a["outcome"])
    # a few of them against the model as well, with a deadline of a minute for its list-based construction
    sub = [c for c in big if len(c["root"]["decls"]) - 1 <= (40 if ctx.thorough else 34)][::max(1, len(big) // (24 if ctx.thorough else 8))]
    old_to = os.environ.get("VERIF_MODEL_TIMEOUT_S")
    os.environ["VERIF_MODEL_TIMEOUT_S"] = "60"
    try:
        bm = core.run_model(sub)
    finally:
        if old_to is None:
            os.environ.pop("VERIF_MODEL_TIMEOUT_S", None)
        else:
            os.environ["VERIF_MODEL_TIMEOUT_S"] = old_to
    n_bm = 0
    for c in sub:
        a, b = obs_impl(bres[c["id"]]), obs_model(bm[c["id"]])
        if a["outcome"][0] == "timeout" or b["outcome"][0] == "model-error":
            continue
        n_bm += 1
        d_ = diff_obs(a, b, ["outcome", "trace", "values"])
        if d_:
            ctx.mismatch("Impl and model differ on %s (large repeated groups)" % ",".join(d_), case=c, impl={k: a[k] for k in d_}, model={k: b[k] for k in d_})
    ctx.stream("large repeated groups, judged by construction", len(big), compared_with_the_model=n_bm)
    # long names that differ only in the middle and clusters of ten letters, under specs that backtrack after input was
    # consumed (the buckets of the memory of failed configurations are found through a hash of first and last bytes)
    ldecls = [gen.mkopt("custom", "abcdXefgh", custom=dict(gen.CUSTOM_FLAG)), gen.mkopt("custom", "abcdYefgh", custom=dict(gen.CUSTOM_FLAG)),
              gen.mkopt("custom", "c", custom=dict(gen.CUSTOM_FLAG)), gen.mkopt("custom", "d", custom=dict(gen.CUSTOM_FLAG)),
              gen.mkopt("custom", "a", custom=dict(gen.CUSTOM_FLAG)), gen.mkopt("custom", "b", custom=dict(gen.CUSTOM_FLAG))]
    L1, L2 = "--abcdXefgh", "--abcdYefgh"
    ltoks = [L1, L2, "-c", "-d", "-aaaaabaaaa", "-aaaaaaaaaa", "-a", "-b"]
    lcases = []
    for sp in ("(%s | %s) -d [%s] [-c]" % (L2, L1, L2), "(%s | %s) %s..." % (L1, L2, L1), "[%s] [%s] -c -d %s" % (L1, L2, L1),
               "(%s | %s | -c)... -d" % (L1, L2), "[%s | %s]... -c %s" % (L1, L2, L2), "(-a | -b) -a...", "(-a | -b)... -c", "[-a]... -b -a...",
               "(%s -c | %s) -d %s" % (L1, L2, L1)):
        for n in (1, 2, 3, 4):
            for t in itertools.product(ltoks, repeat=n):
                lcases.append({"op": "run", "env": {}, "version": None, "root": gen.mkcmd("app", decls=copy.deepcopy(ldecls), spec=sp, policy=0), "argv": list(t)})
    if len(lcases) > ctx.scale(5000, 40000):
        lcases = ctx.rng.sample(lcases, ctx.scale(5000, 40000))
    # ... names of twenty bytes that agree on their first and last eight, clusters of twenty letters
    l2decls = [gen.mkopt("custom", "include-srcs-files", custom=dict(gen.CUSTOM_FLAG)), gen.mkopt("custom", "include-docs-files", custom=dict(gen.CUSTOM_FLAG)),
               gen.mkopt("custom", "a", custom=dict(gen.CUSTOM_FLAG)), gen.mkopt("custom", "b", custom=dict(gen.CUSTOM_FLAG))]
    P_, Q_ = "--include-srcs-files", "--include-docs-files"
    l2toks = [P_, Q_, "-b", "-a", "-aaaaaaaaabaaaaaaaaaa", "-aaaaaaaaaaaaaaaaaaaa"]
    for sp in ("(%s | %s) -b %s" % (P_, Q_, P_), "(%s | %s) -b [%s]" % (Q_, P_, Q_), "(-a | -b) -a...", "[%s] [%s] -b %s" % (P_, Q_, P_), "(%s | %s | -a)... -b" % (P_, Q_)):
        for n in (1, 2, 3, 4):
            for t in itertools.product(l2toks, repeat=n):
                if ctx.rng.random() < (1.0 if n < 4 else 0.25):
                    lcases.append({"op": "run", "env": {}, "version": None, "root": gen.mkcmd("app", decls=copy.deepcopy(l2decls), spec=sp, policy=0), "argv": list(t)})
    # ... and a folded token behind seventy other option tokens (what is left of the line keeps its number of tokens while a
    # cluster is taken apart letter by letter)
    fdecl = [gen.mkopt("custom", "a", custom=dict(gen.CUSTOM_FLAG)), gen.mkopt("custom", "b", custom=dict(gen.CUSTOM_FLAG))]
    for sp in ("-a... -b...", "(-a | -b)...", "[-a...] -b..."):
        for k_ in (30, 70, 100):
            for cl in (["-aaa"], ["-a", "-a", "-a"], ["-aa", "-a"], ["-aaaa"]):
                for front in (False, True):
                    line = (cl + ["-b"] * k_) if front else (["-b"] * k_ + cl)
                    lcases.append({"op": "run", "env": {}, "version": None, "root": gen.mkcmd("app", decls=copy.deepcopy(fdecl), spec=sp, policy=0), "argv": line})
    blank += lcases
    blank += dd_env_cases(ctx, ctx.scale(6000, 60000))
    number(blank, start=len(cases) + len(sc))
    res3 = correspond(ctx, blank, fields, "specs of blanks and padded specs")
    st3 = judge_sentences(ctx, blank, res3, "C01")
    ctx.stream("specs of blanks and padded specs", 0, **st3)
    ctx.stream("random specs x sentences and mutations", 0, **st1,
               mutated=sum(1 for c in cases if c.get("_muts")), with_env=sum(1 for c in cases if c["env"]),
               second_run_of_the_object=sum(1 for c in cases if c.get("before")))
    ctx.stream("small scope", 0, specs=ns, argvs=na, **st2)
    for c in cases[:3]:
        ctx.sample({"spec": c["root"]["spec"], "argv": c["argv"], "env": c["env"],
                    "impl": list(res[c["id"]][0]["outcome"])})
    return ("random declared sets x grammar-derived specs (depth<=3) x command lines sampled from the spec's own "
            "language then mutated (delete/duplicate/insert/swap, undeclared, empty or missing or dash-prefixed values, "
            "'-', '--', Q1 shapes), plus all specs of <=3 atoms over {X,Y,-a,-o,-ao,--} x all command lines of "
            "bounded length over 8 tokens; distinct = distinct (declarations, spec, env, argv)")


def check_C02(ctx):
    fields = ["outcome", "trace", "values"]
    cases = spec_cases(ctx, ctx.scale(6000, 60000), observable=True, env_prob=0.15, mutate_prob=0.25)
    # ambiguous specs where several derivations exist
    amb = ["[SRC] [DST]", "SRC... DST...", "(SRC | SRC DST)...", "[SRC...] DST", "[-o] SRC [-o] [DST]",
           "[[SRC] DST]... X", "(-a | -a SRC)... [DST]", "SRC... [ -- DST...]", "[-a | SRC]... DST"]
    decls = [gen.mkopt("custom", "a", custom=dict(gen.CUSTOM_FLAG)), gen.mkopt("strings", "o"),
             gen.mkarg("strings", "SRC"), gen.mkarg("strings", "DST"), gen.mkarg("strings", "X")]
    toks = ["p", "q", "r", "-a", "-o", "v", "--", "-x"]
    extra = []
    for sp in amb:
        for n in range(0, ctx.scale(4, 5) + 1):
            for t in itertools.product(toks, repeat=n):
                root = gen.mkcmd("app", decls=decls, spec=sp, policy=0)
                extra.append({"op": "run", "env": {}, "version": None, "root": root, "argv": list(t)})
    if len(extra) > ctx.scale(30000, 300000):
        extra = ctx.rng.sample(extra, ctx.scale(30000, 300000))
    # several []string variables declared with the very same default slice: what is written for one of them must
    # not show up in another
    sh = []
    sdecls = [gen.mkopt("strings", "x", defshare="k", sbu=True, **{"def": ["d1", "d2", "d3"]}),
              gen.mkopt("strings", "y", defshare="k", sbu=True, **{"def": ["d1", "d2", "d3"]}),
              gen.mkarg("strings", "ARG", defshare="k", sbu=True, **{"def": ["d1", "d2", "d3"]})]
    occ = [["-x", "1"], ["-y", "2"], ["-x", "3"], ["-y=4"], ["p"], ["q"], ["-x5"]]
    for n in range(1, ctx.scale(4, 5) + 1):
        for ps in itertools.product(occ, repeat=n):
            av = [t for p_ in ps for t in p_]
            for sp in ("[-x...] [-y...] [ARG...]", "[OPTIONS] [ARG...]"):
                sh.append({"op": "run", "env": {}, "version": None, "root": gen.mkcmd("app", decls=copy.deepcopy(sdecls), spec=sp, policy=0), "argv": av})
    if len(sh) > ctx.scale(4000, 40000):
        sh = ctx.rng.sample(sh, ctx.scale(4000, 40000))
    res_sh = correspond(ctx, sh, fields, "variables sharing one default slice")
    st_sh = judge_sentences(ctx, sh, res_sh, "C02")
    for c in sh:
        a, _ = res_sh[c["id"]]
        if accepted(a):
            for d in sdecls:
                key = "app|" + d["name"]
                if not a["sbu"].get(key) and a["values"].get(key) != ["d1", "d2", "d3"]:
                    ctx.violation("derivation", "spec %r, command line %r: nothing was written for %s, yet it holds %r instead of its default"
                                  % (c["root"]["spec"], c["argv"], d["name"], a["values"].get(key)), case=c, impl=a["values"])
    ctx.stream("variables sharing one default slice", 0, **st_sh)
    # values that start with "=" (or consist of "=" only), in every spelling that can carry them: "-o==v" binds "=v"
    eqd = [gen.mkopt("strings", "o out", sbu=True), gen.mkopt("strings", "e", sbu=True), gen.mkarg("strings", "X", sbu=True)]
    equnits = [["-o==v"], ["-o==="], ["-e==prod"], ["--out==v"], ["-o", "=v"], ["--out", "=v"], ["-o=a=b"], ["-o=a="], ["-e=x"], ["x"], ["=v"],
               ["-o="], ["--out=="], ["-e", "="], ["-oe==v"], ["-eo=="]]
    eqc = []
    for sp in ("[-o...] [-e...] [X...]", "[OPTIONS] [X...]", "-e X", "(-o | -e)... X"):
        for n in (1, 2, 3):
            for us in itertools.product(equnits, repeat=n):
                eqc.append({"op": "run", "env": {}, "version": None, "root": gen.mkcmd("app", decls=copy.deepcopy(eqd), spec=sp, policy=0),
                            "argv": [t for u in us for t in u]})
    if len(eqc) > ctx.scale(5000, 20000):
        eqc = ctx.rng.sample(eqc, ctx.scale(5000, 20000))
    number(eqc, start=5 * 10 ** 6)
    res_eq = correspond(ctx, eqc, fields, "values that start with =")
    st_eq = judge_sentences(ctx, eqc, res_eq, "C02")
    ctx.stream("values that start with =", 0, **st_eq)
    # a value attached to the last option of a folded token is data: it may contain the letters of the flags folded in front of
    # it ("-vo.venv" binds ".venv" to o and one "true" to v), of its own option and of any other option, and dashes and "="
    fvd = [gen.mkopt("custom", "v verbose", custom=dict(gen.CUSTOM_FLAG), sbu=True), gen.mkopt("custom", "q", custom=dict(gen.CUSTOM_FLAG), sbu=True),
           gen.mkopt("strings", "o out", sbu=True), gen.mkopt("strings", "I include", sbu=True), gen.mkarg("strings", "X", sbu=True)]
    fvunits = [["-vo.venv"], ["-vIvendor/v2"], ["-vqovqv"], ["-qvIvv"], ["-ovo"], ["-vo", "v"], ["-vov=v"], ["-vo=vv"], ["-vvovv"], ["-qIqvIq"],
               ["-I", "lib"], ["-v"], ["-qv"], ["-Io-v"], ["x"], ["--out=-vo"], ["-voI"], ["-vIo"]]
    fvc = []
    for sp in ("[OPTIONS] [X...]", "[-vqoI]... [X...]", "[-vq] [-o...] [-I...] [X...]", "(-v | -q | -o | -I)... [X]", "[-v...] [-q...] [-o...] [-I...]"):
        for n in (1, 2, 3):
            for us in itertools.product(fvunits, repeat=n):
                fvc.append({"op": "run", "env": {}, "version": None, "root": gen.mkcmd("app", decls=copy.deepcopy(fvd), spec=sp, policy=0),
                            "argv": [t for u in us for t in u]})
    if len(fvc) > ctx.scale(5000, 30000):
        fvc = [c for c in fvc if len(c["argv"]) <= 2] + ctx.rng.sample([c for c in fvc if len(c["argv"]) > 2], ctx.scale(4000, 28000))
    number(fvc, start=6 * 10 ** 6)
    res_fv = correspond(ctx, fvc, fields, "attached values containing the letters of folded flags")
    st_fv = judge_sentences(ctx, fvc, res_fv, "C02")
    ctx.stream("attached values containing the letters of folded flags", 0, **st_fv)
    res = correspond(ctx, cases, fields, "random specs, observable bindings")
    st1 = judge_sentences(ctx, cases, res, "C02")
    res2 = correspond(ctx, extra, fields, "ambiguous specs, all short command lines")
    st2 = judge_sentences(ctx, extra, res2, "C02")
    ctx.stream("random specs, observable bindings", 0, **st1)
    ctx.stream("ambiguous specs, all short command lines", 0, **st2)
    for c in [c for c in cases if accepted(res[c["id"]][0])][:3]:
        ctx.sample({"spec": c["root"]["spec"], "argv": c["argv"], "values": res[c["id"]][0]["values"]})
    return ("as C01 with every variable recording exactly the strings bound to it (flags through an instrumented "
            "flag.Value, valued options and arguments as []string); the observed binding is checked to be a derivation "
            "by the reference semantics; plus 9 ambiguous specs x all command lines up to 4-5 tokens over 8 tokens")


# =======================================================================================
# C03  termination, no crash
# =======================================================================================

SPEC_ALPHABET = ["[", "]", "(", ")", "|", "...", " ", "-a", "-ao", "--", "-- ", "X", "Y", "OPTIONS", "-o", "--out",
                 "=<v>", "-", ".", "=", "<", "\t", "a", "-e", "--long-name"]


def check_C03(ctx):
    rng = ctx.rng
    decls = [gen.mkopt("bool", "a", **{"def": ["false"]}), gen.mkopt("strings", "o out"),
             gen.mkopt("string", "e", env="VE_E", **{"def": ["d"]}), gen.mkopt("bool", "long-name", env="VE_L", **{"def": ["false"]}),
             gen.mkarg("strings", "X"), gen.mkarg("strings", "Y")]
    cases = []
    # (1) arbitrary strings as specs: every string of up to k alphabet items
    k = ctx.scale(3, 4)
    for n in range(0, k + 1):
        for t in itertools.product(SPEC_ALPHABET, repeat=n):
            cases.append(("".join(t), []))
    if len(cases) > ctx.scale(20000, 450000):
        cases = rng.sample(cases, ctx.scale(20000, 450000))
    # random byte strings
    for _ in range(ctx.scale(3000, 30000)):
        n = rng.randint(1, 40)
        s = "".join(rng.choice(SPEC_ALPHABET) if rng.random() < 0.8 else chr(rng.randrange(256)) for _ in range(n))
        cases.append((s, []))
    run_cases = []
    for s, argv in cases:
        root = gen.mkcmd("app", decls=decls, spec=s, policy=0)
        run_cases.append({"op": "run", "env": {}, "version": None, "root": root, "argv": argv})
    n_strings = len(run_cases)
    # (2) grammar-derived specs with nested repetitions, -- and env-backed options inside repetitions
    hostile = ["[[X]...]...", "[-e...] X", "(-- )... X", "[-e]... X", "([-e] [-a])... X", "(-e | -a)...", "[[-e]...]... [X]",
               "[OPTIONS]... X", "(-ao)... X", "[[[X]...]...]...", "([X] [Y])...", "( -- [X])...", "[-e | --long-name]... Y...",
               "(-e)... (-e)... X", "[[-a]... [-e]...]... X", "-e -e -e -e X", "[-e...]... [-e...]... [X...]..."]
    gdecl = decls
    for _ in range(ctx.scale(1500, 15000)):
        sp = gen.gen_spec(rng, gdecl, depth=rng.randint(2, 4))
        hostile.append(gen.render_seq(sp))
    alpha = ["x", "-a", "-e", "v", "--", "-", "-ae", "-o", "-z", "--long-name", "-e=1"]
    for sp in hostile:
        for _ in range(ctx.scale(6, 12)):
            argv = [rng.choice(alpha) for _ in range(rng.randint(0, 5))]
            for env in ({}, {"VE_E": "1"}, {"VE_L": "true"}, {"VE_E": "1", "VE_L": "true"}):
                root = gen.mkcmd("app", decls=gdecl, spec=sp, policy=0)
                run_cases.append({"op": "run", "env": env, "version": None, "root": root, "argv": argv})
    # (2b) malformed clusters (a dash where a letter is expected) meeting flags that the environment backs, reached through
    # option groups, with and without a spec
    mdecl = [gen.mkopt("bool", "f force", env="VE_F", **{"def": ["false"]}), gen.mkopt("bool", "q", **{"def": ["false"]}),
             gen.mkopt("bool", "v verbose", env="VE_V", **{"def": ["false"]}), gen.mkopt("strings", "o", env="VE_O"), gen.mkarg("strings", "X")]
    mtoks = ["-f-", "-v-", "-q-", "-fv-", "-qf-", "-f-x", "-v-=1", "-o-", "-q", "-f", "-v", "x", "--", "-fq", "-ov", "-f=", "-"]
    mspecs = ["", "[OPTIONS] [X...]", "[-fqv] [X...]", "-fqv X", "[-f] [-q] [-v] [X]", "(-f | -q | -v)... [X...]", "[-fq]... [-v] [X]", "[OPTIONS]... [X]",
              "[-fqvo] -- [X...]", "[-f... -q...]... [X]"]
    menvs = [{}, {"VE_F": "true"}, {"VE_V": "true"}, {"VE_F": "true", "VE_V": "true", "VE_O": "a,b"}, {"VE_F": "false"}]
    n_mal = 0
    for sp in mspecs:
        lines = [list(t) for n in (1, 2) for t in itertools.product(mtoks, repeat=n)]
        lines += [[rng.choice(mtoks) for _ in range(3)] for _ in range(ctx.scale(40, 400))]
        for argv in lines:
            env = rng.choice(menvs) if len(argv) > 1 else None
            for e in ([env] if env is not None else menvs):
                decl_set = [d for d in mdecl if d["t"] == "opt"] if sp == "" and rng.random() < 0.5 else mdecl
                run_cases.append({"op": "run", "env": e, "version": None, "root": gen.mkcmd("app", decls=copy.deepcopy(decl_set), spec=sp, policy=0), "argv": argv})
                n_mal += 1
    # (3) many options that the environment satisfies without consuming anything: the search must not
    # revisit the states it has already tried (2^k or k! paths otherwise)
    letters = "abcdefgijklmnopqrstuvwxyz"
    n_many = 0
    for k in (8, 12, 16):
        kd = [gen.mkopt("bool", ch, env="VM_" + ch.upper(), **{"def": ["false"]}) for ch in letters[:k]] + [gen.mkarg("strings", "X")]
        flags = ["-" + ch for ch in letters[:k]]
        shapes = ["[" + " | ".join(flags) + "]... X", "(" + " | ".join(flags) + ")... X", "[OPTIONS]... X"]
        if k <= 12:     # (the model's list-based automaton construction is slow beyond that on these shapes)
            shapes += [" ".join("[%s]" % f for f in flags) + " X", " ".join("[%s]..." % f for f in flags) + " X",
                       "[" + " ".join("[%s]" % f for f in flags) + "]... X"]
        for sp in shapes:
            for envset in (letters[:k], letters[:k:2]):
                env = {"VM_" + ch.upper(): "true" for ch in envset}
                for argv in ([], ["x"], ["-" + letters[0], "-Z"], ["x", "-Z"], ["--", "x"], ["-" + letters[:k]]):
                    root = gen.mkcmd("app", decls=kd, spec=sp, policy=0)
                    run_cases.append({"op": "run", "env": env, "version": None, "root": root, "argv": argv})
                    n_many += 1
    # (4) repeated choices over several options x many occurrences: the number of orders in which the occurrences can be
    # taken explodes, the number of distinct configurations does not; the library must answer within the deadline whether or
    # not the model (a plain backtracking search) does
    cd = [gen.mkopt("bool", ch, **{"def": ["false"]}) for ch in "abc"] + [gen.mkopt("strings", "o"), gen.mkarg("strings", "X")]
    many = []
    for sp in ("(-a | -b | -c)...", "[-a | -b | -c | -o]... [X]", "(-a | -b)... (-c | -a)... [X]", "([-a] [-b] [-c])... X", "[-a | -b]... [-c | -o]... X..."):
        for n in ((14, 20, 30, 45) if "-o" not in sp else (14, 20, 30, 36)):      # (four different options: 45 units need 4 s on an idle machine)
            for tail in (["-z"], [], ["x"], ["x", "-z"], ["--", "-a"]):
                line = []
                for k_ in range(n):
                    line += rng.choice([["-a"], ["-b"], ["-c"], ["-ab"], ["-o", "v"], ["-cab"]]) if "-o" in sp else rng.choice([["-a"], ["-b"], ["-c"], ["-ab"], ["-cab"]])
                many.append({"op": "run", "env": {}, "version": None, "root": gen.mkcmd("app", decls=copy.deepcopy(cd), spec=sp, policy=0), "argv": line + tail})
    # (5) many DIFFERENT options on a rejected line, each a separate atom of the spec: the configurations (state, what is left
    # of the block of adjacent options) are as many as the subsets of the options given -- the memory of D10 cannot help.
    # Up to 18-20 different options the library answers within the deadline and the heap limit; 24 need a minute and 7 GB:
    # known finding K3.
    letters5 = "abcdefgijklmnopqrstuvwxy"
    for n in (10, 14, 18, 24):
        kd5 = [gen.mkopt("bool", ch, **{"def": ["false"]}) for ch in letters5[:n]] + [gen.mkarg("strings", "X")]
        for sp, tail in ((" ".join("[-%s]" % ch for ch in letters5[:n]), ["-Z"]), (" ".join("[-%s]" % ch for ch in letters5[:n]) + " X", ["x", "y"])):
            if n == 24 and tail != ["-Z"]:
                continue
            many.append({"op": "run", "env": {}, "version": None, "root": gen.mkcmd("app", decls=copy.deepcopy(kd5), spec=sp, policy=0),
                         "argv": ["-" + ch for ch in letters5[:n]] + tail, "_distinct": n})
    kd6 = [gen.mkopt("bool", ch, **{"def": ["false"]}) for ch in "abcdef"]
    for per in (3, 4, 7):
        many.append({"op": "run", "env": {}, "version": None, "root": gen.mkcmd("app", decls=copy.deepcopy(kd6), spec="(-a | -b | -c | -d | -e | -f)...", policy=0),
                     "argv": ["-" + ch for _ in range(per) for ch in "abcdef"] + ["-Z"], "_distinct": 6, "_occ": 6 * per})
    # (6) very long lines (thousands of file names, of repetitions of one flag): accepted or rejected, within the deadline --
    # the cost of a step must not grow with what is left of the line (D13)
    for sp, tok, n_, tail in (("SRC...", "x", 16000, []), ("-a...", "-a", 6000, []), ("SRC... X", "x", 16000, []),
                              ("[-a]... SRC...", "x", 12000, ["-Z"]), ("(SRC X | SRC)...", "x", 8000, ["-Z"])):
        ld = [gen.mkopt("bool", "a", **{"def": ["false"]}), gen.mkarg("strings", "SRC"), gen.mkarg("string", "X", **{"def": [""]})]
        many.append({"op": "run", "env": {}, "version": None, "root": gen.mkcmd("app", decls=ld, spec=sp, policy=0), "argv": [tok] * n_ + tail})
    # ... and what is kept alive while such a line is REJECTED must not grow with the square of its length (D15): 8000 names of
    # a hundred bytes and a stray option at the end (the harness ends a case whose heap passes 1.5 GiB)
    ld2 = [gen.mkopt("bool", "f", **{"def": ["false"]}), gen.mkarg("strings", "SRC"), gen.mkarg("string", "DST", **{"def": [""]})]
    for sp in ("[-f] SRC... DST", "(SRC... DST) | (SRC... -f)"):
        many.append({"op": "run", "env": {}, "version": None, "root": gen.mkcmd("app", decls=copy.deepcopy(ld2), spec=sp, policy=0),
                     "argv": ["/some/where/deep/in/a/tree/of/directories/" + "n" * 50 + "%05d" % i_ for i_ in range(8000)] + ["-f"]})
    # (6b) ambiguous repetitions of POSITIONALS on long rejected lines, also behind a `--` (where no option is matched any more,
    # but the same remaining arguments are still reached through different groupings): the memory of failed configurations
    # must cover them too
    amb_decl = [gen.mkarg("strings", "A")]
    for sp in ("(A A | A A A A)...", "(A | A A)... A A", "(A A A | A A)..."):
        for n_ in (61, 121, 161, 301):
            for lead in ([], ["--"]):
                many.append({"op": "run", "env": {}, "version": None, "root": gen.mkcmd("app", decls=copy.deepcopy(amb_decl), spec=sp, policy=0),
                             "argv": lead + ["x"] * n_})
    # (7) big specs: the parser and the shortcut elimination recurse (depth = nesting depth, resp. number of states) and the
    # elimination is cubic in the number of optional atoms in a row. Up to a nesting of 2000, 20000 atoms in a row and 400
    # optional atoms the library must answer within the deadline; a spec of a hundred thousand unclosed parentheses exhausts
    # the stack (known finding K4; the worker's stack is limited to 64 MiB, a program's to 1 GiB: eight times deeper)
    bigspec_decl = [gen.mkarg("strings", "A")]
    for sp, k4 in (("(" * 2000 + "A" + ")" * 2000, False), ("[" * 2000 + "A" + "]" * 2000, False), ("(" * 2000, False), ("A " * 20000, False),
                   ("[A] " * 400, False), ("(" * 100000, True)):
        many.append({"op": "run", "env": {}, "version": None, "root": gen.mkcmd("app", decls=copy.deepcopy(bigspec_decl), spec=sp, policy=0),
                     "argv": ["x"], "_k4": k4})
    number(many, start=10 ** 6)
    mres = core.run_impl(many, timeout_ms=10000)
    # a deadline measures the machine too: what did not answer in time is run once more, one case at a time, when nothing else
    # of this check is running; only what misses the deadline twice counts (the known findings need minutes, a loaded machine
    # costs a factor of two or three)
    late = [c for c in many if core.obs_impl(mres[c["id"]])["outcome"][0] == "timeout" and not c.get("_k4") and c.get("_distinct", 0) < 20]
    for c in late[:12]:
        mres.update(core.run_impl([c], timeout_ms=10000))
    k4 = [r for kind_, prop_, r in core.known_findings() if kind_ == "known" and prop_ == "C03" and "id=K4" in r]
    k3 = [r for kind_, prop_, r in core.known_findings() if kind_ == "known" and prop_ == "C03" and "id=K3" in r]
    for c in many:
        ctx.count(c)
        oc = core.obs_impl(mres[c["id"]])["outcome"]
        if oc[0] in ("timeout", "died", "stackoverflow", "crash", "memory"):
            if c.get("_k4") and k4 and oc[0] in ("stackoverflow", "timeout"):
                if not any(k.startswith("id=K4") for k in ctx.known):
                    ctx.known.append("id=K4 a spec of %d bytes exhausts the stack of the worker (%s)" % (len(c["root"]["spec"]), oc[0]))
                continue
            # K3: no answer in time, on a line giving at least 20 different options that are separate atoms of the spec, or
            # at least 40 occurrences of 6 different options under an explicit repeated choice -- and nothing else
            if oc[0] in ("timeout", "memory") and k3 and (c.get("_distinct", 0) >= 20 or (c.get("_distinct", 0) >= 6 and c.get("_occ", 0) >= 40)):
                line = "id=K3 no answer within 10 s and 1.5 GiB on a rejected line with many different options as separate atoms (spec %r..., %d tokens)" % (c["root"]["spec"][:40], len(c["argv"]))
                if not any(k.startswith("id=K3") for k in ctx.known):
                    ctx.known.append(line)
                continue
            ctx.violation("liveness", "spec %r, command line of %d tokens %r...: %s" %
                          (c["root"]["spec"], len(c["argv"]), c["argv"][:12],
                           "no answer within 10 s" if oc[0] == "timeout" else "needs more than 1.5 GiB" if oc[0] == "memory" else "ends with %r" % (oc,)), case=c, impl=list(oc))
    res = correspond(ctx, run_cases, ["outcome"], "specs x command lines x env subsets", timeout_ms=10000)
    bad = 0
    for c in run_cases:
        a, b = res[c["id"]]
        oc = a["outcome"]
        if oc[0] == "timeout" and b["outcome"][0] == "model-error":
            continue        # exponential for the model too: inherent to backtracking, not a hang
        if oc[0] in ("timeout", "died", "stackoverflow", "crash", "memory"):
            what = {"timeout": "does not finish within the deadline", "stackoverflow": "exhausts the stack",
                    "died": "kills the process", "crash": "dies with a runtime error: %s" % (oc[1:],)}[oc[0]]
            ctx.violation("liveness", "spec %r, env %r, command line %r: %s" % (c["root"]["spec"], c["env"], c["argv"], what),
                          case=c, impl=list(oc))
            bad += 1
        elif oc[0] == "panic" and str(oc[1]).startswith("parse:"):
            pos = int(oc[1].split(":")[1])
            if pos < 0 or pos > len(c["root"]["spec"]):
                ctx.violation("position", "spec %r: error position %d outside the string" % (c["root"]["spec"], pos), case=c)
        elif oc[0] == "panic":
            ctx.violation("outcome", "spec %r: undocumented outcome %r" % (c["root"]["spec"], oc), case=c)
        if b["outcome"] == ("fuel",):
            ctx.violation("model-fuel", "the model runs out of fuel on spec %r argv %r (its termination theorem "
                          "would be false here)" % (c["root"]["spec"], c["argv"]), case=c)
    ctx.stream("specs x command lines x env subsets", 0, arbitrary_strings=n_strings, hostile_specs=len(hostile),
               many_env_backed_options=n_many, malformed_clusters=n_mal, repeated_choices_many_occurrences=len(many))
    ctx.sample({"spec": "[[X]...]...", "argv": [], "env": {}})
    ctx.sample({"spec": "[-e...] X", "argv": ["x"], "env": {"VE_E": "1"}})
    return ("every concatenation of up to %d items of a 25-item spec alphabet and random byte strings as specs; "
            "hand-written and grammar-derived specs with nested repetitions of optional groups, '--' and env-backed "
            "options inside repetitions x random command lines x the four subsets of two env-backed options; "
            "the implementation runs in a worker with a 64 MiB stack limit and a per-case deadline" % k)


# =======================================================================================
# C09  "--"
# =======================================================================================

def check_C09(ctx):
    rng = ctx.rng
    base = spec_cases(ctx, ctx.scale(2500, 25000), observable=True, env_prob=0.0, allow_dd=False, mutate_prob=0.3)
    cases, groups = [], []
    for c in base:
        argv = c["argv"]
        if "--" in argv or "-h" in argv or "--help" in argv:
            continue
        k = len(argv)
        while k > 0 and not argv[k - 1].startswith("-"):
            k -= 1
        # the trailing block must not start right after an option that takes the next token as its value
        variants = [c]
        for pos in range(k, len(argv) + 1):
            v = copy.deepcopy(c)
            v["argv"] = argv[:pos] + ["--"] + argv[pos:]
            v["_ins"] = pos
            variants.append(v)
        groups.append((len(cases), len(variants), k))
        cases += variants
    res = correspond(ctx, cases, ["outcome", "trace", "values"], "insertion of -- in the trailing block")
    # is the first insertion point (right after the last dash token) legitimate? only when that token
    # does not take the next one as its value: ask the reference reading
    qs = sentence_cases([cases[s] for s, _, _ in groups])
    for q, (s, _, k) in zip(qs, groups):
        q["argv"] = cases[s]["argv"][:k]
    number(qs)
    sm = core.run_model(qs)
    npairs = 0
    for (s, n, k), q in zip(groups, qs):
        r = sm[q["id"]]
        prefix_complete = isinstance(r, list) and r[0] == "ok"
        # the prefix reads completely iff appending a positional does not change its reading: approximated by
        # comparing with the reading of prefix + ["--"]: handled by the model; here we only skip pos == k when the
        # last dash token is a valued option spelled without value
        a0, _ = res[cases[s]["id"]]
        for j in range(1, n):
            v = cases[s + j]
            if v["_ins"] == k and k > 0 and takes_value(cases[s], cases[s]["argv"][k - 1]):
                continue
            a1, _ = res[v["id"]]
            npairs += 1
            if diff_obs(a0, a1, ["outcome", "trace", "values"]):
                ctx.violation("insert", "spec %r: %r and %r differ: %s / %s vs %s / %s" %
                              (v["root"]["spec"], cases[s]["argv"], v["argv"], a0["outcome"], a0["values"], a1["outcome"], a1["values"]),
                              case=cases[s], variant=v)
    # tails after -- are verbatim; spec-level -- acts like one on the command line
    tails = []
    decls = [gen.mkopt("custom", "a", custom=dict(gen.CUSTOM_FLAG)), gen.mkopt("strings", "o"),
             gen.mkarg("strings", "X"), gen.mkarg("strings", "Y")]
    tailtoks = ["-a", "--", "-o", "v", "-", "-z", "--zz=1", "p", "-ao", "-o=v"]
    for sp_dd, sp_plain in [("[-a] -- X...", "[-a] X..."), ("X -- Y...", "X Y..."), ("[-a] [-o] -- X... ", "[-a] [-o] X..."),
                            ("-- X...", "X..."), ("[-a] X [ -- Y...]", "[-a] X [Y...]"),
                            # more than one -- in the spec: the first may sit in a part the line skips
                            ("[-- X] -- Y...", "[X] Y..."), ("(-o | (-- X)) -- Y...", "(-o | X) Y..."),
                            ("[-a] -- X -- Y...", "[-a] X Y..."), ("[-a [-- X]] [-o] -- Y...", "[-a [X]] [-o] Y..."),
                            # an OPTIONAL -- in front of two positionals: the search reaches the same state with the same rest
                            # of the line once with options open and once with options ended
                            ("[--] X Y", "X Y"), ("[-a] [--] X Y...", "[-a] X Y..."), ("X [--] Y...", "X Y..."), ("[-o] [--] X Y", "[-o] X Y")]:
        for _ in range(ctx.scale(300, 3000)):
            head = rng.choice([[], ["-a"], ["p"], ["-a", "p"], ["-o", "v"], ["-o", "v", "p"]])
            tail = [rng.choice(tailtoks) for _ in range(rng.randint(0, 4))]
            for sp, argv, tag in ((sp_dd, head + tail, "spec-dd"), (sp_plain, head + ["--"] + tail, "cli-dd"),
                                  (sp_dd, head + ["--"] + tail, "both")):
                root = gen.mkcmd("app", decls=decls, spec=sp, policy=0)
                tails.append({"op": "run", "env": {}, "version": None, "root": root, "argv": argv, "_tag": tag,
                              "_head": head, "_tail": tail})
    # ... and those four with every line of up to three tokens
    for sp_dd in ("[--] X Y", "[-a] [--] X Y...", "X [--] Y...", "[-o] [--] X Y"):
        for n in (0, 1, 2, 3):
            for av in itertools.product(["-a", "--", "-o", "v", "-z", "p", "-o=v", "-"], repeat=n):
                tails.append({"op": "run", "env": {}, "version": None, "root": gen.mkcmd("app", decls=decls, spec=sp_dd, policy=0),
                              "argv": list(av), "_tag": "spec-dd", "_head": [], "_tail": []})
    res2 = correspond(ctx, tails, ["outcome", "trace", "values"], "tails after --")
    st_dd = judge_sentences(ctx, tails, res2, "C09")
    for c in tails:
        a, _ = res2[c["id"]]
        if c["_tag"] == "cli-dd" and accepted(a):
            # every token after the -- is bound verbatim, in order, to arguments only
            bound = []
            for d in c["root"]["decls"]:
                if d["t"] == "arg":
                    bound += a["values"].get("app|" + d["name"], [])
            tail_bound = bound[len(bound) - len(c["_tail"]):] if c["_tail"] else []
            if tail_bound != c["_tail"]:
                ctx.violation("verbatim", "spec %r, %r: tokens after -- bound as %r" % (c["root"]["spec"], c["argv"], bound), case=c)
    # how many compared pairs fall under C09_inserted_dd_same_parse (decidable hypotheses, extracted model)
    vq = [{"op": "views", "id": "v%d" % gi, "env": cases[s].get("env", {}), "decls": cases[s]["root"]["decls"],
           "spec": cases[s]["root"]["spec"], "argvs": [cases[s + j]["argv"] for j in range(n)]}
          for gi, (s, n, k) in enumerate(groups)]
    vm = core.run_model(vq)
    cov = {"pairs": 0, "under_theorem": 0, "unreadable_or_q1": 0, "not_sane": 0, "other": 0}
    for gi, (s, n, k) in enumerate(groups):
        r = vm.get("v%d" % gi)
        cov["pairs"] += n - 1
        if not isinstance(r, list) or r[0] != "ok":
            cov["other"] += n - 1
            continue
        if r[1] != "1" or r[4] != "1":
            cov["not_sane"] += n - 1
            continue
        u0 = r[3][0]
        for j in range(1, n):
            uj = r[3][j]
            if u0 == "none" or uj == "none":
                cov["unreadable_or_q1"] += 1
                continue
            # uj = p ++ [dd] ++ positionals, u0 = p ++ the same positionals, no dd in p
            i = next((x for x, sym in enumerate(uj) if sym[0] == "dd"), None)
            if (r[2] == "1" and i is not None and uj[:i] + uj[i + 1:] == u0 and all(sym[0] == "p" for sym in uj[i + 1:])
                    and all(sym[0] != "dd" for sym in uj[:i])):
                cov["under_theorem"] += 1
            else:
                cov["other"] += 1
    ctx.stream("tails after --", 0, **st_dd)
    ctx.stream("insertion of -- in the trailing block", 0, pairs=npairs, base_lines=len(groups),
               theorem_C09_inserted_dd_same_parse=cov)
    ctx.sample({"spec": "X", "argv": ["x"], "variants": [["--", "x"], ["x", "--"]]})
    return ("command lines of --free specs (no env) x every insertion point of '--' in their trailing block of "
            "non-dash tokens, the very end included, compared on the implementation itself; specs with '--' x tails of "
            "arbitrary tokens; distinct = distinct (spec, argv)")


def takes_value(case, tok):
    """does this dash token end with a valued option that still needs its value?"""
    byname = {}
    for d in case["root"]["decls"]:
        if d["t"] == "opt":
            for n in gen.opt_names(d):
                byname[n] = d
    if tok.startswith("--"):
        if "=" in tok:
            return False
        d = byname.get(tok)
        return bool(d) and not gen.is_flag(d)
    if len(tok) >= 3 and tok[2] == "=":
        return False
    for i, ch in enumerate(tok[1:], 1):
        d = byname.get("-" + ch)
        if not d:
            return False
        if not gen.is_flag(d):
            return i == len(tok) - 1
    return False


CHECKS = {"C01": check_C01, "C02": check_C02, "C03": check_C03, "C05": check_C05, "C09": check_C09}

ASSUMPTIONS = {}


def replay(prop, path):
    """re-run the case(s) of a replay file on the implementation and the model and print both"""
    r = json.load(open(path))
    core.build_all()
    v = r.get("violation") or {}
    cases = [c for c in (v.get("case"), v.get("variant")) if c]
    if not cases:
        print(json.dumps(r, indent=1)[:4000])
        return 1
    number(cases)
    impl = core.run_impl(cases)
    model = core.run_model(cases)
    for c in cases:
        print("case:", json.dumps({k: c[k] for k in c if not k.startswith("_")})[:2000])
        print(" impl :", json.dumps(obs_impl(impl[c["id"]]))[:2000])
        print(" model:", json.dumps(obs_model(model[c["id"]]))[:2000])
    print("property clause:", v.get("detail"))
    return 1
