module veriftools

go 1.23
