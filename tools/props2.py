"""More per-property checks: trees (C04, C07, C14), values (C06, C13, C15, C19), declarations (C16, C18)."""
import copy
import json
import os
import itertools

import core
import gen
from core import diff_obs
from props import (ALL, accepted, correspond, number, rejected, sentence_cases, CHECKS, ASSUMPTIONS, spec_cases)


# =======================================================================================
# trees
# =======================================================================================

def walk_path(root, path):
    """commands along a path given as a list of alias tokens"""
    cmds = [root]
    cur = root
    for a in path:
        nxt = [s for s in cur["subs"] if a in s["name"].split()]
        cur = nxt[0]
        cmds.append(cur)
    return cmds


def path_str(cmds):
    return "/".join([cmds[0]["name"]] + [c["name"].split()[0] for c in cmds[1:]])


def usage_path(cmds):
    return " ".join([cmds[0]["name"]] + [c["name"].split()[0] for c in cmds[1:]])


def effective_policy(cmds):
    p = 1
    for c in cmds:
        if c.get("policy") is not None:
            p = c["policy"]
    return p


def effective_policy_late(cmds):
    """Go's field semantics when a command may assign ErrorHandling AFTER declaring its sub-commands: Command() copies the
    parent's field as it is at that moment"""
    field = 1                       # App() starts with ExitOnError
    own = 1
    for c in cmds:
        # field = what this command's ErrorHandling holds when it is created
        own = c["policy"] if c.get("policy") is not None else field
        # what its sub-commands will copy
        field = c["policy"] if (c.get("policy") is not None and not c.get("policy_late")) else field
    return own


def tree_invocation(ctx, depth, fanout, reject_prob=0.3, conv=False, simple_hooks=True):
    """a random tree, a random path in it, per-level argv; returns (root, path aliases, per-level argv, levels)"""
    rng = ctx.rng
    root = gen.gen_tree(rng, depth, fanout, hooks=not simple_hooks)
    # choose a path
    cmds, path = [root], []
    cur = root
    while cur["subs"] and (len(path) < depth) and rng.random() < 0.8:
        sub = rng.choice(cur["subs"])
        path.append(rng.choice(sub["name"].split()))
        cmds.append(sub)
        cur = sub
    per_level = []
    for c in cmds:
        aliases = set(a for s in c["subs"] for a in s["name"].split())
        decls = c["decls"]
        if conv and rng.random() < 0.5 and decls:
            # give one variable a numeric type so that a token can fail to convert
            d = rng.choice(decls)
            d["kind"] = rng.choice(["int", "float", "ints", "floats", "bool"]) if d["t"] == "arg" else \
                (rng.choice(["int", "float", "ints"]) if not gen.is_flag(d) else d["kind"])
            if d["kind"] in ("int", "float", "bool"):
                d["def"] = {"int": ["0"], "float": ["0"], "bool": ["false"]}[d["kind"]]
            else:
                d["def"] = []
        spec_ast = None
        if rng.random() < 0.5:
            spec_ast = gen.gen_spec(rng, decls, depth=2, allow_dd=False) if decls else []
            c["spec"] = gen.render_seq(spec_ast) if spec_ast else ""
        else:
            c["spec"] = ""
            opts = [d for d in decls if d["t"] == "opt"]
            spec_ast = ([[((("sq", [[(("options",), False)]])), False)]] if opts else []) + \
                [[(("arg", d["name"]), False)] for d in decls if d["t"] == "arg"]
        argv, muts = gen.gen_argv(rng, spec_ast, decls, (), mutate_prob=reject_prob)
        argv = [t for t in argv if t not in aliases and t not in ("-h", "--help")]
        per_level.append(argv)
    # a token of a level may spell a sub-command name of ANOTHER level (e.g. a sibling of the command
    # it belongs to): only the names of its own level's sub-commands split its arguments
    for k in range(1, len(cmds)):
        if rng.random() < 0.3:
            own = set(a for s in cmds[k]["subs"] for a in s["name"].split())
            sib = [a for s in cmds[k - 1]["subs"] if s is not cmds[k] for a in s["name"].split() if a not in own]
            pos = [i for i, t in enumerate(per_level[k]) if not t.startswith("-") and "=" not in t]
            if sib and pos:
                per_level[k][rng.choice(pos)] = rng.choice(sib)
    # the addressed command runs something
    if cmds[-1]["action"] is None:
        cmds[-1]["action"] = {"k": "ret"}
    return root, path, per_level, cmds


def flat_argv(path, per_level):
    argv = list(per_level[0])
    for a, lv in zip(path, per_level[1:]):
        argv.append(a)
        argv += lv
    return argv


def level_verdicts(ctx, invs):
    """reference verdict of every level's own argv against that level's spec"""
    qs = []
    for k, (root, path, per_level, cmds, env) in enumerate(invs):
        for j, (c, lv) in enumerate(zip(cmds, per_level)):
            qs.append({"op": "sentence", "env": env, "decls": c["decls"], "spec": c["spec"], "argv": lv,
                       "target": None, "_k": (k, j)})
    number(qs)
    sm = core.run_model(qs)
    out = {}
    for q in qs:
        r = sm[q["id"]]
        if isinstance(r, list) and r[0] == "ok":
            _, mv, lo, hi, ideal, hh, q1, dv = r
            claimed = hh != "1" and q1 != "1" and lo == hi and lo != "unclaimed"
            out[q["_k"]] = (lo == "yes") if claimed else None
        else:
            out[q["_k"]] = None
    return out


def check_C04(ctx):
    rng = ctx.rng
    invs, cases = [], []
    for _ in range(ctx.scale(2500, 25000)):
        root, path, per_level, cmds = tree_invocation(ctx, rng.randint(1, 3) if rng.random() < 0.97 else rng.randint(5, 7), 3, reject_prob=0.25)
        root["policy"] = 0
        for c in cmds:
            c["before"], c["after"] = {"k": "ret"}, {"k": "ret"}
        # two siblings may list the same alias: the one declared first is the one it addresses (a later sibling is given the
        # word by which the path addresses its elder)
        if len(cmds) > 1 and rng.random() < 0.12:
            k_ = rng.randrange(1, len(cmds))
            sibs = cmds[k_ - 1]["subs"]
            later = sibs[[id(x) for x in sibs].index(id(cmds[k_])) + 1:]
            if later:
                rng.choice(later)["name"] += " " + path[k_ - 1]
        argv = flat_argv(path, per_level)
        # the application may declare a version flag whose name a sub-command uses for an option of its own: only as the
        # FIRST argument is it a version request
        version = None
        if len(cmds) > 1 and rng.random() < 0.5:
            rootnames = set(n for d in root["decls"] if d["t"] == "opt" for n in d["name"].split())
            deeper = [n for c in cmds[1:] for d in c["decls"] if d["t"] == "opt" for n in d["name"].split() if n not in rootnames]
            vn = rng.choice(deeper) if deeper and rng.random() < 0.8 else "V"
            if vn not in rootnames and "version" not in rootnames:
                version = {"name": vn + " version", "text": "ver 1", "last": rng.random() < 0.5}
                if argv and argv[0] in gen.opt_names({"name": version["name"]}):
                    version = None
        invs.append((root, path, per_level, cmds, {}))
        cases.append({"op": "run", "env": {}, "version": version, "root": root, "argv": argv})
        # a long-lived application object: some of the root's sub-commands are declared only after a first run (on the
        # empty line), then the invocation proper is run on the same object
        # (the first run must not print the root's help, which would run the initialisers of the sub-commands declared
        # so far -- Q10 --: the root has an Action and is given, for that run, a spec that accepts the empty line)
        all_al = [a for s_ in root["subs"] for a in s_["name"].split()]
        if root["subs"] and root.get("action") and rng.random() < 0.3 and len(all_al) == len(set(all_al)):     # (late declarations change the order of the siblings)
            for sc_ in root["subs"]:
                if rng.random() < 0.6:
                    sc_["late"] = True
            o_ = [d for d in root["decls"] if d["t"] == "opt"]
            a_ = [d for d in root["decls"] if d["t"] == "arg"]
            cases[-1]["before"] = {"spec": (("[OPTIONS] " if o_ else "") + " ".join("[%s]" % x["name"] for x in a_)).strip(), "argv": []}
    res = correspond(ctx, cases, ["outcome", "trace", "values", "sbu"], "trees x paths x per-level command lines")
    verdicts = level_verdicts(ctx, invs)
    # standalone runs of every level, to compare the bindings level by level
    solo, solo_ix = [], {}
    for k, (root, path, per_level, cmds, env) in enumerate(invs):
        for j, (c, lv) in enumerate(zip(cmds, per_level)):
            r = gen.mkcmd("app", decls=copy.deepcopy(c["decls"]), spec=c["spec"], policy=0)
            solo_ix[(k, j)] = len(solo)
            solo.append({"op": "run", "env": {}, "version": None, "root": r, "argv": lv})
    sres = correspond(ctx, solo, ["outcome", "values"], "levels run on their own")
    stats = {"all_levels_valid": 0, "some_level_rejects": 0, "unclaimed": 0}
    for k, c in enumerate(cases):
        root, path, per_level, cmds, env = invs[k]
        a, _ = res[c["id"]]
        vs = [verdicts[(k, j)] for j in range(len(cmds))]
        actions = [t for t in a["trace"] if t.startswith("A:")]
        addressed = "A:" + path_str(cmds)
        if any(t != addressed for t in actions) or len(actions) > 1:
            ctx.violation("routing", "argv %r: actions run %r, addressed %r" % (c["argv"], actions, addressed), case=c)
            continue
        if None in vs:
            stats["unclaimed"] += 1
            continue
        if all(vs):
            stats["all_levels_valid"] += 1
            if actions != [addressed] or a["outcome"] != ("ret", None):
                ctx.violation("routing", "every level's arguments are valid for %r but the addressed action did not run exactly once: %r %r"
                              % (c["argv"], a["trace"], a["outcome"]), case=c)
                continue
            # each level's variables are bound from that level's own tokens only
            for j, cm in enumerate(cmds):
                sa, _ = sres[solo[solo_ix[(k, j)]]["id"]]
                pfx = path_str(cmds[:j + 1]) + "|"
                mine = {key[len(pfx):]: v for key, v in a["values"].items() if key.startswith(pfx)}
                theirs = {key[len("app|"):]: v for key, v in sa["values"].items()}
                if mine != theirs:
                    ctx.violation("level-binding", "level %s of %r is bound %r, on its own %r gives %r"
                                  % (pfx, c["argv"], mine, per_level[j], theirs), case=c)
        else:
            stats["some_level_rejects"] += 1
            j = vs.index(False)
            if a["trace"] or a["outcome"] != ("ret", "usage") and a["outcome"] != ("ret", "conv"):
                ctx.violation("routing", "level %d of %r does not accept its arguments but the outcome is %r with trace %r"
                              % (j, c["argv"], a["outcome"], a["trace"]), case=c)
            else:
                want = "Usage: " + usage_path(cmds[:j + 1])
                if not any(l == want or l.startswith(want + " ") for l in a["stderr"]):
                    ctx.violation("routing", "usage of the rejecting command %r not shown for %r: %r" % (want, c["argv"], a["stderr"][:3]), case=c)
    ctx.stream("trees x paths x per-level command lines", 0, **stats)
    ctx.sample({"argv": cases[0]["argv"], "path": invs[0][1]})
    return ("random command trees (depth<=3, fan-out<=3, 1-3 aliases, per-level declared sets and specs, default or "
            "explicit) x a random path written with random aliases x per-level command lines sampled from the level's "
            "spec and mutated (no token spelling a sub-command name); each level is also run on its own and its "
            "bindings compared; verdict per level from the reference semantics")


def check_C07(ctx):
    rng = ctx.rng
    invs, cases = [], []
    for _ in range(ctx.scale(3000, 30000)):
        root, path, per_level, cmds = tree_invocation(ctx, rng.randint(0, 3) if rng.random() < 0.97 else rng.randint(5, 7), 3, reject_prob=0.5, conv=True)
        for c in cmds:
            if rng.random() < 0.5:
                c["policy"] = rng.choice([0, 1, 2])
            c["before"], c["after"] = {"k": "ret"}, {"k": "ret"}
        if root["policy"] is None and rng.random() < 0.7:
            root["policy"] = rng.choice([0, 1, 2])
        argv = flat_argv(path, per_level)
        kind = rng.random()
        if kind < 0.15:
            argv.append(rng.choice(["bogus", "-Z", "--nope", "nosuch"]))     # unknown sub-command / option
        invs.append((root, path, per_level, cmds, {}))
        cases.append({"op": "run", "env": {}, "version": None, "root": root, "argv": argv, "_extra": kind < 0.15})
    res = correspond(ctx, cases, ["outcome", "trace", "stderr"], "trees x policies x rejections")
    verdicts = level_verdicts(ctx, invs)
    stats = {"rejected": 0, "accepted": 0, "by_policy": {0: 0, 1: 0, 2: 0}}
    for k, c in enumerate(cases):
        root, path, per_level, cmds, env = invs[k]
        a, b = res[c["id"]]
        if rejected(a):
            stats["rejected"] += 1
            # which command rejected: the one whose usage line is shown
            ul = [l for l in a["stderr"] if l.startswith("Usage: ")]
            if not a["stderr"] or not a["stderr"][0].startswith("Error: ") or not ul:
                ctx.violation("policy", "rejection of %r did not write the error and a usage line: %r" % (c["argv"], a["stderr"][:3]), case=c)
                continue
            if a["outcome"][0] == "ret" and a.get("errline") is False:
                ctx.violation("policy", "rejection of %r: the error line written is not the text of the error returned: %r" % (c["argv"], a["stderr"][:1]), case=c)
            owner = None
            for j in range(len(cmds), 0, -1):
                up = "Usage: " + usage_path(cmds[:j])
                if ul[0] == up or ul[0].startswith(up + " "):
                    owner = j - 1
                    break
            if owner is None:
                ctx.violation("policy", "usage line %r is not the usage of a command on the path of %r" % (ul[0], c["argv"]), case=c)
                continue
            pol = effective_policy(cmds[:owner + 1])
            stats["by_policy"][pol] += 1
            want = {0: ("ret",), 1: ("exit", 2), 2: ("panic",)}[pol]
            if a["outcome"][:len(want)] != want or (pol == 2 and not str(a["outcome"][1]).startswith("err:")) \
                    or (pol == 0 and a["outcome"][1] is None):
                ctx.violation("policy", "command with policy %d rejected %r but the end is %r" % (pol, c["argv"], a["outcome"]), case=c)
            # the rejecting command is the first one whose own arguments are invalid
            vs = [verdicts[(k, j)] for j in range(len(cmds))]
            conv = a["stderr"][0] == "Error: <conv>"
            if not c["_extra"]:
                if any(v is False for v in vs[:owner]):
                    ctx.violation("policy", "level %d of %r has invalid arguments but level %d reported" % (vs.index(False), c["argv"], owner), case=c)
                elif (vs[owner] is True and not conv) or (vs[owner] is False and conv):
                    ctx.violation("policy", "level %d of %r: reference verdict %r but rejection %r" % (owner, c["argv"], vs[owner], a["stderr"][0]), case=c)
        else:
            if accepted(a):
                stats["accepted"] += 1
                if a["outcome"] != ("ret", None):
                    ctx.violation("policy", "accepted invocation %r ended %r" % (c["argv"], a["outcome"]), case=c)
            vs = [verdicts[(k, j)] for j in range(len(cmds))]
            if False in vs and a["outcome"][0] in ("ret", "exit", "panic") and not c["_extra"]:
                if a["trace"]:
                    ctx.violation("policy", "level %d of %r has invalid arguments but callbacks ran: %r" % (vs.index(False), c["argv"], a["trace"]), case=c)
    # a value that does not convert, in every position of a repeated multi-valued variable, at the root
    # and in a sub-command: the invocation is rejected whatever follows the bad value
    bad_cases = []
    for kind, bad, good in (("ints", "x", "3"), ("floats", "1.2.3", "2.5"), ("ints", "", "7"), ("floats", "abc", "1e3"),
                            ("ints", "50%", "50"), ("floats", "%d%s", "0.5"), ("ints", "1%v", "1")):
        for pattern in ([bad, good], [good, bad], [good, bad, good], [bad], [bad, good, good]):
            for where in ("root", "sub"):
                for pol in (0, 1, 2):
                    for as_opt, other in itertools.product((True, False), (None, "z zed", "a all", "A")):
                        if other is not None and (pol != 0 and where == "sub"):
                            continue
                        if as_opt:
                            d = gen.mkopt(kind, "n num")
                            argv = [t for v in pattern for t in ("-n", v)] if "" not in pattern else [t for v in pattern for t in ("--num", v)]
                            if "" in pattern:
                                continue        # an empty separate value is a spec mismatch, not a conversion
                            spec = "[-n...]"
                        else:
                            if "" in pattern:
                                continue
                            d = gen.mkarg(kind, "N")
                            argv = list(pattern)
                            spec = "N..."
                        d = [d]
                        if other is not None:
                            # another variable of the same command is given a value that does convert, before or after the bad
                            # one on the line, its name sorting before or after: the invocation is rejected all the same
                            on = "-" + other.split()[0]
                            d.append(gen.mkopt(rng.choice(["string", "int"]), other))
                            argv = ([on, "5"] + argv) if rng.random() < 0.5 else (argv[:1] + [on, "5"] + argv[1:] if as_opt and len(argv) > 2 and False else [on, "5"] + argv)
                            spec = "[%s] " % on + spec
                            if not as_opt or rng.random() < 0.5:
                                d.append(gen.mkarg("int", "ZZ"))
                                argv = argv + ["7"]
                                spec = spec + " ZZ"
                        leaf = gen.mkcmd("run r", decls=copy.deepcopy(d), spec=spec, policy=None)
                        leaf["action"] = {"k": "ret"}
                        leaf["before"], leaf["after"] = {"k": "ret"}, {"k": "ret"}
                        if where == "root":
                            root = gen.mkcmd("app", decls=copy.deepcopy(d), spec=spec, policy=pol)
                            root["action"] = {"k": "ret"}
                            root["before"], root["after"] = {"k": "ret"}, {"k": "ret"}
                            av = argv
                        else:
                            root = gen.mkcmd("app", decls=[], spec="", policy=pol, subs=[leaf])
                            root["before"], root["after"] = {"k": "ret"}, {"k": "ret"}
                            av = ["run"] + argv
                        bad_cases.append({"op": "run", "env": {}, "version": None, "root": root, "argv": av, "_pol": pol})
    number(bad_cases, start=len(cases))
    res3 = correspond(ctx, bad_cases, ["outcome", "trace", "stderr"], "unconvertible value in every position")
    for c in bad_cases:
        a, _ = res3[c["id"]]
        want = {0: ("ret", "conv"), 1: ("exit", 2), 2: ("panic", "err:conv")}[c["_pol"]]
        if a["trace"] or tuple(a["outcome"][:2]) != want or not a["stderr"] or a["stderr"][0] != "Error: <conv>" \
                or (c["_pol"] == 0 and a.get("errline") is not True):
            ctx.violation("policy", "argv %r holds a value that does not convert (policy %d) but the invocation ended %r with trace %r and error line %r"
                          % (c["argv"], c["_pol"], a["outcome"], a["trace"], a["stderr"][:1]), case=c)
    ctx.stream("unconvertible value in every position", len(bad_cases))
    from props import plain_program
    plain_program(ctx, "C07")
    # a command may set its policy after declaring its sub-commands, which then do not inherit it (Command() copies the field
    # when the sub-command is created). The model has no notion of "late": judged by the property's oracle only.
    late = []
    for _ in range(ctx.scale(1200, 12000)):
        root, path, per_level, cmds = tree_invocation(ctx, rng.randint(1, 3), 3, reject_prob=0.6)
        for c in cmds:
            if rng.random() < 0.6:
                c["policy"] = rng.choice([0, 1, 2])
                c["policy_late"] = rng.random() < 0.5
            c["before"], c["after"] = {"k": "ret"}, {"k": "ret"}
        if not any(c.get("policy_late") for c in cmds):
            continue
        late.append(({"op": "run", "env": {}, "version": None, "root": root, "argv": flat_argv(path, per_level)}, cmds))
    number([c for c, _ in late], start=len(cases) + len(bad_cases) + 200000)
    lres = core.run_impl([c for c, _ in late])
    nl = 0
    for c, cmds in late:
        ctx.count(c)
        a = core.obs_impl(lres[c["id"]])
        if not rejected(a):
            continue
        ul = [l for l in a["stderr"] if l.startswith("Usage: ")]
        owner = None
        for j in range(len(cmds), 0, -1):
            up = "Usage: " + usage_path(cmds[:j])
            if ul and (ul[0] == up or ul[0].startswith(up + " ")):
                owner = j - 1
                break
        if owner is None:
            continue
        nl += 1
        pol = effective_policy_late(cmds[:owner + 1])
        want = {0: ("ret",), 1: ("exit", 2), 2: ("panic",)}[pol]
        if a["outcome"][:len(want)] != want or a["trace"]:
            ctx.violation("policy", "command %r (policies %r along the path, late assignments %r) rejected %r: policy %d expected, the end is %r, trace %r"
                          % (usage_path(cmds[:owner + 1]), [x.get("policy") for x in cmds[:owner + 1]],
                             [bool(x.get("policy_late")) for x in cmds[:owner + 1]], c["argv"], pol, a["outcome"], a["trace"]), case=c)
    ctx.stream("policies assigned after the sub-commands were declared", len(late), rejections=nl)
    # Q7 (modelled, outside the property's three-way split): the addressed command has no Action; its help is
    # printed, nothing runs, and the policy is applied to a nil error. Compared with the model only.
    q7 = []
    for _ in range(ctx.scale(400, 4000)):
        root, path, per_level, cmds = tree_invocation(ctx, rng.randint(0, 3), 3, reject_prob=0.2, conv=True)
        for c in cmds:
            if rng.random() < 0.5:
                c["policy"] = rng.choice([0, 1, 2])
        if root["policy"] is None and rng.random() < 0.7:
            root["policy"] = rng.choice([0, 1, 2])
        cmds[-1]["action"] = None
        q7.append({"op": "run", "env": {}, "version": None, "root": root, "argv": flat_argv(path, per_level)})
    number(q7, start=len(cases) + len(bad_cases))
    res4 = correspond(ctx, q7, ["outcome", "trace", "stderr"], "addressed command without Action")
    for c in q7:
        a, _ = res4[c["id"]]
        if any(t.startswith("A:") for t in a["trace"]):
            ctx.violation("policy", "no Action is declared on the addressed command of %r, yet one ran: %r" % (c["argv"], a["trace"]), case=c)
    ctx.stream("trees x policies x rejections", 0, **{k: v for k, v in stats.items() if k != "by_policy"},
               policy_continue=stats["by_policy"][0], policy_exit=stats["by_policy"][1], policy_panic=stats["by_policy"][2])
    ctx.sample({"argv": cases[0]["argv"]})
    return ("random trees (depth<=3) with a policy chosen per command x paths x per-level command lines with spec "
            "mismatches, unknown tokens and unconvertible values for numeric/bool variables injected at every level")


def check_C14(ctx):
    rng = ctx.rng
    cases, meta = [], []
    for _ in range(ctx.scale(1500, 15000)):
        root, path, per_level, cmds = tree_invocation(ctx, rng.randint(0, 3) if rng.random() < 0.97 else rng.randint(5, 7), 3, reject_prob=0.4)
        for c in cmds:
            if rng.random() < 0.6:
                c["policy"] = rng.choice([0, 1, 2])
            c["longdesc"] = rng.choice(["", "long description of " + c["name"].split()[0]])
            # a command may declare an option of its own named h or help: the help token still asks for help
            taken = set(n for d in c["decls"] if d["t"] == "opt" for n in d["name"].split())
            if rng.random() < 0.25 and not taken & {"h", "help"}:
                c["decls"].append(gen.mkopt("bool", rng.choice(["h", "help", "h help", "help h"]), **{"def": ["false"]}))
        # a sub-command may itself be named like a help token: the token still asks for the help of the command it is given to
        if rng.random() < 0.15:
            holder = rng.choice(cmds)
            if not any(set(x["name"].split()) & {"-h", "--help", "hlp", "hh"} for x in holder["subs"]):
                holder["subs"].append(gen.mkcmd(rng.choice(["hlp -h", "hh --help", "-h", "hlp --help -h"]), desc="named like a help token"))
        # the version flag is declared before or after the root's own options
        # (the version flag may have more than one short and more than one long name: any of them, given first, asks for it)
        version = {"name": rng.choice(["V version", "V version", "V version W", "version V release"]), "text": "v1.2", "last": rng.random() < 0.5} if rng.random() < 0.5 else None
        # a sub-command of the root may be named like the version flag: given first, the token still asks for the version
        if version and rng.random() < 0.3 and not any(set(x["name"].split()) & {"-V", "--version", "ver", "vv"} for x in root["subs"]):
            root["subs"].append(gen.mkcmd(rng.choice(["ver -V", "vv --version", "-V", "--version", "ver --version -V"]),
                                          desc="named like the version flag", action={"k": "ret"}))
        argv = flat_argv(path, per_level)
        # a help token after a "--" inside one level's own arguments is ordinary data
        if rng.random() < 0.5:
            lvl = rng.randrange(len(per_level))
            pl = [list(x) for x in per_level]
            k = rng.randint(0, len(pl[lvl]))
            tok = rng.choice(["-h", "--help"])
            # (a token that spells a sub-command name of this very level is not one of its own arguments)
            own_aliases = set(a_ for s_ in cmds[lvl]["subs"] for a_ in s_["name"].split())
            for t in ((tok, "zz") if tok not in own_aliases else ()):
                pl2 = [list(x) for x in pl]
                pl2[lvl] = pl2[lvl][:k] + ["--"] + ["pp" for _ in range(rng.randint(0, 1))] + [t] + pl2[lvl][k:]
                if t != tok:
                    pl2[lvl] = cases[-1]["_pl"][:]
                    pl2[lvl][pl2[lvl].index(tok, k)] = "zz"
                a3 = flat_argv(path, pl2)
                cases.append({"op": "run", "env": {}, "version": version, "root": root, "argv": a3, "_pl": pl2[lvl]})
                meta.append(("data" if t == tok else "data-twin", 0, root))
        # the help token at every position
        for pos in range(len(argv) + 1):
            tok = rng.choice(["-h", "--help"])
            a2 = argv[:pos] + [tok] + argv[pos:]
            # sometimes a second help token further right (beyond a sub-command name, too): the FIRST one decides
            if rng.random() < 0.3 and pos < len(a2):
                p2 = rng.randint(pos + 1, len(a2))
                a2 = a2[:p2] + [rng.choice(["-h", "--help"])] + a2[p2:]
            cases.append({"op": "run", "env": {}, "version": version, "root": root, "argv": a2})
            meta.append(("help", pos, root))
        if version:
            vt = rng.choice(gen.opt_names({"name": version["name"]}))
            cases.append({"op": "run", "env": {}, "version": version, "root": root, "argv": [vt] + argv})
            meta.append(("version", 0, root))
            if argv:
                cases.append({"op": "run", "env": {}, "version": version, "root": root, "argv": argv[:1] + [vt] + argv[1:]})
                meta.append(("version-not-first", 1, root))
    res = correspond(ctx, cases, ["outcome", "trace", "stderr"], "help token at every position")
    stats = {"help": 0, "after_dd": 0, "version": 0, "data_pairs": 0}
    for idx, (c, (kind, pos, root)) in enumerate(zip(cases, meta)):
        a, _ = res[c["id"]]
        argv = c["argv"]
        if kind == "data":
            # the twin has "zz" instead of the help token: same end, same callbacks
            a2, _ = res[cases[idx + 1]["id"]]
            stats["data_pairs"] += 1
            # only when no help token precedes the "--" anywhere (then help wins, for both)
            if diff_obs(a, a2, ["outcome", "trace"]):
                ctx.violation("help-as-data", "%r and %r must behave alike (a help token after -- in a command's own "
                              "arguments is data): %r %r vs %r %r" % (argv, cases[idx + 1]["argv"], a["outcome"], a["trace"],
                                                                      a2["outcome"], a2["trace"]), case=c, variant=cases[idx + 1])
            continue
        if kind == "data-twin":
            continue
        if kind == "help":
            if "--" in argv[:pos]:
                stats["after_dd"] += 1
                continue       # data, or the unclaimed ancestor case: correspondence only
            first = min(i for i, t in enumerate(argv) if t in ("-h", "--help"))
            # the command addressed by the alias tokens that precede it
            cmds = [root]
            cur = root
            for t in argv[:first]:
                nxt = [s for s in cur["subs"] if t in s["name"].split()]
                if nxt:
                    cur = nxt[0]
                    cmds.append(cur)
            if c["version"] and argv[0] in gen.opt_names({"name": c["version"]["name"]}):
                continue
            stats["help"] += 1
            pol = effective_policy(cmds)
            want_out = ("exit", 0) if pol == 1 else ("ret", None)
            up = "Usage: " + usage_path(cmds)
            ok_usage = bool(a["stderr"]) and (a["stderr"][0] == up or a["stderr"][0].startswith(up + " "))
            if a["trace"] or a["outcome"] != want_out or not ok_usage:
                ctx.violation("help", "%r: expected the long help of %r, no callback and end %r; got %r, trace %r, end %r"
                              % (argv, usage_path(cmds), want_out, a["stderr"][:2], a["trace"], a["outcome"]), case=c)
            elif cur["longdesc"] and cur["longdesc"] not in a["stderr"]:
                ctx.violation("help", "%r: the long description is missing from the help" % (argv,), case=c)
        elif kind == "version":
            stats["version"] += 1
            pol = effective_policy([root])
            want_out = ("exit", 0) if pol == 1 else ("ret", None)
            if a["trace"] or a["outcome"] != want_out or a["stderr"] != ["v1.2"]:
                ctx.violation("version", "%r: expected the version string and end %r; got %r %r" % (argv, want_out, a["stderr"][:2], a["outcome"]), case=c)
    ctx.stream("help token at every position", 0, **stats)
    from props import plain_program
    plain_program(ctx, "C14")
    ctx.sample({"argv": cases[0]["argv"]})
    return ("random trees x paths x valid and invalid per-level command lines x a help token inserted at every "
            "position x a policy per command x with/without a version flag (first position and elsewhere)")


# =======================================================================================
# values: C06 precedence, C15 SetByUser, C13 strconv
# =======================================================================================

KINDS = ["bool", "string", "int", "float", "strings", "ints", "floats"]
MULTI = {"strings", "ints", "floats"}
ELEM = {"bool": "bool", "string": "string", "int": "int", "float": "float", "strings": "string", "ints": "int", "floats": "float"}
VALID = {"bool": ["true", "0", "T"], "string": ["s1", "x y", "2"], "int": ["7", "-3", "+12"], "float": ["1.5", "-2", "1e3"]}
INVALID = {"bool": ["yes", "2"], "string": [], "int": ["x", "1.5", ""], "float": ["abc", "1,5"]}
DEFAULTS = {"bool": [["false"], ["true"]], "string": [[""], ["dflt"]], "int": [["0"], ["42"]], "float": [["0"], ["2.5"]],
            "strings": [[], ["d1", "d2"]], "ints": [[], ["4", "5"]], "floats": [[], ["0.5"]]}


def parse_elem(tbl, elem, s):
    """(ok, canonical) of one token for an element type, from Go's own strconv"""
    if elem == "string":
        return True, s
    i, f, b = tbl[s]
    v = {"int": i, "float": f, "bool": b}[elem]
    return v is not None, v


def expected_value(tbl, kind, default, envs, cli):
    """the property text: command line, then first non-empty valid env var, then default"""
    elem = ELEM[kind]
    if cli:
        vals = [parse_elem(tbl, elem, s)[1] for s in cli]
        return vals if kind in MULTI else [vals[-1]]
    for v in envs:
        if v is None or v == "":
            continue
        if kind in MULTI:
            pieces = [core.go_trim_space(p) for p in v.split(",")]
            ps = [parse_elem(tbl, elem, p) for p in pieces]
            if all(ok for ok, _ in ps):
                return [c for _, c in ps]
        else:
            ok, c = parse_elem(tbl, elem, v)
            if ok:
                return [c]
    return [parse_elem(tbl, elem, s)[1] for s in default]


def value_cases(ctx):
    rng = ctx.rng
    cases = []
    for kind in KINDS:
        elem = ELEM[kind]
        multi = kind in MULTI
        valid = VALID[elem]
        invalid = INVALID[elem]
        envvals = [None, "", valid[0], valid[1] + (" , " + valid[2] if multi else "")] + invalid[:2]
        if multi:
            envvals += [valid[0] + ", " + (invalid[0] if invalid else valid[1])]
            # empty elements: in the middle, at the end, alone (an empty element is a value for strings and
            # does not convert for the numeric kinds)
            envvals += [valid[0] + ",," + valid[1], valid[0] + "," + valid[1] + ",", ","]
            # a long list
            envvals += [", ".join(valid[i % len(valid)] for i in range(40))]
            # elements padded with blanks other than the space
            envvals += [valid[0] + ",\t" + valid[1] + "\t", "\r\n" + valid[1] + " ,\v" + valid[0] + "\f"]
            # ... and with the non-ASCII blanks of Go's unicode.IsSpace (UTF-8 bytes); a lone 0xA0 byte is not a blank
            envvals += [valid[0] + ",\xc2\xa0" + valid[1] + "\xe2\x80\x83", "\xe3\x80\x80" + valid[1] + "\xc2\x85," + valid[0],
                        valid[0] + ",\xa0" + valid[1]]
        for isopt in (True, False):
            for default in DEFAULTS[kind]:
                for nenv in range(0, ctx.scale(3, 4)):
                    combos = list(itertools.product(envvals, repeat=nenv))
                    if len(combos) > ctx.scale(30, 200):
                        combos = rng.sample(combos, ctx.scale(30, 200))
                    for envs in combos:
                        for ncli in (0, 1, 2, 3):
                            cli = [rng.choice(valid) for _ in range(ncli)]
                            # (a name may hold any byte but '=' and NUL: dots, dashes, slashes, colons are part of it)
                            names = [(["VE%d", "ve.%d", "app-port%d", "a/b%d", "x:y%d", "VE%d"][rng.randrange(6)]) % i for i in range(nenv)]
                            # the names of an EnvVar list are separated by any white space
                            sep = rng.choice([" ", " ", " ", "\t", "\n", "  ", " \t ", "\xc2\xa0", "\xe2\x80\xa8"])
                            d = (gen.mkopt if isopt else gen.mkarg)(kind, "x val" if isopt else "ARG", env=sep.join(names),
                                                                     sbu=True, ptr=rng.random() < 0.5, **{"def": list(default)})
                            if isopt:
                                spec = "[-x...]"
                                argv = []
                                for v in cli:
                                    if kind == "bool":
                                        argv.append(rng.choice(["-x=" + v, "--val=" + v]))
                                    elif v.startswith("-"):
                                        argv.append(rng.choice(["-x=" + v, "--val=" + v, "-x" + v]))
                                    else:
                                        argv += rng.choice([["-x", v], ["-x=" + v], ["--val", v], ["--val=" + v], ["-x" + v]])
                            else:
                                spec = "[ARG...]"
                                argv = (["--"] if any(v.startswith("-") for v in cli) else []) + cli
                            env = {n: v for n, v in zip(names, envs) if v is not None}
                            root = gen.mkcmd("app", decls=[d], spec=spec, policy=0)
                            cases.append({"op": "run", "env": env, "version": None, "root": root, "argv": argv,
                                          "_kind": kind, "_default": default, "_envs": list(envs), "_cli": cli, "_isopt": isopt})
    return cases


def is_k1(c, tbl):
    """K1: multi-valued, non-empty default, no command-line value, no valid non-empty env value, and at
    least one non-empty env value (which is then invalid): the default is lost"""
    kind = c["_kind"]
    if kind not in MULTI or not c["_default"] or c["_cli"]:
        return False
    nonempty = [v for v in c["_envs"] if v]
    if not nonempty:
        return False
    elem = ELEM[kind]
    for v in nonempty:
        pieces = [core.go_trim_space(p) for p in v.split(",")]
        if all(parse_elem(tbl, elem, p)[0] for p in pieces):
            return False
    return True


def check_C06(ctx, prop="C06"):
    cases = value_cases(ctx)
    res = correspond(ctx, cases, ["outcome", "trace", "values", "sbu"], "kinds x opt/arg x defaults x env lists x cli counts")
    strs = set()
    for c in cases:
        strs.update(c["_default"])
        strs.update(c["_cli"])
        for v in c["_envs"]:
            if v:
                strs.add(v)
                strs.update(core.go_trim_space(p) for p in v.split(","))
    tbl = core.oracle(strs)
    k1 = 0
    for c in cases:
        a, _ = res[c["id"]]
        key = "app|" + c["root"]["decls"][0]["name"]
        if not accepted(a):
            ctx.violation("precedence", "valid invocation %r (env %r) was not accepted: %r" % (c["argv"], c["env"], a["outcome"]), case=c)
            continue
        if prop == "C15":
            want = len(c["_cli"]) > 0
            if a["sbu"].get(key) != want:
                ctx.violation("setbyuser", "%s %s, env %r, argv %r: SetByUser is %r, the command line %s a value"
                              % (c["_kind"], "option" if c["_isopt"] else "argument", c["env"], c["argv"], a["sbu"].get(key),
                                 "gives" if want else "does not give"), case=c)
            continue
        exp = expected_value(tbl, c["_kind"], c["_default"], c["_envs"], c["_cli"])
        got = a["values"].get(key)
        if got != exp:
            if is_k1(c, tbl) and got == []:
                k1 += 1
                if any(k == "known" and p == "C06" and "id=K1" in r for k, p, r in core.known_findings()):
                    if not ctx.known:
                        ctx.known.append("id=K1 an invalid environment list wipes the default of a multi-valued variable "
                                         "(e.g. %s default %r env %r -> %r)" % (c["_kind"], c["_default"], c["env"], got))
                    continue
            ctx.violation("precedence", "%s %s default %r env %r argv %r: value %r, expected %r"
                          % (c["_kind"], "option" if c["_isopt"] else "argument", c["_default"], c["env"], c["argv"], got, exp), case=c)
    # two multi-valued parameters declared with the very same default slice: giving one a value must not touch the other
    if prop == "C06":
        shared = []
        pools = {"strings": (["a", "b", "c"], ["x", "y", "z", "w"]), "ints": (["4", "5", "6"], ["1", "2", "3", "7"]),
                 "floats": (["1.5", "2.5", "3.5"], ["9", "8", "7", "6"])}
        for kind, (dpool, vpool) in pools.items():
            for how in ("cli", "env"):
                for second_is_arg in (False, True):
                    for dflt in (dpool[:2], dpool):
                        for vals in (vpool[:1], vpool[:2], vpool):
                            d1 = gen.mkopt(kind, "i inc", env="VE_I" if how == "env" else "", defshare="k", sbu=True, **{"def": list(dflt)})
                            d2 = (gen.mkarg if second_is_arg else gen.mkopt)(kind, "ARG" if second_is_arg else "o out", defshare="k", sbu=True, **{"def": list(dflt)})
                            spec = "[-i...] " + ("[ARG...]" if second_is_arg else "[-o...]")
                            argv = [] if how == "env" else [t for v in vals for t in ("-i", v)]
                            env = {"VE_I": ", ".join(vals)} if how == "env" else {}
                            for order in ((d1, d2), (d2, d1)):
                                root = gen.mkcmd("app", decls=[copy.deepcopy(order[0]), copy.deepcopy(order[1])], spec=spec, policy=0)
                                shared.append({"op": "run", "env": env, "version": None, "root": root, "argv": argv, "_dflt": dflt, "_vals": vals,
                                               "_other": "app|" + d2["name"]})
        sres = correspond(ctx, shared, ["outcome", "trace", "values"], "two parameters sharing one default slice")
        for c in shared:
            a, _ = sres[c["id"]]
            if not accepted(a) or a["values"].get(c["_other"]) != c["_dflt"] or a["values"].get("app|i inc") != c["_vals"]:
                ctx.violation("precedence", "two multi-valued parameters with the same default slice %r, one given %r: values %r"
                              % (c["_dflt"], c["_vals"], a["values"]), case=c)
    # SetByUser inside option groups: flags that the line does not give (a malformed cluster names them but is bound as a
    # positional after a spec-level "--"; a sibling is backed by the environment), for every member of the group
    if prop == "C15":
        gd = [gen.mkopt("bool", "a", sbu=True, **{"def": ["false"]}), gen.mkopt("bool", "b", env="VE_B", sbu=True, **{"def": ["false"]}),
              gen.mkopt("strings", "o", sbu=True), gen.mkarg("strings", "ARG", sbu=True)]
        gtoks = [["-a"], ["-b"], ["-ab"], ["-a-x"], ["-b-"], ["-a-b"], ["x"], ["--"], ["-o", "v"], ["-ba-"], ["-ao-"]]
        grp = []
        for sp in ("[-ab] -- ARG...", "[OPTIONS] -- ARG...", "-ab -- [ARG...]", "[-ab] [ARG...]", "[-abo] -- ARG...", "[-a] [-b] -- ARG...", "(-ab)... -- ARG..."):
            for n in (1, 2, 3):
                for ps in itertools.product(gtoks, repeat=n):
                    for env in ({}, {"VE_B": "true"}):
                        grp.append({"op": "run", "env": env, "version": None, "root": gen.mkcmd("app", decls=copy.deepcopy(gd), spec=sp, policy=0),
                                    "argv": [t for p_ in ps for t in p_]})
        if len(grp) > ctx.scale(8000, 80000):
            grp = ctx.rng.sample(grp, ctx.scale(8000, 80000))
        number(grp, start=len(cases) + 100000)
        gres = correspond(ctx, grp, ["outcome", "trace", "values", "sbu"], "SetByUser inside option groups")
        nacc = 0
        for c in grp:
            a, _ = gres[c["id"]]
            if not accepted(a):
                continue
            nacc += 1
            # a flag that is set by the user holds true (or was written with an explicit value); one that is not keeps what the
            # declaration gave it
            for d in gd[:2]:
                key = "app|" + d["name"]
                want = ["true"] if (d.get("env") and c["env"]) else ["false"]
                if a["sbu"].get(key) is False and a["values"].get(key) != want:
                    ctx.violation("setbyuser", "spec %r argv %r env %r: %s is not set by the user, yet holds %r instead of %r"
                                  % (c["root"]["spec"], c["argv"], c["env"], d["name"], a["values"].get(key), want), case=c)
        # accounting: a token bound verbatim to the argument is not also an occurrence of an option; the options flagged as
        # set by the user must be named by the remaining dash tokens
        for c in grp:
            a, _ = gres[c["id"]]
            if not accepted(a):
                continue
            rest = list(c["argv"])
            for v in a["values"].get("app|ARG", []) if a["sbu"].get("app|ARG") else []:
                if v in rest:
                    rest.remove(v)
            letters = set(ch for t in rest if t.startswith("-") and not t.startswith("--") for ch in t[1:])
            for d in gd[:3]:
                key = "app|" + d["name"]
                if a["sbu"].get(key) and d["name"] not in letters:
                    ctx.violation("setbyuser", "spec %r argv %r env %r: %s is flagged as set by the user, but once the tokens bound to ARG (%r) are "
                                  "set aside no token of the line names it" % (c["root"]["spec"], c["argv"], c["env"], d["name"], a["values"].get("app|ARG")), case=c)
        ctx.stream("SetByUser inside option groups", 0, accepted=nacc)
    # SetByUser of declarations that share one Go variable (the ...Ptr forms), each with its own flag: the flag of a declaration
    # is true iff the line gives THAT declaration a value, whatever its siblings were given and in whichever order the
    # library writes the values into the shared variable -- implementation only (the model has no shared destinations),
    # judged by the property text
    if prop == "C15":
        shd = []
        for kind, vals in (("int", ["1", "2", "3", "4"]), ("string", ["p", "q", "r", "s"]), ("strings", ["p", "q", "r", "s"])):
            rep = "..." if kind == "strings" else ""
            for shape in ("oo", "oa", "aa", "ooa", "ooaa", "ooo"):
                names_o, names_a = ["a add", "x extra", "c"], ["SRC", "DST"]
                no = shape.count("o")
                na = len(shape) - no
                for envd in (None, 0):
                    decls = []
                    for k in range(no):
                        decls.append(gen.mkopt(kind, names_o[k], destshare="d", sbu=True, env="VE_S" if envd == k else ""))
                    for k in range(na):
                        decls.append(gen.mkarg(kind, names_a[k], destshare="d", sbu=True))
                    spec = " ".join(["[-%s%s]" % (n.split()[0], rep) for n in names_o[:no]] + ["[%s]" % n for n in names_a[:na]])
                    for given_o in itertools.product((0, 1, 2), repeat=no):
                        if kind != "strings" and 2 in given_o:
                            continue
                        for n_pos in range(na + 1):
                            for rev in (False, True):
                                pieces = []
                                for k in range(no):
                                    for j in range(given_o[k]):
                                        pieces.append(["-" + names_o[k].split()[0], vals[(k + j) % 4]])
                                if rev:
                                    pieces.reverse()
                                argv = [t for p_ in pieces for t in p_] + [vals[3 - k] for k in range(n_pos)]
                                want = {"app|" + names_o[k]: given_o[k] > 0 for k in range(no)}
                                want.update({"app|" + names_a[k]: k < n_pos for k in range(na)})
                                shd.append({"op": "run", "env": {"VE_S": vals[0]} if envd is not None else {}, "version": None, "argv": argv,
                                            "root": gen.mkcmd("app", decls=copy.deepcopy(decls), spec=spec, policy=0), "_want": want})
        number(shd, start=len(cases) + 300000)
        rs = core.run_impl(shd)
        for c in shd:
            ctx.count(c)
            a = core.obs_impl(rs[c["id"]])
            if not accepted(a):
                ctx.violation("setbyuser", "declarations sharing one variable: valid invocation spec %r argv %r env %r was not accepted: %r"
                              % (c["root"]["spec"], c["argv"], c["env"], a["outcome"]), case=c)
                continue
            for key, w in c["_want"].items():
                if a["sbu"].get(key) != w:
                    ctx.violation("setbyuser", "declarations sharing one variable (the ...Ptr forms), spec %r argv %r env %r: SetByUser of %r is %r, "
                                  "the command line %s it a value" % (c["root"]["spec"], c["argv"], c["env"], key.split("|")[1], a["sbu"].get(key),
                                                                      "gives" if w else "does not give"), case=c)
                    break
        ctx.stream("SetByUser of declarations sharing one variable", len(shd))
    ctx.stream("kinds x opt/arg x defaults x env lists x cli counts", 0, k1_shape=k1)
    ctx.sample({"kind": "ints", "default": ["4", "5"], "env": {"VE0": "", "VE1": "7, 8"}, "argv": [], "expected": ["7", "8"]})
    return ("7 built-in kinds x option/argument x 2 defaults x environment lists of length 0-3 over {unset, empty, valid, "
            "valid list with blanks, invalid, partly invalid} x 0-3 command-line values; expected value computed from the "
            "property text with Go's own strconv as oracle")


def check_C15(ctx):
    return check_C06(ctx, prop="C15")


TOKENS = ["0", "1", "-1", "+1", "007", "-0", "9223372036854775807", "9223372036854775808", "-9223372036854775808",
          "-9223372036854775809", "0x10", "0b1", "0o7", "1_000", "1e3", "1E3", "1.5", ".5", "5.", "1.5e-3", "0x1p-2", "inf",
          "Inf", "+Inf", "-inf", "infinity", "NaN", "nan", "nAn", "1e400", "1e-400", " 1", "1 ", "\t1", "", "t", "T", "true",
          "TRUE", "True", "tRue", "f", "F", "false", "FALSE", "False", "yes", "no", "on", "2", "a b", "a,b", "é", "\x00x",
          "\xff\xfe", "1\n", "--", "-", "=", "=1", "1=", "\"1\"", "'1'", "١", "１", "1١", "0.1e", "e5", "+", "++1", "--1",
          "1__0", "_1", "0_1", "1e+", "12345678901234567890", "00000000000000000000001", "-.5e+2", "0X1P+3", "NAN()", "truE"]
# byte strings: non-Latin-1 text is carried as its UTF-8 bytes
TOKENS = [t if all(ord(ch) < 256 for ch in t) else t.encode("utf-8").decode("latin-1") for t in TOKENS]


def check_C13(ctx):
    rng = ctx.rng
    toks = list(TOKENS)
    for _ in range(ctx.scale(150, 3000)):
        n = rng.randint(1, 8)
        toks.append("".join(rng.choice("0123456789+-.eExXpP_ ainfINFtrueFALS,") for _ in range(n)))
    toks = [t for t in dict.fromkeys(toks) if "\x00" not in t]
    cases = []
    for kind in KINDS:
        for isopt in (True, False):
            for t in toks:
                # command-line route
                d = (gen.mkopt if isopt else gen.mkarg)(kind, "x val" if isopt else "ARG", sbu=True,
                                                         **{"def": DEFAULTS[kind][0]})
                if isopt:
                    if t == "":
                        continue
                    forms_ = [["-x=" + t], ["--val=" + t]]
                    if kind != "bool" and not t.startswith("-"):
                        # every documented spelling delivers the same bytes: separate and attached forms too
                        forms_ += [["-x", t], ["--val", t]]
                        if not t.startswith("="):
                            forms_.append(["-x" + t])
                    argv = rng.choice(forms_)
                    spec = "-x"
                else:
                    argv = ["--", t]
                    spec = "ARG"
                root = gen.mkcmd("app", decls=[d], spec=spec, policy=0)
                cases.append({"op": "run", "env": {}, "version": None, "root": root, "argv": argv,
                              "_kind": kind, "_tok": t, "_route": "cli", "_isopt": isopt})
                # environment route (no NUL, no '=' problem in values)
                d2 = copy.deepcopy(d)
                d2["env"] = "VE_T"
                root2 = gen.mkcmd("app", decls=[d2], spec="[-x]" if isopt else "[ARG]", policy=0)
                cases.append({"op": "run", "env": {"VE_T": t}, "version": None, "root": root2, "argv": [],
                              "_kind": kind, "_tok": t, "_route": "env", "_isopt": isopt})
    # environment lists for the multi-valued kinds: every element must convert, whichever position the bad one has
    for kind in ("ints", "floats", "strings"):
        elem = ELEM[kind]
        good = VALID[elem]
        bad = [b for b in (INVALID[elem] or []) if b and "," not in b]
        for isopt in (True, False):
            for n in (2, 3, 4):
                for mask in itertools.product([True, False], repeat=n):
                    if not bad and not all(mask):
                        continue
                    for sep in (",", ", ", " ,"):
                        t = sep.join(rng.choice(good) if g else rng.choice(bad) for g in mask)
                        d2 = (gen.mkopt if isopt else gen.mkarg)(kind, "x val" if isopt else "ARG", sbu=True, env="VE_T",
                                                                  **{"def": DEFAULTS[kind][0]})
                        root2 = gen.mkcmd("app", decls=[d2], spec="[-x]" if isopt else "[ARG]", policy=0)
                        cases.append({"op": "run", "env": {"VE_T": t}, "version": None, "root": root2, "argv": [],
                                      "_kind": kind, "_tok": t, "_route": "env", "_isopt": isopt})
                        toks.append(t)
    # several command-line tokens for one multi-valued variable: every one of them must convert
    seqs = []
    for kind in ("ints", "floats", "strings", "int", "float", "bool", "string"):
        elem = ELEM[kind]
        good = VALID[elem]
        bad = INVALID[elem] or ["x"]
        for isopt in (True, False):
            for n in (2, 3, 4):
                for mask in itertools.product([True, False], repeat=n):
                    ts = [rng.choice(good) if g else rng.choice([b for b in bad if b] or ["x"]) for g in mask]
                    d = (gen.mkopt if isopt else gen.mkarg)(kind, "x val" if isopt else "ARG", sbu=True,
                                                             **{"def": list(DEFAULTS[kind][0])})
                    argv = [("-x=" + t) for t in ts] if isopt else ["--"] + ts
                    root = gen.mkcmd("app", decls=[d], spec="-x..." if isopt else "ARG...", policy=0)
                    seqs.append({"op": "run", "env": {}, "version": None, "root": root, "argv": argv,
                                 "_kind": kind, "_toks": ts, "_isopt": isopt})
    # long lists: 20-60 values on the command line and in one environment variable, a failing one at a random place in half
    for kind in ("ints", "floats", "strings"):
        elem = ELEM[kind]
        good, badl = VALID[elem], [b for b in (INVALID[elem] or []) if b and "," not in b]
        for isopt in (True, False):
            for _ in range(ctx.scale(6, 40)):
                n = rng.randint(20, 60)
                ts = [rng.choice(good) for _ in range(n)]
                if badl and rng.random() < 0.5:
                    ts[rng.randrange(n)] = rng.choice(badl)
                d = (gen.mkopt if isopt else gen.mkarg)(kind, "x val" if isopt else "ARG", sbu=True, **{"def": list(DEFAULTS[kind][0])})
                argv = [("-x=" + t) for t in ts] if isopt else ["--"] + ts
                seqs.append({"op": "run", "env": {}, "version": None, "root": gen.mkcmd("app", decls=[d], spec="-x..." if isopt else "ARG...", policy=0),
                             "argv": argv, "_kind": kind, "_toks": ts, "_isopt": isopt})
                if all("," not in t for t in ts):
                    d2 = copy.deepcopy(d)
                    d2["env"] = "VE_T"
                    t = ", ".join(ts)
                    cases.append({"op": "run", "env": {"VE_T": t}, "version": None,
                                  "root": gen.mkcmd("app", decls=[d2], spec="[-x]" if isopt else "[ARG]", policy=0), "argv": [],
                                  "_kind": kind, "_tok": t, "_route": "env", "_isopt": isopt})
                    toks.append(t)
    res_seq = correspond(ctx, seqs, ["outcome", "trace", "values"], "token sequences for multi-valued variables")
    res = correspond(ctx, cases, ["outcome", "trace", "values"], "tokens x kinds x opt/arg x route")
    strs = set(toks)
    for t in toks:
        strs.update(core.go_trim_space(p) for p in t.split(","))
    for k in KINDS:
        strs.update(DEFAULTS[k][0])
    tbl = core.oracle(strs)
    stats = {"cli_ok": 0, "cli_err": 0, "env_ok": 0, "env_fallthrough": 0}
    for c in cases:
        a, _ = res[c["id"]]
        kind, t = c["_kind"], c["_tok"]
        elem = ELEM[kind]
        key = "app|" + c["root"]["decls"][0]["name"]
        if c["_route"] == "cli":
            ok, canon = parse_elem(tbl, elem, t)
            if ok:
                stats["cli_ok"] += 1
                if not accepted(a) or a["values"].get(key) != [canon]:
                    ctx.violation("strconv", "%s %s: strconv accepts %r as %r but the invocation gave %r / %r"
                                  % (kind, "option" if c["_isopt"] else "argument", t, canon, a["outcome"], a["values"].get(key)), case=c)
            else:
                stats["cli_err"] += 1
                if a["outcome"] != ("ret", "conv") or a["trace"]:
                    ctx.violation("strconv", "%s: strconv rejects %r but the invocation ended %r with trace %r"
                                  % (kind, t, a["outcome"], a["trace"]), case=c)
        else:
            exp = expected_value(tbl, kind, DEFAULTS[kind][0], [t], [])
            dflt = [parse_elem(tbl, elem, s)[1] for s in DEFAULTS[kind][0]]
            stats["env_ok" if exp != dflt else "env_fallthrough"] += 1
            if not accepted(a) or a["values"].get(key) != exp:
                ctx.violation("strconv", "%s from the environment value %r: got %r / %r, expected %r"
                              % (kind, t, a["outcome"], a["values"].get(key), exp), case=c)
    tbl2 = core.oracle({t for c in seqs for t in c["_toks"]})
    for c in seqs:
        a, _ = res_seq[c["id"]]
        ps = [parse_elem(tbl2, ELEM[c["_kind"]], t) for t in c["_toks"]]
        key = "app|" + c["root"]["decls"][0]["name"]
        if all(ok for ok, _ in ps):
            want = [v for _, v in ps] if c["_kind"] in MULTI else [ps[-1][1]]
            if not accepted(a) or a["values"].get(key) != want:
                ctx.violation("strconv", "%s with tokens %r: got %r / %r" % (c["_kind"], c["_toks"], a["outcome"], a["values"].get(key)), case=c)
        elif a["outcome"] != ("ret", "conv") or a["trace"]:
            ctx.violation("strconv", "%s with tokens %r (one does not convert): the invocation ended %r with trace %r"
                          % (c["_kind"], c["_toks"], a["outcome"], a["trace"]), case=c)
    ctx.stream("tokens x kinds x opt/arg x route", 0, tokens=len(toks), **stats)
    ctx.sample({"kind": "int", "token": "9223372036854775808", "expected": "usage error"})
    return ("a corpus of %d tokens (signs, leading zeros, 64-bit boundaries, 0x/0b/0o, underscores, exponents, hex floats, "
            "inf/nan spellings, blanks, high bytes, non-ASCII digits, empty) plus random tokens x 7 kinds x option/argument "
            "x command-line/environment delivery; expected values from Go's own strconv" % len(toks))


# =======================================================================================
# C16 default spec, C18 declarations
# =======================================================================================

ARGNAMES = ["A", "SRC", "DST", "A1", "X_Y", "Z9_", "FILE", "OPT", "OPTIONS1", "B"]
ARGFAMILIES = [["OUTFILE", "FILE", "E", "OUT"], ["SRC_DIR", "DIR", "SRC", "R"], ["AB", "B", "A", "ABA"], ["AA", "A", "AAA"],
               ["OPTIONS_", "OPTIONS1", "S1", "OPTION"], ["X1", "X", "X11", "1X".replace("1X", "XX1")]]


def check_C16(ctx):
    rng = ctx.rng
    cases, pairs = [], []
    for _ in range(ctx.scale(1500, 15000)):
        decls = gen.declared_set(rng, observable=rng.random() < 0.5, env_prob=0.2, nopts=rng.randint(0, 3), nargs=0)
        # (a quarter of the time the names are substrings, prefixes and suffixes of one another)
        pool = rng.choice(ARGFAMILIES) if rng.random() < 0.25 else ARGNAMES
        for n in rng.sample(pool, min(len(pool), rng.randint(0, 3))):
            decls.append(gen.mkarg(rng.choice(["string", "strings", "int"]), n, **{"def": []}))
            if decls[-1]["kind"] == "string":
                decls[-1]["def"] = [""]
            if decls[-1]["kind"] == "int":
                decls[-1]["def"] = ["0"]
            # an argument may be backed by the environment too (struct form with EnvVar)
            if rng.random() < 0.35:
                decls[-1]["env"] = "VA_" + n
        # an option may be declared with an empty or blank name: it has no names and can never be given, but it is a declared
        # option, and the synthesised spec starts with [OPTIONS] because of it (sometimes it is the only option)
        if rng.random() < 0.12:
            if rng.random() < 0.5:
                decls = [d for d in decls if d["t"] != "opt"]
            decls.append(gen.mkopt("bool", rng.choice(["", " ", "  "]), **{"def": ["false"]}))
        rng.shuffle(decls)
        opts = [d for d in decls if d["t"] == "opt"]
        args = [d for d in decls if d["t"] == "arg"]
        explicit = ("[OPTIONS] " if opts else "") + " ".join(a["name"] for a in args)
        ast = ([[(("sq", [[(("options",), False)]]), False)]] if opts else []) + [[(("arg", a["name"]), False)] for a in args]
        envnames = [d["env"] for d in decls if d.get("env")]
        for _ in range(4):
            env = {e: "ev" for e in envnames if rng.random() < 0.5}
            for d in decls:
                if d.get("env") in env and d["kind"] in ("int", "ints"):
                    env[d["env"]] = "7"
            argv, _ = gen.gen_argv(rng, ast, decls, [d["name"] for d in decls if d.get("env") in env], 0.4)
            # fewer positionals than declared arguments, too
            if args and rng.random() < 0.3:
                argv = [t for t in argv if t.startswith("-")] + [t for t in argv if not t.startswith("-")][:rng.randint(0, len(args) - 1)]
            pol = rng.choice([0, 0, 1, 2])
            r1 = gen.mkcmd("app", decls=copy.deepcopy(decls), spec="", policy=pol)
            r2 = gen.mkcmd("app", decls=copy.deepcopy(decls), spec=explicit, policy=pol)
            pairs.append((len(cases), explicit))
            # "for every command line": also the second one given to the same application
            # (not with instrumented values, whose call logs would hold both runs)
            rep = 2 if rng.random() < 0.3 and not any(d["kind"] == "custom" for d in decls) else 1
            cases.append({"op": "run", "env": env, "version": None, "root": r1, "argv": argv, "repeat": rep})
            cases.append({"op": "run", "env": env, "version": None, "root": r2, "argv": argv, "repeat": rep})
            # a long-lived application object: the last declarations are made after a first run (on the empty line); the
            # synthesised spec of the second run covers them like the others
            if rep == 1 and len(decls) > 1 and rng.random() < 0.25 and not env:
                for d_ in r1["decls"][-rng.randint(1, len(decls) - 1):]:
                    d_["late"] = True
                cases[-2]["before"] = {"spec": "", "argv": []}
    res = correspond(ctx, cases, ALL, "implicit and explicit spec")
    for i, explicit in pairs:
        a1, _ = res[cases[i]["id"]]
        a2, _ = res[cases[i + 1]["id"]]
        d = diff_obs(a1, a2, ALL)
        if d:
            ctx.violation("default-spec", "declarations with explicit spec %r and argv %r differ from the implicit variant on %s: %r vs %r"
                          % (explicit, cases[i]["argv"], d, {k: a1[k] for k in d}, {k: a2[k] for k in d}), case=cases[i], variant=cases[i + 1])
        ul = [l for l in a1["stderr"] if l.startswith("Usage: ")]
        want = ("Usage: app " + explicit).rstrip()
        if ul and ul[0] != " ".join(want.split()):
            ctx.violation("default-spec", "usage line %r, expected %r" % (ul[0], want), case=cases[i])
    # the same at every level of a tree: every command without a spec is given the synthesised one
    def explicit_tree(c):
        c = dict(c)
        if c["spec"] == "":
            o = [d for d in c["decls"] if d["t"] == "opt"]
            a_ = [d for d in c["decls"] if d["t"] == "arg"]
            c["spec"] = ("[OPTIONS] " if o else "") + " ".join(x["name"] for x in a_)
        c["subs"] = [explicit_tree(x) for x in c["subs"]]
        return c
    tcases, tpairs = [], []
    for _ in range(ctx.scale(500, 5000)):
        root, path, per_level, cmds = tree_invocation(ctx, rng.randint(1, 3), 3, reject_prob=0.3, simple_hooks=False)
        root["policy"] = rng.choice([0, 1, 2])
        argv = flat_argv(path, per_level)
        if rng.random() < 0.2:
            argv.insert(rng.randint(0, len(argv)), rng.choice(["-h", "--help"]))
        tpairs.append(len(tcases))
        tcases.append({"op": "run", "env": {}, "version": None, "root": root, "argv": argv})
        tcases.append({"op": "run", "env": {}, "version": None, "root": explicit_tree(copy.deepcopy(root)), "argv": argv})
    number(tcases, start=len(cases))
    tres = correspond(ctx, tcases, ALL, "implicit and explicit specs at every level of a tree")
    for i in tpairs:
        a1, _ = tres[tcases[i]["id"]]
        a2, _ = tres[tcases[i + 1]["id"]]
        d = diff_obs(a1, a2, ALL)
        if d:
            ctx.violation("default-spec", "tree invoked with %r: with every missing spec written out the run differs on %s: %r vs %r"
                          % (tcases[i]["argv"], d, {k: a1[k] for k in d}, {k: a2[k] for k in d}), case=tcases[i], variant=tcases[i + 1])
    ctx.stream("implicit and explicit specs at every level of a tree", 0, pairs=len(tpairs))
    # the usage line itself, through --help
    ctx.stream("implicit and explicit spec", 0, pairs=len(pairs))
    ctx.sample({"decls": [d["name"] for d in cases[0]["root"]["decls"]], "explicit": pairs[0][1], "argv": cases[0]["argv"]})
    return ("random sets of 0-3 options and 0-3 arguments (names with digits and underscores) in random declaration "
            "order x command lines sampled from '[OPTIONS] ARGS' and mutated x policies; the implicit and the explicit "
            "variant are compared on the implementation on every observable, and the usage line is checked")


def expected_decl_panic(decls):
    """the property text: which declaration panics first, and why"""
    onames, anames = set(), set()
    import re
    for i, d in enumerate(decls):
        if d["t"] == "opt":
            for n in d["name"].split():
                full = ("-" if len(n.encode("latin-1")) == 1 else "--") + n
                if full in onames:
                    return i, "duplicate option name", full
                onames.add(full)
        else:
            n = d["name"]
            if not re.match(r"^[A-Z][A-Z0-9_]*$", n) or n == "OPTIONS":
                return i, "invalid argument name", n
            if n in anames:
                return i, "duplicate argument name", n
            anames.add(n)
    return None


def check_C18(ctx):
    rng = ctx.rng
    cases = []
    # (the last three are not ASCII: one letter of two bytes -- a long option, since the library counts bytes --, two such
    # letters, and an ASCII letter followed by one)
    onames = ["a", "b", "f", "force", "o", "out", "v", "x", "aa", "A", "1", "a-b", "_", "ab", "\xc3\xa9", "\xc3\xa9\xc3\xb8", "a\xc3\xa9",
              "-x", "-f", "--force"]      # names written with their dashes are long options whose name starts with a dash
    anames = ["SRC", "DST", "X", "src", "Src", "S R", "A1", "_A", "1A", "OPTIONS", "A-B", "A.B", "", "É", "A_", "ARG", "-", "--", "[A]", "A..."]
    for k_ in range(ctx.scale(4000, 40000)):
        decls = []
        for _ in range(rng.randint(1, 6) if k_ % 40 else rng.randint(15, 40)):     # a few long sequences
            if rng.random() < 0.6:
                names = rng.sample(onames, rng.randint(1, 3))
                if rng.random() < 0.15:
                    names.append(rng.choice(names))
                kind = rng.choice(["bool", "string", "strings"])
                decls.append(gen.mkopt(kind, " ".join(names), **{"def": {"bool": ["false"], "string": [""], "strings": []}[kind]}))
            else:
                n = rng.choice(anames) if rng.random() < 0.5 else rng.choice(anames[:3])
                if " " in n or n == "":
                    if rng.random() < 0.7:
                        n = rng.choice(anames[:3])
                decls.append(gen.mkarg("strings", n))
        # the version flag is one more option declaration (a bool), made before or after the others
        version = None
        combined = decls
        if rng.random() < 0.3:
            version = {"name": " ".join(rng.sample(onames, rng.randint(1, 2))), "text": "v1", "last": rng.random() < 0.6}
            vd = gen.mkopt("bool", version["name"])
            combined = decls + [vd] if version["last"] else [vd] + decls
            # ... and Version may be called twice: the second call is one more declaration still
            if rng.random() < 0.4:
                version["last"] = True
                version["again"] = {"name": " ".join(rng.sample(onames, rng.randint(1, 2))) if rng.random() < 0.7 else
                                    version["name"].split()[0] + " " + rng.choice(["release", "rel", "r"]), "text": "v2"}
                combined = decls + [vd, gen.mkopt("bool", version["again"]["name"])]
        exp = expected_decl_panic(combined)
        # which variable each name sets: address one option by one of its names
        argv = []
        opts = [d for d in decls if d["t"] == "opt"]
        if exp is None and opts:
            d = rng.choice(opts)
            n = rng.choice(gen.opt_names(d))
            argv = [n] if gen.is_flag(d) else [n + "=val"]
        root = gen.mkcmd("app", decls=decls, spec="[OPTIONS]" if opts else "", policy=0)
        if exp is None:
            args = [d for d in decls if d["t"] == "arg"]
            root["spec"] = ("[OPTIONS] " if opts else "") + " ".join("[%s]" % a["name"] for a in args)
        cases.append({"op": "run", "env": {}, "version": version, "root": root, "argv": argv, "_exp": exp, "_all": combined})
    res = correspond(ctx, cases, ["outcome", "values"], "declaration sequences")
    stats = {"panics": 0, "clean": 0}
    for c in cases:
        a, _ = res[c["id"]]
        exp = c["_exp"]
        if exp is None:
            stats["clean"] += 1
            if a["outcome"][0] == "panic":
                ctx.violation("declaration", "valid declarations %r panic: %r" % ([d["name"] for d in c["root"]["decls"]], a["outcome"]), case=c)
            elif c["argv"] and not accepted(a) and a["outcome"][0] != "timeout":
                # one-letter (one-byte) names are short options, longer ones long options, each addressing its variable:
                # the line that gives one declared name, under [OPTIONS], is accepted
                ctx.violation("declaration", "declarations %r: the line %r, which addresses a declared option by one of its names, is "
                              "not accepted: %r" % ([d["name"] for d in c["root"]["decls"]], c["argv"], a["outcome"]), case=c)
            elif c["argv"] and accepted(a):
                # every listed name addresses the same variable
                tok = c["argv"][0]
                name = tok.split("=")[0]
                d = [d for d in c["root"]["decls"] if d["t"] == "opt" and name in gen.opt_names(d)][0]
                v = a["values"].get("app|" + d["name"])
                want = ["true"] if d["kind"] == "bool" else ["val"]
                if v != want:
                    ctx.violation("declaration", "name %r does not set its own variable %r: %r" % (name, d["name"], v), case=c)
                others = {k: v for k, v in a["values"].items() if k != "app|" + d["name"]}
                for k, v in others.items():
                    if v not in (["false"], [""], []):
                        ctx.violation("declaration", "name %r also changed %r to %r" % (name, k, v), case=c)
        else:
            stats["panics"] += 1
            i, cls, nm = exp
            simple = all(32 <= ord(ch) < 127 and ch not in '"\\' for ch in nm)
            want = ("panic", "decl:%s:%s" % (cls, nm if simple else "?"))
            if a["outcome"] != want:
                ctx.violation("declaration", "declarations %r: expected %r at declaration %d, got %r"
                              % ([d["name"] for d in c["_all"]], want, i, a["outcome"]), case=c)
    stats["with_version"] = sum(1 for c in cases if c["version"])
    # informational: the exported functions and methods of package cli in the current source, and those among them that the
    # harness never calls (a declaration method added to the library would be listed here until the harness learns it)
    try:
        import re as _re
        rc_, out_ = core.sh("go run ./srcscan %s" % core.REPO, cwd=os.path.join(core.VERIF, "tools"), env=core.GOENV, check=False)
        api = json.loads(out_).get("api", []) if rc_ == 0 else []
        hsrc = open(os.path.join(core.HARNESS, "main.go")).read()
        uncalled = [a for a in api if not _re.search((r"\.%s\(" % a.split(".")[-1]) if "." in a else (r"cli\.%s\(" % a), hsrc)]
        ctx.notes.append("exported API of package cli in the current source: %d functions and methods; not called by the harness: %s"
                         % (len(api), uncalled or "none"))
    except Exception as e_:     # never a reason to fail the check
        ctx.notes.append("exported API not listed: %r" % (e_,))
    ctx.stream("declaration sequences", 0, **stats)
    ctx.sample({"decls": ["f force", "o f"], "expected": "panic duplicate option name -f"})
    return ("random sequences of 1-6 declarations with option name lists drawn from a pool that forces collisions "
            "(within one list, across options, short and long) and argument names from arbitrary strings; the first "
            "offending declaration is computed from the property text")


CHECKS.update({"C04": check_C04, "C06": check_C06, "C07": check_C07, "C13": check_C13, "C14": check_C14,
               "C15": check_C15, "C16": check_C16, "C18": check_C18})
