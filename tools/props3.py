"""Checks C08 (spec grammar), C10/C11/C12 (metamorphic laws on the implementation), C17 (help),
C19 (custom values), C20 (determinism, independence)."""
import copy
import zlib
import itertools
import json
import os
import re
import subprocess

import core
import gen
from core import diff_obs
from props import ALL, accepted, correspond, number, CHECKS, spec_cases, run_both


# =======================================================================================
# C08: reference reading of the spec grammar (maximal munch lexer + recogniser)
# =======================================================================================

TOKEN_RE = [
    ("OpenSq", re.compile(r"\[")), ("CloseSq", re.compile(r"\]")), ("OpenPar", re.compile(r"\(")),
    ("ClosePar", re.compile(r"\)")), ("Choice", re.compile(r"\|")), ("Rep", re.compile(r"\.\.\.")),
    # (the marker ends like the other tokens: at a blank, a bracket, a parenthesis, a choice bar or the end -- the property
    # names `--` among the well-formed tokens without asking for a blank after it; until the repair D14 the lexer did, and so
    # did this table, copied from it)
    ("DblDash", re.compile(r"--(?=[ \t\[\]()|]|$)")),
    ("LongOpt", re.compile(r"--[A-Za-z0-9_][A-Za-z0-9_\-]*")),
    ("OptSeq", re.compile(r"-[A-Za-z]{2,}+(?!-)")),
    ("ShortOpt", re.compile(r"-[A-Za-z](?![A-Za-z\-])")),
    ("OptValue", re.compile(r"=<[^>]+>")),
    ("Arg", re.compile(r"[A-Z][A-Z0-9_]*")),
]


def ref_lex(s):
    """tokens [(type, text, pos)] or None"""
    pos, out = 0, []
    while pos < len(s):
        if s[pos] in " \t":
            pos += 1
            continue
        for typ, rx in TOKEN_RE:
            m = rx.match(s, pos)
            if m:
                text = m.group(0)
                if typ == "Arg" and text == "OPTIONS":
                    typ = "Options"
                out.append((typ, text, pos))
                pos = m.end()
                break
        else:
            return None
    return out


def ref_wellformed(toks, opts, args):
    """the EBNF of doc.go + =<..> after a single option + -- + declared names + no option after --"""
    st = {"i": 0, "dd": False}

    def peek():
        return toks[st["i"]][0] if st["i"] < len(toks) else None

    def seq(required):
        if required and not choice():
            return False
        while peek() in ("Arg", "Options", "ShortOpt", "LongOpt", "OptSeq", "OpenPar", "OpenSq", "DblDash"):
            if not choice():
                return False
        return True

    def choice():
        if not atom():
            return False
        while peek() == "Choice":
            st["i"] += 1
            if not atom():
                return False
        return True

    def atom():
        t = peek()
        if t is None:
            return False
        text = toks[st["i"]][1]
        if t == "Arg":
            if text not in args:
                return False
            st["i"] += 1
        elif t == "Options":
            if st["dd"]:
                return False
            st["i"] += 1
        elif t in ("ShortOpt", "LongOpt"):
            if st["dd"] or text not in opts:
                return False
            st["i"] += 1
            if peek() == "OptValue":
                st["i"] += 1
        elif t == "OptSeq":
            if st["dd"] or any(("-" + ch) not in opts for ch in text[1:]):
                return False
            st["i"] += 1
        elif t == "OpenPar":
            st["i"] += 1
            if not seq(True) or peek() != "ClosePar":
                return False
            st["i"] += 1
        elif t == "OpenSq":
            st["i"] += 1
            if not seq(True) or peek() != "CloseSq":
                return False
            st["i"] += 1
        elif t == "DblDash":
            st["dd"] = True
            st["i"] += 1
            return True
        else:
            return False
        if peek() == "Rep":
            st["i"] += 1
        return True

    return seq(False) and st["i"] == len(toks)


CLASS_CHARS = [" ", "\t", "[", "]", "(", ")", "|", ".", "-", "=", "<", ">", "a", "X", "0", "_"]
EXTRA_CHARS = ["@", "`", "{", "/", ":", "Z", "z", "A", "9", "\xe9", "O", "\\", "\n", "^", "~"]


def check_C08(ctx):
    rng = ctx.rng
    decls = [gen.mkopt("bool", "a", **{"def": ["false"]}), gen.mkopt("strings", "X0"), gen.mkopt("string", "aa", **{"def": [""]}),
             gen.mkarg("strings", "X"), gen.mkarg("strings", "X0"), gen.mkarg("strings", "XX")]
    opts = {"-a", "--X0", "--aa"}
    args = {"X", "X0", "XX"}
    strings = []
    k = ctx.scale(4, 5)
    for n in range(0, k + 1):
        for t in itertools.product(CLASS_CHARS, repeat=n):
            strings.append("".join(t))
    exhaustive = len(strings)
    pieces = ["[", "]", "(", ")", "|", "...", " ", "-a", "-aa", "--", "-- ", "X", "XX", "OPTIONS", "--aa", "--X0", "=<v>", "-", ".",
              "=", "<", ">", "\t", "a", "-b", "--bb", "X0", "Y", "=<>", "=< >", "-a-", "--a-b", "..", "-aX", "--_x", "--0"]
    for _ in range(ctx.scale(20000, 200000)):
        n = rng.randint(1, 12)
        s = "".join(rng.choice(pieces) if rng.random() < 0.85 else rng.choice(CLASS_CHARS + EXTRA_CHARS) for _ in range(n))
        strings.append(s)
    # grammar-derived specs, intact and with one mutation
    for _ in range(ctx.scale(3000, 30000)):
        sp = gen.render_seq(gen.gen_spec(rng, decls, depth=rng.randint(1, 3)))
        strings.append(sp)
        if sp:
            i = rng.randrange(len(sp))
            mut = rng.choice(["del", "ins", "rep"])
            ch = rng.choice(CLASS_CHARS + EXTRA_CHARS)
            strings.append(sp[:i] + (sp[i + 1:] if mut == "del" else ch + sp[i:] if mut == "ins" else ch + sp[i + 1:]))
    # every byte value in every lexical position (the byte classes of the lexer are tied to the model's by their values on
    # all 256 bytes -- Tie 2 --; these strings turn a difference there into a concrete spec)
    for b_ in range(256):
        ch = chr(b_)
        for tpl in ("%s", "-%s", "--%s", "--a%s", "--%sa", "--aa%s", "-a%s", "X%s", "%sX", "-a=<%s>", "-a %s X", "--aa%s=<v>", "[-a]%s"):
            strings.append(tpl % ch)
    strings = list(dict.fromkeys(strings))
    lex_cases = [{"op": "lex", "spec": s} for s in strings]
    comp_cases = [{"op": "compile", "decls": decls, "spec": s, "env": {}} for s in strings]
    cases = lex_cases + comp_cases
    impl, model = run_both(ctx, cases)
    stats = {"lex_ok": 0, "lex_err": 0, "compile_ok": 0, "compile_err": 0, "graphs_compared": 0, "big_states": 0, "messages_differ": 0}
    for c in lex_cases:
        s = c["spec"]
        ctx.count(c)
        a, b = impl[c["id"]], model[c["id"]]
        ref = ref_lex(s)
        if a.get("ok"):
            stats["lex_ok"] += 1
            toks = [(t["t"], t["v"], t["p"]) for t in a["tokens"]]
            mt = [(x[0], x[1], int(x[2])) for x in b[1]] if b[0] == "ok" else None
            if mt != toks:
                ctx.mismatch("lexer: tokens differ", case=c, impl=toks, model=b)
            # every non-blank character belongs to exactly one token, reported faithfully
            pos = 0
            okp = True
            for typ, val, p in toks:
                text = "-" + val if typ == "OptSeq" else val
                if p < pos or s[p:p + len(text)] != text or any(ch not in " \t" for ch in s[pos:p]):
                    okp = False
                pos = p + len(text)
            if any(ch not in " \t" for ch in s[pos:]):
                okp = False
            if not okp:
                ctx.violation("partition", "spec %r: tokens %r do not partition the non-blank characters" % (s, toks), case=c)
            want = None if ref is None else [(t, (v[1:] if t == "OptSeq" else v), p) for t, v, p in ref]
            if want != toks:
                ctx.violation("lexer", "spec %r: tokens %r, the token grammar gives %r" % (s, toks, want), case=c)
        else:
            stats["lex_err"] += 1
            if b[0] != "err" or int(b[2]) != a.get("pos"):
                ctx.mismatch("lexer: errors differ", case=c, impl=a, model=b)
            elif b[1] != a.get("msg"):
                stats["messages_differ"] += 1
            if ref is not None:
                ctx.violation("lexer", "spec %r is rejected by the lexer (%s) but is made of valid tokens %r" % (s, a.get("msg"), ref), case=c)
            if not (0 <= a.get("pos", -1) <= len(s)):
                ctx.violation("position", "spec %r: lexer error position %r outside the string" % (s, a.get("pos")), case=c)
    for c in comp_cases:
        s = c["spec"]
        ctx.count(c)
        a, b = impl[c["id"]], model[c["id"]]
        ref = ref_lex(s)
        wf = ref is not None and ref_wellformed(ref, opts, args)
        if a.get("outcome") in ("timeout", "died", "stackoverflow"):
            ctx.violation("liveness", "compiling %r: %s" % (s, a.get("outcome")), case=c)
            continue
        if a.get("ok"):
            stats["compile_ok"] += 1
            if not wf:
                ctx.violation("grammar", "spec %r compiles but is not well-formed per the grammar" % s, case=c)
            if b[0] != "ok":
                ctx.mismatch("compile: the model rejects", case=c, impl="ok", model=b)
                continue
            start, states = int(b[2][0]), b[2][1]
            mg = core.canon_graph_model(start, states)
            ig = [{"term": st["term"], "tr": [list(e) for e in st["tr"]]} for st in a["graph"]]
            if any(len(st["tr"]) > 12 for st in ig):
                stats["big_states"] += 1      # sort.Sort is only stable up to 12 elements (Q9)
                continue
            stats["graphs_compared"] += 1
            if mg != ig:
                ctx.mismatch("compile: automata differ", case=c, impl=ig, model=mg)
        else:
            stats["compile_err"] += 1
            if wf:
                ctx.violation("grammar", "spec %r is well-formed but rejected: %s" % (s, a.get("msg")), case=c)
            if "pos" in a and not (0 <= a["pos"] <= len(s)):
                ctx.violation("position", "spec %r: error position %r outside the string" % (s, a["pos"]), case=c)
            if b[0] != "err" or int(b[2]) != a.get("pos"):
                ctx.mismatch("compile: errors differ", case=c, impl={"msg": a.get("msg"), "pos": a.get("pos")}, model=b)
            elif b[1] != a.get("msg"):
                stats["messages_differ"] += 1
    # a spec error makes Run panic before anything runs
    bad = [s for s in strings[exhaustive:exhaustive + 400]]
    runs = []
    for s in bad:
        root = gen.mkcmd("app", decls=decls, spec=s, policy=0, before={"k": "ret"}, after={"k": "ret"})
        runs.append({"op": "run", "env": {}, "version": None, "root": root, "argv": ["x"]})
        # the spec is compiled before anything else is looked at: a version or a help request does not get past an ill-formed spec
        if rng.random() < 0.5:
            runs.append({"op": "run", "env": {}, "version": {"name": "V version", "text": "v1", "last": rng.random() < 0.5},
                         "root": copy.deepcopy(root), "argv": [rng.choice(["-V", "--version"])] + rng.choice([[], ["x"]])})
            runs.append({"op": "run", "env": {}, "version": None, "root": copy.deepcopy(root), "argv": [rng.choice(["-h", "--help"])]})
    # ... also when the spec error sits in a sub-command: it is compiled when Run descends into it, when help
    # descends through it, and when the help of its parent is printed (after a rejection of the parent too)
    sub_decls = [gen.mkopt("bool", "a", **{"def": ["false"]}), gen.mkarg("strings", "X")]
    for s in bad[:ctx.scale(60, 400)]:
        for root_spec, root_decls in (("", []), ("[-a]", [gen.mkopt("bool", "a", **{"def": ["false"]})])):
            for where in (0, 1):
                good = gen.mkcmd("ok", decls=copy.deepcopy(sub_decls), spec="[-a] X...", before={"k": "ret"}, after={"k": "ret"})
                broken = gen.mkcmd("sub s", decls=copy.deepcopy(sub_decls), spec=s, before={"k": "ret"}, after={"k": "ret"},
                                   hidden=rng.random() < 0.5)
                subs = [good, broken] if where else [broken, good]
                for pol in (0, 1, 2):
                    for argv in ([], ["-h"], ["sub"], ["s", "x"], ["sub", "-h"], ["sub", "--", "-h"], ["ok", "x"], ["ok"], ["ok", "-h"],
                                 ["nosuch"], ["-a", "sub", "x"], ["-z"], ["--", "sub"]):
                        root = gen.mkcmd("app", decls=copy.deepcopy(root_decls), spec=root_spec, policy=pol, subs=copy.deepcopy(subs),
                                         before={"k": "ret"}, after={"k": "ret"},
                                         action={"k": "ret"} if rng.random() < 0.5 else None)
                        # the sub-command with the ill-formed spec is compiled on every one of these lines except
                        # when the root's own Action runs (nothing given) and when its sibling "ok" is addressed
                        must = not (argv == [] and root["action"]) and not (argv and argv[0] == "ok")
                        runs.append({"op": "run", "env": {}, "version": None, "root": root, "argv": argv, "_must_panic": must, "_sub_spec": s})
    res = correspond(ctx, runs, ["outcome", "trace", "stderr"], "Run on specs")
    npanic = 0
    for c in runs:
        a, _ = res[c["id"]]
        if a["outcome"][0] == "panic" and str(a["outcome"][1]).startswith("parse:"):
            npanic += 1
        if a["outcome"][0] == "panic" and a["trace"]:
            ctx.violation("panic-before-hooks", "spec %r: callbacks ran before the panic: %r" % (c["root"]["spec"], a["trace"]), case=c)
        mb = res[c["id"]][1]
        if mb["outcome"][0] == "panic" and str(mb["outcome"][1]).startswith("parse:") and not c["root"]["subs"] and \
                not (a["outcome"][0] == "panic" and str(a["outcome"][1]).startswith("parse:")) and a["outcome"][0] != "timeout":
            ctx.violation("panic-before-hooks", "the root's spec %r is ill-formed, yet Run(%r) does not panic with the spec error: it ends %r and writes %r"
                          % (c["root"]["spec"], c["argv"], a["outcome"], a["stderr"][:1]), case=c)
        if c.get("_must_panic") and ref_lex(c["_sub_spec"]) is None and not (a["outcome"][0] == "panic" and str(a["outcome"][1]).startswith("parse:")):
            ctx.violation("panic-before-hooks", "sub-command %r (hidden: %r) has the ill-formed spec %r and is compiled by %r, but Run did not panic with "
                          "the spec error: %r" % ("sub", [x["hidden"] for x in c["root"]["subs"] if x["name"] == "sub s"][0], c["_sub_spec"], c["argv"], a["outcome"]), case=c)
    ctx.stream("Run on specs", 0, spec_panics=npanic)
    # a spec is compiled on every Run: a string assigned to the Spec field of an application that has already been run
    # (with another, well-formed, spec) is lexed, parsed and checked like the first one
    again = []
    pool = strings[exhaustive:]
    for s in [pool[i] for i in rng.sample(range(len(pool)), min(len(pool), ctx.scale(600, 6000)))]:
        first_spec, first_argv = rng.choice([("", ["x", "y", "z"]), ("[-a] X...", ["x"]), ("[-a] X...", []), ("[OPTIONS] [X...]", ["-a"])])
        root = gen.mkcmd("app", decls=decls, spec=s, policy=0, before={"k": "ret"}, after={"k": "ret"})
        again.append({"op": "run", "env": {}, "version": None, "root": root, "argv": rng.choice([["x"], [], ["-a", "x"], ["x", "y"]]),
                      "before": {"spec": first_spec, "argv": first_argv}})
    res2 = correspond(ctx, again, ["outcome", "trace"], "a new spec on an application that already ran")
    nagain = 0
    for c in again:
        a, b = res2[c["id"]]
        mp = b["outcome"][0] == "panic" and str(b["outcome"][1]).startswith("parse:")
        nagain += mp
        if mp and not (a["outcome"][0] == "panic" and str(a["outcome"][1]).startswith("parse:")):
            ctx.violation("recompile", "the ill-formed spec %r assigned to an application that had already run with spec %r was not "
                          "rejected: %r, callbacks %r" % (c["root"]["spec"], c["before"]["spec"], a["outcome"], a["trace"]), case=c)
    ctx.stream("a new spec on an application that already ran", 0, spec_panics=nagain)
    # informational: the wording of the error messages (no property speaks about it)
    if stats["messages_differ"]:
        ctx.notes.append("%d error messages are worded differently by the implementation and by the model (positions agree)" % stats["messages_differ"])
    if not os.path.exists(os.path.join(core.COQ, "TieMsg.vo")):
        ctx.notes.append("coq/TieMsg.v does not compile: a message or a matcher priority of the sources is no longer the model's (informational)")
    ctx.stream("strings", len(strings), exhaustive_up_to=k, exhaustive_strings=exhaustive, **stats)
    ctx.sample({"spec": "- X", "expected": "error at 1"})
    ctx.sample({"spec": "[-a] X...", "expected": "compiles"})
    return ("every string of length <= %d over 16 characters (one or two per lexer class), random concatenations of "
            "token-like pieces and boundary bytes, grammar-derived specs intact and with one character deleted, inserted or "
            "replaced; tokens, error message and position, and the compiled automaton (canonical numbering) compared with the "
            "model; well-formedness judged by an independent maximal-munch lexer and recogniser" % k)


# =======================================================================================
# C10 / C11: respelling and swapping occurrences
# =======================================================================================

def forms(d):
    names = gen.opt_names(d)
    s = [n for n in names if len(n) == 2]
    l = [n for n in names if len(n) > 2]
    out = []
    if gen.is_flag(d):
        if s:
            out += [("S", s[0]), ("S=", s[0])]
        if l:
            out += [("L", l[0]), ("L=", l[0])]
    else:
        if s:
            out += [("S_sep", s[0]), ("S_eq", s[0]), ("S_att", s[0])]
        if l:
            out += [("L_sep", l[0]), ("L_eq", l[0])]
    return out


def render_occ(form, name, v):
    if form in ("S", "L"):
        return [name]
    if form in ("S=", "L="):
        return [name + "=true"]
    if form in ("S_sep", "L_sep"):
        return [name, v]
    if form in ("S_eq", "L_eq"):
        return [name + "=" + v]
    return [name + v]


def render_line(items, choice, folds):
    """items: ("occ", d, v) | ("pos", t); choice[i] = (form, name); folds = set of i folded with i+1"""
    toks = []
    i = 0
    while i < len(items):
        it = items[i]
        if it[0] == "pos":
            toks.append(it[1])
            i += 1
            continue
        form, name = choice[i]
        if i in folds:
            letters = ""
            j = i
            while j in folds:
                letters += choice[j][1][1]
                j += 1
            f2, n2 = choice[j]
            if f2 == "S":
                toks.append("-" + letters + n2[1])
            elif f2 == "S_sep":
                toks += ["-" + letters + n2[1], items[j][2]]
            else:
                toks.append("-" + letters + n2[1] + items[j][2])
            i = j + 1
            continue
        toks += render_occ(form, name, it[2])
        i += 1
    return toks


def foldable(items, choice, i):
    """occurrence i (a flag in form S) can be folded with the next item"""
    if i + 1 >= len(items) or items[i][0] != "occ" or items[i + 1][0] != "occ":
        return False
    return choice[i][0] == "S" and choice[i + 1][0] in ("S", "S_sep", "S_att")


def item_lines(ctx, n, env_prob=0.0):
    """(decls, spec text, items) with occasional item-level mutations so that some lines are rejected"""
    rng = ctx.rng
    out = []
    while len(out) < n:
        decls = gen.declared_set(rng, observable=True, env_prob=env_prob)
        spec = gen.gen_spec(rng, decls, depth=rng.randint(1, 3), allow_dd=False)
        text = gen.render_seq(spec)
        opts = [d for d in decls if d["t"] == "opt"]
        for _ in range(3):
            items = [it for it in gen.sample_sentence(rng, spec, decls) if it[0] != "dd"]
            r = rng.random()
            if r < 0.15 and items:
                del items[rng.randrange(len(items))]
            elif r < 0.3 and opts:
                d = rng.choice(opts)
                items.insert(rng.randint(0, len(items)), ("occ", d, None if gen.is_flag(d) else rng.choice(gen.VALUES)))
            elif r < 0.4:
                items.insert(rng.randint(0, len(items)), ("pos", rng.choice(gen.POSITIONALS)))
            if any(it[0] == "occ" for it in items):
                out.append((decls, text, items))
    return out[:n]


def theorem_coverage(ctx, cases, groups, relation):
    """How many of the compared pairs fall under the hypotheses of the C10 / C11 theorems of PC10.v /
    PC11.v (no option called '-' or '=', no spec-level '--' in the automaton, both lines read cleanly,
    readings equal / differing by one swap of adjacent occurrences of different options). Evaluated
    by the extracted model (View.view, View.sane, View.no_dd_graph)."""
    qs = []
    for gi, (s, e) in enumerate(groups):
        c = cases[s]
        qs.append({"op": "views", "id": "v%d" % gi, "env": c.get("env", {}), "decls": c["root"]["decls"],
                   "spec": c["root"]["spec"], "argvs": [cases[j]["argv"] for j in range(s, e)]})
    sm = core.run_model(qs)
    st = {"pairs": 0, "under_theorem": 0, "not_sane": 0, "spec_dd": 0, "unreadable_or_q1": 0, "other_relation": 0}
    for gi, (s, e) in enumerate(groups):
        r = sm.get("v%d" % gi)
        n = e - s - 1
        st["pairs"] += n
        if not isinstance(r, list) or r[0] != "ok":
            st["other_relation"] += n
            continue
        _, sane, nodd, views = r[:4]
        if sane != "1":
            st["not_sane"] += n
            continue
        if nodd != "1":
            st["spec_dd"] += n
            continue
        for j in range(1, len(views)):
            if views[0] == "none" or views[j] == "none":
                st["unreadable_or_q1"] += 1
            elif relation(views[0], views[j]):
                st["under_theorem"] += 1
            else:
                st["other_relation"] += 1
    return st


def rel_same(u1, u2):
    return u1 == u2


def rel_swap(u1, u2):
    if u1 == u2:
        return True
    if len(u1) != len(u2):
        return False
    d = [i for i in range(len(u1)) if u1[i] != u2[i]]
    if len(d) != 2 or d[1] != d[0] + 1:
        return False
    i = d[0]
    a, b = u1[i], u1[i + 1]
    return (u2[i] == b and u2[i + 1] == a and a[0] == "o" and b[0] == "o" and a[1] != b[1]
            and all(x[0] != "dd" for x in u1[:i]))



def check_C10(ctx):
    rng = ctx.rng
    cases, groups = [], []
    for decls, text, items in item_lines(ctx, ctx.scale(1200, 12000), env_prob=0.3):
        env = {d["env"]: "ev" for d in decls if d.get("env") and rng.random() < 0.7}
        base_choice = {i: rng.choice(forms(it[1])) for i, it in enumerate(items) if it[0] == "occ"}
        variants = [(dict(base_choice), set())]
        # every single respelling
        for i, it in enumerate(items):
            if it[0] != "occ":
                continue
            for f in forms(it[1]):
                if f != base_choice[i]:
                    ch = dict(base_choice)
                    ch[i] = f
                    variants.append((ch, set()))
        # foldings: all-short spelling, random sets of fold links
        short = {}
        for i, it in enumerate(items):
            if it[0] == "occ":
                fs = forms(it[1])
                ss = [f for f in fs if f[0] in ("S", "S_sep", "S_att")]
                short[i] = rng.choice(ss) if ss else base_choice[i]
        cand = [i for i in range(len(items)) if foldable(items, short, i)]
        variants.append((dict(short), set()))
        for _ in range(3):
            fl = {i for i in cand if rng.random() < 0.6}
            variants.append((dict(short), fl))
        if cand:
            variants.append((dict(short), set(cand)))
        start = len(cases)
        seen = set()
        for ch, fl in variants:
            argv = render_line(items, ch, fl)
            if tuple(argv) in seen:
                continue
            seen.add(tuple(argv))
            root = gen.mkcmd("app", decls=copy.deepcopy(decls), spec=text, policy=0)
            cases.append({"op": "run", "env": env, "version": None, "root": root, "argv": argv})
        groups.append((start, len(cases)))
    # small scope: loops over single flags followed / preceded by other options; every way of folding each run of adjacent
    # flag occurrences into clusters, wherever the run stands on the line
    sdecls = [gen.mkopt("custom", "v", custom=dict(gen.CUSTOM_FLAG)), gen.mkopt("custom", "w", custom=dict(gen.CUSTOM_FLAG)),
              gen.mkopt("strings", "f file"), gen.mkarg("strings", "X")]

    def foldings(letters):
        """all ways of cutting a run of flag letters into clusters"""
        if not letters:
            return [[]]
        out = []
        for k in range(1, len(letters) + 1):
            for rest in foldings(letters[k:]):
                out.append(["-" + "".join(letters[:k])] + rest)
        return out
    for sp in ("-v... -f", "-f -v...", "(-v | -w)... -f", "-v... [-f] X", "[-f] -v... -w...", "-w -v... -f", "[OPTIONS]", "-v... -w... [X]"):
        for fsp in (["-f", "x"], ["--file=x"], ["-fx"], []):
            for run in (["v"], ["v", "v"], ["v", "v", "v"], ["v", "w", "v"], ["w", "v", "v"], ["v", "v", "v", "v"]):
                for order in (0, 1, 2):
                    start = len(cases)
                    seen = set()
                    for fo in foldings(run):
                        if order == 0:
                            argv = fo + fsp
                        elif order == 1:
                            argv = fsp + fo
                        else:
                            argv = fo[:1] + fsp + fo[1:]
                        if tuple(argv) in seen:
                            continue
                        seen.add(tuple(argv))
                        cases.append({"op": "run", "env": {}, "version": None, "root": gen.mkcmd("app", decls=copy.deepcopy(sdecls), spec=sp, policy=0),
                                      "argv": argv})
                    if order == 2:
                        # (moving the valued option between clusters is a swap, not a respelling: compare only among the
                        # foldings that keep the first occurrence in front of it) — one group per first-cluster length
                        by_first = {}
                        for c in cases[start:]:
                            by_first.setdefault(len(c["argv"][0]), []).append(c)
                        del cases[start:]
                        for grp in by_first.values():
                            s0 = len(cases)
                            cases.extend(grp)
                            if len(grp) > 1:
                                groups.append((s0, len(cases)))
                    elif len(cases) - start > 1:
                        groups.append((start, len(cases)))
    # the valued option folded onto the end of the run with its value in the NEXT token ("-vvf x"), in front of an option the
    # spec asks for first: every folding, the valued option separate, folded with a separate value, folded with the value
    # attached, in its long spelling
    for sp in ("[-w] [-v...] [-f]", "-w -v... -f", "[OPTIONS]", "[-w] (-v | -f)..."):
        for run in (["v"], ["v", "v"], ["v", "v", "v"]):
            for tail in ([], ["-w"]):
                start = len(cases)
                seen = set()
                for fo in foldings(run):
                    for argv in (fo + ["-f", "x"] + tail, fo[:-1] + [fo[-1] + "f", "x"] + tail, fo[:-1] + [fo[-1] + "fx"] + tail,
                                 fo + ["--file", "x"] + tail, fo + ["--file=x"] + tail):
                        if tuple(argv) in seen:
                            continue
                        seen.add(tuple(argv))
                        cases.append({"op": "run", "env": {}, "version": None, "root": gen.mkcmd("app", decls=copy.deepcopy(sdecls), spec=sp, policy=0),
                                      "argv": argv})
                groups.append((start, len(cases)))
    # a folded token behind (or in front of) many other option tokens, in every folding
    fdecl = [gen.mkopt("custom", "v", custom=dict(gen.CUSTOM_FLAG)), gen.mkopt("custom", "w", custom=dict(gen.CUSTOM_FLAG))]
    for sp in ("-v... -w...", "(-v | -w)...", "[-v...] -w..."):
        for k_ in (30, 70, 100):
            for front in (False, True):
                start = len(cases)
                for fo in foldings(["v", "v", "v"]):
                    line = (fo + ["-w"] * k_) if front else (["-w"] * k_ + fo)
                    cases.append({"op": "run", "env": {}, "version": None, "root": gen.mkcmd("app", decls=copy.deepcopy(fdecl), spec=sp, policy=0), "argv": line})
                groups.append((start, len(cases)))
    res = correspond(ctx, cases, ["outcome", "trace", "values"], "respellings")
    pairs = 0
    for s, e in groups:
        a0, _ = res[cases[s]["id"]]
        for j in range(s + 1, e):
            a1, _ = res[cases[j]["id"]]
            if "timeout" in (a0["outcome"][0], a1["outcome"][0]):
                ctx.timeouts += 1       # exponentially ambiguous spec on a rejected line: C03's business, not a difference
                continue
            pairs += 1
            if diff_obs(a0, a1, ["outcome", "trace", "values"]):
                ctx.violation("respell", "spec %r: %r and %r differ: %r %r vs %r %r" %
                              (cases[s]["root"]["spec"], cases[s]["argv"], cases[j]["argv"], a0["outcome"], a0["values"], a1["outcome"], a1["values"]),
                              case=cases[s], variant=cases[j])
    acc = sum(1 for s, e in groups if accepted(res[cases[s]["id"]][0]))
    cov = theorem_coverage(ctx, cases, groups, rel_same)
    ctx.stream("respellings", 0, lines=len(groups), pairs=pairs, accepted_lines=acc, rejected_lines=len(groups) - acc,
               theorem_C10_same_reading_same_parse=cov)
    ctx.sample({"spec": cases[0]["root"]["spec"], "base": cases[0]["argv"], "variant": cases[1]["argv"] if len(cases) > 1 else None})
    return ("command lines built from derivations of random --free specs (some with an occurrence or positional deleted or "
            "inserted, so that rejected lines are covered) x every single re-spelling of every occurrence x foldings of "
            "adjacent short options in random and maximal groupings; every variant compared with its base line on the "
            "implementation (acceptance and every bound string)")


def check_C11(ctx):
    rng = ctx.rng
    cases, groups = [], []
    for decls, text, items in item_lines(ctx, ctx.scale(2500, 25000), env_prob=0.3):
        env = {d["env"]: "ev" for d in decls if d.get("env") and rng.random() < 0.7}
        choice = {i: rng.choice(forms(it[1])) for i, it in enumerate(items) if it[0] == "occ"}
        variants = [items]
        for i in range(len(items) - 1):
            a, b = items[i], items[i + 1]
            if a[0] == "occ" and b[0] == "occ" and a[1]["name"] != b[1]["name"]:
                sw = list(items)
                sw[i], sw[i + 1] = sw[i + 1], sw[i]
                variants.append((sw, i))
        if len(variants) < 2:
            continue
        start = len(cases)
        for v in variants:
            if isinstance(v, tuple):
                its, i = v
                ch = dict(choice)
                ch[i], ch[i + 1] = choice[i + 1], choice[i]
            else:
                its, ch = v, choice
            # also exercise swaps inside a folded token
            folds = set()
            if rng.random() < 0.4:
                short = {}
                for k2, it in enumerate(its):
                    if it[0] == "occ":
                        ss = [f for f in forms(it[1]) if f[0] in ("S", "S_sep", "S_att")]
                        short[k2] = ss[0] if ss else ch[k2]
                ch = short
                folds = {k2 for k2 in range(len(its)) if foldable(its, ch, k2)}
            root = gen.mkcmd("app", decls=copy.deepcopy(decls), spec=text, policy=0)
            cases.append({"op": "run", "env": env, "version": None, "root": root, "argv": render_line(its, ch, folds)})
        groups.append((start, len(cases)))
    res = correspond(ctx, cases, ["outcome", "trace", "values"], "adjacent swaps")
    pairs = 0
    for s, e in groups:
        a0, _ = res[cases[s]["id"]]
        for j in range(s + 1, e):
            a1, _ = res[cases[j]["id"]]
            if "timeout" in (a0["outcome"][0], a1["outcome"][0]):
                ctx.timeouts += 1
                continue
            pairs += 1
            if diff_obs(a0, a1, ["outcome", "trace", "values"]):
                ctx.violation("swap", "spec %r: %r and %r differ: %r %r vs %r %r" %
                              (cases[s]["root"]["spec"], cases[s]["argv"], cases[j]["argv"], a0["outcome"], a0["values"], a1["outcome"], a1["values"]),
                              case=cases[s], variant=cases[j])
    # small scope: folded tokens with repeated letters, loops followed by an option that can only match after them;
    # two adjacent units naming disjoint sets of options are swapped (a composition of adjacent swaps of different options)
    sdecls = [gen.mkopt("custom", "a", custom=dict(gen.CUSTOM_FLAG)), gen.mkopt("custom", "b", custom=dict(gen.CUSTOM_FLAG)),
              gen.mkopt("custom", "c", custom=dict(gen.CUSTOM_FLAG)), gen.mkopt("strings", "o")]
    units = [(["-a"], "a"), (["-b"], "b"), (["-c"], "c"), (["-aa"], "a"), (["-aaa"], "a"), (["-ac"], "ac"), (["-ca"], "ac"),
             (["-acac"], "ac"), (["-cc"], "c"), (["-o", "v"], "o"), (["-ov"], "o"), (["-bb"], "b")]
    sspecs = ["-a... -b", "(-a|-c)... -b", "[-a...] [-b] [-c...]", "-b -a...", "(-a | -b | -c)...", "[-a | -c]... -b [-o]", "[OPTIONS]",
              "-a... -o", "(-a -c)... -b", "-b... -a...", "[-o] -a... -b"]
    small, sgroups = [], []
    lines_ = [ls for n in (2, 3) for ls in itertools.product(units, repeat=n)]
    lines_ = [ls for ls in lines_ if any(not set(ls[i][1]) & set(ls[i + 1][1]) for i in range(len(ls) - 1))]
    combos = [(sp, ls) for sp in sspecs for ls in lines_]
    if len(combos) > ctx.scale(2500, 25000):
        combos = rng.sample(combos, ctx.scale(2500, 25000))
    for sp, ls in combos:
        start = len(small)
        vs = [list(ls)]
        for i in range(len(ls) - 1):
            if not set(ls[i][1]) & set(ls[i + 1][1]):
                sw = list(ls)
                sw[i], sw[i + 1] = sw[i + 1], sw[i]
                vs.append(sw)
        for v in vs:
            small.append({"op": "run", "env": {}, "version": None, "root": gen.mkcmd("app", decls=copy.deepcopy(sdecls), spec=sp, policy=0),
                          "argv": [t for u in v for t in u[0]]})
        sgroups.append((start, len(small)))
    # flags folded in front of a valued option whose value is the NEXT token ("-co v"): the unit is two tokens long whichever
    # option the scan is looking for, also when the option the spec asks for first is written after it
    units2 = [(["-co", "v"], "co"), (["-ao", "v"], "ao"), (["-cov"], "co"), (["-aco", "v"], "aco"), (["-a"], "a"), (["-b"], "b"), (["-c"], "c"),
              (["-o", "w"], "o"), (["-bo=v"], "bo")]
    specs2 = ["[-a] [-c] [-o]", "[-a] [-b] [-c] [-o...]", "-a... [-c...] [-o...]", "[-b] (-a | -c)... [-o]", "[-o...] [-a...] [-c...] [-b]"]
    lines2 = [ls for n in (2, 3) for ls in itertools.product(units2, repeat=n)]
    lines2 = [ls for ls in lines2 if any(not set(ls[i][1]) & set(ls[i + 1][1]) for i in range(len(ls) - 1))]
    lines2 = [ls for ls in lines2 if len(ls) == 2] + rng.sample([ls for ls in lines2 if len(ls) == 3], ctx.scale(150, 600))
    for sp in specs2:
        for ls in lines2:
            start = len(small)
            vs = [list(ls)]
            for i in range(len(ls) - 1):
                if not set(ls[i][1]) & set(ls[i + 1][1]):
                    sw = list(ls)
                    sw[i], sw[i + 1] = sw[i + 1], sw[i]
                    vs.append(sw)
            for v in vs:
                small.append({"op": "run", "env": {}, "version": None, "root": gen.mkcmd("app", decls=copy.deepcopy(sdecls), spec=sp, policy=0),
                              "argv": [t for u in v for t in u[0]]})
            sgroups.append((start, len(small)))
    # long lines: the same families with 5 to 9 units, so that a folded token stands far from the head of the line
    for _ in range(ctx.scale(600, 6000)):
        sp = rng.choice(sspecs + ["-b... -o...", "-o... -a...", "(-a | -o)... -b...", "[OPTIONS]"])
        ls = [rng.choice(units) for _ in range(rng.randint(5, 9))]
        # (a rejected line costs the backtracking search a time exponential in the number of occurrences of DIFFERENT
        # options under an explicit repeated choice: keep these lines below that)
        while sum(len(u[0][0]) - 1 if u[0][0].startswith("-") else 1 for u in ls) > 11 and len(ls) > 5:
            ls.pop(rng.randrange(len(ls)))
        idx = [i for i in range(len(ls) - 1) if not set(ls[i][1]) & set(ls[i + 1][1])]
        if not idx:
            continue
        start = len(small)
        vs = [list(ls)]
        for i in rng.sample(idx, min(3, len(idx))):
            sw = list(ls)
            sw[i], sw[i + 1] = sw[i + 1], sw[i]
            vs.append(sw)
        # and one far move: the last unit brought to the front when it shares no option with the others
        if all(not set(ls[-1][1]) & set(u[1]) for u in ls[:-1]):
            vs.append([ls[-1]] + ls[:-1])
        for v in vs:
            small.append({"op": "run", "env": {}, "version": None, "root": gen.mkcmd("app", decls=copy.deepcopy(sdecls), spec=sp, policy=0),
                          "argv": [t for u in v for t in u[0]]})
        sgroups.append((start, len(small)))
    # a folded token far from the head of the line: k two-token occurrences of -o before it, and the same cluster moved
    # to every other position between them
    for sp in ("-b... -o...", "-o... -b...", "(-b | -o)...", "[OPTIONS]", "-o... -b... [-a]"):
        for k in (3, 4, 5, 6):
            for cluster in (["-bb"], ["-bbb"], ["-b", "-bb"], ["-bab"] if "a" in sp or "OPTIONS" in sp else ["-bbbb"]):
                occs = [["-o", "v%d" % i] for i in range(k)]
                start = len(small)
                for pos in range(k, -1, -1):
                    line = [t for o_ in occs[:pos] for t in o_] + cluster + [t for o_ in occs[pos:] for t in o_]
                    small.append({"op": "run", "env": {}, "version": None, "root": gen.mkcmd("app", decls=copy.deepcopy(sdecls), spec=sp, policy=0),
                                  "argv": line})
                sgroups.append((start, len(small)))
    # long names that differ only in the middle (two long flags, clusters of ten letters): the search remembers failed
    # configurations in buckets found through a hash of the first and last bytes of the arguments, and must still tell apart
    # what the hash does not; the specs make it backtrack after input was consumed
    ldecls = [gen.mkopt("custom", "abcdXefgh", custom=dict(gen.CUSTOM_FLAG)), gen.mkopt("custom", "abcdYefgh", custom=dict(gen.CUSTOM_FLAG)),
              gen.mkopt("custom", "c", custom=dict(gen.CUSTOM_FLAG)), gen.mkopt("custom", "d", custom=dict(gen.CUSTOM_FLAG)),
              gen.mkopt("custom", "a", custom=dict(gen.CUSTOM_FLAG)), gen.mkopt("custom", "b", custom=dict(gen.CUSTOM_FLAG))]
    L1, L2 = "--abcdXefgh", "--abcdYefgh"
    ldecls += [gen.mkopt("custom", "include-srcs-files", custom=dict(gen.CUSTOM_FLAG)), gen.mkopt("custom", "include-docs-files", custom=dict(gen.CUSTOM_FLAG))]
    P_, Q_ = "--include-srcs-files", "--include-docs-files"
    lunits = [([L1], "1"), ([L2], "2"), (["-c"], "c"), (["-d"], "d"), (["-aaaaabaaaa"], "ab"), (["-aaaaaaaaaa"], "a"), (["-a"], "a"), (["-b"], "b"),
              ([P_], "P"), ([Q_], "Q"), (["-aaaaaaaaabaaaaaaaaaa"], "ab")]
    lspecs = ["(%s | %s) -d [%s] [-c]" % (L2, L1, L2), "(%s | %s) %s..." % (L1, L2, L1), "[%s] [%s] -c -d %s" % (L1, L2, L1),
              "(%s | %s | -c)... -d" % (L1, L2), "[%s | %s]... -c %s" % (L1, L2, L2), "(-a | -b) -a...", "(-a | -b)... -c", "[-a]... -b -a...",
              "(%s -c | %s) -d %s" % (L1, L2, L1), "(%s | %s) -b %s" % (P_, Q_, P_), "(%s | %s) -b [%s] [-c]" % (Q_, P_, Q_)]
    llines = [ls for n in (2, 3, 4) for ls in itertools.product(lunits, repeat=n)]
    lcombos = [(sp, ls) for sp in lspecs for ls in llines]
    if len(lcombos) > ctx.scale(3000, 30000):
        lcombos = rng.sample(lcombos, ctx.scale(3000, 30000))
    for sp, ls in lcombos:
        start = len(small)
        vs = [list(ls)]
        for i in range(len(ls) - 1):
            if not set(ls[i][1]) & set(ls[i + 1][1]):
                sw = list(ls)
                sw[i], sw[i + 1] = sw[i + 1], sw[i]
                vs.append(sw)
        for v in vs:
            small.append({"op": "run", "env": {}, "version": None, "root": gen.mkcmd("app", decls=copy.deepcopy(ldecls), spec=sp, policy=0),
                          "argv": [t for u in v for t in u[0]]})
        sgroups.append((start, len(small)))
    number(small, start=len(cases))
    res_s = correspond(ctx, small, ["outcome", "trace", "values"], "small scope: folded tokens and loops")
    spairs = 0
    for s_, e_ in sgroups:
        a0, _ = res_s[small[s_]["id"]]
        for j in range(s_ + 1, e_):
            a1, _ = res_s[small[j]["id"]]
            if "timeout" in (a0["outcome"][0], a1["outcome"][0]):
                ctx.timeouts += 1
                continue
            spairs += 1
            if diff_obs(a0, a1, ["outcome", "trace", "values"]):
                ctx.violation("swap", "spec %r: %r and %r differ: %r %r vs %r %r" %
                              (small[s_]["root"]["spec"], small[s_]["argv"], small[j]["argv"], a0["outcome"], a0["values"], a1["outcome"], a1["values"]),
                              case=small[s_], variant=small[j])
    ctx.stream("small scope: folded tokens and loops", 0, lines=len(sgroups), pairs=spairs)
    cov = theorem_coverage(ctx, cases, groups, rel_swap)
    ctx.stream("adjacent swaps", 0, lines=len(groups), pairs=pairs, theorem_C11_swapped_readings_same_parse=cov)
    ctx.sample({"spec": cases[0]["root"]["spec"], "base": cases[0]["argv"], "swapped": cases[1]["argv"] if len(cases) > 1 else None})
    return ("command lines as for C10 x every adjacent pair of occurrences of different options swapped (one- and "
            "two-token spellings, and letters inside a folded token); each compared with its base line on the implementation")


# =======================================================================================
# C12: environment only enlarges
# =======================================================================================

def check_C12(ctx):
    rng = ctx.rng
    cases, groups = [], []
    lines = item_lines(ctx, ctx.scale(1500, 15000), env_prob=0.7)
    for decls, text, items in lines:
        envd = [d for d in decls if d.get("env")]
        if not envd:
            continue
        written = sorted({it[1]["name"] for it in items if it[0] == "occ"})
        choice = {i: rng.choice(forms(it[1])) for i, it in enumerate(items) if it[0] == "occ"}
        argv = render_line(items, choice, set())
        if rng.random() < 0.3:
            argv = gen.mutate(rng, argv, decls)
            written = None
        subsets = []
        names = [d["env"] for d in envd]
        for r in range(0, len(names) + 1):
            subsets += list(itertools.combinations(names, r))
        start = len(cases)
        for sub in subsets[:8]:
            root = gen.mkcmd("app", decls=copy.deepcopy(decls), spec=text, policy=0)
            cases.append({"op": "run", "env": {n: "ev" for n in sub}, "version": None, "root": root, "argv": argv,
                          "_written": written})
        groups.append((start, len(cases)))
    # required single option satisfied by its env value; repeated env-backed option in a group
    d_e = gen.mkopt("strings", "e", env="VE_E", sbu=True)
    d_f = gen.mkopt("custom", "f", custom=dict(gen.CUSTOM_FLAG), env="VE_F", sbu=True)
    d_x = gen.mkarg("strings", "X", sbu=True)
    fixed = []
    for spec, argv in [("-e X", ["x"]), ("-e", []), ("[OPTIONS] X", ["-e", "a", "-e", "b", "x"]), ("-ef X", ["-e", "a", "-f", "-e", "b", "x"]),
                       ("(-e | -f)... X", ["-e", "1", "-e", "2", "-f", "x"]), ("-e... X", ["-e", "1", "-e", "2", "x"]),
                       ("[-e] [-f] X...", ["-f", "-e", "v", "x", "y"]), ("-f -e X", ["x"]), ("OPTIONS", ["-e=1", "-e=2", "-e=3"])]:
        start = len(cases)
        for env in ({}, {"VE_E": "v"}, {"VE_F": "true"}, {"VE_E": "v", "VE_F": "true"}):
            root = gen.mkcmd("app", decls=[copy.deepcopy(d_e), copy.deepcopy(d_f), copy.deepcopy(d_x)], spec=spec, policy=0)
            cases.append({"op": "run", "env": env, "version": None, "root": root, "argv": argv, "_written": None})
        groups.append((start, len(cases)))
        fixed.append(start)
    # small scope: required env-backed options listed before / after other options, lines with "--", every env subset;
    # acceptance and bound values judged by the reference semantics
    sd = [gen.mkopt("strings", "e", env="VE_E", sbu=True), gen.mkopt("custom", "f", custom=dict(gen.CUSTOM_FLAG), env="VE_F", sbu=True),
          gen.mkopt("custom", "a", custom=dict(gen.CUSTOM_FLAG), sbu=True), gen.mkopt("strings", "o", sbu=True), gen.mkarg("strings", "X", sbu=True)]
    sspecs = ["-e -a X", "-a -e X", "(-e | -a) X", "-e [-a] X...", "-e -o X", "-f -a X", "-a -f X", "-e -f -a [X]", "[-a] -e -f X...",
              "-e -a [-o] X", "(-e -a | -a -f) X", "-e... -a X", "-a -o -e X"]
    pieces = [["-a"], ["--"], ["x"], ["-e", "v"], ["-o", "w"], ["-ow"], ["-f"], ["-e=v"], ["y"]]
    small = []
    for sp in sspecs:
        for n in (1, 2, 3):
            for ps in itertools.product(pieces, repeat=n):
                av = [t for p_ in ps for t in p_]
                for env in ({}, {"VE_E": "ev"}, {"VE_F": "true"}, {"VE_E": "ev", "VE_F": "true"}):
                    small.append({"op": "run", "env": env, "version": None, "root": gen.mkcmd("app", decls=copy.deepcopy(sd), spec=sp, policy=0), "argv": av})
    if len(small) > ctx.scale(16000, 160000):
        small = rng.sample(small, ctx.scale(16000, 160000))
    number(small, start=len(cases))
    res_small = correspond(ctx, small, ["outcome", "trace", "values"], "small scope: required env-backed options and --")
    from props import judge_sentences
    st_small = judge_sentences(ctx, small, res_small, "C12")
    ctx.stream("small scope: required env-backed options and --", 0, **st_small)
    # a `--` written in the spec inside repetitions and choices next to environment-satisfied options: the option is satisfied
    # by its environment value again AFTER the `--` took effect (the same states are entered a second time)
    from props import dd_env_cases
    dde = dd_env_cases(ctx, ctx.scale(8000, 80000))
    number(dde, start=len(cases) + len(small))
    res_dde = correspond(ctx, dde, ["outcome", "trace", "values"], "a -- of the spec between environment-satisfied options")
    st_dde = judge_sentences(ctx, dde, res_dde, "C12")
    ctx.stream("a -- of the spec between environment-satisfied options", 0, **st_dde)
    # groups with environment-backed members on lines where the scan for a member STOPS at a token that another member
    # consumes later (folded tokens carrying '=', a dash in a cluster, a valued option spelled without value): D8
    gd8 = [gen.mkopt("strings", "o", env="VE_O", sbu=True), gen.mkopt("custom", "a", custom=dict(gen.CUSTOM_FLAG), env="VE_A", sbu=True),
           gen.mkopt("custom", "b", custom=dict(gen.CUSTOM_FLAG), sbu=True), gen.mkarg("strings", "X", sbu=True)]
    t8 = ["-aa=v", "-o=7", "-a", "-ab=1", "-o", "7", "-ba=x", "-ao=1", "-b", "-aab", "x", "-a=true", "-oa"]
    for sp in ("-oa", "[-oa]", "[OPTIONS]", "-oab [X]", "[-ab] [-o]", "(-o | -a | -b)...", "[-oa] X...", "[-ob]... [-a]"):
        lines8 = [list(t) for n in (1, 2, 3) for t in itertools.product(t8, repeat=n)]
        if len(lines8) > ctx.scale(300, 3000):
            lines8 = rng.sample(lines8, ctx.scale(300, 3000))
        for argv in lines8:
            start = len(cases)
            for env in ({}, {"VE_O": "ev"}, {"VE_A": "true"}, {"VE_O": "ev", "VE_A": "true"}):
                cases.append({"op": "run", "env": env, "version": None, "root": gen.mkcmd("app", decls=copy.deepcopy(gd8), spec=sp, policy=0),
                              "argv": argv, "_written": None})
            groups.append((start, len(cases)))
    res = correspond(ctx, cases, ["outcome", "trace", "values"], "env subsets")
    pairs = 0
    for s, e in groups:
        a0, _ = res[cases[s]["id"]]
        if a0["outcome"][0] in ("timeout",):
            continue
        for j in range(s + 1, e):
            a1, _ = res[cases[j]["id"]]
            pairs += 1
            if accepted(a0) and not accepted(a1):
                ctx.violation("monotone", "spec %r argv %r is accepted with env %r but rejected with env %r" %
                              (cases[s]["root"]["spec"], cases[s]["argv"], cases[s]["env"], cases[j]["env"]), case=cases[s], variant=cases[j])
            elif accepted(a0) and accepted(a1) and cases[s]["_written"] is not None:
                for nm in cases[s]["_written"]:
                    key = "app|" + nm

                    def bound(vals):
                        # an instrumented flag logs the declaration-time calls too: keep what follows the last Clear
                        if vals and "C" in vals:
                            return vals[len(vals) - vals[::-1].index("C"):]
                        return vals
                    if bound(a0["values"].get(key)) != bound(a1["values"].get(key)):
                        ctx.violation("values", "spec %r argv %r: option %r written on the line has value %r without and %r with env %r" %
                                      (cases[s]["root"]["spec"], cases[s]["argv"], nm, a0["values"].get(key), a1["values"].get(key), cases[j]["env"]),
                                      case=cases[s], variant=cases[j])
    # a required single option absent from the line is satisfied by its env value
    for s in fixed[:2]:
        a1, _ = res[cases[s + 1]["id"]]
        if not accepted(a1):
            ctx.violation("required", "spec %r argv %r with VE_E set is rejected" % (cases[s]["root"]["spec"], cases[s]["argv"]), case=cases[s + 1])
    # how many lines read cleanly (hypothesis of C12_env_only_enlarges; the reading ignores the environment)
    vq = [{"op": "views", "id": "v%d" % gi, "env": {}, "decls": cases[s]["root"]["decls"], "spec": cases[s]["root"]["spec"],
           "argvs": [cases[s]["argv"]]} for gi, (s, e) in enumerate(groups)]
    vm = core.run_model(vq)
    cov = {"lines": len(groups), "under_theorem": 0, "unreadable_or_q1": 0, "not_sane": 0}
    for gi in range(len(groups)):
        r = vm.get("v%d" % gi)
        if isinstance(r, list) and r[0] == "ok":
            if r[1] != "1":
                cov["not_sane"] += 1
            elif r[3][0] == "none":
                cov["unreadable_or_q1"] += 1
            else:
                cov["under_theorem"] += 1
    ctx.stream("env subsets", 0, lines=len(groups), pairs=pairs, theorem_C12_env_only_enlarges=cov)
    ctx.sample({"spec": "[OPTIONS] X", "argv": ["-e", "a", "-e", "b", "x"], "env": [{}, {"VE_E": "v"}]})
    return ("command lines of random --free specs whose options carry environment variables x every subset of those "
            "variables set (up to 8 subsets) compared with the empty environment on the implementation: acceptance is "
            "monotone and the options written on the line keep their values; plus fixed shapes (required option satisfied "
            "by its variable, an env-backed option repeated under OPTIONS / a folded group / a choice / a repetition)")


# =======================================================================================
# C17: help text
# =======================================================================================

DESCS = ["", "does things", "first line\nsecond line", "  padded  ", "with (parens) and $dollar", "tab\there",
         "100% sure\nuse %d or %s here\nand 50%", "rate in %\n", "\xc2\xa0", "\xc2\xa0nbsp padded\xe2\x80\x83"]


def expected_help(cmds, long, tbl):
    """the property text, as normalised lines"""
    c = cmds[-1]
    path = " ".join([cmds[0]["name"]] + [x["name"].split()[0] for x in cmds[1:]])
    opts = [d for d in c["decls"] if d["t"] == "opt"]
    args = [d for d in c["decls"] if d["t"] == "arg"]
    spec = core.go_trim_space(c["spec"])
    if not spec:
        spec = (("[OPTIONS] " if opts else "") + " ".join(a["name"] for a in args)).strip()
    lines = ["Usage: " + path + (" " + spec if spec else "") + (" COMMAND [arg...]" if c["subs"] else "")]
    desc = c["longdesc"] if (long and c["longdesc"]) else c["desc"]
    if desc:
        lines += desc.split("\n")

    def default_text(d):
        k, df = d["kind"], d["def"]
        if k == "bool":
            return "" if tbl[df[0]][2] == "false" else "true"
        if k == "string":
            return "" if df[0] == "" else '"%s"' % df[0].replace("\\", "\\\\").replace('"', '\\"')
        if k == "int":
            return tbl[df[0]][0]
        if k == "float":
            return tbl[df[0]][1]
        if not df:
            return ""
        if k == "strings":
            return "[" + ", ".join('"%s"' % x.replace("\\", "\\\\").replace('"', '\\"') for x in df) + "]"
        if k == "ints":
            return "[" + ", ".join(tbl[x][0] for x in df) + "]"
        return "[" + ", ".join(tbl[x][1] for x in df) + "]"

    def row(first, d):
        parts = [d["desc"]]
        ev = core.go_fields(d["env"])
        parts.append("(env " + ", ".join("$" + v for v in ev) + ")" if ev else "")
        dv = default_text(d)
        parts.append("(default %s)" % dv if (dv and not d["hide"]) else "")
        text = ""
        for p in parts:
            if core.go_trim_space(p) == "":
                continue
            text = (text + " " if text else "") + p
        ls = text.split("\n")
        out = ["  " + first + "\t" + core.go_trim_space(ls[0])]
        for l in ls[1:]:
            out.append("  \t" + core.go_trim_space(l))
        return out

    if args:
        lines.append("Arguments:")
        for d in args:
            lines += row(d["name"], d)
    if opts:
        lines.append("Options:")
        for d in opts:
            ns = gen.opt_names(d)
            s = [n for n in ns if len(n) == 2]
            l = [n for n in ns if len(n) > 2]
            first = (s[0] + ", " + l[0]) if (s and l) else (s[0] if s else ("    " + l[0] if l else ""))
            lines += row(first, d)
    vis = [s for s in c["subs"] if not s["hidden"]]
    if vis:
        lines.append("Commands:")
        for s in vis:
            lines += ("  " + ", ".join(s["name"].split()) + "\t" + s["desc"]).split("\n")
        lines.append("Run '%s COMMAND --help' for more information on a command." % path)
    return core.norm_stderr(lines)


def check_C17(ctx):
    rng = ctx.rng
    cases, meta, printed = [], [], []
    defs = {"bool": [["false"], ["true"]], "string": [[""], ["dflt"], ['q"uo\\te'], ["build-%d"], ["100%"]], "int": [["0"], ["-42"]], "float": [["0"], ["2.5"], ["1e21"], ["3.141592653589793"], ["1e-60"]],
            "strings": [[], ["a", "b c"], ["%s", "x%"]], "ints": [[], ["4", "5"], ["-9223372036854775808", "9223372036854775807"]],
            "floats": [[], ["0.5", "100000"], ["3.141592653589793", "1e-60"], ["1e300", "0.1234567891", "16777217"]]}
    floats = set()
    for k_ in range(ctx.scale(700, 7000)):
        big = k_ % 35 == 0        # a few commands with many options and many sub-commands
        def node(name, dep):
            decls = []
            onames = rng.sample(["a", "b all", "force f", "verbose", "o", "n num", "out", "long-name x", "p path",
                                 "q s", "t T tee", "u uu U", "w W"], rng.randint(0, 4) if not big else rng.randint(9, 13))
            used = set()
            for nm in onames:
                if any(x in used for x in nm.split()):
                    continue
                used.update(nm.split())
                k = rng.choice(list(defs))
                decls.append(gen.mkopt(k, nm, desc=rng.choice(DESCS), env=rng.choice(["", "", "E1", "E1 E2", " E3 ", "E1  E2", "E1\tE2", "E1 \n E2  E4", "\tE3", "E1\xc2\xa0E2", "E1\xe2\x80\x80E2\xe3\x80\x80"]),
                                       hide=rng.random() < 0.2, **{"def": list(rng.choice(defs[k]))}))
            for nm in rng.sample(["SRC", "DST", "X", "FILE_1"], rng.randint(0, 3)):
                k = rng.choice(list(defs))
                decls.append(gen.mkarg(k, nm, desc=rng.choice(DESCS), env=rng.choice(["", "", "EA", "EA  EB", "EA\tEB"]),
                                       hide=rng.random() < 0.2, **{"def": list(rng.choice(defs[k]))}))
            rng.shuffle(decls)
            c = gen.mkcmd(name, decls=decls, desc=rng.choice(DESCS[:4]), longdesc=rng.choice(["", "", "the long\ndescription"]),
                          hidden=rng.random() < 0.2, policy=0 if dep == 2 else None,
                          spec=rng.choice(["", "", " [OPTIONS] "]) if not decls else "")
            if dep > 0:
                c["subs"] = [node(n, dep - 1) for n in rng.sample(gen.ALIAS_POOL, rng.randint(0, 3) if not big else rng.randint(6, len(gen.ALIAS_POOL)))]
            return c
        root = node("app", 2)
        # a random command of the tree
        cmds, path = [root], []
        cur = root
        while cur["subs"] and rng.random() < 0.6:
            cur = rng.choice(cur["subs"])
            path.append(rng.choice(cur["name"].split()))
            cmds.append(cur)
        env = {}
        if rng.random() < 0.4:
            env = {"E1": "1", "EA": "2"}       # the default shown stays the declared one
        # "the help of any command": also when it is printed a second time by the same application. Only for
        # trees whose sub-commands declare nothing: a sub-command's initialiser runs again at every Run and
        # would declare its variables -- and its own sub-commands, which then appear twice in its help -- a second time
        # (Q10, outside every property: C20 speaks of rebuilt applications)
        def bare(c):
            return all(not s["decls"] and not s["subs"] for s in c["subs"])
        cases.append({"op": "run", "env": env, "version": None, "root": root, "argv": path + [rng.choice(["-h", "--help"])],
                      "repeat": 2 if bare(root) and rng.random() < 0.5 else 1})
        meta.append((cmds, True))
        # the same help printed by the command's own Action through the public methods PrintHelp / PrintLongHelp: every
        # command on the path is given a spec that accepts the empty line, the addressed one an Action that prints
        if rng.random() < 0.35:
            root2 = copy.deepcopy(root)
            cmds2, cur2 = [root2], root2
            for t in path:
                cur2 = [x for x in cur2["subs"] if t in x["name"].split()][0]
                cmds2.append(cur2)
            for c2 in cmds2:
                o2 = [d for d in c2["decls"] if d["t"] == "opt"]
                a2 = [d for d in c2["decls"] if d["t"] == "arg"]
                c2["spec"] = (("[OPTIONS] " if o2 else "") + " ".join("[%s]" % x["name"] for x in a2)).strip()
            kind = rng.choice(["help", "longhelp"])
            cmds2[-1]["action"] = {"k": kind}
            printed.append(({"op": "run", "env": env, "version": None, "root": root2, "argv": list(path)}, cmds2, kind == "longhelp"))
        for d in core.all_decls(root):
            if d["kind"] in ("float", "floats"):
                floats.update(d["def"])
            if d["kind"] in ("int", "ints", "bool"):
                floats.update(d["def"])
    # hidden and visible sub-commands in every order, help printed twice by the same application
    for _ in range(ctx.scale(60, 600)):
        names = rng.sample(gen.ALIAS_POOL, rng.randint(2, 4))
        subs = [gen.mkcmd(n, hidden=rng.random() < 0.5, desc="d " + n.split()[0]) for n in names]
        for sc in subs:
            sc["action"] = {"k": "ret"}
        root = gen.mkcmd("app", decls=[], subs=subs, policy=0)
        cases.append({"op": "run", "env": {}, "version": None, "root": root, "argv": [rng.choice(["-h", "--help"])], "repeat": 2})
        meta.append(([root], True))
    res = correspond(ctx, cases, ["outcome", "trace", "stderr"], "declaration trees, long help")
    tbl = core.oracle(floats | {"true", "false"})
    for c, (cmds, long) in zip(cases, meta):
        a, _ = res[c["id"]]
        want = expected_help(cmds, long, tbl)
        if a["stderr"] != want:
            # non-parsable defaults in env do not matter; report the first differing line
            k = next((i for i, (x, y) in enumerate(zip(a["stderr"], want)) if x != y), min(len(a["stderr"]), len(want)))
            ctx.violation("help", "help of %r differs at line %d: got %r, expected %r" %
                          (" ".join(x["name"].split()[0] for x in cmds), k, a["stderr"][k:k + 1], want[k:k + 1]), case=c)
    ctx.stream("declaration trees, long help", 0)
    # a spec with `=<text>` annotations (the only place of a spec where any character may stand): the usage line shows the spec
    # as it was written, a `%` included
    ann = []
    for sp in ("[-q] [--ratio=<0-100%>] FILE", "-r=<%d%%> FILE...", "[--ratio=<50%s>] [FILE]", "--ratio=<100%> -q=<%v> FILE"):
        adecl = [gen.mkopt("bool", "q", **{"def": ["false"]}), gen.mkopt("string", "r ratio", **{"def": [""]}), gen.mkarg("strings", "FILE")]
        if "-q=<" in sp:
            adecl[0] = gen.mkopt("string", "q", **{"def": [""]})
        for argv in (["--help"], ["-h"], ["--nope"], []):
            for pol in (0, 2):
                ann.append(({"op": "run", "env": {}, "version": None, "argv": argv,
                             "root": gen.mkcmd("app", decls=copy.deepcopy(adecl), spec=sp, policy=pol, action={"k": "ret"})}, sp))
    number([a_[0] for a_ in ann], start=len(cases) + 100000)
    ares = correspond(ctx, [a_[0] for a_ in ann], ["outcome", "trace", "stderr"], "annotated specs in the usage line")
    for c_, sp in ann:
        a, _ = ares[c_["id"]]
        ul = [l for l in a["stderr"] if l.startswith("Usage: ")]
        if a["stderr"] and (not ul or ul[0] != "Usage: app " + sp):
            ctx.violation("help", "spec %r, line %r: the usage line is %r" % (sp, c_["argv"], ul[:1]), case=c_)
    # help and version printed by a callback through PrintHelp(), PrintLongHelp(), PrintVersion()
    pcases = [p_[0] for p_ in printed]
    for text in ("v9", "1.0\nsecond line"):
        for pol in (0, 1, 2):
            pcases.append({"op": "run", "env": {}, "version": {"name": "V version", "text": text}, "argv": [],
                           "root": gen.mkcmd("app", decls=[], policy=pol, action={"k": "version"}), "_version": text})
    number(pcases, start=len(cases))
    pres = correspond(ctx, pcases, ["outcome", "trace"], "help and version printed by a callback")
    for k_, c in enumerate(pcases):
        a, _ = pres[c["id"]]
        if "_version" in c:
            want, what = c["_version"].split("\n"), "PrintVersion()"
        else:
            want, what = expected_help(printed[k_][1], printed[k_][2], tbl), "PrintLongHelp()" if printed[k_][2] else "PrintHelp()"
        if a["stderr"] != want or a["outcome"] != ("ret", None) or not a["trace"]:
            k = next((i for i, (x, y) in enumerate(zip(a["stderr"], want)) if x != y), min(len(a["stderr"]), len(want)))
            ctx.violation("help", "%s called by the Action of %r: line %d is %r, expected %r (end %r, callbacks %r)" %
                          (what, c["argv"], k, a["stderr"][k:k + 1], want[k:k + 1], a["outcome"], a["trace"]), case=c)
    ctx.sample({"argv": cases[0]["argv"], "help": res[cases[0]["id"]][0]["stderr"][:6]})
    return ("random declaration trees (depth 2, options with short/long/both names, every built-in kind and default, "
            "environment lists, multi-line and padded descriptions, HideValue, Hidden, LongDesc) x --help on a random "
            "command; the whitespace-normalised text is compared with the model and with the rows the property lists; "
            "a third of the trees again with the addressed command's Action calling PrintHelp() or PrintLongHelp() "
            "itself, and PrintVersion() under the three policies")


# =======================================================================================
# C19: custom value protocol
# =======================================================================================

def expected_log(cu, env_vals, bound):
    """declaration-time SetFromEnv sequence, then the parse-time sequence; returns (log, ok)"""
    log = []
    for v in env_vals:
        if not v:
            continue
        if cu["clear"]:
            log.append("C")
            good = True
            for piece in v.split(","):
                p = core.go_trim_space(piece)
                log.append("S:" + p)
                if p.startswith("bad"):
                    log.append("C")
                    good = False
                    break
            if good:
                break
        else:
            log.append("S:" + v)
            if not v.startswith("bad"):
                break
    decl_len = len(log)
    ok = True
    if bound:
        if cu["clear"]:
            log.append("C")
        for t in bound:
            log.append("S:" + t)
            if t.startswith("bad"):
                ok = False
                break
    return log, ok, decl_len


def check_C19(ctx):
    rng = ctx.rng
    cases = []
    toks = ["v", "w", "bad1", "x y", "true", "7", "0", "1", "T", "FALSE", "t", "caf\xe9", "\xff\xfe"]
    envs = [None, "", "e1", "bad0", "e1, e2", "e1,bad2,e3"]
    combos = [(b, c, d, False) for b, c, d in itertools.product([False, True], repeat=3)]
    combos += [(True, c, d, True) for c, d in itertools.product([False, True], repeat=2)]   # IsBoolFlag() present, answers false
    # the value is a Go map with value receivers (not comparable: it cannot be the key of a map)
    combos += [(False, c, False, "map") for c in (False, True)]
    for isbool, clear, isdef, boolfalse in combos:
        cu = {"isbool": isbool, "clear": clear, "isdef": isdef, "isdefval": rng.random() < 0.5}
        if boolfalse == "map":
            cu["mapkind"], boolfalse = True, False
        if boolfalse:
            cu["isboolfalse"] = True
        flag = isbool and not boolfalse
        for isopt in (True, False):
            for env_vals in itertools.product(envs, repeat=2):
                for n in (0, 1, 2, 3):
                    for rep in range(ctx.scale(1, 4)):
                        bound = [rng.choice(toks) for _ in range(n)]
                        d = (gen.mkopt if isopt else gen.mkarg)("custom", "x val" if isopt else "ARG", custom=dict(cu),
                                                                 env="V0 V1", sbu=True)
                        if isopt:
                            argv, real = [], []
                            for t in bound:
                                if flag and rng.random() < 0.4:
                                    argv.append(rng.choice(["-x", "--val"]))
                                    real.append("true")
                                elif not flag and rng.random() < 0.5:
                                    # a valued option: separate and attached spellings too
                                    argv += rng.choice([["-x", t], ["--val", t], ["-x" + t]])
                                    real.append(t)
                                else:
                                    argv.append(rng.choice(["-x=" + t, "--val=" + t]))
                                    real.append(t)
                            bound = real
                            spec = "[-x...]"
                        else:
                            argv, spec = list(bound), "[ARG...]"
                        env = {k: v for k, v in zip(["V0", "V1"], env_vals) if v is not None}
                        root = gen.mkcmd("app", decls=[d], spec=spec, policy=0)
                        cases.append({"op": "run", "env": env, "version": None, "root": root, "argv": argv,
                                      "_cu": cu, "_env": list(env_vals), "_bound": bound})
    # in company: the custom type next to a flag and an argument, in specs where OTHER matchers have to step over its
    # occurrences; only a type whose IsBoolFlag() answers true is stepped over as one token
    company = []
    for isbool, boolfalse in ((False, False), (True, False), (True, True), (False, "map")):
        cu = {"isbool": isbool, "clear": True, "isdef": False, "isdefval": False}
        if boolfalse == "map":
            cu["mapkind"], boolfalse = True, False
        if boolfalse:
            cu["isboolfalse"] = True
        flag = isbool and not boolfalse
        decls = [gen.mkopt("custom", "a all", custom=dict(gen.CUSTOM_FLAG)), gen.mkopt("custom", "l level", custom=dict(cu)),
                 gen.mkarg("strings", "ARG")]
        occ_l = [["-l"], ["--level"], ["-l=true"]] if flag else [["-l", "3"], ["-l3"], ["-l=3"], ["--level", "3"], ["--level=3"], ["-l", "a"]]
        pieces = occ_l + [["-a"], ["--all"], ["v"], ["-la"], ["-al"], ["-la", "v"], ["-al", "v"], ["-al3"], ["-aal"], ["-l", "-a"]]
        for sp in ("-a -l", "[-a] -l [ARG]", "[-a] [-l] [ARG...]", "(-a | -l)... [ARG]", "-l [-a] ARG", "[-l] -a...", "[-al] [ARG...]",
                   "-l... -a", "[OPTIONS] [ARG...]"):
            for n in (1, 2, 3):
                for ps in itertools.product(pieces, repeat=n):
                    company.append((cu, decls, sp, [t for p_ in ps for t in p_]))
    if len(company) > ctx.scale(6000, 60000):
        company = rng.sample(company, ctx.scale(6000, 60000))
    comp_cases = [{"op": "run", "env": {}, "version": None, "root": gen.mkcmd("app", decls=copy.deepcopy(d_), spec=sp, policy=0), "argv": av}
                  for cu, d_, sp, av in company]
    number(comp_cases, start=len(cases))
    res_c = correspond(ctx, comp_cases, ["outcome", "trace", "values", "logs"], "custom type in company")
    from props import judge_sentences
    st_c = judge_sentences(ctx, comp_cases, res_c, "C19")
    ctx.stream("custom type in company", 0, **st_c)
    # the same types declared through the positional API (cmd.VarOpt / cmd.VarArg), which knows no environment,
    # no SetByUser and no HideValue
    for isbool, clear, isdef, boolfalse in combos:
        cu = {"isbool": isbool, "clear": clear, "isdef": isdef, "isdefval": rng.random() < 0.5}
        if boolfalse == "map":
            cu["mapkind"], boolfalse = True, False
        if boolfalse:
            cu["isboolfalse"] = True
        flag = isbool and not boolfalse
        for isopt in (True, False):
            for n in (0, 1, 2, 3):
                for rep in range(ctx.scale(2, 6)):
                    bound = [rng.choice(toks) for _ in range(n)]
                    d = (gen.mkopt if isopt else gen.mkarg)("custom", "x val" if isopt else "ARG", custom=dict(cu), conv=True)
                    if isopt:
                        argv, real = [], []
                        for t in bound:
                            if flag and rng.random() < 0.4:
                                argv.append(rng.choice(["-x", "--val"]))
                                real.append("true")
                            elif not flag and rng.random() < 0.5:
                                argv += rng.choice([["-x", t], ["--val", t], ["-x" + t]])
                                real.append(t)
                            else:
                                argv.append(rng.choice(["-x=" + t, "--val=" + t]))
                                real.append(t)
                        bound = real
                        spec = "[-x...]"
                    else:
                        argv, spec = list(bound), "[ARG...]"
                    root = gen.mkcmd("app", decls=[d], spec=spec, policy=0)
                    cases.append({"op": "run", "env": {}, "version": None, "root": root, "argv": argv,
                                  "_cu": cu, "_env": [None, None], "_bound": bound})
    res = correspond(ctx, cases, ["outcome", "trace", "values", "logs", "sbu"], "custom types x env x command lines")
    stats = {"accepted": 0, "set_error": 0}
    for c in cases:
        a, _ = res[c["id"]]
        key = "app|" + c["root"]["decls"][0]["name"]
        log, ok, decl_len = expected_log(c["_cu"], c["_env"], c["_bound"])
        if ok:
            stats["accepted"] += 1
            if not accepted(a) or a["values"].get(key) != log:
                ctx.violation("protocol", "custom %r env %r bound %r: call log %r (%r), expected %r" %
                              (c["_cu"], c["_env"], c["_bound"], a["values"].get(key), a["outcome"], log), case=c)
        else:
            stats["set_error"] += 1
            if a["outcome"] != ("ret", "conv") or a["trace"]:
                ctx.violation("protocol", "custom %r bound %r: a Set error must be a usage error; got %r" % (c["_cu"], c["_bound"], a["outcome"]), case=c)
    ctx.stream("custom types x env x command lines", 0, **stats)
    ctx.sample({"custom": {"isbool": True, "clear": True}, "env": ["e1, e2", None], "argv": ["-x", "--val=w"],
                "expected_log": ["C", "S:e1", "S:e2", "C", "S:true", "S:w"]})
    return ("the 8 combinations of the optional methods (IsBoolFlag, Clear, IsDefault), a value whose IsBoolFlag() answers "
            "false and a value of map kind with value receivers (not comparable) x option/argument x two environment "
            "variables over {unset, empty, valid, failing, list, list with a failing piece} x 0-3 command-line tokens (bare "
            "flag spelling when IsBoolFlag); the recorded call log is compared verbatim with the documented protocol")


# =======================================================================================
# C20: determinism, independence
# =======================================================================================

PKG_VARS_EXPECTED = {"exiter", "stdOut", "stdErr", "errHelpRequested", "errVersionRequested"}


def package_state(ctx):
    """package-level variables of the non-test sources and the places that assign them, from /repo now"""
    rc, out = core.sh("go run ./srcscan %s" % core.REPO, cwd=os.path.join(core.VERIF, "tools"), env=core.GOENV, check=False)
    if rc != 0:
        ctx.violation("srcscan", "tools/srcscan failed: " + out[-800:])
        return None
    return json.loads(out)


def check_C20(ctx):
    rng = ctx.rng
    base = spec_cases(ctx, ctx.scale(600, 6000), observable=True, env_prob=0.0, mutate_prob=0.3)
    import props2
    for _ in range(ctx.scale(200, 2000)):
        root, path, per_level, cmds = props2.tree_invocation(ctx, rng.randint(1, 3), 3, reject_prob=0.3, simple_hooks=False)
        root["policy"] = rng.choice([0, 1, 2])
        base.append({"op": "run", "env": {}, "version": None, "root": root, "argv": props2.flat_argv(path, per_level)})
    # applications whose multi-valued defaults are the same slice objects process-wide (a program keeping its defaults in
    # package-level variables): one application is given values, another none, in every order and concurrently
    shared_defaults = []
    for kind, dflt, vals in (("strings", ["d1", "d2", "d3"], ["p", "q", "r", "s"]), ("ints", ["4", "5", "6"], ["1", "2", "3", "7"]),
                             ("floats", ["1.5", "2.5", "3.5"], ["9", "8", "7", "6"])):
        for isopt in (True, False):
            key = "G:%s%d" % (kind, isopt)
            # (no environment here: under op "conc" the process environment is common to the concurrent applications)
            for n in (0, 1, 2, 4, 0, 3, 0, 1):
                d = (gen.mkopt if isopt else gen.mkarg)(kind, "f ff" if isopt else "ARG", defshare=key, sbu=True, **{"def": list(dflt)})
                argv = [t for v in vals[:n] for t in ("-f", v)] if isopt else vals[:n]
                root = gen.mkcmd("app", decls=[d], spec="[-f...]" if isopt else "[ARG...]", policy=0)
                shared_defaults.append({"op": "run", "env": {}, "version": None, "root": root, "argv": argv})
    base = shared_defaults + base
    number(base)
    # (1) sequential, three different orders, one process per shard: outcomes must not depend on history
    runs = []
    order = list(base)
    for k in range(3):
        res = core.run_impl(order)
        runs.append({c["id"]: core.obs_impl(res[c["id"]]) for c in base})
        rng.shuffle(order)
    fields = ["outcome", "trace", "values", "sbu", "stderr"]
    for c in base:
        ctx.count(c)
        for k in (1, 2):
            d = diff_obs(runs[0][c["id"]], runs[k][c["id"]], fields)
            if d:
                ctx.violation("determinism", "argv %r: run %d differs from run 0 on %s" % (c["argv"], k, d), case=c,
                              first={x: runs[0][c["id"]][x] for x in d}, other={x: runs[k][c["id"]][x] for x in d})
                break
    model = core.run_model(base)
    for c in base:
        b = core.obs_model(model[c["id"]])
        a = runs[0][c["id"]]
        if a["outcome"][0] == "timeout" or b["outcome"][0] == "model-error":
            continue
        d = diff_obs(a, b, ["outcome", "trace", "values"])
        if d:
            ctx.mismatch("Impl and model differ on %s" % ",".join(d), case=c, impl={k: a[k] for k in d}, model={k: b[k] for k in d})
    # (1b) the same application run twice on the same command line: the second run gives what the first gave
    rerun = []
    for c in base:
        if c["root"]["subs"] or c.get("env"):
            continue
        c2 = copy.deepcopy(c)
        c2["repeat"] = 2
        rerun.append(c2)
    for _ in range(ctx.scale(150, 1500)):
        # commands without options rely on the synthesised spec; sub-commands without declarations and help
        decls = [gen.mkarg("strings", n) for n in rng.sample(["SRC", "DST", "X"], rng.randint(1, 3))]
        subs = [gen.mkcmd(n, hidden=rng.random() < 0.4, desc="d " + n.split()[0]) for n in rng.sample(gen.ALIAS_POOL, rng.randint(0, 3))]
        root = gen.mkcmd("app", decls=decls if not subs else [], subs=subs, policy=0)
        argv = rng.choice([["--help"], ["a", "b"], ["a"], [], ["x", "y", "z"]])
        rerun.append({"op": "run", "env": {}, "version": None, "root": root, "argv": argv, "repeat": 2})
    number(rerun, start=len(base))
    once = copy.deepcopy(rerun)
    for c in once:
        c["repeat"] = 1
    r2 = core.run_impl(rerun)
    r1 = core.run_impl(once)
    for c in rerun:
        ctx.count(c)
        a2, a1 = core.obs_impl(r2[c["id"]]), core.obs_impl(r1[c["id"]])
        # an instrumented value logs the calls of both runs: keep what follows its last Clear
        customs = {"app|" + d["name"] for d in c["root"]["decls"] if d["kind"] == "custom"}
        for o in (a1, a2):
            for k in customs:
                v = o["values"].get(k)
                if v and "C" in v:
                    o["values"][k] = v[len(v) - v[::-1].index("C"):]
        d = diff_obs(a1, a2, ["outcome", "trace", "values", "stderr"])
        if d:
            ctx.violation("rerun", "spec %r argv %r: the second run of the same application differs from the first on %s: %r vs %r"
                          % (c["root"]["spec"], c["argv"], d, {x: a1[x] for x in d}, {x: a2[x] for x in d}), case=c)
    ctx.stream("same application run twice", len(rerun))
    # (1c) two declarations bound to the same Go variable (the ...Ptr forms), or two values that both fail to parse: what
    # is left in the variable, and the error reported, must be the same however often the program is rebuilt and rerun
    # (the library keeps the parsed values in Go maps, whose iteration order is random) -- implementation only, no model
    shared_dest = []
    for kind, v1, v2 in (("int", "1", "2"), ("string", "p", "q"), ("strings", "p", "q")):
        for shape in ("oo", "oa", "aa", "ooa"):
            decls, argvs = [], []
            names_o, names_a = ["a aa", "b bb", "c"], ["SRC", "DST"]
            no = shape.count("o")
            for k in range(no):
                decls.append(gen.mkopt(kind, names_o[k], destshare="d"))
            for k in range(len(shape) - no):
                decls.append(gen.mkarg(kind, names_a[k], destshare="d"))
            spec = " ".join(["-" + n.split()[0] for n in names_o[:no]] + names_a[:len(shape) - no])
            line = []
            for k in range(no):
                line += ["-" + names_o[k].split()[0], [v1, v2, "r"][k]]
            line += [[v2, v1][k] for k in range(len(shape) - no)]
            argvs.append(line)
            if no == 2 and len(shape) == 2:
                argvs.append(line[2:] + line[:2])
            for argv in argvs:
                shared_dest.append({"op": "run", "env": {}, "version": None, "argv": argv,
                                    "root": gen.mkcmd("app", decls=copy.deepcopy(decls), spec=spec, policy=0)})
        # two options whose names differ only in case
        decls = [gen.mkopt(kind, "v", destshare="d"), gen.mkopt(kind, "V", destshare="d")]
        for argv in (["-v", v1, "-V", v2], ["-V", v1, "-v", v2]):
            shared_dest.append({"op": "run", "env": {}, "version": None, "argv": argv,
                                "root": gen.mkcmd("app", decls=copy.deepcopy(decls), spec="-v -V", policy=0)})
        # an option and an argument may carry the same name (-N and N)
        decls = [gen.mkopt(kind, "N", destshare="d"), gen.mkarg(kind, "N", destshare="d")]
        shared_dest.append({"op": "run", "env": {}, "version": None, "argv": ["-N", v1, v2],
                            "root": gen.mkcmd("app", decls=decls, spec="-N N", policy=0)})
    for n_bad, letters in ((2, "abc"), (3, "abc"), (2, "pPq"), (3, "xXy"), (3, "Bab")):
        names = list(letters)[:n_bad]
        decls = [gen.mkopt("int", n) for n in names] + [gen.mkarg("int", "N")]
        for with_arg in (False, True):
            argv = [t for k, n in enumerate(names) for t in ("-" + n, "x%d" % k)] + (["y"] if with_arg else [])
            spec = " ".join("-" + n for n in names) + (" N" if with_arg else " [N]")
            shared_dest.append({"op": "run", "env": {}, "version": None, "argv": argv,
                                "root": gen.mkcmd("app", decls=copy.deepcopy(decls), spec=spec, policy=0)})
    copies = []
    for c in shared_dest:
        for k in range(ctx.scale(10, 40)):
            copies.append(copy.deepcopy(c))
    number(copies, start=len(base) + len(rerun))
    rs = core.run_impl(copies)
    per = ctx.scale(10, 40)
    for i, c in enumerate(shared_dest):
        group = copies[i * per:(i + 1) * per]
        ctx.count(c)
        first = core.obs_impl(rs[group[0]["id"]])
        for g in group[1:]:
            o = core.obs_impl(rs[g["id"]])
            d = diff_obs(first, o, ["outcome", "trace", "values", "stderr"])
            if d:
                ctx.violation("determinism", "spec %r argv %r: the same program rebuilt and rerun differs on %s: %r vs %r"
                              % (c["root"]["spec"], c["argv"], d, {x: first[x] for x in d}, {x: o[x] for x in d}), case=g)
                break
    ctx.stream("shared destinations and several invalid values, rebuilt and rerun", len(copies), programs=len(shared_dest))
    # (1d) one application OBJECT given two lines in turn, environment-backed options included: the second parse starts from
    # the containers as the first left them (values, SetByUser, ValueSetFromEnv cleared where the line gave a value). The
    # model of that (Cmd.fsm_parse_twice, about which RerunProofs proves C20_rerun_same_line and the refutation Q12) is tied
    # to the library here: verdict and bound values of the second run
    two = spec_cases(ctx, ctx.scale(1500, 15000), observable=False, env_prob=0.5, mutate_prob=0.3)
    # (in two fifths of the programs the valued options are numeric, so that many lines end in a conversion error and the
    # next line meets containers that were only partly filled: the model of that is Cmd.fsm_parse_state)
    for k_, c_ in enumerate(two):
        if zlib.crc32(c_["root"]["spec"].encode("latin-1", "replace")) % 5 < 2:
            for d_ in c_["root"]["decls"]:
                if d_["t"] == "opt" and d_["kind"] in ("string", "strings"):
                    d_["kind"] = {"string": "int", "strings": "ints"}[d_["kind"]]
                    d_["def"] = ["0"] if d_["kind"] == "int" else []
            c_["env"] = {k2: "7" for k2 in c_["env"]}
    pairs2 = []
    for k_ in range(1, len(two)):
        if two[k_]["root"]["spec"] == two[k_ - 1]["root"]["spec"] and not any(d["kind"] == "custom" for d in two[k_]["root"]["decls"]):
            c2 = copy.deepcopy(two[k_])
            c2["before"] = {"spec": c2["root"]["spec"], "argv": list(two[k_ - 1]["argv"]) if rng.random() < 0.6 else list(c2["argv"])}
            pairs2.append(c2)
    number(pairs2, start=len(base) + len(rerun) + len(copies))
    ri = core.run_impl(pairs2)
    mq = []
    for c in pairs2:
        q = dict(c)
        q["op"] = "rerun"
        mq.append(q)
    rm = core.run_model(mq)
    n_two = {"accept": 0, "usage": 0, "conv": 0, "unknown": 0, "same_line": 0}
    for c in pairs2:
        ctx.count(c)
        a = core.obs_impl(ri[c["id"]])
        m = rm[c["id"]]
        first_conv = False
        if not isinstance(m, list) or not m or m[0] in ("unknown", "initerr", "fuel", "model-timeout") or a["outcome"][0] == "timeout":
            n_two["unknown"] += 1
            continue
        verdict = "accept" if accepted(a) else {("ret", "usage"): "usage", ("ret", "conv"): "conv"}.get(tuple(a["outcome"]), str(a["outcome"]))
        n_two[m[0]] = n_two.get(m[0], 0) + 1
        n_two["same_line"] += c["before"]["argv"] == c["argv"]
        if verdict != m[0]:
            ctx.mismatch("second run of one object: Impl %s, model %s" % (verdict, m[0]), case=c, impl={"outcome": a["outcome"]}, model={"verdict": m[0]})
        elif verdict == "accept":
            mv = {key: vals for key, vals, sb, isc in m[1]}
            if mv != a["values"]:
                ctx.mismatch("second run of one object: bound values differ", case=c, impl={"values": a["values"]}, model={"values": mv})
    ctx.stream("one object, two lines in turn", len(pairs2), **n_two)
    # (2) concurrent under the race detector
    binary = os.path.join(core.HARNESS, "harness_race")
    groups = [base[i:i + 12] for i in range(0, len(base), 12)]
    groups = groups[:ctx.scale(60, 600)]
    reqs = [{"op": "conc", "id": i, "cases": g, "rounds": 2} for i, g in enumerate(groups)]
    races = 0
    conc_cases = 0

    def run_chunk(chunk):
        data = "".join(json.dumps(r) + "\n" for r in chunk)
        p = subprocess.run([binary], input=data, stdout=subprocess.PIPE, stderr=subprocess.PIPE, text=True,
                           env=dict(os.environ, GORACE="halt_on_error=0", VERIF_CASE_TIMEOUT_MS="60000"))
        return p

    from concurrent.futures import ThreadPoolExecutor
    chunks = [reqs[i::8] for i in range(8)]
    with ThreadPoolExecutor(8) as ex:
        outs = list(ex.map(run_chunk, chunks))
    for chunk, p in zip(chunks, outs):
        if "DATA RACE" in p.stderr:
            races += 1
            ctx.violation("race", "the race detector reports a data race between concurrently built and run applications:\n"
                          + p.stderr[:3000], cases=[c["argv"] for c in chunk[0]["cases"]][:3])
        lines = [json.loads(l) for l in p.stdout.split("\n") if l.startswith("{")]
        byid = {o.get("id"): o for o in lines}
        for r in chunk:
            o = byid.get(r["id"])
            if not o or "obs" not in o:
                ctx.violation("concurrency", "the concurrent run of group %d produced no result: %s" % (r["id"], p.stderr[-500:]))
                continue
            for rnd in o["obs"]:
                for c, ob in zip(r["cases"], rnd):
                    conc_cases += 1
                    got = core.obs_impl(ob)
                    want = runs[0][c["id"]]
                    if want["outcome"][0] == "timeout":
                        continue
                    d = diff_obs(got, want, ["outcome", "trace", "values", "sbu"])
                    if d:
                        ctx.violation("independence", "argv %r run concurrently differs from its sequential run on %s: %r vs %r"
                                      % (c["argv"], d, {x: got[x] for x in d}, {x: want[x] for x in d}), case=c)
    # (3) the shared store, from the current source
    st = package_state(ctx)
    if st is not None:
        names = {v["name"] for v in st["vars"]}
        new = names - PKG_VARS_EXPECTED - {v["name"] for v in st["vars"] if v.get("const_like")}
        writes = [w for w in st["writes"] if not w["file"].endswith("verif_hooks.go")]
        if new:
            ctx.violation("shared-state", "new package-level variables in the library: %s (the non-interference theorem assumes "
                          "the shared store listed in coq/Generated.v)" % sorted(new), vars=st["vars"])
        if writes:
            ctx.violation("shared-state", "package-level variables are assigned outside tests/hooks: %r" % writes[:5])
        ctx.notes.append("package-level state: vars=%s writes=%d" % (sorted(names), len(writes)))
    ctx.stream("sequential orders", len(base) * 3)
    ctx.stream("concurrent under -race", conc_cases, groups=len(groups), race_reports=races)
    ctx.sample({"argv": base[0]["argv"], "spec": base[0]["root"]["spec"]})
    return ("applications from the C01 and C04 generators, each built and run three times in three orders within shared "
            "processes, then in groups of 12 goroutines released together (2 rounds) under the race detector; every outcome "
            "compared with the first sequential run and with the model; package-level variables and their assignments are "
            "re-derived from the current source")


CHECKS.update({"C08": check_C08, "C10": check_C10, "C11": check_C11, "C12": check_C12, "C17": check_C17,
               "C19": check_C19, "C20": check_C20})
