"""Generators: declared sets, spec ASTs, command lines (sentences + mutations), command trees.
Every random choice comes from the rng handed in, so a run replays from VERIF_SEED."""
import itertools

# ----------------------------------------------------------------------------------------
# declarations
# ----------------------------------------------------------------------------------------

def mkopt(kind, name, **kw):
    d = {"t": "opt", "kind": kind, "name": name, "desc": "", "env": "", "hide": False, "def": [],
         "sbu": False, "ptr": False}
    d.update(kw)
    return d


def mkarg(kind, name, **kw):
    d = mkopt(kind, name, **kw)
    d["t"] = "arg"
    return d


CUSTOM_FLAG = {"isbool": True, "clear": True, "isdef": False, "isdefval": False}
CUSTOM_MULTI = {"isbool": False, "clear": True, "isdef": False, "isdefval": False}


def opt_names(d):
    return [("-" if len(n) == 1 else "--") + n for n in d["name"].split()]


def is_flag(d):
    return d["kind"] == "bool" or (d["kind"] == "custom" and d["custom"]["isbool"] and not d["custom"].get("isboolfalse"))


def declared_set(rng, observable=False, env_prob=0.0, nopts=None, nargs=None):
    """a random declared set: flags, valued options (short, long, both), arguments.
    observable=True: every variable records exactly the strings bound to it (custom flags,
    strings options and arguments), so that bindings can be compared."""
    pool_flags = ["a", "b all", "c", "force f", "verbose"]
    pool_val = ["o", "n num", "out", "p path", "x"]
    nopts = rng.randint(1, 4) if nopts is None else nopts
    nargs = rng.randint(1, 3) if nargs is None else nargs
    decls = []
    fl = rng.sample(pool_flags, min(len(pool_flags), nopts))
    vl = rng.sample(pool_val, min(len(pool_val), nopts))
    used = set()
    for i in range(nopts):
        isf = rng.random() < 0.5
        name = (fl if isf else vl)[i]
        if any(n in used for n in name.split()):
            continue
        used.update(name.split())
        env = ""
        if rng.random() < env_prob:
            env = "VE_" + name.split()[0].upper()
        if isf:
            if observable:
                decls.append(mkopt("custom", name, custom=dict(CUSTOM_FLAG), env=env, sbu=True))
            else:
                decls.append(mkopt("bool", name, env=env, **{"def": ["false"]}))
        elif rng.random() < 0.15:
            # a valued option of a user-defined type (it records the strings it is given); half of these types have
            # an IsBoolFlag() method that answers false, which still makes them valued options
            cu = dict(CUSTOM_MULTI)
            if rng.random() < 0.5:
                cu.update(isbool=True, isboolfalse=True)
            decls.append(mkopt("custom", name, custom=cu, env=env, sbu=True))
        else:
            decls.append(mkopt("strings" if observable or rng.random() < 0.5 else "string", name, env=env,
                               **{"def": [] if observable else ["d"]}))
            if decls[-1]["kind"] == "strings":
                decls[-1]["def"] = []
            decls[-1]["sbu"] = observable
    for n in ["SRC", "DST", "X"][:nargs]:
        decls.append(mkarg("strings", n, sbu=observable))
    return decls


# ----------------------------------------------------------------------------------------
# spec ASTs.  seq = [choice...]; choice = [ratom...]; ratom = (atom, rep)
# atom = ("arg", name) | ("opt", spelled) | ("grp", letters) | ("options",) | ("dd",)
#      | ("par", seq) | ("sq", seq)
# ----------------------------------------------------------------------------------------

def render_atom(a):
    k = a[0]
    if k == "arg":
        return a[1]
    if k == "opt":
        return a[1] + (a[2] if len(a) > 2 else "")
    if k == "grp":
        return "-" + a[1]
    if k == "options":
        return "OPTIONS"
    if k == "dd":
        return "--"
    if k == "par":
        return "(" + render_seq(a[1]) + ")"
    if k == "sq":
        return "[" + render_seq(a[1]) + "]"
    raise ValueError(a)


def render_seq(s):
    parts = []
    for ch in s:
        alts = []
        for (a, rep) in ch:
            alts.append(render_atom(a) + ("..." if rep else ""))
        parts.append(" | ".join(alts) if len(alts) > 1 else alts[0])
    out = " ".join(parts)
    # the lexer only sees "--" when a blank or the end follows
    return out.replace("--)", "-- )").replace("--]", "-- ]").replace("--|", "-- |")


def gen_spec(rng, decls, depth=3, allow_dd=True, size=None):
    opts = [d for d in decls if d["t"] == "opt"]
    args = [d for d in decls if d["t"] == "arg"]
    state = {"dd": False, "budget": rng.randint(2, 9)}

    def atom(dep):
        r = rng.random()
        state["budget"] -= 1
        if state["budget"] <= 0:
            dep = 0
        if dep > 0 and r < 0.18:
            return ("par", seq(dep - 1, 1, 2))
        if dep > 0 and r < 0.40:
            return ("sq", seq(dep - 1, 1, 2))
        if state["dd"] or not opts:
            r = 0.99 if r >= 0.40 else r
        if r < 0.62 and opts and not state["dd"]:
            d = rng.choice(opts)
            sp = rng.choice(opt_names(d))
            ann = "=<v>" if (not is_flag(d) and rng.random() < 0.2) else ""
            return ("opt", sp, ann)
        if r < 0.70 and opts and not state["dd"]:
            shorts = [n[1] for d in opts for n in opt_names(d) if len(n) == 2]
            if len(shorts) >= 2:
                k = rng.randint(2, min(3, len(shorts)))
                return ("grp", "".join(rng.sample(shorts, k)))
        if r < 0.76 and opts and not state["dd"]:
            return ("options",)
        if r < 0.80 and allow_dd and args:
            state["dd"] = True
            return ("dd",)
        if args:
            return ("arg", rng.choice(args)["name"])
        d = rng.choice(opts)
        return ("opt", rng.choice(opt_names(d)), "")

    def ratom(dep):
        a = atom(dep)
        rep = a[0] != "dd" and rng.random() < 0.3
        return (a, rep)

    def choice(dep):
        n = 1 if (rng.random() < 0.75 or state["budget"] <= 0) else rng.randint(2, 3)
        return [ratom(dep) for _ in range(n)]

    def seq(dep, lo, hi):
        n = rng.randint(lo, hi)
        if state["budget"] <= 0:
            n = min(n, max(lo, 1))
        return [choice(dep) for _ in range(n)]

    return seq(depth, 0 if rng.random() < 0.03 else 1, size or 4)


def small_specs(atoms, maxsize):
    """all spec ASTs with up to maxsize atoms over the given atom alphabet (exhaustive small scope)"""
    def seqs(n):
        # sequences of choices with total n atoms
        if n == 0:
            yield []
            return
        for k in range(1, n + 1):
            for ch in choices(k):
                for rest in seqs(n - k):
                    yield [ch] + rest

    def choices(n):
        # a choice with total n atoms: alternatives separated by |
        if n == 0:
            return
        for k in range(1, n + 1):
            for ra in ratoms(k):
                if k == n:
                    yield [ra]
                else:
                    for rest in choices(n - k):
                        yield [ra] + rest

    def ratoms(n):
        for a in atoms_of(n):
            yield (a, False)
            if a[0] != "dd":
                yield (a, True)

    def atoms_of(n):
        if n == 1:
            for a in atoms:
                yield a
        if n >= 2:
            for s in seqs(n - 1):
                if s:
                    yield ("par", s)
                    yield ("sq", s)

    for n in range(0, maxsize + 1):
        for s in seqs(n):
            yield s


def dd_ok(s, seen=None):
    """no option atom textually after a '--' (the parser refuses it)"""
    flat = []

    def walk(seq_):
        for ch in seq_:
            for (a, _) in ch:
                if a[0] in ("par", "sq"):
                    walk(a[1])
                else:
                    flat.append(a[0])
    walk(s)
    if "dd" in flat:
        i = flat.index("dd")
        return all(k in ("arg", "dd") for k in flat[i:])
    return True


# ----------------------------------------------------------------------------------------
# command lines
# ----------------------------------------------------------------------------------------

VALUES = ["v", "x1", "a=b", "w", "7", "val", "a,b", "k=1,2", ","]   # a comma is not a separator on the command line
POSITIONALS = ["p", "q", "file", "-", "x=y", "r", "p,q", "f,"]


def spell(rng, d, value=None, force=None):
    """one occurrence of option d as a token list"""
    names = opt_names(d)
    shorts = [n for n in names if len(n) == 2]
    longs = [n for n in names if len(n) > 2]
    if is_flag(d):
        forms = []
        if shorts:
            forms += [[shorts[0]], [shorts[0] + "=true"]]
        if longs:
            forms += [[longs[0]], [longs[0] + "=true"]]
        if not forms:
            return []       # an option declared without any name cannot be written
        return rng.choice(forms) if force is None else forms[force % len(forms)]
    v = value if value is not None else rng.choice(VALUES)
    forms = []
    if shorts:
        forms += [[shorts[0], v], [shorts[0] + "=" + v]]
        if not v.startswith("="):       # ("-x" + "=v" is the "=" spelling of the value "v")
            forms.append([shorts[0] + v])
    if longs:
        forms += [[longs[0], v], [longs[0] + "=" + v]]
    if not forms:
        return []
    return rng.choice(forms) if force is None else forms[force % len(forms)]


def all_spellings(d, value="v"):
    names = opt_names(d)
    shorts = [n for n in names if len(n) == 2]
    longs = [n for n in names if len(n) > 2]
    out = []
    if is_flag(d):
        for s in shorts:
            out += [[s], [s + "=true"]]
        for l in longs:
            out += [[l], [l + "=true"]]
    else:
        for s in shorts:
            out += [[s, value], [s + "=" + value], [s + value]]
        for l in longs:
            out += [[l, value], [l + "=" + value]]
    return out


def sample_sentence(rng, spec, decls, envset=()):
    """a random derivation of the spec as a list of items:
    ("occ", decl, value|None) | ("pos", token) | ("dd",)"""
    byname = {}
    for d in decls:
        if d["t"] == "opt":
            for n in opt_names(d):
                byname[n] = d
    opts = [d for d in decls if d["t"] == "opt"]
    out = []

    def occ(d):
        out.append(("occ", d, None if is_flag(d) else rng.choice(VALUES)))

    def atom(a):
        k = a[0]
        if k == "arg":
            out.append(("pos", rng.choice(POSITIONALS)))
        elif k == "opt":
            d = byname[a[1]]
            if d["name"] in envset and rng.random() < 0.5:
                return
            occ(d)
        elif k == "grp":
            ds = [byname["-" + c] for c in a[1]]
            for _ in range(rng.randint(1, 3)):
                occ(rng.choice(ds))
        elif k == "options":
            for _ in range(rng.randint(1, 3)):
                occ(rng.choice(opts))
        elif k == "dd":
            out.append(("dd",))
        elif k == "par":
            seq(a[1])
        elif k == "sq":
            if rng.random() < 0.6:
                seq(a[1])

    def seq(s):
        for ch in s:
            (a, rep) = rng.choice(ch)
            for _ in range(rng.randint(1, 3) if rep and len(out) < 10 else 1):
                atom(a)

    seq(spec)
    return out


def render_items(rng, items, shuffle=True, fold=True, dd_prob=0.15):
    """turn derivation items into tokens: commute within runs, fold short flags, maybe add '--'"""
    # split into runs
    runs, cur = [], []
    for it in items:
        if it[0] == "occ":
            cur.append(it)
        else:
            runs.append(("run", cur))
            cur = []
            runs.append(it)
    runs.append(("run", cur))
    toks = []
    after_dd = False
    for r in runs:
        if r[0] == "run":
            occs = list(r[1])
            if shuffle and len(occs) > 1 and rng.random() < 0.5:
                # keep the relative order of occurrences of one option
                keyed = {}
                for o in occs:
                    keyed.setdefault(o[1]["name"], []).append(o)
                order = [o[1]["name"] for o in occs]
                rng.shuffle(order)
                occs = [keyed[n].pop(0) for n in order]
            i = 0
            while i < len(occs):
                _, d, v = occs[i]
                names = opt_names(d)
                shorts = [n for n in names if len(n) == 2]
                if fold and shorts and is_flag(d) and rng.random() < 0.4:
                    # fold a block of short flags, possibly ending with a valued short option
                    letters = shorts[0][1]
                    j = i + 1
                    while j < len(occs) and rng.random() < 0.6:
                        d2 = occs[j][1]
                        s2 = [n for n in opt_names(d2) if len(n) == 2]
                        if not s2:
                            break
                        if is_flag(d2):
                            letters += s2[0][1]
                            j += 1
                        else:
                            v2 = occs[j][2]
                            if v2.startswith("=") or rng.random() < 0.5:
                                toks.append("-" + letters + s2[0][1])
                                toks.append(v2)
                            else:
                                if v2.startswith("="):
                                    break
                                toks.append("-" + letters + s2[0][1] + v2)
                            letters = None
                            j += 1
                            break
                    if letters is not None:
                        toks.append("-" + letters)
                    i = j
                    continue
                toks += spell(rng, d, v)
                i += 1
        elif r[0] == "pos":
            toks.append(r[1])
        elif r[0] == "dd":
            if rng.random() < 0.3 and not after_dd:
                toks.append("--")
                after_dd = True
    if not after_dd and rng.random() < dd_prob:
        # insert '--' somewhere in the trailing block of non-dash positionals
        k = len(toks)
        while k > 0 and not toks[k - 1].startswith("-"):
            k -= 1
        pos = rng.randint(k, len(toks))
        toks.insert(pos, "--")
    return toks


MUT_TOKENS = ["-", "--", "-z", "--zz=1", "--zz", "-z=5", "x", "-o=", "--out=", "-o", "-o -x", "-h2", "--=", "-=",
              "---", "-a-", "=", "-ab=v"]


def mutate(rng, toks, decls):
    toks = list(toks)
    opts = [d for d in decls if d["t"] == "opt" and opt_names(d)]     # (an option declared without a name cannot be written)
    kind = rng.choice(["del", "dup", "ins", "swap", "undecl", "occ", "pos", "q1", "emptyval", "novalue", "dashval", "dashletter", "nearname"])
    if kind == "del" and toks:
        del toks[rng.randrange(len(toks))]
    elif kind == "dup" and toks:
        i = rng.randrange(len(toks))
        toks.insert(i, toks[i])
    elif kind == "ins":
        t = rng.choice(MUT_TOKENS)
        i = rng.randint(0, len(toks))
        toks[i:i] = t.split(" ")
    elif kind == "swap" and len(toks) > 1:
        i = rng.randrange(len(toks) - 1)
        toks[i], toks[i + 1] = toks[i + 1], toks[i]
    elif kind == "undecl":
        toks.insert(rng.randint(0, len(toks)), rng.choice(["-z", "--zz", "-z=1", "--zz=1", "-za"]))
    elif kind == "occ" and opts:
        toks[rng.randint(0, len(toks)):0] = spell(rng, rng.choice(opts))
    elif kind == "pos":
        toks.insert(rng.randint(0, len(toks)), rng.choice(POSITIONALS))
    elif kind == "q1" and opts:
        fl = [n[1] for d in opts if is_flag(d) for n in opt_names(d) if len(n) == 2]
        al = [n[1] for d in opts for n in opt_names(d) if len(n) == 2]
        if fl and al:
            toks.insert(rng.randint(0, len(toks)), "-" + rng.choice(fl) + rng.choice(al) + "=v")
    elif kind == "dashletter" and opts:
        # a cluster with '-' as a letter: "-a-", "-a-b", "-ab-", "-a-long" (what is left after a flag is taken starts with "--")
        fl = [n[1] for d in opts if is_flag(d) for n in opt_names(d) if len(n) == 2]
        lg = [n[2:] for d in opts for n in opt_names(d) if len(n) > 2]
        if fl:
            t = "-" + "".join(rng.choice(fl) for _ in range(rng.randint(1, 2))) + "-" + rng.choice(["", "", rng.choice(fl)] + lg[:1])
            toks.insert(rng.randint(0, len(toks)), t)
    elif kind == "nearname" and opts:
        # a token that is ALMOST a declared name: other case, a proper prefix of a long name, a long name with one more
        # letter, a long name behind one dash, a short name behind two
        d = rng.choice(opts)
        n = rng.choice(opt_names(d))
        bare = n.lstrip("-")
        cands = [n[:len(n) - len(bare)] + bare.swapcase()]
        if len(bare) > 1:
            cands += ["--" + bare[:rng.randint(1, len(bare) - 1)], "--" + bare + "x", "-" + bare]
        else:
            cands += ["--" + bare]
        t = rng.choice(cands)
        declared = set(x for o in opts for x in opt_names(o))
        if t not in declared:
            if rng.random() < 0.3:
                t += "=" + rng.choice(["v", "true"])
            toks.insert(rng.randint(0, len(toks)), t)
    elif kind == "emptyval" and opts:
        d = rng.choice(opts)
        toks.insert(rng.randint(0, len(toks)), rng.choice(opt_names(d)) + "=")
    elif kind == "novalue" and opts:
        vs = [d for d in opts if not is_flag(d)]
        if vs:
            toks.append(rng.choice(opt_names(rng.choice(vs))))
    elif kind == "dashval" and opts:
        vs = [d for d in opts if not is_flag(d)]
        if vs:
            i = rng.randint(0, len(toks))
            toks[i:i] = [rng.choice(opt_names(rng.choice(vs))), rng.choice(["-x", "--", "-"])]
    return toks


def gen_argv(rng, spec, decls, envset=(), mutate_prob=0.45):
    items = sample_sentence(rng, spec, decls, envset)
    toks = render_items(rng, items)
    muts = 0
    while rng.random() < mutate_prob and muts < 3:
        toks = mutate(rng, toks, decls)
        muts += 1
    return toks, muts


def token_alphabet(decls):
    """every documented spelling for the declared options plus positionals and malformed tokens"""
    al = []
    for d in decls:
        if d["t"] != "opt":
            continue
        for n in opt_names(d):
            al.append(n)
            if is_flag(d):
                al.append(n + "=true")
            else:
                al.append(n + "=v")
                if len(n) == 2:
                    al.append(n + "w")
    shorts = [n[1] for d in decls if d["t"] == "opt" for n in opt_names(d) if len(n) == 2]
    for a, b in itertools.permutations(shorts, 2):
        al.append("-" + a + b)
    al += ["p", "q", "-", "--", "-z", "--zz=1", "v"]
    seen, out = set(), []
    for t in al:
        if t not in seen:
            seen.add(t)
            out.append(t)
    return out


# ----------------------------------------------------------------------------------------
# command trees
# ----------------------------------------------------------------------------------------

def mkcmd(name, **kw):
    c = {"name": name, "desc": "", "longdesc": "", "hidden": False, "spec": "", "policy": None, "decls": [],
         "before": None, "action": {"k": "ret"}, "after": None, "subs": []}
    c.update(kw)
    return c


def gen_hook(rng, absent=0.25):
    r = rng.random()
    if r < absent:
        return None
    if r < 0.6:
        return {"k": "ret"}
    if r < 0.8:
        # a third of the panics are genuine Go run-time errors (index out of range) rather than explicit panics
        # ... and a third panic with a value of a type that is not comparable (a slice)
        kind = rng.choice(["plain", "rt", "nc"])
        return {"k": "panic", "v": rng.randint(1, 9), "rt": kind == "rt", "nc": kind == "nc"}
    # any int is a legal exit status for cli.Exit: negative ones, and ones beyond a byte, too
    return {"k": "exit", "n": rng.choice([0, 1, 3, 7, 255, -1, -2, 256, -255, 2147483647, -2147483648])}


def hook_assignments(depth):
    """every assignment of {absent, returns, panics, exits, fails with a run-time error} to the 2*depth+1 callbacks of a path"""
    kinds = [None, {"k": "ret"}, {"k": "panic", "v": 5}, {"k": "exit", "n": 3}, {"k": "panic", "v": 6, "rt": True}]
    if depth <= 2:
        kinds.append({"k": "exit", "n": -1})      # a negative status (a sixth kind, for the short paths)
    n = 2 * depth + 1
    for combo in itertools.product(range(len(kinds)), repeat=n):
        yield [kinds[i] for i in combo]


def chain_tree(depth, hooks):
    """a path of [depth] commands app > c1 > c2 ...; hooks = befores + [action] + afters(leaf first)"""
    befores = hooks[:depth]
    action = hooks[depth]
    afters = hooks[depth + 1:]
    node = None
    for lvl in reversed(range(depth)):
        name = "app" if lvl == 0 else "c%d k%d" % (lvl, lvl)
        c = mkcmd(name, before=befores[lvl], after=afters[depth - 1 - lvl],
                  action=action if lvl == depth - 1 else {"k": "ret"})
        if node is not None:
            c["subs"] = [node]
        node = c
    argv = ["c%d" % l for l in range(1, depth)]
    return node, argv


ALIAS_POOL = ["run r", "build b bld", "test", "get g", "put", "ls list l", "rm del", "cfg",
              "show --show -s"]      # an alias may be spelled like an option: it still names the sub-command


def gen_tree(rng, depth, fanout, with_specs=True, hooks=True):
    """random command tree; returns root"""
    def node(name, dep):
        decls = declared_set(rng, nopts=rng.randint(0, 2), nargs=rng.randint(0, 2)) if with_specs else []
        # sub-command levels must not declare an arg-consuming spec that would swallow alias tokens:
        c = mkcmd(name, decls=decls, desc="desc of " + name.split()[0])
        if hooks:
            c["before"], c["after"] = gen_hook(rng), gen_hook(rng)
            c["action"] = gen_hook(rng, absent=0.1)
        if dep > 0:
            names = rng.sample(ALIAS_POOL, rng.randint(1, fanout))
            c["subs"] = [node(n, dep - 1) for n in names]
        return c
    return node("app", depth)
