"""Core of the correspondence machinery: builds, case encoding, running Impl (Go harness) and
M (extracted model), canonical observations, evidence and replay files."""
import fcntl
import hashlib
import json
import os
import random
import re
import subprocess
import sys
import time
from concurrent.futures import ThreadPoolExecutor

VERIF = os.path.dirname(os.path.dirname(os.path.abspath(__file__)))
COQ = os.path.join(VERIF, "coq")
OCAML = os.path.join(VERIF, "ocaml")
HARNESS = os.path.join(VERIF, "harness")
WORK = os.path.join(VERIF, "work")
REPO = os.environ.get("VERIF_REPO", "/repo")   # overridden only by tools/evalmut.py (scratch copies)
NCPU = 16

GOENV = dict(os.environ, GOFLAGS="-mod=mod", GOPROXY="off", GOSUMDB="off", GOTOOLCHAIN="local")


def log(*a):
    print(*a, file=sys.stderr, flush=True)


def sh(cmd, cwd=None, env=None, timeout=3600, check=True):
    p = subprocess.run(cmd, shell=True, cwd=cwd, env=env, timeout=timeout,
                       stdout=subprocess.PIPE, stderr=subprocess.STDOUT, text=True)
    if check and p.returncode != 0:
        raise BuildError(cmd, p.stdout)
    return p.returncode, p.stdout


class BuildError(Exception):
    def __init__(self, cmd, out):
        super().__init__("build failed: %s\n%s" % (cmd, out[-4000:]))
        self.cmd = cmd
        self.out = out


# ---------------------------------------------------------------------------------------
# builds
# ---------------------------------------------------------------------------------------

def _lock():
    os.makedirs(WORK, exist_ok=True)
    f = open(os.path.join(WORK, ".lock"), "w")
    fcntl.flock(f, fcntl.LOCK_EX)
    return f


def build_coq(clean=False):
    """Full .vo build of the development (no -vos). Returns the make output."""
    if clean:
        sh("rm -f *.vo *.vok *.vos *.glob .*.aux Makefile Makefile.conf .Makefile.d", cwd=COQ)
    regenerate_facts()
    if not os.path.exists(os.path.join(COQ, "Makefile")):
        sh("coq_makefile -f _CoqProject -o Makefile", cwd=COQ)
    # -k: a broken proof in one property file must not hide the others; what a check needs is
    # verified afterwards (Entry.vo for the model, P<id>.v compiled by the check itself)
    _, out = sh("timeout 3000 make -k -j%d" % NCPU, cwd=COQ, check=False)
    if not os.path.exists(os.path.join(COQ, "Entry.vo")):
        raise BuildError("make (coq model)", out)
    return out


def regenerate_facts():
    """Tie 2: rewrite coq/Generated.v from /repo's current sources (only when it changes, so that
    make recompiles Tie.v and what depends on it exactly then)"""
    _, out = sh("go run ./srcscan -coq %s" % REPO, cwd=os.path.join(VERIF, "tools"), env=GOENV)
    path = os.path.join(COQ, "Generated.v")
    old = open(path).read() if os.path.exists(path) else None
    if old != out:
        with open(path, "w") as f:
            f.write(out)
        # nothing compiled against the previous facts may survive a failed rebuild
        for f in ("Generated", "Tie", "TieLex", "TieMsg", "PC08", "PC20"):
            for ext in (".vo", ".vok", ".vos", ".glob"):
                try:
                    os.remove(os.path.join(COQ, f + ext))
                except OSError:
                    pass


def build_model():
    """Extract the model and build the OCaml driver when the model changed."""
    src = [os.path.join(COQ, f) for f in ("Entry.vo",)]
    drv = os.path.join(OCAML, "modeldrv")
    ext = os.path.join(COQ, "Extract.v")
    stamp = max(os.path.getmtime(p) for p in src + [ext, os.path.join(OCAML, "driver.ml")])
    if os.path.exists(drv) and os.path.getmtime(drv) >= stamp:
        return
    sh("coqc -Q ../coq MowCli ../coq/Extract.v", cwd=OCAML)
    sh("ocamlfind ocamlopt -package unix -linkpkg -O3 -w -a model.mli model.ml driver.ml -o modeldrv", cwd=OCAML)


def build_harness(race=False):
    """go build always runs: it is the step that ties the checks to /repo's working tree."""
    out = "harness_race" if race else "harness"
    flags = "-race " if race else ""
    # the module under test is the one at REPO (VERIF_REPO for scratch copies): keep go.mod's replace line in step
    gm = os.path.join(HARNESS, "go.mod")
    txt = open(gm).read()
    new = re.sub(r"(replace github.com/jawher/mow.cli => ).*", lambda m: m.group(1) + REPO, txt)
    if new != txt:
        with open(gm, "w") as f:
            f.write(new)
    if os.environ.get("VERIF_COVER"):
        # statement coverage of the library by the correspondence streams (tools/coverage.sh)
        flags += "-cover -coverpkg=github.com/jawher/mow.cli/...,./... "
    sh("cp %s/go.sum go.sum && go build -tags verif %s-o %s ." % (REPO, flags, out), cwd=HARNESS, env=GOENV)
    if not race:
        # a program that uses the library without the hooks (the real os.Stderr, os.Stdout, os.Exit)
        sh("go build -o plainprog ./plain", cwd=HARNESS, env=GOENV)
    return os.path.join(HARNESS, out)


def build_all(clean=False, race=False):
    lk = _lock()
    try:
        t0 = time.time()
        out = build_coq(clean=clean)
        build_model()
        build_harness()
        if race:
            build_harness(race=True)
        return out, time.time() - t0
    finally:
        lk.close()


# ---------------------------------------------------------------------------------------
# encoding of cases
# ---------------------------------------------------------------------------------------

def l1(s):
    """byte string (python str with code points < 256) -> hex"""
    return s.encode("latin-1").hex()


def sx(x):
    if isinstance(x, bool):
        return "x31" if x else "x30"
    if isinstance(x, int):
        return "x" + l1(str(x))
    if x is None:
        return "x"
    if isinstance(x, str):
        return "x" + l1(x)
    if isinstance(x, (list, tuple)):
        return "(" + " ".join(sx(y) for y in x) + ")"
    raise TypeError(x)


def sx_kind(d):
    if d["kind"] == "custom":
        c = d["custom"]
        # a type whose IsBoolFlag method is present but answers false is, for the library, not a flag
        return ["custom", c["isbool"] and not c.get("isboolfalse"), c["clear"], c["isdef"], c["isdefval"]]
    return [d["kind"]]


def sx_decl(d):
    return [d["t"] == "opt", sx_kind(d), d["name"], d.get("desc", ""), d.get("env", ""),
            d.get("hide", False), d.get("def", []), d.get("sbu", False)]


def sx_hook(h):
    if h is None:
        return []
    if h["k"] in ("ret", "help", "longhelp", "version"):
        # (the printing callbacks return; what they print is judged by the check, the model prints nothing there)
        return ["ret"]
    if h["k"] == "panic":
        return ["panic", h["v"]]
    return ["exit", h["n"]]


def sx_cmd(c):
    pol = c.get("policy")
    return [c["name"], c.get("desc", ""), c.get("longdesc", ""), c.get("hidden", False), c.get("spec", ""),
            "" if pol is None else pol, [sx_decl(d) for d in c.get("decls", [])],
            sx_hook(c.get("before")), sx_hook(c.get("action")), sx_hook(c.get("after")),
            [sx_cmd(s) for s in c.get("subs", [])]]


def all_decls(c):
    for d in c.get("decls", []):
        yield d
    for s in c.get("subs", []):
        yield from all_decls(s)


def float_strings(case):
    """every string the model may have to parse as a float for this case"""
    if case["op"] == "run":
        decls = list(all_decls(case["root"]))
        argv = case["argv"]
    elif case["op"] in ("compile", "match", "sentence", "views"):
        decls = case["decls"]
        argv = case.get("args", []) + case.get("argv", []) + [t for a in case.get("argvs", []) for t in a]
    else:
        return set()
    fd = [d for d in decls if d["kind"] in ("float", "floats")]
    if not fd:
        return set()
    out = set()
    for d in fd:
        out.update(d.get("def", []))
    for t in argv:
        for i in range(len(t) + 1):
            out.add(t[i:])
    for v in case.get("env", {}).values():
        out.add(v)
        for piece in v.split(","):
            out.add(go_trim_space(piece))
    out.add("true")
    return out


def model_line(case, floats):
    env = [[k, v] for k, v in sorted(case.get("env", {}).items())]
    fl = [[s, floats[s]] for s in sorted(float_strings(case)) if floats.get(s) is not None]
    op = case["op"]
    if op == "lex":
        body = ["lex", case["spec"]]
    elif op == "compile":
        body = ["compile", [fl, env, [sx_decl(d) for d in case["decls"]], case["spec"]]]
    elif op == "match":
        m = case["m"]
        idxs = m.get("is", [m["i"]] if "i" in m else [])
        body = ["match", [fl, env, [sx_decl(d) for d in case["decls"]], [m["k"], idxs], case["args"],
                          case.get("ro", False)]]
    elif op == "run":
        v = case.get("version")
        root = case["root"]
        if v and v.get("again"):
            # Version called twice: the first call is an ordinary bool option, the second one the version flag
            first = {"t": "opt", "kind": "bool", "name": v["name"], "desc": "Show the version and exit", "env": "", "hide": True,
                     "def": ["false"], "sbu": False, "ptr": False}
            root = dict(root, decls=(root["decls"] + [first]) if v.get("last") else ([first] + root["decls"]))
            v = {"name": v["again"]["name"], "text": v["again"]["text"], "last": v.get("last")}
        body = ["run", [fl, env, [] if not v else [v["name"], v["text"], bool(v.get("last"))], sx_cmd(root), case["argv"]]]
    elif op == "sentence":
        t = case.get("target")
        body = ["sentence", [fl, env, [sx_decl(d) for d in case["decls"]], case["spec"], case["argv"],
                             [] if t is None else ["t"] + [[k, vs] for k, vs in t]]]
    elif op == "rerun":
        r = case["root"]
        body = ["rerun", [fl, env, [sx_decl(d) for d in r["decls"]], r["spec"], case["before"]["argv"], case["argv"]]]
    elif op == "views":
        body = ["views", [fl, env, [sx_decl(d) for d in case["decls"]], case["spec"], case["argvs"]]]
    else:
        raise ValueError(op)
    return "%s\t%s\n" % (case["id"], sx(body))


# ---------------------------------------------------------------------------------------
# running
# ---------------------------------------------------------------------------------------

def _shards(items, n):
    # round-robin: expensive cases generated next to one another are spread over the workers
    # (results are keyed by case id, so the order within a shard does not matter)
    n = max(1, min(n, len(items)))
    return [items[i::n] for i in range(n)]


def _run_harness_shard(binary, cases, timeout_ms):
    """Feed cases; on death/timeout attribute to the first case without output and go on."""
    out = {}
    todo = list(cases)
    env = dict(os.environ, VERIF_CASE_TIMEOUT_MS=str(timeout_ms), GORACE="halt_on_error=0")
    if os.environ.get("VERIF_COVER"):
        env["GOCOVERDIR"] = os.environ["VERIF_COVER"]
    while todo:
        data = "".join(json.dumps(c, ensure_ascii=True) + "\n" for c in todo)
        p = subprocess.run([binary], input=data, stdout=subprocess.PIPE, stderr=subprocess.PIPE,
                           text=True, env=env)
        got = 0
        for line in p.stdout.split("\n"):
            line = line.strip()
            if not line.startswith("{"):
                continue
            try:
                o = json.loads(line)
            except ValueError:
                continue
            if got < len(todo) and o.get("id") == todo[got]["id"]:
                out[todo[got]["id"]] = o
                got += 1
        if got >= len(todo):
            break
        if got > 0 and out[todo[got - 1]["id"]].get("outcome") in ("timeout", "memory"):
            # the watchdog reported that case and ended the process: go on with the next one
            todo = todo[got:]
            continue
        # case todo[got] killed the process without a line
        culprit = todo[got]
        tail = p.stderr[-600:]
        kind = "stackoverflow" if "stack overflow" in p.stderr or "goroutine stack exceeds" in p.stderr else "died"
        out[culprit["id"]] = {"id": culprit["id"], "outcome": kind, "stderr_tail": tail, "rc": p.returncode}
        todo = todo[got + 1:]
    return out


def _mark_conv(cases):
    """a third of the eligible declarations (no env, hide, sbu) go through the positional convenience API
    (cmd.BoolOpt(name, value, desc) ...), chosen by a hash of the declaration: the model does not
    distinguish the two APIs, so any difference shows as a mismatch"""
    import zlib

    def mark(d, k):
        h = zlib.crc32(("%s|%s|%s|%d" % (d.get("kind"), d.get("name"), d.get("t"), k)).encode("latin-1", "replace"))
        if "conv" not in d:
            d["conv"] = (not d.get("env") and not d.get("hide") and not d.get("sbu")) and h % 3 == 0
            if not d.get("ptr") and d.get("kind") != "custom" and (h >> 4) % 3 == 0:
                d["ptr"] = True      # the ...Ptr variant of either API

    def walk(c, k):
        for d in c.get("decls", []):
            mark(d, k)
        for sub in c.get("subs", []):
            walk(sub, k)
    for k, c in enumerate(cases):
        # args[0] is whatever the shell passes: a third of the runs get something other than the root's name
        if c.get("op") == "run" and "argv0" not in c and k % 3 == 1:
            c["argv0"] = ["/usr/local/bin/prog", "./a.out", "", "other name", "-h", "--"][(k // 3) % 6]
        if "root" in c:
            walk(c["root"], k % 5)
        elif "decls" in c:
            for d in c["decls"]:
                mark(d, k % 5)
        for cc in c.get("cases", []):
            if "root" in cc:
                walk(cc["root"], k % 5)


def run_impl(cases, timeout_ms=4000, race=False):
    _mark_conv(cases)
    binary = os.path.join(HARNESS, "harness_race" if race else "harness")
    res = {}
    with ThreadPoolExecutor(NCPU) as ex:
        for part in ex.map(lambda sh_: _run_harness_shard(binary, sh_, timeout_ms), _shards(cases, NCPU)):
            res.update(part)
    return res


def _big_stack():
    """the extracted model recurses on lists and on fuel: give the driver a 2 GiB system stack (native OCaml uses it)"""
    import resource
    try:
        soft, hard = resource.getrlimit(resource.RLIMIT_STACK)
        want = 2 << 30
        resource.setrlimit(resource.RLIMIT_STACK, (want if hard == resource.RLIM_INFINITY or hard >= want else hard, hard))
    except (ValueError, OSError):
        pass


def _run_model_shard(lines, ids):
    out = {}
    todo = list(zip(ids, lines))
    while todo:
        p = subprocess.run([os.path.join(OCAML, "modeldrv")], input="".join(l for _, l in todo),
                           stdout=subprocess.PIPE, stderr=subprocess.PIPE, text=True, preexec_fn=_big_stack,
                           env=dict(os.environ, OCAMLRUNPARAM="l=4G", VERIF_MODEL_TIMEOUT_S=os.environ.get("VERIF_MODEL_TIMEOUT_S", "3")))
        got = 0
        for line in p.stdout.split("\n"):
            if "\t" not in line:
                continue
            i, body = line.split("\t", 1)
            if got < len(todo) and str(todo[got][0]) == i:
                out[todo[got][0]] = json.loads(body)
                got += 1
        if got >= len(todo):
            break
        out[todo[got][0]] = ["model-died", p.stderr[-300:]]
        todo = todo[got + 1:]
    return out


def oracle(strs, binary=None):
    """strconv tables from Go itself: dict s -> (int|None, float|None, bool|None)"""
    strs = sorted(set(strs))
    if not strs:
        return {}
    binary = binary or os.path.join(HARNESS, "harness")
    res = {}
    for chunk in _shards(strs, max(1, len(strs) // 5000 + 1)):
        req = json.dumps({"op": "oracle", "id": 0, "strs": chunk}, ensure_ascii=True) + "\n"
        p = subprocess.run([binary], input=req, stdout=subprocess.PIPE, text=True)
        o = json.loads(p.stdout.split("\n")[0])
        for s, a, b, c in zip(chunk, o["int"], o["float"], o["bool"]):
            res[s] = (a, b, c)
    return res


def run_model(cases):
    fs = set()
    for c in cases:
        fs |= float_strings(c)
    tbl = oracle(fs) if fs else {}
    floats = {s: v[1] for s, v in tbl.items()}
    lines = [model_line(c, floats) for c in cases]
    ids = [c["id"] for c in cases]
    res = {}
    sh_l = _shards(list(zip(ids, lines)), NCPU)
    with ThreadPoolExecutor(NCPU) as ex:
        for part in ex.map(lambda s_: _run_model_shard([l for _, l in s_], [i for i, _ in s_]), sh_l):
            res.update(part)
    return res


# ---------------------------------------------------------------------------------------
# Go's notion of white space on byte strings (python str, one code point per byte)
# ---------------------------------------------------------------------------------------

_GO_SPACE = re.compile("[ \t\n\v\f\r]|\xc2[\x85\xa0]|\xe1\x9a\x80|\xe2\x80[\x80-\x8a\xa8\xa9\xaf]|\xe2\x81\x9f|\xe3\x80\x80")
_GO_LEAD = re.compile("^(?:%s)+" % _GO_SPACE.pattern)
_GO_TRAIL = re.compile("(?:%s)+$" % _GO_SPACE.pattern)


def go_trim_space(s):
    """strings.TrimSpace on the UTF-8 bytes of s (unicode.IsSpace: ASCII blanks, U+0085, U+00A0, U+1680, U+2000-200A,
    U+2028, U+2029, U+202F, U+205F, U+3000)"""
    return _GO_TRAIL.sub("", _GO_LEAD.sub("", s))


def go_fields(s):
    """strings.Fields on the UTF-8 bytes of s"""
    return [x for x in _GO_SPACE.split(s) if x != ""]


# ---------------------------------------------------------------------------------------
# canonical observations
# ---------------------------------------------------------------------------------------

_blank = re.compile(r"[ \t]+")


def norm_stderr(lines):
    out = []
    for l in lines:
        for part in l.split("\n"):
            s = _blank.sub(" ", part).strip(" ")
            if not s:
                continue
            if s.startswith("Error: ") and s != "Error: incorrect usage":
                s = "Error: <conv>"
            out.append(s)
    return out


_simple = re.compile(r'^[ !#-\[\]-~]*$')   # printable ASCII without " and \
_declpanic = re.compile(r'^str:(duplicate option name|duplicate argument name|invalid argument name) "(.*)"(: must be in all caps)?$', re.S)


def canon_panic(p):
    # a spec error is identified by its position; the wording of its message is not an observable of any property
    if p.startswith("parse:"):
        return ":".join(p.split(":")[:2])
    m = _declpanic.match(p)
    if m:
        name = m.group(2)
        return "decl:%s:%s" % (m.group(1), name if _simple.match(name) else "?")
    return p


def obs_impl(o):
    """canonical observation from a harness "run" output"""
    oc = o.get("outcome")
    if oc == "ret":
        outcome = ("ret", o.get("err"))
    elif oc == "exit":
        outcome = ("exit", o.get("code"))
    elif oc == "panic":
        outcome = ("panic", canon_panic(o.get("panic") or ""))
    elif oc == "crash":
        outcome = ("crash", o.get("panic"))
    else:
        outcome = (oc,)
    return {"outcome": outcome, "trace": o.get("trace") or [], "stderr": norm_stderr(o.get("stderr") or []),
            "values": o.get("values") or {}, "sbu": o.get("sbu") or {}, "logs": o.get("logs") or {},
            "errline": o.get("errline"), "stdout": o.get("stdout") or []}


def obs_model(m):
    """canonical observation from the model's "run" output"""
    if not isinstance(m, list) or not m or not isinstance(m[0], list):
        return {"outcome": ("model-error", json.dumps(m)[:200]), "trace": [], "stderr": [], "values": {}, "sbu": {}, "logs": {}}
    oc = m[0]
    if oc[0] == "ret":
        outcome = ("ret", oc[1] or None)
    elif oc[0] == "exit":
        outcome = ("exit", int(oc[1]))
    elif oc[0] == "panic":
        outcome = ("panic", canon_panic(oc[1]))
    else:
        outcome = (oc[0],)
    trace = m[1]
    ran = any(t.startswith("A:") for t in trace)
    values, sbu, logs = {}, {}, {}
    for key, vals, sb, iscustom in m[3]:
        if ran:
            values[key] = vals
            if sb != "":
                sbu[key] = sb == "1"
        if iscustom == "1":
            logs[key] = vals
    return {"outcome": outcome, "trace": trace, "stderr": norm_stderr(m[2]), "values": values, "sbu": sbu,
            "logs": logs}


def project(o, fields):
    return {k: o[k] for k in fields}


def diff_obs(a, b, fields):
    """fields on which two canonical observations differ"""
    return [k for k in fields if _j(a[k]) != _j(b[k])]


def _j(x):
    return json.dumps(x, sort_keys=True)


# ---------------------------------------------------------------------------------------
# graphs
# ---------------------------------------------------------------------------------------

def canon_graph_model(start, states):
    """renumber the model's graph in DFS first-visit order, as the hook does for Impl"""
    ids = {}
    out = []

    def visit(s):
        if s in ids:
            return ids[s]
        i = len(out)
        ids[s] = i
        term, trs = states[s]
        out.append({"term": term == "1", "tr": None})
        out[i]["tr"] = [[lab, visit(int(t))] for lab, t in trs]
        return i
    sys.setrecursionlimit(100000)
    visit(start)
    return out


# ---------------------------------------------------------------------------------------
# evidence / replay / findings
# ---------------------------------------------------------------------------------------

def write_json(path, obj):
    os.makedirs(os.path.dirname(path), exist_ok=True)
    tmp = path + ".tmp"
    with open(tmp, "w") as f:
        json.dump(obj, f, indent=1, sort_keys=True)
    os.replace(tmp, path)


def case_hash(case):
    c = dict(case)
    c.pop("id", None)
    return hashlib.sha1(_j(c).encode()).hexdigest()[:12]


def known_findings():
    """lines of KNOWN_FINDINGS.txt: ('known'|'fixed', property, rest)"""
    out = []
    p = os.path.join(VERIF, "KNOWN_FINDINGS.txt")
    if os.path.exists(p):
        for line in open(p):
            line = line.strip()
            if not line or line.startswith("#"):
                continue
            m = re.match(r"^(known|fixed): property=(\S+) (.*)$", line)
            if m:
                out.append((m.group(1), m.group(2), m.group(3)))
    return out
