#!/usr/bin/env python3
"""Regenerate seeded/README.md from seeded/<name>/meta.json (written by tools/evalmut.py) and notes.md."""
import json
import os
import re

ROOT = os.path.join(os.path.dirname(os.path.abspath(__file__)), "..", "seeded")
rows = []
for name in sorted(os.listdir(ROOT)):
    d = os.path.join(ROOT, name)
    mp = os.path.join(d, "meta.json")
    if not os.path.isfile(mp):
        continue
    m = json.load(open(mp))
    notes = open(os.path.join(d, "notes.md")).read() if os.path.exists(os.path.join(d, "notes.md")) else ""
    title = (re.search(r"^#\s*(.+)$", notes, re.M) or [None, ""])[1].strip()
    files = sorted(set(re.findall(r"^\+\+\+ b/(\S+)", open(os.path.join(d, "patch.diff")).read(), re.M)))
    # what the change needs in order to show: the first paragraph/list of the corresponding section of the notes
    sec = re.search(r"##\s*What is needed[^\n]*\n(.*?)(?:\n##|\Z)", notes, re.S)
    needs = " ".join(sec.group(1).split())[:400] if sec else ""
    if needs and not m.get("needs"):
        m["needs"] = needs
        json.dump(m, open(mp, "w"), indent=1)
    checks = m.get("checks", {})
    concrete = sorted(c for c, v in checks.items() if v["violation"] and not v["no_failing_input"])
    only_tie = sorted(c for c, v in checks.items() if v["violation"] and v["no_failing_input"])
    own = m.get("property")
    rows.append((name, own, title, ", ".join(files), m.get("confirmed"), concrete, only_tie,
                 (checks.get(own, {}).get("detail") or "")[:160]))

with open(os.path.join(ROOT, "README.md"), "w") as f:
    f.write("# Seeded changes\n\n"
            "Changes to jawher/mow.cli seeded in seventeen rounds (A/B: two per property; C/D: a third round on thirteen\n"
            "properties; E/F, G/H, J/K, L/M, N/P, Q/R, S/T, U/V, W/X, Y/Z, AA/AB, BA/BB, CA, CB: fourteen adversarial rounds of twelve, ten, ten, ten, ten, eight, ten, eight, ten (aimed at named files), eight, ten (two features meeting), ten, four and three whose authors were asked for changes\n"
            "that a generator of ordinary inputs would not meet, the later ones aimed at one named property each and told which corners earlier rounds had closed), each written by a sub-agent that was given only the\n"
            "property's text and a scratch worktree (nothing from /verif). Each directory holds `patch.diff` (apply with\n"
            "`git -C <copy of /repo> apply`), `demo_test.go` (a test that passes on the unchanged tree and fails with the\n"
            "change), the author's `notes.md` and `meta.json` — written by `tools/evalmut.py`, which (1) confirms the change in\n"
            "a scratch worktree: it builds, the existing suite passes, the demonstration fails with it and passes without;\n"
            "(2) runs the twenty quick checks of a copy of /verif against the scratch copy and records which report a\n"
            "violation, with a concrete failing input or only through a broken correspondence (`no-failing-input-found`).\n"
            "Nothing is ever applied to /repo. Regenerate this table with `python3 tools/seeded_table.py`; re-evaluate with\n"
            "`sh tools/evalall.sh [name ...]`. Patches A/B were written against /repo at `5f37012`, C/D/E/F/G/H/J/K/L/M at `d74872d`, N/P at `a7f6599`, Q/R at `e102526`, S/T, U/V and W/X at `d9b1324`, Y/Z, AA/AB, BA/BB, CA and CB at `6499c1f`; after the repair D8 (`a7f6599`) rewrote `options.try`, the five patches that touch it\n"
            "(C10-A, C10-C, C12-B — the same idea from three authors —, C12-C, C12-F) were re-based by hand, the originals are kept as `patch.d74872d.diff`; after D9, D10 and D11 ten more (C02-A, C02-D, C02-L, C03-A, C09-A, C13-A, C14-B, C19-B, C19-D, C19-Q) were re-based (`patch.asgiven.diff`).\n"
            "C20-Q was written against the tree before D11: there the unchanged library was itself non-deterministic (which is how D11 was found); on the repaired tree it still ties an option `-N` with an argument `N`.\n\n"
            "| change | file(s) | confirmed | caught with a concrete input by | caught only as a broken correspondence by | its own check says |\n"
            "|---|---|---|---|---|---|\n")
    for name, own, title, files, conf, concrete, only_tie, detail in rows:
        mark = lambda cs: ", ".join(("**%s**" % c) if c == own else c for c in cs) or "—"
        f.write("| %s — %s | %s | %s | %s | %s | %s |\n" % (name, title.replace("|", "/")[:90], files, "yes" if conf else "NO",
                                                            mark(concrete), mark(only_tie), detail.replace("|", "/").replace("\n", " ")))
    outside = [r[0] for r in rows if os.path.exists(os.path.join(ROOT, r[0], "OUTSIDE.md"))]
    missed = [r[0] for r in rows if r[1] not in r[5] and r[0] not in outside]
    f.write("\n%d changes, %d confirmed; %d caught by the check of their own property with a concrete input%s%s.\n"
            % (len(rows), sum(1 for r in rows if r[4]), sum(1 for r in rows if r[1] in r[5]),
               ("; not by their own check: " + ", ".join(missed)) if missed else "",
               ("; outside what any property claims (see OUTSIDE.md in their directories): " + ", ".join(outside)) if outside else ""))
print("rows:", len(rows))
