package cli

import (
	"flag"
	"fmt"
	"io/ioutil"
	"testing"
)

// C10: the spellings `-o v`, `-o=v`, `-ov`, `--out v`, `--out=v` of one option occurrence are
// interchangeable. At a level that has sub-commands this fails as soon as the value v is spelled like
// one of the sub-commands: the separate forms are rejected, the attached forms are accepted.
func TestF1OptionValueSpelledLikeSubCommand(t *testing.T) {
	stdErr, stdOut = ioutil.Discard, ioutil.Discard
	oldExiter := exiter
	defer func() { exiter = oldExiter }()
	exiter = func(int) {}

	run := func(args ...string) string {
		var log string
		app := App("app", "")
		app.ErrorHandling = flag.ContinueOnError
		out := app.StringOpt("o out", "", "output directory")
		app.Spec = "[-o]"
		app.Command("build", "build it", func(c *Cmd) {
			c.Action = func() { log = fmt.Sprintf("build ran, out=%q", *out) }
		})
		err := app.Run(append([]string{"app"}, args...))
		return fmt.Sprintf("err=%v %s", err, log)
	}

	want := run("-o=build", "build") // accepted: err=<nil> build ran, out="build"
	if want != `err=<nil> build ran, out="build"` {
		t.Fatalf("reference spelling: %s", want)
	}
	for _, line := range [][]string{
		{"-obuild", "build"},
		{"--out=build", "build"},
		{"-o", "build", "build"},
		{"--out", "build", "build"},
	} {
		if got := run(line...); got != want {
			t.Errorf("%q: %s\n\twant (as for -o=build build): %s", line, got, want)
		}
	}
}
