package cli

// Goes to the repository root (package cli).

import (
	"flag"
	"io/ioutil"
	"testing"
	"time"
)

func f2Run(t *testing.T, spec string, n int, tok string) time.Duration {
	stdErr = ioutil.Discard
	args := make([]string, 0, n+2)
	args = append(args, "app")
	for i := 0; i < n; i++ {
		args = append(args, tok)
	}
	app := App("app", "")
	app.ErrorHandling = flag.ContinueOnError
	src := app.StringsArg("SRC", nil, "")
	all := app.BoolOpt("a", false, "")
	app.Spec = spec
	ran := false
	app.Action = func() { ran = true }
	start := time.Now()
	err := app.Run(args)
	d := time.Since(start)
	if err != nil || !ran {
		t.Fatalf("spec %q, %d tokens: not accepted: %v", spec, n, err)
	}
	if tok == "x" && len(*src) != n {
		t.Fatalf("bound %d values, want %d", len(*src), n)
	}
	_ = all
	return d
}

// An ACCEPTED command line, no backtracking involved: the time must grow (about) linearly with the
// number of tokens. It grows quadratically and worse: 16 000 file names take 16 s, 16 000 `-a` 40 s.
func TestF2LongAcceptedLinesAreNotParsedPromptly(t *testing.T) {
	for _, c := range []struct{ spec, tok string }{{"SRC...", "x"}, {"-a...", "-a"}} {
		small := f2Run(t, c.spec, 2000, c.tok)
		big := f2Run(t, c.spec, 8000, c.tok)
		t.Logf("spec %q: 2000 tokens %v, 8000 tokens %v (x%.1f)", c.spec, small, big, float64(big)/float64(small))
		if big > 1500*time.Millisecond {
			t.Errorf("spec %q: an accepted line of 8000 tokens took %v", c.spec, big)
		}
		if float64(big) > 8*float64(small) {
			t.Errorf("spec %q: 4 times the tokens cost %.1f times the time (linear would be 4)", c.spec, float64(big)/float64(small))
		}
	}
}
