package cli

// Goes to the repository root (package cli).

import (
	"flag"
	"io/ioutil"
	"testing"
)

// The error policy is chosen AFTER the sub-commands were declared (both orders are legal: ErrorHandling
// is a plain exported field of the application). Command() copied the policy the application had at
// that moment (the ExitOnError default) into the sub-command, and every deeper level copies it from
// there, so a rejection below the root exits the process although the application says ContinueOnError.
func TestF3PolicySetAfterCommandIsIgnoredBelowTheRoot(t *testing.T) {
	stdErr = ioutil.Discard
	old := exiter
	defer func() { exiter = old }()
	exited := -1
	exiter = func(code int) { exited = code }

	build := func() *Cli { // a new application for every run
		app := App("app", "")
		app.Command("sub", "", func(c *Cmd) {
			c.StringArg("X", "", "")
			c.Action = func() { t.Errorf("Action ran") }
			c.Command("deep", "", func(c *Cmd) {
				c.StringArg("Y", "", "")
				c.Action = func() { t.Errorf("Action ran") }
			})
		})
		app.ErrorHandling = flag.ContinueOnError
		return app
	}

	// rejected at the root: the policy is honoured
	if err := build().Run([]string{"app", "--nope"}); err == nil || exited != -1 {
		t.Fatalf("root level: err=%v exited=%d", err, exited)
	}

	for _, line := range [][]string{{"app", "sub"}, {"app", "sub", "x", "deep"}} {
		exited = -1
		err := build().Run(line)
		if err == nil {
			t.Errorf("%q: no error returned", line)
		}
		if exited != -1 {
			t.Errorf("%q: policy is ContinueOnError, yet the process exits with status %d", line, exited)
		}
	}
}
