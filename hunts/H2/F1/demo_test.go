package cli

// Goes to the repository root (package cli).

import (
	"flag"
	"io/ioutil"
	"testing"
)

// The application is built twice, from scratch, by the same function; the caller keeps the
// SetByUser flag in a variable that outlives one build (as in the doc.go example, where it is a
// variable of the enclosing scope). Every value variable is re-initialised by the declaration,
// the SetByUser flag is not.
func TestF1SetByUserIsNeverReset(t *testing.T) {
	stdErr = ioutil.Discard
	var (
		out       string
		outByUser bool
		arg       string
		argByUser bool
	)
	run := func(args ...string) {
		app := App("app", "")
		app.ErrorHandling = flag.ContinueOnError
		app.StringPtr(&out, StringOpt{Name: "o out", Value: "dflt", SetByUser: &outByUser})
		app.StringPtr(&arg, StringArg{Name: "ARG", Value: "dflt", SetByUser: &argByUser})
		app.Spec = "[-o] [ARG]"
		ran := false
		app.Action = func() { ran = true }
		if err := app.Run(append([]string{"app"}, args...)); err != nil || !ran {
			t.Fatalf("line %q not accepted: %v", args, err)
		}
	}

	run("-o", "x", "y")
	if out != "x" || !outByUser || arg != "y" || !argByUser {
		t.Fatalf("first run: out=%q/%v arg=%q/%v", out, outByUser, arg, argByUser)
	}

	run() // nothing on the command line
	if out != "dflt" || arg != "dflt" {
		t.Fatalf("values were not re-initialised: out=%q arg=%q", out, arg)
	}
	if outByUser {
		t.Errorf("option -o: value %q is the default, nothing was given on the command line, yet SetByUser is true", out)
	}
	if argByUser {
		t.Errorf("argument ARG: value %q is the default, nothing was given on the command line, yet SetByUser is true", arg)
	}

	// same thing without any first run: the flag variable merely starts out true
	fresh := true
	app := App("app", "")
	app.ErrorHandling = flag.ContinueOnError
	app.Bool(BoolOpt{Name: "f", SetByUser: &fresh})
	app.Spec = "[-f]"
	app.Action = func() {}
	if err := app.Run([]string{"app"}); err != nil {
		t.Fatal(err)
	}
	if fresh {
		t.Errorf("flag -f absent from the command line, SetByUser is true")
	}
}
