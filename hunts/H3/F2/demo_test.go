package cli

import (
	"bytes"
	"flag"
	"testing"
)

// C18: a one-letter option name becomes a short option (-x), every listed name addressing the variable.
// The name "é" is one letter.
func TestF2OneLetterNonASCIIName(t *testing.T) {
	oldErr := stdErr
	stdErr = &bytes.Buffer{}
	defer func() { stdErr = oldErr }()

	build := func() (*Cli, *string, *bool) {
		app := App("app", "")
		app.ErrorHandling = flag.ContinueOnError
		s := app.StringOpt("é", "", "one letter")
		ran := false
		app.Action = func() { ran = true }
		return app, s, &ran
	}

	app, s, ran := build()
	if got := app.options[0].Names; len(got) != 1 || got[0] != "-é" {
		t.Errorf("one-letter name \"é\" declared as %q, want the short option [\"-é\"]", got)
	}
	err := app.Run([]string{"app", "-é", "v"})
	if err != nil || !*ran || *s != "v" {
		t.Errorf("`-é v`: err=%v ran=%v value=%q, want accepted with value \"v\"", err, *ran, *s)
	}

	app, s, ran = build()
	err = app.Run([]string{"app", "--é", "v"})
	if err == nil {
		t.Errorf("`--é v` accepted (value %q, ran=%v): the one-letter name was turned into a long option", *s, *ran)
	}
}
