package cli

import (
	"bytes"
	"flag"
	"testing"
)

type f1Exit struct{ code int }

// f1Run runs the app with os.Exit modelled as a panic that unwinds to here (as a real exit, it does not return)
func f1Run(app *Cli, args []string) (err error, exited bool, code int, out string) {
	oldExiter, oldErr := exiter, stdErr
	buf := &bytes.Buffer{}
	stdErr = buf
	exiter = func(c int) { panic(f1Exit{c}) }
	defer func() {
		exiter, stdErr = oldExiter, oldErr
		out = buf.String()
		if r := recover(); r != nil {
			e, ok := r.(f1Exit)
			if !ok {
				panic(r)
			}
			exited, code = true, e.code
		}
	}()
	err = app.Run(args)
	return
}

func f1App(policyFirst bool) (*Cli, *bool) {
	ran := false
	app := App("app", "")
	if policyFirst {
		app.ErrorHandling = flag.ContinueOnError
	}
	app.Command("sub", "a sub command", func(c *Cmd) {
		c.Action = func() { ran = true }
	})
	if !policyFirst {
		app.ErrorHandling = flag.ContinueOnError
	}
	app.Action = func() {}
	return app, &ran
}

// C07: the application is configured with ContinueOnError; a rejection at the sub-command level must
// return a non-nil error and must not exit, whatever the order of the two configuration statements.
func TestF1RejectionInSubFollowsConfiguredPolicy(t *testing.T) {
	for _, policyFirst := range []bool{true, false} {
		app, ran := f1App(policyFirst)
		err, exited, code, _ := f1Run(app, []string{"app", "sub", "unexpected"})
		if *ran {
			t.Errorf("policyFirst=%v: the action ran", policyFirst)
		}
		if exited {
			t.Errorf("policyFirst=%v: ContinueOnError configured, but the process exited with status %d", policyFirst, code)
		}
		if !exited && err == nil {
			t.Errorf("policyFirst=%v: want a non-nil error", policyFirst)
		}
	}
}

// C14: under a policy other than ExitOnError a help request returns nil and does not exit
func TestF1HelpInSubFollowsConfiguredPolicy(t *testing.T) {
	for _, policyFirst := range []bool{true, false} {
		app, _ := f1App(policyFirst)
		err, exited, code, _ := f1Run(app, []string{"app", "sub", "--help"})
		if exited {
			t.Errorf("policyFirst=%v: ContinueOnError configured, but help exited with status %d", policyFirst, code)
		}
		if err != nil {
			t.Errorf("policyFirst=%v: want nil, got %v", policyFirst, err)
		}
	}
}
