package cli

import (
	"bytes"
	"flag"
	"reflect"
	"testing"
)

// C05: if a Before fails (here: panics, with the value nil) the remaining Befores and the Action are skipped
// and only the Afters of the levels whose Before completed run.
func TestF3BeforePanicsWithNil(t *testing.T) {
	oldErr := stdErr
	stdErr = &bytes.Buffer{}
	defer func() { stdErr = oldErr }()

	var trace []string
	app := App("app", "")
	app.ErrorHandling = flag.ContinueOnError
	app.Before = func() {
		trace = append(trace, "root.Before")
		panic(nil)
	}
	app.After = func() { trace = append(trace, "root.After") }
	app.Command("sub", "", func(c *Cmd) {
		c.Before = func() { trace = append(trace, "sub.Before") }
		c.Action = func() { trace = append(trace, "sub.Action") }
		c.After = func() { trace = append(trace, "sub.After") }
	})

	func() {
		defer func() { recover() }() // whatever is re-raised is not the point here
		_ = app.Run([]string{"app", "sub"})
	}()

	// root.Before did not complete: nothing else may run (its own After is not owed either)
	want := []string{"root.Before"}
	if !reflect.DeepEqual(trace, want) {
		t.Errorf("trace %v, want %v: the Action and the deeper Before ran although root.Before panicked", trace, want)
	}
}
