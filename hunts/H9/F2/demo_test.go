package cli

import (
	"flag"
	"fmt"
	"io/ioutil"
	"testing"
)

// C09: the first `--` ends option parsing "and every later token ... is bound as a positional argument
// verbatim". A later token that spells the name of a sub-command is not: the level is cut there, the
// sub-command runs and the root Action does not.
func TestTokenAfterDoubleDashSpellingASubCommand(t *testing.T) {
	stdErr, stdOut = ioutil.Discard, ioutil.Discard
	for _, spec := range []string{"[-a] [Z...]", "[-a] -- [Z...]"} {
		for _, line := range [][]string{{"--", "sub"}, {"--", "-a", "sub", "x"}, {"-a", "--", "x", "sub"}} {
			app := App("app", "")
			app.ErrorHandling = flag.ContinueOnError
			app.Spec = spec
			app.BoolOpt("a", false, "")
			z := app.StringsArg("Z", nil, "")
			ran := ""
			app.Action = func() { ran += "root" }
			app.Command("sub", "", func(c *Cmd) {
				c.Spec = "[Y...]"
				c.StringsArg("Y", nil, "")
				c.Action = func() { ran += "sub" }
			})
			err := app.Run(append([]string{"app"}, line...))
			want := line[1:]
			if line[0] != "--" {
				want = line[2:]
			}
			if err != nil || ran != "root" || fmt.Sprint(*z) != fmt.Sprint(want) {
				t.Errorf("spec %q line %q: err=%v ran=%q Z=%q; want the root Action only, with Z=%q", spec, line, err, ran, *z, want)
			}
		}
	}
}
