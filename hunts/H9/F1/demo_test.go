package cli

import (
	"flag"
	"fmt"
	"io/ioutil"
	"testing"
)

// runF1 builds a fresh application. Options are declared in the order given by decl
// ("a" = flag -a, "o" = string -o, "n" = int -n) and the line is parsed with spec.
func runF1(spec, decl string, line ...string) string {
	stdErr, stdOut = ioutil.Discard, ioutil.Discard
	app := App("app", "")
	app.ErrorHandling = flag.ContinueOnError
	app.Spec = spec
	var a *bool
	var o *string
	var n *int
	for _, d := range decl {
		switch d {
		case 'a':
			a = app.BoolOpt("a", false, "")
		case 'o':
			o = app.StringOpt("o", "", "")
		case 'n':
			n = app.IntOpt("n", 0, "")
		}
	}
	ran := false
	app.Action = func() { ran = true }
	err := app.Run(append([]string{"app"}, line...))
	if err != nil || !ran {
		return "rejected"
	}
	res := "accepted"
	if a != nil {
		res += fmt.Sprintf(" a=%v", *a)
	}
	if o != nil {
		res += fmt.Sprintf(" o=%q", *o)
	}
	if n != nil {
		res += fmt.Sprintf(" n=%d", *n)
	}
	return res
}

// The order in which two adjacent options are written in the spec (or listed in a folded group, or
// declared under [OPTIONS]) must not change the verdict nor the bound values (C01: "options adjacent on the
// command line are matched in any order among themselves", "a folded option group or [OPTIONS] takes its listed
// options in any order"; C02: "every option variable holds exactly the values written for that option").
func TestFoldedTokenWithEqualsDependsOnSpecOrder(t *testing.T) {
	// acceptance differs (C01)
	r1 := runF1("[-a] [-n]", "an", "-an=5")
	r2 := runF1("[-n] [-a]", "an", "-an=5")
	if r1 != r2 {
		t.Errorf("line -an=5: spec `[-a] [-n]` -> %s, spec `[-n] [-a]` -> %s", r1, r2)
	}
	// bound value differs (C02)
	r1 = runF1("-a -o", "ao", "-ao=v")
	r2 = runF1("-o -a", "ao", "-ao=v")
	if r1 != r2 {
		t.Errorf("line -ao=v: spec `-a -o` -> %s, spec `-o -a` -> %s", r1, r2)
	}
	// folded group: order of the letters in the group
	r1 = runF1("[-ao]", "ao", "-ao=v")
	r2 = runF1("[-oa]", "ao", "-ao=v")
	if r1 != r2 {
		t.Errorf("line -ao=v: spec `[-ao]` -> %s, spec `[-oa]` -> %s", r1, r2)
	}
	// [OPTIONS]: order of the declarations
	r1 = runF1("[OPTIONS]", "ao", "-ao=v")
	r2 = runF1("[OPTIONS]", "oa", "-ao=v")
	if r1 != r2 {
		t.Errorf("line -ao=v, spec [OPTIONS]: -a declared first -> %s, -o declared first -> %s", r1, r2)
	}
	// and within one spec the folded token is not the fold of either reading consistently:
	// `-ao=v` must bind what `-a -o=v` binds or what `-a -o =v` binds, whatever the spec order
	sep1 := runF1("-o -a", "ao", "-a", "-o=v")
	sep2 := runF1("-o -a", "ao", "-a", "-o", "=v")
	f1 := runF1("-o -a", "ao", "-ao=v")
	f2 := runF1("-a -o", "ao", "-ao=v")
	if !((f1 == sep1 && f2 == sep1) || (f1 == sep2 && f2 == sep2)) {
		t.Errorf("-ao=v binds %s under `-o -a` and %s under `-a -o`; -a -o=v binds %s, -a -o =v binds %s", f1, f2, sep1, sep2)
	}
}
