package cli

import (
	"flag"
	"io/ioutil"
	"testing"
)

// C09: the first `--` on the command line that is not the value of an option ends option parsing and every
// later token is positional. The library never takes a token starting with '-' as the separate value of an
// option, so in `-o -- -a` the `--` is the end-of-options marker and `-a` is data. Yet the scan for -a steps
// over `-o --` as if it were an occurrence of -o with its value, finds `-a` behind the marker and binds it as
// the flag; the spec-level `--` then turns `-o` and `--` into values of Z.
func TestScanForAnOptionStepsOverTheEndOfOptionsMarker(t *testing.T) {
	stdErr, stdOut = ioutil.Discard, ioutil.Discard
	for _, spec := range []string{"-a -- Z...", "[-a] -- Z..."} {
		for _, line := range [][]string{{"-o", "--", "-a"}, {"--out", "--", "-a"}, {"-bo", "--", "-a"}} {
			app := App("app", "")
			app.ErrorHandling = flag.ContinueOnError
			app.Spec = spec
			a := app.BoolOpt("a", false, "")
			app.BoolOpt("b", false, "")
			o := app.StringOpt("o out", "", "")
			z := app.StringsArg("Z", nil, "")
			ran := false
			app.Action = func() { ran = true }
			err := app.Run(append([]string{"app"}, line...))
			if err == nil && ran && *a {
				t.Errorf("spec %q line %q: accepted with a=%v o=%q Z=%q: the -a behind `--` was taken as the flag and `--` was bound to Z",
					spec, line, *a, *o, *z)
			}
		}
	}
}
