package cli

// Finding F1: the time and the memory needed to parse a command line grow with the SQUARE of the
// number of positional arguments. Goes to the repository root (package cli).

import (
	"flag"
	"fmt"
	"io/ioutil"
	"runtime"
	"testing"
	"time"
)

func f1Files(n int) []string {
	args := []string{"cp"}
	for i := 0; i < n; i++ {
		args = append(args, fmt.Sprintf("some/dir/file%06d.txt", i))
	}
	return args
}

// An ACCEPTED line: cp SRC... DST with 16000 file names (about 350 KB of arguments, well below ARG_MAX).
func TestF1AcceptedLongLineIsPrompt(t *testing.T) {
	stdErr, stdOut = ioutil.Discard, ioutil.Discard
	app := App("cp", "")
	app.ErrorHandling = flag.ContinueOnError
	app.Spec = "SRC... DST"
	src := app.StringsArg("SRC", nil, "")
	dst := app.StringArg("DST", "", "")
	ran := false
	app.Action = func() { ran = true }

	const n = 16000
	start := time.Now()
	err := app.Run(f1Files(n))
	took := time.Since(start)

	if err != nil || !ran || len(*src) != n-1 || *dst == "" {
		t.Fatalf("not accepted: err=%v ran=%v", err, ran)
	}
	t.Logf("%d positional arguments parsed in %v", n, took)
	if took > 3*time.Second {
		t.Errorf("C03/C01: parsing %d positional arguments took %v (1000 take ~0.1s, 4000 ~1.5s, 16000 ~30s: quadratic); expected a prompt answer", n, took)
	}
}

// A REJECTED line: the user forgot -t. Every (state, remaining arguments) pair is stored as a string key.
func TestF1RejectedLongLineMemory(t *testing.T) {
	stdErr, stdOut = ioutil.Discard, ioutil.Discard
	app := App("cp", "")
	app.ErrorHandling = flag.ContinueOnError
	app.Spec = "SRC... -t DST"
	app.StringsArg("SRC", nil, "")
	app.StringArg("DST", "", "")
	app.BoolOpt("t", false, "")
	app.Action = func() {}

	const n = 8000
	var before, after runtime.MemStats
	runtime.GC()
	runtime.ReadMemStats(&before)
	// sample the live heap while the parse runs
	var peak uint64
	stop, done := make(chan struct{}), make(chan struct{})
	go func() {
		defer close(done)
		for {
			select {
			case <-stop:
				return
			case <-time.After(100 * time.Millisecond):
				var ms runtime.MemStats
				runtime.ReadMemStats(&ms)
				if ms.HeapAlloc > peak {
					peak = ms.HeapAlloc
				}
			}
		}
	}()
	start := time.Now()
	err := app.Run(f1Files(n))
	took := time.Since(start)
	close(stop)
	<-done
	runtime.ReadMemStats(&after)

	if err == nil {
		t.Fatalf("expected a usage error")
	}
	grown := peak >> 20
	t.Logf("%d positional arguments rejected in %v, peak live heap %d MB, %d MB allocated", n, took, grown, (after.TotalAlloc-before.TotalAlloc)>>20)
	if grown > 200 || took > 3*time.Second {
		t.Errorf("C03: rejecting %d positional arguments (%d KB of text) took %v with a live heap of %d MB; expected a prompt usage error", n, n*24/1024, took, grown)
	}
}
