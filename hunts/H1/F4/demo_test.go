package cli

// Finding F4: the time to compile a spec grows with the cube of the number of consecutive optional atoms.
// Goes to the repository root (package cli).

import (
	"io/ioutil"
	"strings"
	"testing"
	"time"
)

func TestF4CompileTimeIsCubic(t *testing.T) {
	stdErr, stdOut = ioutil.Discard, ioutil.Discard
	for _, unit := range []string{"[A] ", "[-a] ", "[A]... "} {
		spec := strings.Repeat(unit, 3000) // 12 to 21 KB of spec text, perfectly well-formed
		app := App("app", "")
		app.Spec = spec
		app.StringsArg("A", nil, "")
		app.BoolOpt("a", false, "")
		ran := false
		app.Action = func() { ran = true }
		start := time.Now()
		err := app.Run([]string{"app"})
		took := time.Since(start)
		if err != nil || !ran {
			t.Fatalf("empty line not accepted: %v", err)
		}
		t.Logf("3000 x %q: %v", unit, took)
		if took > 3*time.Second {
			t.Errorf("C03: compiling 3000 x %q took %v (300 units: 0.03s, 1000: 0.6s, 3000: 16s); expected a prompt answer", unit, took)
		}
	}
}
