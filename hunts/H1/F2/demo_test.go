package cli

// Finding F2: a `--` in a spec string is only recognised when a blank or the end of the string follows it.
// Goes to the repository root (package cli).

import (
	"flag"
	"io/ioutil"
	"testing"
)

func f2Run(spec string, args ...string) (ran bool, files []string, panicked interface{}) {
	stdErr, stdOut = ioutil.Discard, ioutil.Discard
	defer func() { panicked = recover() }()
	app := App("app", "")
	app.ErrorHandling = flag.ContinueOnError
	app.Spec = spec
	app.BoolOpt("f force", false, "")
	fs := app.StringsArg("FILE", nil, "")
	app.Action = func() { ran = true }
	_ = app.Run(append([]string{"app"}, args...))
	return ran, *fs, nil
}

func TestF2DoubleDashNextToBracket(t *testing.T) {
	// the reference spelling, with blanks around `--`: compiles and works
	if ran, files, p := f2Run("[-f] [ -- ] FILE...", "-f", "--", "-x"); p != nil || !ran || len(files) != 1 || files[0] != "-x" {
		t.Fatalf("reference spec misbehaves: ran=%v files=%q panic=%v", ran, files, p)
	}
	// the same specs written the way usage lines are normally written
	for _, spec := range []string{
		"[-f] [--] FILE...",    // `--` directly before `]`
		"[-f] (--) FILE...",    // before `)`
		"[-f] [--|-f] FILE...", // before `|`
		"[-f] --\tFILE...",     // before a tab, which is a blank everywhere else in a spec
		"[-f] [ --\t] FILE...",
	} {
		ran, files, p := f2Run(spec, "-f", "--", "-x")
		if p != nil {
			t.Errorf("C08: well-formed spec %q is rejected: %v", spec, p)
			continue
		}
		if !ran || len(files) != 1 || files[0] != "-x" {
			t.Errorf("spec %q: ran=%v files=%q", spec, ran, files)
		}
	}
}
