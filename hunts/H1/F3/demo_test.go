package cli

// Finding F3: compiling a long spec string kills the process with "fatal error: stack overflow"
// (not a panic: it cannot be recovered). Goes to the repository root (package cli).

import (
	"io/ioutil"
	"os"
	"os/exec"
	"strings"
	"testing"
)

func f3Compile(spec string) (outcome string) {
	stdErr, stdOut = ioutil.Discard, ioutil.Discard
	defer func() {
		if r := recover(); r != nil {
			outcome = "spec error (panic)"
		}
	}()
	app := App("app", "")
	app.Spec = spec
	app.StringsArg("A", nil, "")
	app.Action = func() {}
	_ = app.Run([]string{"app", "x"})
	return "compiled"
}

func f3Spec(kind string) string {
	switch kind {
	case "unbalanced": // an ill-formed byte string: must give a spec error with a position
		return strings.Repeat("(", 800000)
	case "nested": // well-formed: must compile
		return strings.Repeat("[", 800000) + "A" + strings.Repeat("]", 800000)
	case "flat": // well-formed, no nesting at all: must compile
		return strings.Repeat("A ", 1000000)
	}
	panic(kind)
}

func TestF3Child(t *testing.T) {
	kind := os.Getenv("F3_KIND")
	if kind == "" {
		t.Skip("helper")
	}
	t.Logf("outcome: %s", f3Compile(f3Spec(kind)))
}

func TestF3HugeSpecExhaustsTheStack(t *testing.T) {
	for _, kind := range []string{"unbalanced", "nested", "flat"} {
		cmd := exec.Command(os.Args[0], "-test.run", "^TestF3Child$", "-test.v")
		cmd.Env = append(os.Environ(), "F3_KIND="+kind)
		out, err := cmd.CombinedOutput()
		if err != nil {
			msg := string(out)
			if i := strings.Index(msg, "\n\n"); i > 0 {
				msg = msg[:i]
			}
			t.Errorf("C03: compiling the %s spec (%d bytes) killed the process: %v\n%s", kind, len(f3Spec(kind)), err, msg)
		}
	}
}
