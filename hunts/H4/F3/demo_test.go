package cli

// F3: compiling a long spec exhausts the goroutine stack: the process dies with
// "fatal error: stack overflow", which no recover() can intercept, instead of reporting a spec error
// (unbalanced brackets) or compiling the spec (balanced brackets, or a plain sequence of arguments).
// Copy to the repository root (package cli) and run: go test -run TestF3 -v .
//
// The compilation runs in a child process (the test binary re-executed) because the overflow kills it.

import (
	"bytes"
	"flag"
	"fmt"
	"io/ioutil"
	"os"
	"os/exec"
	"strings"
	"testing"
)

func f3Spec(shape string) string {
	switch shape {
	case "open": // ill-formed: expected outcome = a spec error with a position inside the string
		return strings.Repeat("[", 1000000)
	case "nested": // well-formed: expected outcome = compiles
		return strings.Repeat("[", 1000000) + "A" + strings.Repeat("]", 1000000)
	case "flat": // well-formed, no nesting at all: expected outcome = compiles
		return strings.Repeat("A ", 1000000)
	}
	panic(shape)
}

func TestF3Child(t *testing.T) {
	shape := os.Getenv("F3_SHAPE")
	if shape == "" {
		t.Skip("helper of TestF3LongSpecOverflowsTheStack")
	}
	stdErr, stdOut, exiter = ioutil.Discard, ioutil.Discard, func(int) {}
	app := App("app", "")
	app.ErrorHandling = flag.ContinueOnError
	app.Spec = f3Spec(shape)
	app.StringsArg("A", nil, "")
	app.Action = func() {}
	func() {
		defer func() {
			if v := recover(); v != nil {
				msg := fmt.Sprint(v)
				if i := strings.IndexByte(msg, '\n'); i >= 0 {
					msg = msg[:i]
				}
				fmt.Println("OUTCOME: spec error:", msg)
			}
		}()
		err := app.Run([]string{"app", "--help"})
		fmt.Println("OUTCOME: compiled, Run returned", err)
	}()
}

func TestF3LongSpecOverflowsTheStack(t *testing.T) {
	for _, shape := range []string{"open", "nested", "flat"} {
		cmd := exec.Command(os.Args[0], "-test.run", "^TestF3Child$", "-test.v")
		cmd.Env = append(os.Environ(), "F3_SHAPE="+shape)
		var out bytes.Buffer
		cmd.Stdout, cmd.Stderr = &out, &out
		err := cmd.Run()
		s := out.String()
		outcome := ""
		for _, l := range strings.Split(s, "\n") {
			if strings.Contains(l, "OUTCOME:") || strings.Contains(l, "fatal error") || strings.Contains(l, "goroutine stack exceeds") {
				outcome += strings.TrimSpace(l) + "; "
			}
		}
		t.Logf("spec shape %q (%d bytes): child exit: %v; %s", shape, len(f3Spec(shape)), err, outcome)
		if err != nil || strings.Contains(s, "stack overflow") {
			t.Errorf("spec shape %q: the process died (stack overflow) instead of ending with a documented outcome", shape)
		}
	}
}
