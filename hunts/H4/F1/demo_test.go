package cli

// F1: a long command line that is rejected (or accepted after a deep backtrack) keeps memory
// proportional to the SQUARE of the line's size alive until Run returns.
// Copy to the repository root (package cli) and run: go test -run TestF1 -v .

import (
	"flag"
	"io/ioutil"
	"runtime"
	"strings"
	"sync/atomic"
	"testing"
	"time"
)

// f1PeakHeap runs `SRC... DST`-style app on args and returns (action ran, error, peak live heap in bytes, duration)
func f1PeakHeap(spec string, args []string) (bool, error, uint64, time.Duration) {
	oldErr, oldOut, oldEx := stdErr, stdOut, exiter
	stdErr, stdOut, exiter = ioutil.Discard, ioutil.Discard, func(int) {}
	defer func() { stdErr, stdOut, exiter = oldErr, oldOut, oldEx }()

	app := App("cp", "")
	app.ErrorHandling = flag.ContinueOnError
	app.Spec = spec
	app.BoolOpt("f force", false, "")
	app.StringsArg("SRC", nil, "")
	app.StringArg("DST", "", "")
	ran := false
	app.Action = func() { ran = true }

	runtime.GC()
	var base runtime.MemStats
	runtime.ReadMemStats(&base)
	var peak uint64
	stop, done := make(chan struct{}), make(chan struct{})
	go func() {
		defer close(done)
		var m runtime.MemStats
		for {
			select {
			case <-stop:
				return
			default:
			}
			runtime.ReadMemStats(&m)
			if m.HeapAlloc > atomic.LoadUint64(&peak) {
				atomic.StoreUint64(&peak, m.HeapAlloc)
			}
			time.Sleep(2 * time.Millisecond)
		}
	}()
	start := time.Now()
	err := app.Run(append([]string{"cp"}, args...))
	d := time.Since(start)
	close(stop)
	<-done
	p := atomic.LoadUint64(&peak)
	if p > base.HeapAlloc {
		p -= base.HeapAlloc
	} else {
		p = 0
	}
	return ran, err, p, d
}

func f1Line(n int, last ...string) ([]string, uint64) {
	tok := "/home/user/photos/2024/IMG_0001.jpeg" // 36 bytes
	args := make([]string, 0, n+len(last))
	for i := 0; i < n; i++ {
		args = append(args, tok)
	}
	args = append(args, last...)
	return args, uint64(len(strings.Join(args, " ")))
}

// The README's own example spec. The line is the classic mistake `cp a b c ... -f` (option after the
// positionals): it must be answered with a usage error, using memory in proportion to the line.
func TestF1RejectedLineKeepsQuadraticMemory(t *testing.T) {
	const budget = 200 // peak live heap allowed, as a multiple of the size of the command line itself
	var peaks []uint64
	for _, n := range []int{2000, 4000} {
		args, size := f1Line(n, "-f")
		ran, err, peak, d := f1PeakHeap("[-f] SRC... DST", args)
		if ran || err == nil {
			t.Fatalf("n=%d: the line should be rejected (ran=%v err=%v)", n, ran, err)
		}
		t.Logf("rejected line, %d tokens, %d KB: peak live heap %d MB (= %d x the line), %v", n+1, size>>10, peak>>20, peak/size, d)
		if peak > budget*size {
			t.Errorf("n=%d: Run kept %d MB alive for a %d KB command line (%d x its size; allowed %d x)", n, peak>>20, size>>10, peak/size, budget)
		}
		peaks = append(peaks, peak)
	}
	if peaks[1] > 3*peaks[0] {
		t.Errorf("doubling the line multiplied the live memory by %.1f: quadratic, not linear", float64(peaks[1])/float64(peaks[0]))
	}
}

// The same happens on an ACCEPTED line when the first alternative fails at the very end.
func TestF1AcceptedLineKeepsQuadraticMemory(t *testing.T) {
	const budget = 200
	args, size := f1Line(4000, "-f")
	ran, err, peak, d := f1PeakHeap("(SRC... DST) | (SRC... -f)", args)
	if !ran || err != nil {
		t.Fatalf("the line should be accepted (ran=%v err=%v)", ran, err)
	}
	t.Logf("accepted line, %d tokens, %d KB: peak live heap %d MB (= %d x the line), %v", len(args), size>>10, peak>>20, peak/size, d)
	if peak > budget*size {
		t.Errorf("Run kept %d MB alive for a %d KB command line (%d x its size; allowed %d x)", peak>>20, size>>10, peak/size, budget)
	}
}

// control: the same number of tokens, accepted without backtracking, stays small (this one passes)
func TestF1ControlAcceptedLineIsSmall(t *testing.T) {
	args, size := f1Line(4000)
	ran, err, peak, d := f1PeakHeap("[-f] SRC... DST", args)
	if !ran || err != nil {
		t.Fatalf("the line should be accepted (ran=%v err=%v)", ran, err)
	}
	t.Logf("accepted line, %d tokens, %d KB: peak live heap %d MB (= %d x the line), %v", len(args), size>>10, peak>>20, peak/size, d)
	if peak > 200*size {
		t.Errorf("control: %d MB", peak>>20)
	}
}
