package cli

// F2: with [OPTIONS] (or a folded group), an ACCEPTED line made of N occurrences of an option costs
// (number of options of the group) x N^2: which option is repeated changes the time by two orders of magnitude.
// Copy to the repository root (package cli) and run: go test -run TestF2 -v .

import (
	"flag"
	"io/ioutil"
	"testing"
	"time"
)

const f2Letters = "abcdefghijklmnopqrstuvwxyz"

// an application with 26 multi-valued options -a/--long-a ... -z/--long-z, spec [OPTIONS] ARG...
func f2Run(t *testing.T, args []string) (time.Duration, int) {
	oldErr, oldOut, oldEx := stdErr, stdOut, exiter
	stdErr, stdOut, exiter = ioutil.Discard, ioutil.Discard, func(int) {}
	defer func() { stdErr, stdOut, exiter = oldErr, oldOut, oldEx }()

	app := App("app", "")
	app.ErrorHandling = flag.ContinueOnError
	app.Spec = "[OPTIONS] ARG..."
	vals := map[string]*[]string{}
	for i := range f2Letters {
		l := f2Letters[i : i+1]
		vals[l] = app.StringsOpt(l+" long-"+l, nil, "")
	}
	app.StringsArg("ARG", nil, "")
	ran := false
	app.Action = func() { ran = true }
	start := time.Now()
	err := app.Run(append([]string{"app"}, args...))
	d := time.Since(start)
	if err != nil || !ran {
		t.Fatalf("the line should be accepted: ran=%v err=%v", ran, err)
	}
	n := 0
	for _, v := range vals {
		n += len(*v)
	}
	return d, n
}

func f2Line(opt string, n int) []string {
	var args []string
	for i := 0; i < n; i++ {
		args = append(args, opt+"=v")
	}
	return append(args, "x")
}

func TestF2RepeatedOptionInOptionsGroup(t *testing.T) {
	for _, n := range []int{1000, 2000} {
		dFirst, cntFirst := f2Run(t, f2Line("--long-a", n))
		dLast, cntLast := f2Run(t, f2Line("--long-z", n))
		if cntFirst != n || cntLast != n {
			t.Fatalf("wrong number of values bound: %d, %d", cntFirst, cntLast)
		}
		t.Logf("%d tokens: %d x --long-a=v: %v; %d x --long-z=v: %v (x%.0f)", n+1, n, dFirst, n, dLast, float64(dLast)/float64(dFirst))
		// the two lines have the same length and the same shape: they should cost about the same,
		// and a 2000 token line should be parsed in well under a second
		if dLast > 20*dFirst+100*time.Millisecond {
			t.Errorf("n=%d: repeating the last declared option takes %v, the first declared one %v", n, dLast, dFirst)
		}
		if dLast > time.Second {
			t.Errorf("n=%d: accepted line of %d tokens took %v", n, n+1, dLast)
		}
	}
}
