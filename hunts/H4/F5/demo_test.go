package cli

// F5: ONE folded token of M flags (-vvvv...v) matched by a repeated option atom keeps M^2 bytes alive
// and copies several times that: a single 40 KB token needs 1.6 GB and 4 seconds, on an accepted line.
// Copy to the repository root (package cli) and run: go test -run TestF5 -v .

import (
	"flag"
	"io/ioutil"
	"runtime"
	"strings"
	"sync/atomic"
	"testing"
	"time"
)

func f5Run(t *testing.T, spec string, args []string) (uint64, time.Duration) {
	oldErr, oldOut, oldEx := stdErr, stdOut, exiter
	stdErr, stdOut, exiter = ioutil.Discard, ioutil.Discard, func(int) {}
	defer func() { stdErr, stdOut, exiter = oldErr, oldOut, oldEx }()

	app := App("app", "")
	app.ErrorHandling = flag.ContinueOnError
	app.Spec = spec
	app.BoolOpt("v verbose", false, "")
	ran := false
	app.Action = func() { ran = true }

	runtime.GC()
	var base runtime.MemStats
	runtime.ReadMemStats(&base)
	var peak uint64
	stop, done := make(chan struct{}), make(chan struct{})
	go func() {
		defer close(done)
		var m runtime.MemStats
		for {
			select {
			case <-stop:
				return
			default:
			}
			runtime.ReadMemStats(&m)
			if m.HeapAlloc > atomic.LoadUint64(&peak) {
				atomic.StoreUint64(&peak, m.HeapAlloc)
			}
			time.Sleep(2 * time.Millisecond)
		}
	}()
	start := time.Now()
	err := app.Run(append([]string{"app"}, args...))
	d := time.Since(start)
	close(stop)
	<-done
	if err != nil || !ran {
		t.Fatalf("the line should be accepted: ran=%v err=%v", ran, err)
	}
	p := atomic.LoadUint64(&peak)
	if p < base.HeapAlloc {
		return 0, d
	}
	return p - base.HeapAlloc, d
}

func TestF5LongFoldedToken(t *testing.T) {
	var peaks []uint64
	for _, m := range []int{10000, 20000, 40000} {
		tok := "-" + strings.Repeat("v", m)
		peak, d := f5Run(t, "-v...", []string{tok})
		t.Logf("spec -v..., one token of %d flags: peak live heap %d MB (%d x the token), %v", m, peak>>20, peak/uint64(len(tok)), d)
		peaks = append(peaks, peak)
		if peak > 1000*uint64(len(tok)) {
			t.Errorf("m=%d: %d MB alive for a %d KB token", m, peak>>20, len(tok)>>10)
		}
		if d > time.Second {
			t.Errorf("m=%d: accepted one-token line took %v", m, d)
		}
	}
	if peaks[2] > 3*peaks[1] {
		t.Errorf("doubling the token multiplied the live memory by %.1f: quadratic", float64(peaks[2])/float64(peaks[1]))
	}
	// control: the same token through a folded group / [OPTIONS] is matched in a loop, not by recursion
	peak, d := f5Run(t, "[OPTIONS]", []string{"-" + strings.Repeat("v", 40000)})
	t.Logf("spec [OPTIONS], one token of 40000 flags: peak live heap %d MB, %v", peak>>20, d)
}
