package cli

// F4: compiling a spec made of K optional atoms in a row costs K^3: a 12 KB spec takes 20 seconds.
// Copy to the repository root (package cli) and run: go test -run TestF4 -v .

import (
	"flag"
	"io/ioutil"
	"strings"
	"testing"
	"time"
)

func f4Compile(t *testing.T, spec string) time.Duration {
	oldErr, oldOut, oldEx := stdErr, stdOut, exiter
	stdErr, stdOut, exiter = ioutil.Discard, ioutil.Discard, func(int) {}
	defer func() { stdErr, stdOut, exiter = oldErr, oldOut, oldEx }()

	app := App("app", "")
	app.ErrorHandling = flag.ContinueOnError
	app.Spec = spec
	app.StringsArg("A", nil, "")
	app.Action = func() {}
	start := time.Now()
	if err := app.Run([]string{"app", "--help"}); err != nil { // compiles the spec, prints the help
		t.Fatalf("unexpected error %v", err)
	}
	return time.Since(start)
}

func TestF4SpecCompilationIsCubic(t *testing.T) {
	var ds []time.Duration
	for _, k := range []int{500, 1000, 2000} {
		spec := strings.Repeat("[A] ", k)
		d := f4Compile(t, spec)
		t.Logf("%d optional atoms (%d bytes): compiled in %v", k, len(spec), d)
		ds = append(ds, d)
	}
	// the automaton has K^2/2 transitions by construction: x4 per doubling would be expected, x8 is cubic
	if r := float64(ds[2]) / float64(ds[1]); r > 6 {
		t.Errorf("doubling the spec multiplied the compilation time by %.1f (cubic)", r)
	}
	if ds[2] > 2*time.Second {
		t.Errorf("an 8 KB spec took %v to compile", ds[2])
	}
}
