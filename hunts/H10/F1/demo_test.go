package cli

// Goes to the repository root (package cli): cp FINDINGS/F1/demo_test.go ./f1_demo_test.go
//
// The README / doc.go example
//
//	x.Spec = "-f -g SRC -h DST"
//	health = x.IntOpt("h", 1, "# of hosts")
//
// declares an option named h. C10: `-h=7`, `-h7` and `-h 7` are interchangeable spellings of
// one occurrence. The separate spelling is taken for a help request instead.

import (
	"bytes"
	"flag"
	"testing"
)

func f1Run(t *testing.T, args ...string) (ran bool, f, g, h int, src, dst string, out string) {
	t.Helper()
	var buf bytes.Buffer
	oldErr, oldOut, oldExit := stdErr, stdOut, exiter
	stdErr, stdOut = &buf, &buf
	exiter = func(int) {}
	defer func() { stdErr, stdOut, exiter = oldErr, oldOut, oldExit }()

	x := App("x", "")
	x.ErrorHandling = flag.ContinueOnError
	x.Spec = "-f -g SRC -h DST"
	pf := x.IntOpt("f", 1, "Fun factor (1-5)")
	pg := x.IntOpt("g", 1, "# of games")
	ph := x.IntOpt("h", 1, "# of hosts")
	ps := x.StringArg("SRC", "", "")
	pd := x.StringArg("DST", "", "")
	x.Action = func() { ran = true }
	if err := x.Run(append([]string{"x"}, args...)); err != nil {
		t.Logf("%q: error %v", args, err)
	}
	return ran, *pf, *pg, *ph, *ps, *pd, buf.String()
}

func TestF1_DocExampleOptionH(t *testing.T) {
	// reference spellings: accepted, h = 7
	for _, line := range [][]string{
		{"-f=5", "-g=6", "s", "-h=7", "d"},
		{"-f=5", "-g=6", "s", "-h7", "d"},
	} {
		ran, f, g, h, src, dst, _ := f1Run(t, line...)
		if !ran || f != 5 || g != 6 || h != 7 || src != "s" || dst != "d" {
			t.Fatalf("%q: ran=%v f=%d g=%d h=%d src=%q dst=%q", line, ran, f, g, h, src, dst)
		}
	}
	// the same occurrence written `-h 7` (value non-empty, does not start with '-')
	line := []string{"-f=5", "-g=6", "s", "-h", "7", "d"}
	ran, f, g, h, src, dst, out := f1Run(t, line...)
	if !ran || f != 5 || g != 6 || h != 7 || src != "s" || dst != "d" {
		t.Errorf("%q: re-spelling changed the outcome: ran=%v f=%d g=%d h=%d src=%q dst=%q\noutput:\n%s",
			line, ran, f, g, h, src, dst, out)
	}
}

func TestF1_FlagNamedH(t *testing.T) {
	run := func(args ...string) (ran, v bool) {
		var buf bytes.Buffer
		oldErr, oldOut, oldExit := stdErr, stdOut, exiter
		stdErr, stdOut = &buf, &buf
		exiter = func(int) {}
		defer func() { stdErr, stdOut, exiter = oldErr, oldOut, oldExit }()
		x := App("x", "")
		x.ErrorHandling = flag.ContinueOnError
		x.Spec = "[-h]"
		p := x.BoolOpt("h human", false, "human readable sizes")
		x.Action = func() { ran = true }
		_ = x.Run(append([]string{"x"}, args...))
		return ran, *p
	}
	for _, line := range [][]string{{"-h=true"}, {"--human"}, {"--human=true"}, {"-h"}} {
		ran, v := run(line...)
		if !ran || !v {
			t.Errorf("%q: ran=%v human=%v (want true true: all four spell the same flag occurrence)", line, ran, v)
		}
	}
}
