(** C01 at the level of symbols. For a spec without "--", on a command line that reads cleanly, the
    language of the spec read as a regular expression over matcher steps ([ThompsonProofs.Accepts],
    which is what the compiled command accepts: [StructProofs.compile_accepts_iff_language]) is the
    language of the spec read as a regular expression over the symbols of the reading:
      an argument takes the next symbol when it is a positional;
      an option takes the first occurrence of itself in the leading run of occurrences — so the
        occurrences of a run are matched in any order, and an occurrence behind a positional is out
        of reach until the positional has been taken — or nothing when it is backed by the environment;
      an option group takes greedily every occurrence of its listed options in the leading run
        (the first listed option first), and must take something unless a listed option is backed by
        the environment;
      juxtaposition is composition, | is union, [ ] is optional, ... is one or more;
      the first "--" of the command line is dropped when it comes to the head; what follows are positionals. *)
From MowCli Require Import Base Parser Nfa Matchers Apply View ApplyProofs TermProofs MatcherProofs SimProofs
     ViewProofs GroupProofs AccountProofs ThompsonProofs RefSem.

Definition vcfg := (list vs * bool)%type.

Definition vstrip (c : vcfg) : vcfg :=
  match fst c with VDD :: u' => (u', true) | _ => c end.

Fixpoint first_take (js : list nat) (u : list vs) : option (nat * str * list vs) :=
  match js with
  | [] => None
  | o :: js' => match take o u with Some (v, u') => Some (o, v, u') | None => first_take js' u end
  end.

Inductive VGreedy (js : list nat) : list vs -> list binding -> list vs -> Prop :=
| VGStop u : first_take js u = None -> VGreedy js u [] u
| VGStep u o v u' bs m : first_take js u = Some (o, v, u') -> VGreedy js u' bs m -> VGreedy js u ((KO o, v) :: bs) m.

Section Sym.
  Variable D : optinfo.
  Hypothesis Hnodd : oi_lookup D s_dd = None.
  Hypothesis Hnoeq : oi_lookup D [c_dash; c_eq] = None.
  Variable nopts : nat.
  Notation Reads := (Reads D).
  Notation View := (View D).

  (** one step on symbols *)
  Definition v_arg (i : nat) (c : vcfg) : option (vcfg * list binding) :=
    match fst c with VP t :: u' => Some ((u', snd c), [(KA i, t)]) | _ => None end.

  Definition v_opt (o : nat) (c : vcfg) : option (vcfg * list binding) :=
    let fb := if oi_fromenv D o then Some (c, []) else None in
    if snd c then fb
    else match take o (fst c) with
         | Some (v, u') => Some ((u', false), [(KO o, v)])
         | None => fb
         end.

  Inductive v_grp (js : list nat) : vcfg -> vcfg -> list binding -> Prop :=
  | VGrp u bs u' : u <> [] -> VGreedy js u bs u' ->
                   (bs <> [] \/ exists o, In o js /\ oi_fromenv D o = true) ->
                   v_grp js (u, false) (u', false) bs.

  Definition vmstep (l : label) (c c' : vcfg) (b : list binding) : Prop :=
    let c0 := vstrip c in
    match l with
    | LEps => c' = c0 /\ b = []
    | LArg i => v_arg i c0 = Some (c', b)
    | LOpt o => v_opt o c0 = Some (c', b)
    | LGrp js => v_grp js c0 c' b
    | LDD => False
    end.

  (** the spec as a regular expression over symbol steps *)
  Inductive VS : seq -> vcfg -> vcfg -> list binding -> Prop :=
  | VSNil c : VS SNil c c []
  | VSCons ch s c c1 c2 b1 b2 : VC ch c c1 b1 -> VS s c1 c2 b2 -> VS (SCons ch s) c c2 (b1 ++ b2)
  with VC : choice -> vcfg -> vcfg -> list binding -> Prop :=
  | VCOne a c c' b : VR a c c' b -> VC (COne a) c c' b
  | VCAltL a ch c c' b : VR a c c' b -> VC (CAlt a ch) c c' b
  | VCAltR a ch c c' b : VC ch c c' b -> VC (CAlt a ch) c c' b
  with VR : ratom -> vcfg -> vcfg -> list binding -> Prop :=
  | VROnce a rep c c' b : VA a c c' b -> VR (RAtom a rep) c c' b
  | VRMore a c c1 c2 b1 b2 : VA a c c1 b1 -> VR (RAtom a true) c1 c2 b2 -> VR (RAtom a true) c c2 (b1 ++ b2)
  with VA : atom -> vcfg -> vcfg -> list binding -> Prop :=
  | VAArg i c c' b : vmstep (LArg i) c c' b -> VA (AArg i) c c' b
  | VAOptions c c' b : vmstep (LGrp (List.seq 0 nopts)) c c' b -> VA AOptions c c' b
  | VAOpt i c c' b : vmstep (LOpt i) c c' b -> VA (AOpt i) c c' b
  | VAGroup js c c' b : vmstep (LGrp js) c c' b -> VA (AGroup js) c c' b
  | VAPar s c c' b : VS s c c' b -> VA (APar s) c c' b
  | VASqSome s c c' b : VS s c c' b -> VA (ASq s) c c' b
  | VASqNone s c : VA (ASq s) c c [].

  Scheme VS_mut := Induction for VS Sort Prop
  with VC_mut := Induction for VC Sort Prop
  with VR_mut := Induction for VR Sort Prop
  with VA_mut := Induction for VA Sort Prop.
  Combined Scheme vden_mutind from VS_mut, VC_mut, VR_mut, VA_mut.

  (** a sentence: some reading of the expression consumes every symbol *)
  Definition VAccepts (e : seq) (c : vcfg) (bs : list binding) : Prop :=
    exists c', VS e c c' bs /\ fst (vstrip c') = [].

  (** * Steps on tokens are steps on symbols *)

  Lemma first_scan_take js a u : Reads a u ->
    match first_take js u with
    | Some (o, v, u') => exists a', first_scan D js a = Some (o, v, a') /\ Reads a' u'
    | None => first_scan D js a = None
    end.
  Proof.
    intros Hr. induction js as [|o js IH]; cbn [first_take first_scan]; [reflexivity|].
    pose proof (scan_reads D Hnodd Hnoeq o a u Hr []) as H.
    destruct (take o u) as [[v u']|].
    - destruct H as (a' & -> & Hr'). cbn [rev_append]. eauto.
    - rewrite H. exact IH.
  Qed.

  Lemma greedy_view js a b m : GroupProofs.Greedy D js a b m -> forall u, Reads a u ->
    exists u', VGreedy js u b u' /\ Reads m u'.
  Proof.
    induction 1 as [a Hn | a o v a' bs m Hf Hg IH]; intros u Hr; pose proof (first_scan_take js a u Hr) as X.
    - destruct (first_take js u) as [[[o v] u']|] eqn:E.
      + destruct X as (a' & E' & _). congruence.
      + exists u. split; [now constructor | assumption].
    - destruct (first_take js u) as [[[o' v'] u1]|] eqn:E; [|congruence].
      destruct X as (a1 & E' & Hr1). rewrite Hf in E'. injection E' as <- <- <-.
      destruct (IH u1 Hr1) as (u' & G & Hr'). exists u'. split; [eapply VGStep; eauto | assumption].
  Qed.

  Lemma view_greedy js u b u' : VGreedy js u b u' -> forall a, Reads a u ->
    exists m, GroupProofs.Greedy D js a b m /\ Reads m u'.
  Proof.
    induction 1 as [u Hn | u o v u1 bs m Hf Hg IH]; intros a Hr; pose proof (first_scan_take js a u Hr) as X.
    - rewrite Hn in X. exists a. split; [now constructor | assumption].
    - rewrite Hf in X. destruct X as (a1 & E & Hr1). destruct (IH a1 Hr1) as (m' & G & Hr').
      exists m'. split; [eapply GStep; eauto | assumption].
  Qed.

  (** the drop of "--" *)
  Lemma view_strip a ro u : View a ro u ->
    View (fst (strip a ro)) (snd (strip a ro)) (fst (vstrip (u, ro))) /\ snd (strip a ro) = snd (vstrip (u, ro)).
  Proof.
    intros Hv. destruct ro.
    - rewrite strip_ro_true. cbn in Hv. subst u. unfold vstrip. cbn [fst snd].
      destruct a as [|t a]; cbn [map]; split; reflexivity.
    - cbn in Hv. destruct a as [|t rest].
      + rewrite (reads_nil D Hnodd Hnoeq u Hv). split; [constructor | reflexivity].
      + rewrite strip_false_cons. pose proof (reads_head D Hnodd Hnoeq _ _ Hv) as Hh. cbv beta iota in Hh.
        destruct (str_eqb t s_dd).
        * subst u. unfold vstrip. cbn. split; reflexivity.
        * unfold vstrip. cbn [fst snd]. destruct u as [|[o v|p|] u]; try contradiction; split; auto.
  Qed.

  Lemma stripped_view a ro u : View a ro u -> strip a ro = (a, ro) -> vstrip (u, ro) = (u, ro).
  Proof.
    intros Hv Hs. destruct ro.
    - cbn in Hv. subst u. unfold vstrip. cbn [fst]. destruct a; reflexivity.
    - cbn in Hv. destruct a as [|t rest]; [now rewrite (reads_nil D Hnodd Hnoeq u Hv)|].
      pose proof (reads_head D Hnodd Hnoeq _ _ Hv) as Hh. cbv beta iota in Hh.
      rewrite (stripped_head _ _ Hs) in Hh. unfold vstrip. cbn [fst]. destruct u as [|[o v|p|] u]; try contradiction; reflexivity.
  Qed.

  (** a matcher step on a stripped configuration, forwards *)
  Lemma step_fwd l a ro u a' ro' b : l <> LDD -> View a ro u -> strip a ro = (a, ro) ->
    run_matcher D l a ro = Some (a', ro', b) ->
    exists u', View a' ro' u' /\
      match l with
      | LEps => (u', ro') = (u, ro) /\ b = []
      | LArg i => v_arg i (u, ro) = Some ((u', ro'), b)
      | LOpt o => v_opt o (u, ro) = Some ((u', ro'), b)
      | LGrp js => v_grp js (u, ro) (u', ro') b
      | LDD => False
      end.
  Proof.
    intros Hl Hv Hst. destruct l as [|i|o|js|]; cbn [run_matcher]; [| | | |congruence].
    - intros [= <- <- <-]. exists u. auto.
    - unfold m_arg, v_arg. destruct a as [|t rest]; [discriminate|].
      destruct (negb ro && dashed t && negb (str_eqb t s_dash)) eqn:Ec; [discriminate|]. intros [= <- <- <-].
      destruct ro.
      + cbn in Hv. subst u. exists (map VP rest). split; reflexivity.
      + cbn in Hv. pose proof (reads_head D Hnodd Hnoeq _ _ Hv) as Hh. cbv beta iota in Hh.
        rewrite (stripped_head _ _ Hst) in Hh. destruct u as [|[o v|p|] u]; try contradiction.
        * destruct Hh as [Hd Hn]. cbn [negb andb] in Ec. rewrite Hd, Hn in Ec. discriminate.
        * destruct Hh as (-> & _ & Hr). exists u. split; [exact Hr | reflexivity].
    - unfold v_opt. cbn [fst snd]. destruct ro.
      + rewrite (m_opt_ro D). destruct (oi_fromenv D o); [|discriminate]. intros [= <- <- <-]. exists u. auto.
      + cbn in Hv. pose proof (m_opt_view D Hnodd Hnoeq o a u Hv) as M.
        destruct (take o u) as [[v u1]|].
        * destruct M as (a1 & -> & Hr1). intros [= <- <- <-]. exists u1. auto.
        * rewrite M. destruct (oi_fromenv D o); [|discriminate]. intros [= <- <- <-]. exists u. auto.
    - destruct ro.
      + unfold m_group, try_. destruct a; discriminate.
      + cbn in Hv. intros Hm.
        destruct (m_group_greedy_env D Hnodd Hnoeq js a u a' ro' b Hv Hm) as (-> & Hne & G & Hc).
        destruct (greedy_view js a b a' G u Hv) as (u' & VG & Hr'). exists u'. split; [exact Hr'|].
        constructor; auto. intros ->. apply Hne. now apply (reads_nil_iff D Hnodd Hnoeq a [] Hv).
  Qed.

  (** and backwards *)
  Lemma step_bwd l a ro u u' ro' b : View a ro u -> strip a ro = (a, ro) ->
    match l with
    | LEps => (u', ro') = (u, ro) /\ b = []
    | LArg i => v_arg i (u, ro) = Some ((u', ro'), b)
    | LOpt o => v_opt o (u, ro) = Some ((u', ro'), b)
    | LGrp js => v_grp js (u, ro) (u', ro') b
    | LDD => False
    end ->
    exists a', run_matcher D l a ro = Some (a', ro', b) /\ View a' ro' u'.
  Proof.
    intros Hv Hst. destruct l as [|i|o|js|]; cbn [run_matcher]; [| | | |contradiction].
    - intros [[= -> ->] ->]. exists a. auto.
    - unfold v_arg. cbn [fst snd]. destruct u as [|[o v|t|] u]; try discriminate. intros [= <- <- <-].
      destruct ro.
      + cbn in Hv. destruct a as [|t' rest]; [discriminate|]. injection Hv as <- ->.
        exists rest. split; reflexivity.
      + cbn in Hv. pose proof (reads_head D Hnodd Hnoeq _ _ Hv) as Hh. destruct a as [|t' rest]; [discriminate|].
        cbv beta iota in Hh. rewrite (stripped_head _ _ Hst) in Hh. destruct Hh as (-> & Hp & Hr).
        exists rest. split; [|exact Hr]. unfold m_arg. cbn [negb andb].
        destruct Hp as [-> | ->]; reflexivity.
    - unfold v_opt. cbn [fst snd]. destruct ro.
      + rewrite (m_opt_ro D). destruct (oi_fromenv D o); [|discriminate]. intros [= <- <- <-]. exists a. auto.
      + cbn in Hv. pose proof (m_opt_view D Hnodd Hnoeq o a u Hv) as M.
        destruct (take o u) as [[v u1]|].
        * destruct M as (a1 & E & Hr1). intros [= <- <- <-]. exists a1. auto.
        * rewrite M. destruct (oi_fromenv D o); [|discriminate]. intros [= <- <- <-]. exists a. auto.
    - intros Hg. inversion Hg as [u0 bs u0' Hne VG Hc]; subst. cbn in Hv.
      destruct (view_greedy js u b u' VG a Hv) as (m & G & Hr').
      assert (Ha : a <> []) by (intros ->; apply Hne; now apply (reads_nil D Hnodd Hnoeq)).
      assert (Hsome : m_group D js a false <> None).
      { destruct Hc as [Hb|(o & Hin & He)].
        - inversion G as [a0 Hn | a0 o v a1 bs' m0 Hf Hg']; subst; [congruence|].
          assert (Hin : In o js /\ scan D o [] a <> None).
          { clear -Hf. induction js as [|p js IH]; cbn [first_scan] in Hf; [discriminate|].
            destruct (scan D p [] a) as [[v' r']|] eqn:E.
            - injection Hf as <- <- <-. split; [now left | congruence].
            - destruct (IH Hf) as [H1 H2]. split; [now right | assumption]. }
          destruct Hin as [Hin Hs]. apply (m_group_succeeds D js a o Ha Hin). now left.
        - apply (m_group_succeeds D js a o Ha Hin). now right. }
      destruct (m_group D js a false) as [[[m2 r2] b2]|] eqn:Em; [|congruence].
      destruct (m_group_greedy D Hnodd Hnoeq js a u m2 r2 b2 Hv Em) as [-> G2].
      destruct (greedy_det D js a b m G b2 m2 G2) as [-> ->]. exists m2. auto.
  Qed.

  (** [mstep] (which drops "--" first) against [vmstep] *)
  Lemma mstep_fwd l (c c' : cfg) b u : l <> LDD -> View (fst c) (snd c) u -> mstep D l c c' b ->
    exists u', View (fst c') (snd c') u' /\ vmstep l (u, snd c) (u', snd c') b.
  Proof.
    intros Hl Hv Hm. unfold mstep in Hm. destruct (view_strip _ _ _ Hv) as [Hv0 Hr0].
    pose proof (strip_idem (fst c) (snd c)) as Hid.
    destruct (strip (fst c) (snd c)) as [a0 r0] eqn:Es. cbn [fst snd] in *.
    destruct (step_fwd l a0 r0 _ (fst c') (snd c') b Hl Hv0 Hid Hm) as (u' & Hv' & Hstep).
    exists u'. split; [exact Hv'|]. unfold vmstep.
    assert (E : vstrip (u, snd c) = (fst (vstrip (u, snd c)), r0)) by (rewrite Hr0; now destruct (vstrip (u, snd c))).
    rewrite E. destruct l; exact Hstep.
  Qed.

  Lemma mstep_bwd l (c : cfg) b u u' ro' : View (fst c) (snd c) u -> vmstep l (u, snd c) (u', ro') b ->
    exists c', mstep D l c c' b /\ View (fst c') (snd c') u' /\ snd c' = ro'.
  Proof.
    intros Hv Hm. unfold vmstep in Hm. destruct (view_strip _ _ _ Hv) as [Hv0 Hr0].
    pose proof (strip_idem (fst c) (snd c)) as Hid. unfold mstep.
    destruct (strip (fst c) (snd c)) as [a0 r0] eqn:Es. cbn [fst snd] in *.
    assert (E : vstrip (u, snd c) = (fst (vstrip (u, snd c)), r0)) by (rewrite Hr0; now destruct (vstrip (u, snd c))).
    rewrite E in Hm.
    destruct (step_bwd l a0 r0 _ u' ro' b Hv0 Hid) as (a' & Hrun & Hv').
    { destruct l; exact Hm. }
    exists (a', ro'). auto.
  Qed.

  (** * The two readings of the spec coincide *)
  Theorem den_fwd :
    (forall s c c' b, DS D nopts s c c' b -> seq_has_dd s = false -> forall u, View (fst c) (snd c) u ->
       exists u', VS s (u, snd c) (u', snd c') b /\ View (fst c') (snd c') u') /\
    (forall ch c c' b, DC D nopts ch c c' b -> choice_has_dd ch = false -> forall u, View (fst c) (snd c) u ->
       exists u', VC ch (u, snd c) (u', snd c') b /\ View (fst c') (snd c') u') /\
    (forall a c c' b, DR D nopts a c c' b -> ratom_has_dd a = false -> forall u, View (fst c) (snd c) u ->
       exists u', VR a (u, snd c) (u', snd c') b /\ View (fst c') (snd c') u') /\
    (forall a c c' b, DA D nopts a c c' b -> atom_has_dd a = false -> forall u, View (fst c) (snd c) u ->
       exists u', VA a (u, snd c) (u', snd c') b /\ View (fst c') (snd c') u').
  Proof.
    apply den_mutind.
    - intros c _ u Hv. exists u. split; [constructor | assumption].
    - intros ch s c c1 c2 b1 b2 _ IH1 _ IH2 Hd u Hv. cbn in Hd. apply orb_false_iff in Hd as [Hd1 Hd2].
      destruct (IH1 Hd1 u Hv) as (u1 & H1 & Hv1). destruct (IH2 Hd2 u1 Hv1) as (u2 & H2 & Hv2).
      exists u2. split; [econstructor; eauto | assumption].
    - intros a c c' b _ IH Hd u Hv. destruct (IH Hd u Hv) as (u' & H & Hv'). exists u'. split; [now constructor | assumption].
    - intros a ch c c' b _ IH Hd u Hv. cbn in Hd. apply orb_false_iff in Hd as [Hd1 Hd2].
      destruct (IH Hd1 u Hv) as (u' & H & Hv'). exists u'. split; [now apply VCAltL | assumption].
    - intros a ch c c' b _ IH Hd u Hv. cbn in Hd. apply orb_false_iff in Hd as [Hd1 Hd2].
      destruct (IH Hd2 u Hv) as (u' & H & Hv'). exists u'. split; [now apply VCAltR | assumption].
    - intros a rep c c' b _ IH Hd u Hv. destruct (IH Hd u Hv) as (u' & H & Hv'). exists u'. split; [now apply VROnce | assumption].
    - intros a c c1 c2 b1 b2 _ IH1 _ IH2 Hd u Hv.
      destruct (IH1 Hd u Hv) as (u1 & H1 & Hv1). destruct (IH2 Hd u1 Hv1) as (u2 & H2 & Hv2).
      exists u2. split; [eapply VRMore; eauto | assumption].
    - intros i c c' b Hm _ u Hv. destruct (mstep_fwd (LArg i) c c' b u ltac:(discriminate) Hv Hm) as (u' & Hv' & H).
      exists u'. split; [now constructor | assumption].
    - intros c c' b Hm _ u Hv. destruct (mstep_fwd (LGrp (List.seq 0 nopts)) c c' b u ltac:(discriminate) Hv Hm) as (u' & Hv' & H).
      exists u'. split; [now constructor | assumption].
    - intros i c c' b Hm _ u Hv. destruct (mstep_fwd (LOpt i) c c' b u ltac:(discriminate) Hv Hm) as (u' & Hv' & H).
      exists u'. split; [now constructor | assumption].
    - intros js c c' b Hm _ u Hv. destruct (mstep_fwd (LGrp js) c c' b u ltac:(discriminate) Hv Hm) as (u' & Hv' & H).
      exists u'. split; [now constructor | assumption].
    - intros c c' b _ Hd. discriminate.
    - intros s c c' b _ IH Hd u Hv. destruct (IH Hd u Hv) as (u' & H & Hv'). exists u'. split; [now constructor | assumption].
    - intros s c c' b _ IH Hd u Hv. destruct (IH Hd u Hv) as (u' & H & Hv'). exists u'. split; [now apply VASqSome | assumption].
    - intros s c _ u Hv. exists u. split; [apply VASqNone | assumption].
  Qed.

  Theorem den_bwd :
    (forall s vc vc' b, VS s vc vc' b -> forall c, View (fst c) (snd c) (fst vc) -> snd c = snd vc ->
       exists c', DS D nopts s c c' b /\ View (fst c') (snd c') (fst vc') /\ snd c' = snd vc') /\
    (forall ch vc vc' b, VC ch vc vc' b -> forall c, View (fst c) (snd c) (fst vc) -> snd c = snd vc ->
       exists c', DC D nopts ch c c' b /\ View (fst c') (snd c') (fst vc') /\ snd c' = snd vc') /\
    (forall a vc vc' b, VR a vc vc' b -> forall c, View (fst c) (snd c) (fst vc) -> snd c = snd vc ->
       exists c', DR D nopts a c c' b /\ View (fst c') (snd c') (fst vc') /\ snd c' = snd vc') /\
    (forall a vc vc' b, VA a vc vc' b -> forall c, View (fst c) (snd c) (fst vc) -> snd c = snd vc ->
       exists c', DA D nopts a c c' b /\ View (fst c') (snd c') (fst vc') /\ snd c' = snd vc').
  Proof.
    assert (Hleaf : forall l (vc vc' : vcfg) b (c : cfg), vmstep l vc vc' b -> View (fst c) (snd c) (fst vc) -> snd c = snd vc ->
              exists c', mstep D l c c' b /\ View (fst c') (snd c') (fst vc') /\ snd c' = snd vc').
    { intros l [u r] [u' r'] b c Hm Hv Hr. cbn [fst snd] in *. subst r. now apply mstep_bwd with u. }
    apply vden_mutind.
    - intros vc c Hv Hr. exists c. split; [constructor | auto].
    - intros ch s vc vc1 vc2 b1 b2 _ IH1 _ IH2 c Hv Hr.
      destruct (IH1 c Hv Hr) as (c1 & H1 & Hv1 & Hr1). destruct (IH2 c1 Hv1 Hr1) as (c2 & H2 & Hv2 & Hr2).
      exists c2. split; [econstructor; eauto | auto].
    - intros a vc vc' b _ IH c Hv Hr. destruct (IH c Hv Hr) as (c' & H & X). exists c'. split; [now constructor | exact X].
    - intros a ch vc vc' b _ IH c Hv Hr. destruct (IH c Hv Hr) as (c' & H & X). exists c'. split; [now apply DCAltL | exact X].
    - intros a ch vc vc' b _ IH c Hv Hr. destruct (IH c Hv Hr) as (c' & H & X). exists c'. split; [now apply DCAltR | exact X].
    - intros a rep vc vc' b _ IH c Hv Hr. destruct (IH c Hv Hr) as (c' & H & X). exists c'. split; [now apply DROnce | exact X].
    - intros a vc vc1 vc2 b1 b2 _ IH1 _ IH2 c Hv Hr.
      destruct (IH1 c Hv Hr) as (c1 & H1 & Hv1 & Hr1). destruct (IH2 c1 Hv1 Hr1) as (c2 & H2 & Hv2 & Hr2).
      exists c2. split; [eapply DRMore; eauto | auto].
    - intros i vc vc' b Hm c Hv Hr. destruct (Hleaf _ _ _ _ c Hm Hv Hr) as (c' & H & X). exists c'. split; [now constructor | exact X].
    - intros vc vc' b Hm c Hv Hr. destruct (Hleaf _ _ _ _ c Hm Hv Hr) as (c' & H & X). exists c'. split; [now constructor | exact X].
    - intros i vc vc' b Hm c Hv Hr. destruct (Hleaf _ _ _ _ c Hm Hv Hr) as (c' & H & X). exists c'. split; [now constructor | exact X].
    - intros js vc vc' b Hm c Hv Hr. destruct (Hleaf _ _ _ _ c Hm Hv Hr) as (c' & H & X). exists c'. split; [now constructor | exact X].
    - intros s vc vc' b _ IH c Hv Hr. destruct (IH c Hv Hr) as (c' & H & X). exists c'. split; [now constructor | exact X].
    - intros s vc vc' b _ IH c Hv Hr. destruct (IH c Hv Hr) as (c' & H & X). exists c'. split; [now apply DASqSome | exact X].
    - intros s vc c Hv Hr. exists c. split; [apply DASqNone | auto].
  Qed.

  (** a spec without "--", a command line that reads cleanly: same sentences, same bindings *)
  Theorem accepts_iff_symbols e a u bs :
    seq_has_dd e = false -> Reads a u ->
    (Accepts D nopts e (a, false) bs <-> VAccepts e (u, false) bs).
  Proof.
    intros Hd Hr. split.
    - intros (c' & Hds & Hend). destruct den_fwd as (F & _).
      destruct (F e (a, false) c' bs Hds Hd u Hr) as (u' & Hvs & Hv'). cbn [fst snd] in Hvs.
      exists (u', snd c'). split; [exact Hvs|].
      destruct (view_strip _ _ _ Hv') as [Hv0 _]. rewrite Hend in Hv0.
      destruct (snd (strip (fst c') (snd c'))); cbn in Hv0; [exact Hv0 | now apply (reads_nil D Hnodd Hnoeq)].
    - intros ([u' r'] & Hvs & Hend). destruct den_bwd as (B & _).
      destruct (B e (u, false) (u', r') bs Hvs (a, false) Hr eq_refl) as (c' & Hds & Hv' & Hr'). cbn [fst snd] in *.
      exists c'. split; [exact Hds|]. subst r'.
      destruct (view_strip _ _ _ Hv') as [Hv0 _]. rewrite Hend in Hv0.
      destruct (strip (fst c') (snd c')) as [a0 r0]. cbn [fst snd] in *. destruct r0; cbn in Hv0.
      + destruct a0; [reflexivity | discriminate].
      + now apply (reads_nil_iff D Hnodd Hnoeq _ _ Hv0).
  Qed.
End Sym.

(** * Command level *)
From MowCli Require Import Lexer Values Flow Cmd NfaProofs CompileProofs CompleteProofs PrepareProofs StructProofs ReadProofs.

(** A compiled command whose spec has no "--" accepts a cleanly read command line exactly when the
    symbols of the reading are a sentence of the spec, and the bindings it records are those of such
    a sentence *)
Theorem compile_accepts_iff_symbols opts args spec i toks e a u :
  compile opts args spec = IOk i ->
  tokenize spec = LexOk toks ->
  parse_tokens (lookup_name opts) (lookup_name args) (length spec) toks = ParseOk e ->
  seq_has_dd e = false -> sane (optinfo_of opts) = true -> view (optinfo_of opts) a = Some u ->
  ((exists bs, fsm_apply (optinfo_of opts) (i_graph i) (i_start i) a = AOk bs) <->
   (exists bs, VAccepts (optinfo_of opts) (length opts) e (u, false) bs)) /\
  (forall bs, fsm_apply (optinfo_of opts) (i_graph i) (i_start i) a = AOk bs ->
              VAccepts (optinfo_of opts) (length opts) e (u, false) bs).
Proof.
  intros Hc Hl Hp Hd Hsane Hv. unfold sane in Hsane.
  destruct (oi_lookup (optinfo_of opts) s_dd) eqn:E1; [discriminate|].
  destruct (oi_lookup (optinfo_of opts) [c_dash; c_eq]) eqn:E2; [discriminate|].
  pose proof (view_reads _ E1 E2 a u Hv) as Hr.
  pose proof (compile_accepts_iff_language opts args spec i toks e Hc Hl Hp a) as H1.
  split.
  - rewrite H1. split; intros [bs H]; exists bs; now apply (accepts_iff_symbols _ E1 E2 (length opts) e a u bs Hd Hr).
  - intros bs Ha. apply (accepts_iff_symbols _ E1 E2 (length opts) e a u bs Hd Hr).
    now apply (compile_bindings_from_language opts args spec i toks e Hc Hl Hp a bs).
Qed.
