(** Tie 2, informational (no property theorem depends on this file; a failure is reported as a note in
    the evidence of C08): the matcher priorities and the error messages that the model uses are the numbers
    and string literals of the current sources. No property speaks about the wording of a message. *)
From MowCli Require Import Base Lexer Parser Nfa Generated.

Lemma tie_priorities :
  (g_priority_opt, g_priority_options, g_priority_arg, g_priority_optsEnd, g_priority_shortcut)
  = (priority (LOpt 0), priority (LGrp []), priority (LArg 0), priority LDD, priority LEps).
Proof. reflexivity. Qed.

(** the error messages of the lexer and of the parser that the model uses are string literals of the
    current sources (format strings for the parametrised ones; the bracket names are the lexer's token
    type names) *)
Definition has_lit (l : list String.string) (m : str) : bool := existsb (fun s => str_eqb (lit s) m) l.

Lemma tie_lexer_messages :
  forallb (has_lit g_strings_lexer)
          [msg_dot2; msg_dot1; msg_optname_eof; msg_optname; msg_invalid; msg_longname; msg_eqlt; msg_unclosed;
           msg_optvalue; msg_unexpected; s_options] = true.
Proof. vm_compute. reflexivity. Qed.

Lemma tie_parser_messages :
  forallb (has_lit g_strings_parser)
          [msg_eoi; msg_no_opts; msg_atom; Lexer.msg_unexpected;
           msg_undecl_arg (lit "%s"); msg_undecl_opt (lit "%s"); msg_undecl_opt (lit "-%s")] = true
  /\ has_lit g_strings_parser (lit "Was expecting %v") = true
  /\ msg_expect_par = lit "Was expecting " ++ lit "ClosePar" /\ msg_expect_sq = lit "Was expecting " ++ lit "CloseSq"
  /\ forallb (has_lit g_strings_lexer) [lit "ClosePar"; lit "CloseSq"] = true.
Proof. vm_compute. repeat split; reflexivity. Qed.
