(** Compilation of a command never runs out of fuel and yields a well-formed automaton, on which
    parsing any command line ends (C03). *)
From MowCli Require Import Base Lexer Parser Nfa Matchers Apply Values Flow Cmd
     LexerProofs ParserProofs NfaProofs ApplyProofs TermProofs.

Theorem compile_total opts args spec :
  compile opts args spec <> IFuel /\
  forall i, compile opts args spec = IOk i ->
            wfg (i_graph i) /\ i_start i < nstates (i_graph i) /\ i_opts i = opts /\ i_args i = args.
Proof.
  unfold compile.
  destruct (tokenize spec) as [toks|m p|] eqn:Hl.
  - destruct (parse_tokens (lookup_name opts) (lookup_name args) (length spec) toks) as [ast|m p|] eqn:Hp.
    + pose proof (thompson_ok (length opts) ast) as Ht.
      destruct (thompson (length opts) ast) as [start g]. destruct Ht as [Hw Hs].
      destruct (prepare_ok start g Hw Hs) as (g' & Hr & Hw' & Hn'). rewrite Hr.
      split; [discriminate|]. intros i [= <-]. cbn. repeat split; auto. lia.
    + split; [discriminate | discriminate].
    + exfalso. exact (parse_tokens_total _ _ _ _ Hp).
  - split; discriminate.
  - exfalso. exact (tokenize_total _ Hl).
Qed.

Section CP.
  Variable parse_float : str -> option str.
  Variable getenv : str -> str.

  Theorem do_init_total ds spec :
    do_init parse_float getenv ds spec <> IFuel /\
    forall i, do_init parse_float getenv ds spec = IOk i ->
              wfg (i_graph i) /\ i_start i < nstates (i_graph i).
  Proof.
    unfold do_init. destruct (declare parse_float getenv ds [] []) as [[opts args]|m].
    - destruct (compile_total opts args (match spec with [] => default_spec opts args | _ => spec end)) as [H1 H2].
      split; [assumption|]. intros i Hi. destruct (H2 i Hi) as (Hw & Hs & _). auto.
    - split; discriminate.
  Qed.

  Theorem fsm_parse_total ds spec i argv :
    do_init parse_float getenv ds spec = IOk i -> fsm_parse parse_float i argv <> PFuelOut.
  Proof.
    intros Hi. destruct (do_init_total ds spec) as [_ H]. destruct (H i Hi) as [Hw Hs].
    unfold fsm_parse.
    pose proof (fsm_apply_total (optinfo_of (i_opts i)) (i_graph i) (i_start i) argv Hw Hs) as Ht.
    destruct (fsm_apply _ _ _ argv) as [bs| |]; [|discriminate|congruence].
    destruct (fill parse_float (i_opts i) 0 KO bs); [|discriminate].
    destruct (fill parse_float (i_args i) 0 KA bs); discriminate.
  Qed.
End CP.

(** * Run never ends out of fuel; the "impossible" branches of Cmd.parse are unreachable *)
Section RunTotal.
  Variable parse_float : str -> option str.
  Variable getenv : str -> str.

  (** induction over the command tree (nested through the list of sub-commands) *)
  Fixpoint cmd_rect' (P : cmd -> Prop)
           (H : forall n d ld h sp pol ds b a af subs, Forall P subs -> P (Cmd n d ld h sp pol ds b a af subs))
           (c : cmd) : P c :=
    match c with
    | Cmd n d ld h sp pol ds b a af subs =>
      H n d ld h sp pol ds b a af subs
        ((fix go (l : list cmd) : Forall P l :=
            match l with
            | [] => Forall_nil P
            | x :: l' => Forall_cons x (cmd_rect' P H x) (go l')
            end) subs)
    end.

  Lemma init_children_no_fuel subs : init_children parse_float getenv subs <> Some RFuel.
  Proof.
    induction subs as [|s subs IH]; cbn [init_children]; [discriminate|].
    pose proof (do_init_total parse_float getenv (c_decls s) (c_spec s)) as [Hnf _].
    destruct (do_init parse_float getenv (c_decls s) (c_spec s)); try discriminate; [assumption | congruence].
  Qed.

  Lemma print_help_no_fuel path c i long :
    snd (print_help parse_float getenv path c i long) <> Some RFuel.
  Proof.
    unfold print_help. pose proof (init_children_no_fuel (c_subs c)) as H.
    destruct (init_children parse_float getenv (c_subs c)); cbn; [assumption | discriminate].
  Qed.

  Lemma on_error_no_fuel policy e r : on_error policy e = Some r -> r <> RFuel.
  Proof. unfold on_error. destruct policy as [|[|[|p]]]; try discriminate; intros [= <-]; [discriminate|]. destruct e; discriminate. Qed.

  (** the token at which the arguments are split names a sub-command, so the descent finds it *)
  Lemma split_names_sub subs args :
    match skipn (opts_and_args subs args) args with
    | [] => True
    | arg :: _ => exists sub, find_sub subs arg = Some sub
    end.
  Proof.
    induction args as [|a args IH]; cbn [opts_and_args skipn]; [exact I|].
    destruct (existsb (fun s => is_alias s a) subs) eqn:He; cbn [skipn].
    - unfold find_sub. apply existsb_exists in He as (s & Hin & Ha).
      destruct (find (fun s0 => is_alias s0 a) subs) as [sub|] eqn:Hf; [eauto|].
      exfalso. eapply find_none in Hf; eauto. congruence.
    - exact IH.
  Qed.

  Lemma help_index_lt args hi : help_index args = Some hi -> hi < length args.
  Proof.
    revert hi. induction args as [|a args IH]; intros hi; cbn [help_index]; [discriminate|].
    destruct (str_eqb a s_dd); [discriminate|]. destruct (str_eqb a s_h || str_eqb a s_help).
    - intros [= <-]. cbn. lia.
    - destruct (help_index args) as [j|]; [|discriminate]. intros [= <-]. specialize (IH j eq_refl). cbn. lia.
  Qed.

  Lemma outcome_of_flow_no_fuel o : outcome_of_flow o <> RFuel.
  Proof. destruct o as [|n|[[v|n]|]]; discriminate. Qed.

  Theorem parse_cmd_no_fuel c : forall i policy path args levels paths filled err,
    wfg (i_graph i) -> i_start i < nstates (i_graph i) ->
    r_outcome (parse_cmd parse_float getenv c i policy path args levels paths filled err) <> RFuel.
  Proof.
    induction c as [n d ld h sp pol ds b act af subs IHsubs] using cmd_rect'.
    intros i policy path args levels paths filled err Hw Hs.
    cbn [parse_cmd c_subs c_before c_after c_action].
    (* the descent *)
    assert (Hdesc : forall arg rest lv ps fl,
               (exists sub, find_sub subs arg = Some sub) ->
               match first_some
                       (fun sub =>
                          if is_alias sub arg
                          then Some match do_init parse_float getenv (c_decls sub) (c_spec sub) with
                                    | IOk si => parse_cmd parse_float getenv sub si (effective_policy policy sub)
                                                          (path ++ [c_name false sub]) rest lv ps fl err
                                    | ISpecErr m p => mkResult (RPanicSpec m p) [] err fl
                                    | IDeclPanic m => mkResult (RPanicDecl m) [] err fl
                                    | IFuel => mkResult RFuel [] err fl
                                    end
                          else None) subs with
               | Some r => r_outcome r <> RFuel
               | None => False
               end).
    { intros arg rest lv ps fl [sub Hf]. unfold find_sub in Hf.
      induction subs as [|s subs' IHs]; [discriminate|]. cbn [first_some find] in *.
      inversion IHsubs as [|? ? Hps Hrest]; subst.
      destruct (is_alias s arg).
      - pose proof (do_init_total parse_float getenv (c_decls s) (c_spec s)) as [Hnf Hwf].
        destruct (do_init parse_float getenv (c_decls s) (c_spec s)) as [si| | |]; cbn [r_outcome]; try discriminate.
        + destruct (Hwf si eq_refl). now apply Hps.
        + congruence.
      - now apply IHs. }
    pose proof (split_names_sub subs args) as Hsplit.
    destruct (help_index args) as [hi|] eqn:Hhi.
    - destruct (hi <=? opts_and_args subs args) eqn:Hlt.
      + pose proof (print_help_no_fuel path (Cmd n d ld h sp pol ds b act af subs) i true) as Hp.
        destruct (print_help parse_float getenv path _ i true) as [text [r|]]; cbn [r_outcome snd] in *; [congruence|].
        unfold on_help. destruct policy as [|[|p]]; discriminate.
      + destruct (skipn (opts_and_args subs args) args) as [|arg rest] eqn:Hsk.
        * (* a help token at or after the split point, yet nothing left after it: impossible *)
          exfalso. apply Nat.leb_gt in Hlt.
          pose proof (help_index_lt _ _ Hhi) as Hl.
          assert (Hlen : length (skipn (opts_and_args subs args) args) = 0) by (now rewrite Hsk).
          rewrite skipn_length in Hlen. lia.
        * specialize (Hdesc arg rest levels paths filled Hsplit).
          destruct (first_some _ subs); [assumption | contradiction].
    - pose proof (fsm_apply_total (optinfo_of (i_opts i)) (i_graph i) (i_start i)
                                  (firstn (opts_and_args subs args) args) Hw Hs) as Ht.
      unfold fsm_parse.
      destruct (fsm_apply _ _ _ (firstn (opts_and_args subs args) args)) as [bs| |]; [| |congruence].
      + assert (Hrej : forall e line,
                   r_outcome (let (text, interrupted) := print_help parse_float getenv path (Cmd n d ld h sp pol ds b act af subs) i false in
                              mkResult match interrupted with
                                       | Some r => r
                                       | None => match on_error policy (Some e) with Some r => r | None => RRet (Some e) end
                                       end [] (err ++ [line] ++ text) filled) <> RFuel).
        { intros e line. pose proof (print_help_no_fuel path (Cmd n d ld h sp pol ds b act af subs) i false) as Hp.
          destruct (print_help parse_float getenv path _ i false) as [text [r|]]; cbn [r_outcome snd] in *; [congruence|].
          destruct (on_error policy (Some e)) eqn:Ho; [now apply on_error_no_fuel in Ho | discriminate]. }
        destruct (fill parse_float (i_opts i) 0 KO bs) as [o1|]; [|apply Hrej].
        destruct (fill parse_float (i_args i) 0 KA bs) as [a1|]; [|apply Hrej].
        destruct (skipn (opts_and_args subs args) args) as [|arg rest].
        * destruct act.
          -- pose proof (print_help_no_fuel path (Cmd n d ld h sp pol ds b HAbsent af subs) i false) as Hp.
             destruct (print_help parse_float getenv path _ i false) as [text [r|]]; cbn [r_outcome snd] in *; [congruence|].
             destruct (on_error policy None) eqn:Ho; [now apply on_error_no_fuel in Ho | discriminate].
          -- destruct (run_flow _ _) as [tr o]. apply outcome_of_flow_no_fuel.
          -- destruct (run_flow _ _) as [tr o]. apply outcome_of_flow_no_fuel.
          -- destruct (run_flow _ _) as [tr o]. apply outcome_of_flow_no_fuel.
        * specialize (Hdesc arg rest (levels ++ [mkLevel b af]) (paths ++ [path]) (filled ++ [(path, o1, a1)]) Hsplit).
          destruct (first_some _ subs); [assumption | contradiction].
      + pose proof (print_help_no_fuel path (Cmd n d ld h sp pol ds b act af subs) i false) as Hp.
        destruct (print_help parse_float getenv path _ i false) as [text [r|]]; cbn [r_outcome snd] in *; [congruence|].
        destruct (on_error policy (Some EUsage)) eqn:Ho; [now apply on_error_no_fuel in Ho | discriminate].
  Qed.

  (** Run yields one of the documented outcomes: it never ends out of fuel, and the two
      "impossible" branches of Cmd.parse (the panic("wut") of the help descent, the illegal-input tail)
      are never taken *)
  Theorem run_total a argv : r_outcome (run parse_float getenv a argv) <> RFuel.
  Proof.
    unfold run.
    pose proof (do_init_total parse_float getenv (root_decls a) (c_spec (a_root a))) as [Hnf Hwf].
    destruct (do_init parse_float getenv (root_decls a) (c_spec (a_root a))) as [i| | |]; cbn [r_outcome]; try discriminate; [|congruence].
    destruct (Hwf i eq_refl) as [Hw Hs].
    destruct (a_version a) as [[nm text]|].
    - destruct (match argv with [] => false | a0 :: _ => mem_str a0 (mk_opt_strs nm) end).
      + cbn [r_outcome]. unfold on_help. destruct (effective_policy 1 (a_root a)) as [|[|p]]; discriminate.
      + now apply parse_cmd_no_fuel.
    - now apply parse_cmd_no_fuel.
  Qed.
End RunTotal.
