(** C06 / C15 / C13: what a variable holds after declaration and after fillContainers. *)
From MowCli Require Import Base Lexer Parser Nfa Matchers Apply Values Flow Cmd.

Section VP.
  Variable parse_float : str -> option str.
  Variable getenv : str -> str.

  (** the value of one token at the element type of [v] (strconv for the numeric and bool types,
      the token itself for strings) *)
  Definition elem_of (v : cval) (s : str) : option cval :=
    match v with
    | VBool _ => option_map VBool (parse_bool s)
    | VStr _ | VStrs _ => Some (VStr s)
    | VInt _ | VInts _ => option_map VInt (parse_int s)
    | VFloat _ | VFloats _ => option_map VFloat (parse_float s)
    | VCustom _ => None
    end.

  (** the content of a variable as a list of elements *)
  Definition items (v : cval) : list cval :=
    match v with
    | VStrs l => map VStr l
    | VInts l => map VInt l
    | VFloats l => map VFloat l
    | _ => [v]
    end.

  Definition builtin (v : cval) : bool := match v with VCustom _ => false | _ => true end.
  Definition multi_val (v : cval) : bool :=
    match v with VStrs _ | VInts _ | VFloats _ => true | _ => false end.

  (** the kind and the value agree (true for every declaration the API can make) *)
  Definition kind_matches (k : kind) (v : cval) : bool :=
    match k, v with
    | KBool, VBool _ | KString, VStr _ | KInt, VInt _ | KFloat, VFloat _
    | KStrings, VStrs _ | KInts, VInts _ | KFloats, VFloats _ | KCustom _, VCustom _ => true
    | _, _ => false
    end.

  (** Set on a built-in: succeeds iff the token parses; single-valued: the value becomes that
      parse; multi-valued: the parse is appended *)
  Lemma vset_log_builtin v s :
    builtin v = true ->
    match elem_of v s with
    | Some e => exists v', vset_log parse_float v s = (v', true) /\ builtin v' = true /\
                           multi_val v' = multi_val v /\
                           (forall s', elem_of v' s' = elem_of v s') /\
                           items v' = if multi_val v then items v ++ [e] else [e]
    | None => vset_log parse_float v s = (v, false)
    end.
  Proof.
    destruct v; cbn; try discriminate; intros _.
    - destruct (parse_bool s); cbn; eauto 10.
    - eauto 10.
    - destruct (parse_int s); cbn; eauto 10.
    - destruct (parse_float s); cbn; eauto 10.
    - exists (VStrs (l ++ [s])). cbn. rewrite map_app. cbn. auto.
    - destruct (parse_int s); cbn; [|reflexivity].
      exists (VInts (l ++ [z])). cbn. rewrite map_app. cbn. auto.
    - destruct (parse_float s); cbn; [|reflexivity].
      exists (VFloats (l ++ [s0])). cbn. rewrite map_app. cbn. auto.
  Qed.

  (** all tokens parse: their values in order; otherwise the first failure aborts *)
  Fixpoint elems_of (v : cval) (vs : list str) : option (list cval) :=
    match vs with
    | [] => Some []
    | s :: vs' => match elem_of v s, elems_of v vs' with
                  | Some e, Some es => Some (e :: es)
                  | _, _ => None
                  end
    end.

  Lemma last_indep {A} (l : list A) : forall x d d', last (x :: l) d = last (x :: l) d'.
  Proof. induction l as [|y l IH]; intros x d d'; [reflexivity|]. cbn [last] in *. apply IH. Qed.

  Lemma set_all_builtin vs : forall v,
    builtin v = true ->
    match elems_of v vs with
    | Some es => exists v', set_all parse_float v vs = Some v' /\ builtin v' = true /\
                            items v' = if multi_val v then items v ++ es
                                       else match es with [] => items v | _ => [last es v] end
    | None => set_all parse_float v vs = None
    end.
  Proof.
    induction vs as [|s vs IH]; intros v Hb; cbn [elems_of set_all].
    - exists v. repeat split; auto. destruct (multi_val v); [now rewrite app_nil_r | reflexivity].
    - pose proof (vset_log_builtin v s Hb) as H1.
      destruct (elem_of v s) as [e|] eqn:He.
      + destruct H1 as (v1 & Hs & Hb1 & Hm1 & Hel & Hit). rewrite Hs.
        specialize (IH v1 Hb1).
        assert (Hes : elems_of v1 vs = elems_of v vs).
        { clear -Hel. induction vs as [|x xs IHx]; cbn; [reflexivity|]. now rewrite Hel, IHx. }
        rewrite Hes in IH.
        destruct (elems_of v vs) as [es|]; [|assumption].
        destruct IH as (v' & Hs' & Hb' & Hit').
        exists v'. repeat split; auto. rewrite Hit', Hm1, Hit.
        destruct (multi_val v).
        * now rewrite <- app_assoc.
        * destruct es as [|e1 es]; [reflexivity|].
          change (last (e :: e1 :: es) v) with (last (e1 :: es) v). f_equal. apply last_indep.
      + rewrite H1. destruct (elems_of v vs); reflexivity.
  Qed.

  Lemma vclear_items v : multi_val v = true -> items (vclear v) = [] /\ builtin (vclear v) = true
                                              /\ multi_val (vclear v) = true
                                              /\ (forall s, elem_of (vclear v) s = elem_of v s).
  Proof. destruct v; cbn; try discriminate; auto. Qed.

  (** * fillContainers on one container: command-line values replace, never extend *)
  Lemma fill_one_cli (c : container) (vs : list str) :
    builtin (ct_value c) = true ->
    kind_matches (d_kind (ct_decl c)) (ct_value c) = true ->
    vs <> [] ->
    match elems_of (ct_value c) vs with
    | Some es =>
      exists c', fill_one parse_float c vs = Some c' /\
                 ct_user c' = true /\ ct_fromenv c' = false /\
                 items (ct_value c') = if multi_val (ct_value c) then es else [last es (ct_value c)]
    | None => fill_one parse_float c vs = None
    end.
  Proof.
    intros Hb Hk Hne. unfold fill_one. destruct vs as [|s vs]; [congruence|].
    assert (Hm : is_multi (d_kind (ct_decl c)) = multi_val (ct_value c)).
    { destruct (d_kind (ct_decl c)), (ct_value c); cbn in *; try discriminate; reflexivity. }
    rewrite Hm.
    destruct (multi_val (ct_value c)) eqn:Hmv.
    - destruct (vclear_items _ Hmv) as (Hi & Hbc & Hmc & Hel).
      pose proof (set_all_builtin (s :: vs) (vclear (ct_value c)) Hbc) as H.
      assert (Hes : elems_of (vclear (ct_value c)) (s :: vs) = elems_of (ct_value c) (s :: vs)).
      { generalize (s :: vs). intros l. induction l as [|x xs IHx]; cbn; [reflexivity|]. now rewrite Hel, IHx. }
      rewrite Hes in H.
      destruct (elems_of (ct_value c) (s :: vs)) as [es|]; [|now rewrite H].
      destruct H as (v' & Hs & Hb' & Hit). rewrite Hs. eexists; repeat split. cbn.
      now rewrite Hit, Hmc, Hi.
    - pose proof (set_all_builtin (s :: vs) (ct_value c) Hb) as H.
      destruct (elems_of (ct_value c) (s :: vs)) as [es|] eqn:He; [|now rewrite H].
      destruct H as (v' & Hs & Hb' & Hit). rewrite Hs. eexists; repeat split. cbn.
      rewrite Hit, Hmv. destruct es; [|reflexivity].
      cbn in He. destruct (elem_of (ct_value c) s); [destruct (elems_of (ct_value c) vs)|]; discriminate.
  Qed.

  (** no command-line value: the container is untouched (environment value or default stays) *)
  Lemma fill_one_none c : fill_one parse_float c [] = Some c.
  Proof. reflexivity. Qed.

  (** * SetByUser *)
  Lemma fill_one_user c vs c' :
    fill_one parse_float c vs = Some c' ->
    ct_user c' = match vs with [] => ct_user c | _ => true end.
  Proof.
    unfold fill_one. destruct vs; [now intros [= <-]|].
    destruct (set_all _ _ _); [|discriminate]. now intros [= <-].
  Qed.

  Lemma fill_user cs : forall i mk bs cs',
    fill parse_float cs i mk bs = Some cs' ->
    Forall (fun c => ct_user c = false) cs ->
    forall k c', nth_error cs' k = Some c' ->
                 ct_user c' = match values_for (mk (i + k)) bs with [] => false | _ => true end.
  Proof.
    induction cs as [|c cs IH]; intros i mk bs cs' Hf Hall k c' Hn; cbn [fill] in Hf.
    - injection Hf as <-. destruct k; discriminate.
    - destruct (fill_one parse_float c (values_for (mk i) bs)) as [c1|] eqn:H1; [|discriminate].
      destruct (fill parse_float cs (S i) mk bs) as [cs1|] eqn:H2; [|discriminate].
      injection Hf as <-. inversion Hall as [|? ? Hc Hrest]; subst.
      destruct k as [|k]; cbn in Hn.
      + injection Hn as <-. rewrite (fill_one_user _ _ _ H1), Nat.add_0_r, Hc.
        destruct (values_for (mk i) bs); reflexivity.
      + rewrite (IH _ _ _ _ H2 Hrest k c' Hn). now replace (S i + k) with (i + S k) by lia.
  Qed.

  (** declarations never raise the flag *)
  Lemma declare_user ds : forall opts args opts' args',
    declare parse_float getenv ds opts args = inl (opts', args') ->
    Forall (fun c => ct_user c = false) opts -> Forall (fun c => ct_user c = false) args ->
    Forall (fun c => ct_user c = false) opts' /\ Forall (fun c => ct_user c = false) args'.
  Proof.
    induction ds as [|d ds IH]; intros opts args opts' args' H Ho Ha; cbn [declare] in H.
    - now injection H as <- <-.
    - destruct (d_isopt d).
      + destruct (mk_opt parse_float getenv opts d) as [c|m] eqn:Hm; [|discriminate].
        apply (IH _ _ _ _ H); [|assumption].
        apply Forall_app; split; [assumption|]. constructor; [|constructor].
        unfold mk_opt in Hm. destruct (first_dup _ _); [discriminate|]. injection Hm as <-.
        unfold mk_container. now destruct (set_from_env _ _ _ _ _).
      + destruct (mk_arg parse_float getenv args d) as [c|m] eqn:Hm; [|discriminate].
        apply (IH _ _ _ _ H); [assumption|].
        apply Forall_app; split; [assumption|]. constructor; [|constructor].
        unfold mk_arg in Hm. destruct (negb _); [discriminate|]. destruct (mem_str _ _); [discriminate|].
        injection Hm as <-. unfold mk_container. now destruct (set_from_env _ _ _ _ _).
  Qed.

  (** * Environment, then default (declaration time) *)

  (** the property's reading for a single-valued built-in: the first listed variable whose value
      is non-empty and parses *)
  Fixpoint env_single (v : cval) (vars : list str) : option cval :=
    match vars with
    | [] => None
    | ev :: vars' =>
      match getenv ev with
      | [] => env_single v vars'
      | val => match elem_of v val with
               | Some e => Some e
               | None => env_single v vars'
               end
      end
    end.

  Lemma vset_log_single v s :
    builtin v = true -> multi_val v = false ->
    vset_log parse_float v s = match elem_of v s with Some e => (e, true) | None => (v, false) end.
  Proof.
    destruct v; cbn; try discriminate; intros _ _.
    - now destruct (parse_bool s).
    - reflexivity.
    - now destruct (parse_int s).
    - now destruct (parse_float s).
  Qed.

  Lemma set_from_env_single k v vars :
    builtin v = true -> multi_val v = false -> is_multi k = false ->
    set_from_env_vars parse_float getenv k v vars =
    match env_single v vars with
    | Some e => (e, true)
    | None => (v, false)
    end.
  Proof.
    intros Hb Hm Hk. induction vars as [|ev vars IH]; cbn [set_from_env_vars env_single]; [reflexivity|].
    destruct (getenv ev) as [|c0 val] eqn:Hg; [assumption|]. rewrite Hk.
    pose proof (vset_log_single v (c0 :: val) Hb Hm) as H.
    destruct (elem_of v (c0 :: val)) as [e|].
    - now rewrite H.
    - rewrite H. assumption.
  Qed.

  (** multi-valued: the first listed variable whose value is non-empty and whose comma separated,
      trimmed pieces all parse *)
  Fixpoint env_multi (v : cval) (vars : list str) : option (list cval) :=
    match vars with
    | [] => None
    | ev :: vars' =>
      match getenv ev with
      | [] => env_multi v vars'
      | val => match elems_of v (map trim_space (split_comma val)) with
               | Some es => Some es
               | None => env_multi v vars'
               end
      end
    end.

  Lemma set_all_trimmed_builtin vs : forall v,
    builtin v = true -> multi_val v = true ->
    match elems_of v (map trim_space vs) with
    | Some es => exists v', set_all_trimmed parse_float v vs = (v', true) /\ builtin v' = true /\
                            multi_val v' = true /\ (forall s, elem_of v' s = elem_of v s) /\
                            items v' = items v ++ es
    | None => exists v', set_all_trimmed parse_float v vs = (v', false) /\ builtin v' = true /\
                         multi_val v' = true /\ (forall s, elem_of v' s = elem_of v s) /\ items v' = []
    end.
  Proof.
    induction vs as [|s vs IH]; intros v Hb Hm; cbn [map elems_of set_all_trimmed].
    - exists v. repeat split; auto. now rewrite app_nil_r.
    - pose proof (vset_log_builtin v (trim_space s) Hb) as H1.
      destruct (elem_of v (trim_space s)) as [e|] eqn:He.
      + destruct H1 as (v1 & Hs & Hb1 & Hm1 & Hel & Hit). rewrite Hs.
        rewrite Hm in Hm1, Hit. specialize (IH v1 Hb1 Hm1).
        assert (Hes : elems_of v1 (map trim_space vs) = elems_of v (map trim_space vs)).
        { generalize (map trim_space vs). intros l. induction l as [|x xs IHx]; cbn; [reflexivity|]. now rewrite Hel, IHx. }
        rewrite Hes in IH.
        destruct (elems_of v (map trim_space vs)) as [es|].
        * destruct IH as (v' & Hs' & Hb' & Hm' & Hel' & Hit'). exists v'. repeat split; auto.
          -- intros s0. now rewrite Hel', Hel.
          -- now rewrite Hit', Hit, <- app_assoc.
        * destruct IH as (v' & Hs' & Hb' & Hm' & Hel' & Hit'). exists v'. repeat split; auto.
          intros s0. now rewrite Hel', Hel.
      + rewrite H1. destruct (vclear_items v Hm) as (Hi & Hbc & Hmc & Helc).
        exists (vclear v). destruct (elems_of v (map trim_space vs)); repeat split; auto.
  Qed.

  (** K1 made precise: the outcome of SetFromEnv on a multi-valued built-in. When some variable
      is valid the value is exactly its pieces; when none is, the value is the declared default
      only if no non-empty variable was seen (otherwise it has been cleared). *)
  Definition saw_nonempty (vars : list str) : bool :=
    existsb (fun ev => match getenv ev with [] => false | _ => true end) vars.

  Lemma set_from_env_multi k vars : forall v,
    builtin v = true -> multi_val v = true -> is_multi k = true ->
    exists v', set_from_env_vars parse_float getenv k v vars =
               (v', match env_multi v vars with Some _ => true | None => false end) /\
               builtin v' = true /\ multi_val v' = true /\
               items v' = match env_multi v vars with
                          | Some es => es
                          | None => if saw_nonempty vars then [] else items v
                          end.
  Proof.
    induction vars as [|ev vars IH]; intros v Hb Hm Hk; cbn [set_from_env_vars env_multi saw_nonempty existsb].
    - exists v. auto.
    - destruct (getenv ev) as [|c0 val] eqn:Hg.
      + cbn [orb]. apply IH; assumption.
      + rewrite Hk. unfold set_multivalued.
        destruct (vclear_items v Hm) as (Hi & Hbc & Hmc & Helc).
        pose proof (set_all_trimmed_builtin (split_comma (c0 :: val)) (vclear v) Hbc Hmc) as H.
        assert (Hes : forall l, elems_of (vclear v) l = elems_of v l).
        { intros l. induction l as [|x xs IHx]; cbn; [reflexivity|]. now rewrite Helc, IHx. }
        rewrite Hes in H.
        destruct (elems_of v (map trim_space (split_comma (c0 :: val)))) as [es|].
        * destruct H as (v' & Hs & Hb' & Hm' & _ & Hit). rewrite Hs.
          exists v'. repeat split; auto. now rewrite Hit, Hi.
        * destruct H as (v' & Hs & Hb' & Hm' & Hel' & Hit). rewrite Hs.
          destruct (IH v' Hb' Hm' Hk) as (v'' & Hs'' & Hb'' & Hm'' & Hit'').
          assert (Hem : env_multi v' vars = env_multi v vars).
          { clear -Hel' Helc. induction vars as [|e vs IHv]; cbn; [reflexivity|].
            destruct (getenv e); [assumption|].
            assert (He : forall l, elems_of v' l = elems_of v l).
            { intros l0. induction l0 as [|x xs IHx]; cbn; [reflexivity|]. now rewrite Hel', Helc, IHx. }
            rewrite He. destruct (elems_of v _); [reflexivity | assumption]. }
          rewrite Hem in Hs'', Hit''.
          exists v''. repeat split; auto. rewrite Hit''. cbn [orb].
          destruct (env_multi v vars); [reflexivity|]. rewrite Hit. now destruct (saw_nonempty vars).
  Qed.
End VP.

(** * Whole-pipeline corollaries *)
Section Pipeline.
  Variable parse_float : str -> option str.
  Variable getenv : str -> str.

  Lemma do_init_conts ds spec i :
    do_init parse_float getenv ds spec = IOk i ->
    declare parse_float getenv ds [] [] = inl (i_opts i, i_args i).
  Proof.
    unfold do_init. destruct (declare parse_float getenv ds [] []) as [[opts args]|m]; [|discriminate].
    unfold compile. destruct (tokenize _); try discriminate.
    destruct (parse_tokens _ _ _ _); try discriminate.
    destruct (thompson _ _) as [start g]. destruct (prepare start g); [|discriminate].
    now intros [= <-].
  Qed.

  Theorem setbyuser_iff ds spec i argv opts' args' :
    do_init parse_float getenv ds spec = IOk i ->
    fsm_parse parse_float i argv = PAccept opts' args' ->
    exists bs, fsm_apply (optinfo_of (i_opts i)) (i_graph i) (i_start i) argv = AOk bs /\
      (forall k c, nth_error opts' k = Some c -> (ct_user c = true <-> values_for (KO k) bs <> [])) /\
      (forall k c, nth_error args' k = Some c -> (ct_user c = true <-> values_for (KA k) bs <> [])).
  Proof.
    intros Hi Hp. apply do_init_conts in Hi.
    destruct (declare_user parse_float getenv ds [] [] _ _ Hi) as [Ho Ha]; [constructor | constructor |].
    unfold fsm_parse in Hp.
    destruct (fsm_apply _ _ _ argv) as [bs| |]; try discriminate.
    destruct (fill parse_float (i_opts i) 0 KO bs) as [o1|] eqn:H1; [|discriminate].
    destruct (fill parse_float (i_args i) 0 KA bs) as [a1|] eqn:H2; [|discriminate].
    injection Hp as <- <-. exists bs. split; [reflexivity|]. split; intros k c Hn.
    - rewrite (fill_user parse_float _ _ _ _ _ H1 Ho k c Hn). cbn.
      destruct (values_for (KO k) bs); split; congruence.
    - rewrite (fill_user parse_float _ _ _ _ _ H2 Ha k c Hn). cbn.
      destruct (values_for (KA k) bs); split; congruence.
  Qed.

  (** the value a declaration leaves in its container *)
  Lemma mk_container_value d names :
    ct_value (mk_container parse_float getenv d names) =
    fst (set_from_env parse_float getenv (d_kind d) (d_init d) (d_env d)) /\
    ct_fromenv (mk_container parse_float getenv d names) =
    snd (set_from_env parse_float getenv (d_kind d) (d_init d) (d_env d)) /\
    ct_user (mk_container parse_float getenv d names) = false /\
    ct_decl (mk_container parse_float getenv d names) = d.
  Proof. unfold mk_container. destruct (set_from_env _ _ _ _ _); cbn; auto. Qed.
End Pipeline.

(** * Custom values: the call protocol (C19) *)
Section Custom.
  Variable parse_float : str -> option str.
  Variable getenv : str -> str.

  Definition set_call (s : str) : str := lit "S:" ++ s.
  Definition fails (s : str) : bool := prefix_b s_bad s.

  (** the calls made by [set_all] on a custom value: one Set per token, in order, stopping at the
      first token whose Set fails *)
  Fixpoint calls_until_failure (vs : list str) : list str * bool :=
    match vs with
    | [] => ([], true)
    | s :: vs' => if fails s then ([set_call s], false)
                  else let (l, ok) := calls_until_failure vs' in (set_call s :: l, ok)
    end.

  Lemma set_all_custom vs : forall log,
    set_all parse_float (VCustom log) vs =
    if snd (calls_until_failure vs) then Some (VCustom (log ++ fst (calls_until_failure vs))) else None.
  Proof.
    induction vs as [|s vs IH]; intros log; cbn [set_all calls_until_failure].
    - cbn. now rewrite app_nil_r.
    - cbn [vset_log]. unfold fails, set_call. destruct (prefix_b s_bad s); cbn [negb fst snd]; [reflexivity|].
      rewrite IH. destruct (calls_until_failure vs) as [l ok]; cbn [fst snd].
      destruct ok; [|reflexivity]. now rewrite <- app_assoc.
  Qed.

  (** fillContainers on a custom value: nothing is called when the line binds nothing; otherwise
      Clear exactly once iff the type has Clear, then Set with exactly the bound tokens in order;
      a failing Set makes the parse fail *)
  Theorem fill_one_custom (c : container) (cu : custom) (log : list str) (vs : list str) :
    d_kind (ct_decl c) = KCustom cu -> ct_value c = VCustom log ->
    fill_one parse_float c vs =
    match vs with
    | [] => Some c
    | _ => let pre := if cu_clear cu then [lit "C"] else [] in
           if snd (calls_until_failure vs)
           then Some (mkCont (ct_decl c) (ct_names c)
                             (VCustom ((log ++ pre) ++ fst (calls_until_failure vs))) (ct_default c) false true)
           else None
    end.
  Proof.
    intros Hk Hv. unfold fill_one. destruct vs as [|s vs]; [reflexivity|].
    rewrite Hk, Hv. cbn [is_multi vclear].
    destruct (cu_clear cu); rewrite set_all_custom; [|rewrite app_nil_r];
      destruct (snd (calls_until_failure (s :: vs))); reflexivity.
  Qed.

  (** a custom type is usable as a flag without a value iff its IsBoolFlag() is true *)
  Theorem custom_flag opts i c cu :
    nth_error opts i = Some c -> d_kind (ct_decl c) = KCustom cu ->
    oi_isbool (optinfo_of opts) i = cu_isbool cu.
  Proof. intros Hn Hk. cbn. now rewrite Hn, Hk. Qed.

  (** declaration time, type without Clear: Set(v) for each listed variable with a non-empty
      value, in order, until one succeeds *)
  Fixpoint env_calls_single (vars : list str) : list str * bool :=
    match vars with
    | [] => ([], false)
    | ev :: vars' =>
      match getenv ev with
      | [] => env_calls_single vars'
      | v => if fails v then let (l, ok) := env_calls_single vars' in (set_call v :: l, ok)
             else ([set_call v], true)
      end
    end.

  Theorem set_from_env_custom_single k vars : forall log,
    is_multi k = false ->
    set_from_env_vars parse_float getenv k (VCustom log) vars =
    (VCustom (log ++ fst (env_calls_single vars)), snd (env_calls_single vars)).
  Proof.
    intros log Hk. revert log. induction vars as [|ev vars IH]; intros log; cbn [set_from_env_vars env_calls_single].
    - cbn. now rewrite app_nil_r.
    - destruct (getenv ev) as [|c0 v] eqn:Hg; [apply IH|]. rewrite Hk. cbn [vset_log].
      unfold fails, set_call. destruct (prefix_b s_bad (c0 :: v)); cbn [negb].
      + rewrite IH. destruct (env_calls_single vars) as [l ok]; cbn [fst snd]. now rewrite <- app_assoc.
      + reflexivity.
  Qed.

  (** declaration time, type with Clear: per non-empty variable: Clear, then Set of each trimmed
      piece; a failing piece is followed by Clear and the next variable is tried *)
  Fixpoint piece_calls (ps : list str) : list str * bool :=
    match ps with
    | [] => ([], true)
    | p :: ps' => if fails (trim_space p) then ([set_call (trim_space p); lit "C"], false)
                  else let (l, ok) := piece_calls ps' in (set_call (trim_space p) :: l, ok)
    end.

  Fixpoint env_calls_multi (vars : list str) : list str * bool :=
    match vars with
    | [] => ([], false)
    | ev :: vars' =>
      match getenv ev with
      | [] => env_calls_multi vars'
      | v => let (l, ok) := piece_calls (split_comma v) in
             if ok then (lit "C" :: l, true)
             else let (l2, ok2) := env_calls_multi vars' in ((lit "C" :: l) ++ l2, ok2)
      end
    end.

  Lemma set_all_trimmed_custom ps : forall log,
    set_all_trimmed parse_float (VCustom log) ps =
    (VCustom (log ++ fst (piece_calls ps)), snd (piece_calls ps)).
  Proof.
    induction ps as [|p ps IH]; intros log; cbn [set_all_trimmed piece_calls].
    - cbn. now rewrite app_nil_r.
    - cbn [vset_log]. unfold fails, set_call. destruct (prefix_b s_bad (trim_space p)); cbn [negb fst snd].
      + cbn [vclear]. now rewrite <- app_assoc.
      + rewrite IH. destruct (piece_calls ps) as [l ok]; cbn [fst snd]. now rewrite <- app_assoc.
  Qed.

  Theorem set_from_env_custom_multi k vars : forall log,
    is_multi k = true ->
    set_from_env_vars parse_float getenv k (VCustom log) vars =
    (VCustom (log ++ fst (env_calls_multi vars)), snd (env_calls_multi vars)).
  Proof.
    intros log Hk. revert log. induction vars as [|ev vars IH]; intros log; cbn [set_from_env_vars env_calls_multi].
    - cbn. now rewrite app_nil_r.
    - destruct (getenv ev) as [|c0 v] eqn:Hg; [apply IH|]. rewrite Hk.
      unfold set_multivalued. cbn [vclear]. rewrite set_all_trimmed_custom.
      destruct (piece_calls (split_comma (c0 :: v))) as [l ok]; cbn [fst snd]. destruct ok.
      + now rewrite <- app_assoc.
      + rewrite IH. destruct (env_calls_multi vars) as [l2 ok2]; cbn [fst snd].
        now rewrite <- !app_assoc.
  Qed.
End Custom.

(** * strconv.ParseInt(s, 10, 64) and ParseBool as implemented in the model (C13) *)
Definition is_digit (c : ascii) : bool := in_range 48 57 c.
Definition digits_value (acc : Z) (ds : str) : Z :=
  fold_left (fun a c => (a * 10 + (Z.of_N (code c) - 48))%Z) ds acc.

Lemma parse_digits_spec s : forall acc,
  parse_digits acc s = if forallb is_digit s then Some (digits_value acc s) else None.
Proof.
  induction s as [|c s IH]; intros acc; cbn [parse_digits forallb digits_value fold_left]; [reflexivity|].
  unfold digit_val, is_digit. destruct (in_range 48 57 c); cbn [andb]; [apply IH | reflexivity].
Qed.

(** base 10, optional sign, at least one digit, nothing else (no blanks, no underscores, no
    0x), value within the 64-bit range *)
Theorem parse_int_spec s :
  parse_int s =
  let '(neg, ds) := match s with
                    | c :: s' => if Ascii.eqb c "+"%char then (false, s')
                                 else if Ascii.eqb c c_dash then (true, s') else (false, s)
                    | [] => (false, s)
                    end in
  match ds with
  | [] => None
  | _ => if forallb is_digit ds
         then let z := if neg then (- digits_value 0 ds)%Z else digits_value 0 ds in
              if (int_min <=? z)%Z && (z <=? int_max)%Z then Some z else None
         else None
  end.
Proof.
  unfold parse_int.
  destruct (match s with
            | [] => (false, s)
            | c :: s' => if Ascii.eqb c "+"%char then (false, s')
                         else if Ascii.eqb c c_dash then (true, s') else (false, s)
            end) as [neg ds].
  destruct ds as [|d ds]; [reflexivity|]. rewrite parse_digits_spec.
  destruct (forallb is_digit (d :: ds)); reflexivity.
Qed.

Theorem parse_bool_spec s :
  parse_bool s =
  if mem_str s [lit "1"; lit "t"; lit "T"; lit "TRUE"; lit "true"; lit "True"] then Some true
  else if mem_str s [lit "0"; lit "f"; lit "F"; lit "FALSE"; lit "false"; lit "False"] then Some false
  else None.
Proof. reflexivity. Qed.

(** every container is filled from its own bindings only *)
Lemma fill_spec (parse_float : str -> option str) cs : forall i mk bs,
  match fill parse_float cs i mk bs with
  | Some cs' => forall k c, nth_error cs k = Some c ->
                            exists c', nth_error cs' k = Some c' /\
                                       fill_one parse_float c (values_for (mk (i + k)) bs) = Some c'
  | None => exists k c, nth_error cs k = Some c /\
                        fill_one parse_float c (values_for (mk (i + k)) bs) = None
  end.
Proof.
  induction cs as [|c cs IH]; intros i mk bs; cbn [fill].
  - intros k c Hk. destruct k; discriminate.
  - destruct (fill_one parse_float c (values_for (mk i) bs)) as [c1|] eqn:H1.
    + specialize (IH (S i) mk bs). destruct (fill parse_float cs (S i) mk bs) as [cs1|]; cbn [option_map].
      * intros k c0 Hk. destruct k as [|k]; cbn in Hk.
        -- injection Hk as <-. exists c1. rewrite Nat.add_0_r. auto.
        -- destruct (IH k c0 Hk) as (c' & Hn & Hf). exists c'. split; [assumption|].
           now replace (i + S k) with (S i + k) by lia.
      * destruct IH as (k & c0 & Hk & Hf). exists (S k), c0. split; [assumption|].
        now replace (i + S k) with (S i + k) by lia.
    + exists 0, c. rewrite Nat.add_0_r. auto.
Qed.
