(** Tie 2, shared state: the package-level variables of the library and the functions assigning them,
    regenerated from /repo's current sources (Generated.v), are what C20's theorem assumes. Imported by PC20. *)
From MowCli Require Import Base Generated.

(** the shared store of the library: the three indirections of cli.go and the two sentinel
    errors; none of them is assigned by any function of the library *)
Lemma tie_package_state :
  g_package_vars = [("exiter", "."); ("stdOut", "."); ("stdErr", "."); ("errHelpRequested", ".");
                    ("errVersionRequested", ".")]%string
  /\ g_package_var_writes = [].
Proof. split; reflexivity. Qed.
