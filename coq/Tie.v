(** Tie 2: the facts regenerated from /repo's current sources (Generated.v) agree with what the
    model and the theorems assume. Re-checked by coqc whenever Generated.v changes. *)
From MowCli Require Import Base Lexer Nfa Generated.

Lemma tie_isLowercase c : g_isLowercase c = isLowercase c.
Proof. reflexivity. Qed.
Lemma tie_isUppercase c : g_isUppercase c = isUppercase c.
Proof. reflexivity. Qed.
Lemma tie_isDigit c : g_isDigit c = isDigit c.
Proof. reflexivity. Qed.
Lemma tie_isLetter c : g_isLetter c = isLetter c.
Proof. reflexivity. Qed.
Lemma tie_isOkInArg c : g_isOkInArg c = isOkInArg c.
Proof. destruct c as [[] [] [] [] [] [] [] []]; reflexivity. Qed.
Lemma tie_isOkLongOpt c f : g_isOkLongOpt c f = isOkLongOpt c f.
Proof. destruct f; destruct c as [[] [] [] [] [] [] [] []]; reflexivity. Qed.

Lemma tie_priorities :
  (g_priority_opt, g_priority_options, g_priority_arg, g_priority_optsEnd, g_priority_shortcut)
  = (priority (LOpt 0), priority (LGrp []), priority (LArg 0), priority LDD, priority LEps).
Proof. reflexivity. Qed.

(** the shared store of the library: the three indirections of cli.go and the two sentinel
    errors; none of them is assigned by any function of the library *)
Lemma tie_package_state :
  g_package_vars = [("exiter", "."); ("stdOut", "."); ("stdErr", "."); ("errHelpRequested", ".");
                    ("errVersionRequested", ".")]%string
  /\ g_package_var_writes = [].
Proof. split; reflexivity. Qed.
