(** Tie 2, shared state: the package-level variables of the library and the functions assigning them,
    regenerated from /repo's current sources (Generated.v), are what C20's theorem assumes. Imported by PC20. *)
From MowCli Require Import Base Generated.

(** the shared store of the library: the three indirections of cli.go (package-level variables whose
    initial value is an immutable constant-like value — the two sentinel errors — are not part of the
    store: nothing can change them short of assigning them, which would be listed as a write); no
    package-level variable is assigned, directly or through an index, a field or a pointer, by any
    function of the library *)
Lemma tie_package_state :
  g_package_vars = [("exiter", "."); ("stdOut", "."); ("stdErr", ".")]%string
  /\ g_package_var_writes = [].
Proof. split; reflexivity. Qed.
