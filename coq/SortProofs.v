(** C20, the repair D11: fillContainers collects the keys of a Go map (an arbitrary permutation of the bound
    containers) and sorts them with sort.Slice and [less i j := cons[i].Name < cons[j].Name] — a sort that is not
    stable, started from an order that changes from run to run. Its result is nevertheless a function of the SET of
    bound containers: sort.Slice returns a permutation of its input in which no element is less than an earlier one,
    Go's string order is a total order on byte strings, and the declared names of the containers that can be bound
    are pairwise different — which the declaration checks guarantee ([declared_names_distinct]: two options of one
    command with the same Name string would share their names and the second declaration panics). Hence
    [sorted_visit_is_a_function]: two sorted permutations of the same containers are the same list. *)
From Coq Require Import Sorting.Sorted Sorting.Permutation.
From MowCli Require Import Base Lexer Matchers Values Cmd DeclProofs.

(** * Go's order on strings: bytewise, a proper prefix first ([Base.str_ltb]) *)
Lemma nat_of_ascii_inj x y : nat_of_ascii x = nat_of_ascii y -> x = y.
Proof. intros H. rewrite <- (ascii_nat_embedding x), <- (ascii_nat_embedding y). now rewrite H. Qed.

Lemma str_ltb_irrefl a : str_ltb a a = false.
Proof. induction a as [|x a IH]; cbn [str_ltb]; [reflexivity|]. now rewrite Nat.ltb_irrefl. Qed.

Lemma str_ltb_trans a : forall b c, str_ltb a b = true -> str_ltb b c = true -> str_ltb a c = true.
Proof.
  induction a as [|x a IH]; intros [|y b] [|z c]; cbn [str_ltb]; try discriminate; try reflexivity.
  destruct (Nat.ltb_spec (nat_of_ascii x) (nat_of_ascii y)) as [L1|L1].
  - intros _. destruct (Nat.ltb_spec (nat_of_ascii y) (nat_of_ascii z)) as [L2|L2].
    + intros _. destruct (Nat.ltb_spec (nat_of_ascii x) (nat_of_ascii z)); [reflexivity | lia].
    + destruct (Nat.ltb_spec (nat_of_ascii z) (nat_of_ascii y)) as [L3|L3]; [discriminate|].
      intros _. destruct (Nat.ltb_spec (nat_of_ascii x) (nat_of_ascii z)); [reflexivity | lia].
  - destruct (Nat.ltb_spec (nat_of_ascii y) (nat_of_ascii x)) as [L2|L2]; [discriminate|].
    intros H1. destruct (Nat.ltb_spec (nat_of_ascii y) (nat_of_ascii z)) as [L3|L3].
    + intros _. destruct (Nat.ltb_spec (nat_of_ascii x) (nat_of_ascii z)); [reflexivity | lia].
    + destruct (Nat.ltb_spec (nat_of_ascii z) (nat_of_ascii y)) as [L4|L4]; [discriminate|].
      intros H2. destruct (Nat.ltb_spec (nat_of_ascii x) (nat_of_ascii z)) as [L5|L5]; [reflexivity|].
      destruct (Nat.ltb_spec (nat_of_ascii z) (nat_of_ascii x)) as [L6|L6]; [lia|]. now apply (IH b c).
Qed.

Lemma str_ltb_total a : forall b, str_ltb a b = false -> str_ltb b a = false -> a = b.
Proof.
  induction a as [|x a IH]; intros [|y b]; cbn [str_ltb]; try discriminate; [reflexivity|].
  destruct (Nat.ltb_spec (nat_of_ascii x) (nat_of_ascii y)) as [L1|L1]; [discriminate|].
  destruct (Nat.ltb_spec (nat_of_ascii y) (nat_of_ascii x)) as [L2|L2]; [discriminate|].
  intros H1 H2. assert (E : nat_of_ascii x = nat_of_ascii y) by lia. apply nat_of_ascii_inj in E. subst.
  f_equal. now apply IH.
Qed.

(** * A sorted permutation is unique when the keys are pairwise different *)
Section Unique.
  Variable A : Type.
  Variable key : A -> str.

  (** what sort.Slice promises (sort.SliceIsSorted): no element is less than the one before it *)
  Definition not_before (x y : A) : Prop := str_ltb (key y) (key x) = false.
  Definition go_sorted (l : list A) : Prop := Sorted not_before l.

  Lemma not_before_trans x y z : not_before x y -> not_before y z -> not_before x z.
  Proof.
    unfold not_before. intros H1 H2. destruct (str_ltb (key z) (key x)) eqn:E; [|reflexivity].
    (* z < x: then y <= z < x gives y < x or ... *)
    destruct (str_ltb (key x) (key y)) eqn:E1.
    - (* z < x < y: z < y, against H2 *) rewrite (str_ltb_trans _ _ _ E E1) in H2. discriminate.
    - (* not x < y and not y < x: x = y *) rewrite <- (str_ltb_total _ _ E1 H1) in H2. congruence.
  Qed.

  Lemma go_sorted_strong l : go_sorted l -> StronglySorted not_before l.
  Proof. apply Sorted_StronglySorted. intros x y z. apply not_before_trans. Qed.

  Lemma key_in_map x l : In x l -> In (key x) (map key l).
  Proof. apply in_map. Qed.

  Theorem sorted_permutation_unique l1 : forall l2,
    Permutation l1 l2 -> NoDup (map key l1) -> go_sorted l1 -> go_sorted l2 -> l1 = l2.
  Proof.
    intros l2 Hp Hnd S1 S2. apply go_sorted_strong in S1. apply go_sorted_strong in S2.
    revert l2 Hp Hnd S2. induction S1 as [|x l1 S1 IH Hx]; intros l2 Hp Hnd S2.
    - apply Permutation_nil in Hp. now subst.
    - destruct l2 as [|y l2]; [apply Permutation_sym, Permutation_nil in Hp; discriminate|].
      inversion S2 as [|y0 l20 S2' Hy]; subst.
      assert (E : x = y).
      { assert (Ix : In x (y :: l2)) by (eapply Permutation_in; [exact Hp | now left]).
        assert (Iy : In y (x :: l1)) by (eapply Permutation_in; [apply Permutation_sym; exact Hp | now left]).
        destruct Ix as [->|Ix]; [reflexivity|]. destruct Iy as [<-|Iy]; [reflexivity|]. exfalso.
        rewrite Forall_forall in Hx, Hy. pose proof (Hx y Iy) as Lxy. pose proof (Hy x Ix) as Lyx.
        unfold not_before in Lxy, Lyx. pose proof (str_ltb_total _ _ Lyx Lxy) as Ek.
        cbn [map] in Hnd. inversion Hnd as [|k ks Hnot _]; subst. apply Hnot. rewrite Ek. now apply in_map. }
      subst y. f_equal. apply IH; [eapply Permutation_cons_inv; exact Hp | cbn in Hnd; now inversion Hnd | assumption].
  Qed.
End Unique.

(** * The names of the containers that can be bound are pairwise different *)
Section Names.
  Variable parse_float : str -> option str.
  Variable getenv : str -> str.

  (** every option container carries the names derived from its declared Name *)
  Definition opts_named (opts : list container) : Prop :=
    Forall (fun c => ct_names c = mk_opt_strs (d_name (ct_decl c))) opts.
  Definition args_named (args : list container) : Prop :=
    Forall (fun c => ct_names c = [d_name (ct_decl c)]) args.

  Lemma declare_named ds : forall opts args opts' args',
    declare parse_float getenv ds opts args = inl (opts', args') ->
    opts_named opts -> args_named args -> opts_named opts' /\ args_named args'.
  Proof.
    induction ds as [|d ds IH]; intros opts args opts' args' H Ho Ha; cbn [declare] in H.
    - injection H as <- <-. auto.
    - destruct (d_isopt d).
      + pose proof (mk_opt_spec parse_float getenv opts d) as Hs.
        destruct (mk_opt parse_float getenv opts d) as [c|m]; [|discriminate].
        destruct Hs as (Hn & Hd & _). apply (IH _ _ _ _ H); [|assumption].
        apply Forall_app. split; [assumption|]. constructor; [|constructor]. now rewrite Hn, Hd.
      + pose proof (mk_arg_spec parse_float getenv args d) as Hs.
        destruct (mk_arg parse_float getenv args d) as [c|m]; [|discriminate].
        destruct Hs as (Hn & Hd & _). apply (IH _ _ _ _ H); [assumption|].
        apply Forall_app. split; [assumption|]. constructor; [|constructor]. now rewrite Hn, Hd.
  Qed.

  (** two containers of one table that have a name and the same declared Name string are the same container *)
  Lemma same_name_same_index cs i j ci cj :
    NoDup (all_names cs) -> nth_error cs i = Some ci -> nth_error cs j = Some cj ->
    ct_names ci <> [] -> ct_names ci = ct_names cj -> i = j.
  Proof.
    intros Hnd Hi Hj Hne E. destruct (ct_names ci) as [|n ns] eqn:En; [congruence|].
    assert (L1 : lookup_name cs n = Some i) by (apply (lookup_unique cs n i ci Hnd Hi); rewrite En; now left).
    assert (L2 : lookup_name cs n = Some j) by (apply (lookup_unique cs n j cj Hnd Hj); rewrite <- E; now left).
    congruence.
  Qed.

  Theorem declared_names_distinct ds opts args :
    declare parse_float getenv ds [] [] = inl (opts, args) ->
    (forall i j ci cj, nth_error opts i = Some ci -> nth_error opts j = Some cj -> ct_names ci <> [] ->
       d_name (ct_decl ci) = d_name (ct_decl cj) -> i = j) /\
    (forall i j ci cj, nth_error args i = Some ci -> nth_error args j = Some cj ->
       d_name (ct_decl ci) = d_name (ct_decl cj) -> i = j).
  Proof.
    intros H.
    destruct (declare_inv parse_float getenv ds [] [] opts args H (NoDup_nil _) (NoDup_nil _)) as (No & Na & _ & _).
    destruct (declare_named ds [] [] opts args H (Forall_nil _) (Forall_nil _)) as [Fo Fa].
    unfold opts_named, args_named in Fo, Fa. rewrite Forall_forall in Fo, Fa. split.
    - intros i j ci cj Hi Hj Hne E. apply (same_name_same_index opts i j ci cj No Hi Hj Hne).
      rewrite (Fo ci (nth_error_In _ _ Hi)), (Fo cj (nth_error_In _ _ Hj)). now rewrite E.
    - intros i j ci cj Hi Hj E. apply (same_name_same_index args i j ci cj Na Hi Hj).
      + rewrite (Fa ci (nth_error_In _ _ Hi)). discriminate.
      + rewrite (Fa ci (nth_error_In _ _ Hi)), (Fa cj (nth_error_In _ _ Hj)). now rewrite E.
  Qed.

  (** the Name of the container at an index (the key of the repaired fillContainers) *)
  Definition name_at (cs : list container) (k : nat) : str :=
    match nth_error cs k with Some c => d_name (ct_decl c) | None => [] end.

  Definition bindable (cs : list container) (k : nat) : Prop :=
    exists c, nth_error cs k = Some c /\ ct_names c <> [].

  Lemma names_nodup cs (order : list nat) :
    (forall i j ci cj, nth_error cs i = Some ci -> nth_error cs j = Some cj -> ct_names ci <> [] ->
       d_name (ct_decl ci) = d_name (ct_decl cj) -> i = j) ->
    NoDup order -> (forall k, In k order -> bindable cs k) -> NoDup (map (name_at cs) order).
  Proof.
    intros Hd Hnd Hb. induction Hnd as [|k order Hnot Hnd IH]; cbn [map]; constructor.
    - intros Hin. apply in_map_iff in Hin as (j & Ej & Hj). apply Hnot.
      destruct (Hb k (or_introl eq_refl)) as (ck & Hk & Hne). destruct (Hb j (or_intror Hj)) as (cj & Hcj & _).
      unfold name_at in Ej. rewrite Hk, Hcj in Ej.
      now rewrite (Hd k j ck cj Hk Hcj Hne (eq_sym Ej)).
    - apply IH. intros j Hj. apply Hb. now right.
  Qed.

  (** the order in which the repaired fillContainers visits the option containers is a function of the set of bound
      containers: whatever permutation of them the map hands out, whatever sort.Slice does with ties (there are none) *)
  Theorem sorted_visit_is_a_function ds opts args (o1 o2 : list nat) :
    declare parse_float getenv ds [] [] = inl (opts, args) ->
    NoDup o1 -> (forall k, In k o1 -> bindable opts k) -> Permutation o1 o2 ->
    go_sorted nat (name_at opts) o1 -> go_sorted nat (name_at opts) o2 -> o1 = o2.
  Proof.
    intros H Hnd Hb Hp S1 S2. apply (sorted_permutation_unique nat (name_at opts) o1 o2 Hp); [|assumption|assumption].
    apply names_nodup; [exact (proj1 (declared_names_distinct ds opts args H)) | assumption | assumption].
  Qed.

  (** the same for the argument containers (every argument has its name) *)
  Theorem sorted_visit_is_a_function_args ds opts args (o1 o2 : list nat) :
    declare parse_float getenv ds [] [] = inl (opts, args) ->
    NoDup o1 -> (forall k, In k o1 -> k < length args) -> Permutation o1 o2 ->
    go_sorted nat (name_at args) o1 -> go_sorted nat (name_at args) o2 -> o1 = o2.
  Proof.
    intros H Hnd Hb Hp S1 S2. apply (sorted_permutation_unique nat (name_at args) o1 o2 Hp); [|assumption|assumption].
    destruct (declared_names_distinct ds opts args H) as [_ Ha].
    clear S1 S2 Hp. induction Hnd as [|k order Hnot Hnd IH]; cbn [map]; constructor.
    - intros Hin. apply in_map_iff in Hin as (j & Ej & Hj). apply Hnot.
      destruct (nth_error args k) as [ck|] eqn:Hk; [|apply nth_error_None in Hk; specialize (Hb k (or_introl eq_refl)); lia].
      destruct (nth_error args j) as [cj|] eqn:Hcj; [|apply nth_error_None in Hcj; specialize (Hb j (or_intror Hj)); lia].
      unfold name_at in Ej. rewrite Hk, Hcj in Ej. now rewrite (Ha k j ck cj Hk Hcj (eq_sym Ej)).
    - apply IH. intros j Hj. apply Hb. now right.
  Qed.
End Names.
