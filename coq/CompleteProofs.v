(** T2, completeness of the search: whenever the automaton has an accepting run from a state on a
    configuration, State.apply (depth-first, first match first, with the set of states already
    entered since the last progress) finds one. *)
From MowCli Require Import Base Nfa Matchers Apply ApplyProofs TermProofs.

Section Complete.
  Variable D : optinfo.
  Variable g : graph.
  Hypothesis Hwf : wf_graph g.

  Notation N := (nstates g).
  Notation Acc := (Acc D g).

  Lemma collect_complete s a r l t rem ro' bs :
    In (l, t) (edges g s) -> run_matcher D l a r = Some (rem, ro', bs) ->
    In (t, rem, ro', bs) (collect D g s a r).
  Proof.
    unfold collect. induction (edges g s) as [|[l0 t0] es IH]; cbn [fold_right]; [intros []|].
    intros [Heq|Hin] Hr.
    - injection Heq as -> ->. cbn [fst snd]. rewrite Hr. now left.
    - cbn [fst snd]. destruct (run_matcher D l0 a r) as [[[rem0 ro0] bs0]|]; [right|]; now apply IH.
  Qed.

  (** a stripped configuration *)
  Definition stripped (args : list str) (ro : bool) : Prop := strip args ro = (args, ro).

  (** [Dead x S]: at configuration (args, ro), state [x] does not accept, each of its matches that
      makes no progress leads into [S], and none of its matches that makes progress leads to an
      accepting run *)
  Definition Dead (args : list str) (ro : bool) (S : list nat) (x : nat) : Prop :=
    (match args with [] => terminal g x | _ => false end) = false /\
    forall t rem ro' bs, In (t, rem, ro', bs) (collect D g x args ro) ->
      (rem = args /\ ro' = ro -> In t S) /\
      (~ (rem = args /\ ro' = ro) -> forall bs', ~ Acc t rem ro' bs').

  Lemma dead_mono args ro S S' x : incl S S' -> Dead args ro S x -> Dead args ro S' x.
  Proof.
    intros Hi [H1 H2]. split; [assumption|]. intros t rem ro' bs Hin. destruct (H2 _ _ _ _ Hin) as [Ha Hb].
    split; [intros He; apply Hi; auto | assumption].
  Qed.

  (** a set closed under stalling steps, none of whose states accepts or progresses to acceptance,
      contains no state with an accepting run *)
  Lemma dead_set_no_run args ro S :
    stripped args ro -> (forall x, In x S -> Dead args ro S x) ->
    forall x bs, In x S -> ~ Acc x args ro bs.
  Proof.
    intros Hst Hdead x bs Hx Hacc.
    remember args as a eqn:Ea. remember ro as r eqn:Er.
    revert Hx. revert Hst Hdead. revert Ea Er.
    induction Hacc as [s a0 r0 Hemp Hterm | s a0 r0 l t rem ro' bs0 bs' Hedge Hrun Hacc IH]; intros Ea Er Hst Hdead Hx; subst a0 r0.
    - destruct (Hdead s Hx) as [Hn _]. unfold stripped in Hst. rewrite Hst in Hemp. cbn in Hemp. subst args. congruence.
    - unfold stripped in Hst. rewrite Hst in Hrun. cbn [fst snd] in Hrun.
      pose proof (collect_complete s args ro l t rem ro' bs0 Hedge Hrun) as Hin.
      destruct (Hdead s Hx) as [_ Hm]. destruct (Hm _ _ _ _ Hin) as [Hstall Hprog].
      destruct (list_eq_dec (list_eq_dec Ascii.ascii_dec) rem args) as [He|Hne].
      + destruct (Bool.bool_dec ro' ro) as [Hr|Hnr].
        * subst rem ro'. apply IH; auto.
        * apply (Hprog (fun H => Hnr (proj2 H)) bs'). exact Hacc.
      + apply (Hprog (fun H => Hne (proj1 H)) bs'). exact Hacc.
  Qed.

  (** * The depth-first search at one configuration *)
  Section AtConfig.
    Variables (args : list str) (ro : bool).
    Hypothesis Hst : stripped args ro.
    (** completeness is already known for every configuration with a smaller measure *)
    Hypothesis IHc : forall t rem ro' bs' fuel,
        msr rem ro' < msr args ro -> t < N -> Acc t rem ro' bs' ->
        msr rem ro' * (N + 1) + N < fuel ->
        exists b, fst (apply D g fuel t rem ro' []) = AOk b.

    Definition post (seen : list nat) (r : ares * list nat) : Prop :=
      fst r = AFail ->
      incl seen (snd r) /\ forall x, In x (snd r) -> ~ In x seen -> Dead args ro (snd r) x.

    Lemma dfs : forall fuel s seen,
        s < N -> Good g seen -> ~ In s seen ->
        msr args ro * (N + 1) + (N - length seen) < fuel ->
        post seen (apply D g fuel s args ro seen) /\
        (fst (apply D g fuel s args ro seen) = AFail -> In s (snd (apply D g fuel s args ro seen))).
    Proof.
      pose proof (apply_terminates D g Hwf) as HT. unfold terminates, TermProofs.N in HT.
      induction fuel as [|f IH]; intros s seen Hs Hg Hnin Hf; [now apply Nat.nlt_0_r in Hf|].
      destruct (HT (S f) s args ro seen Hs Hg Hnin Hf) as [_ Hterm].
      specialize (Hterm Hst). destruct Hterm as [Hgood' Hincl'].
      revert Hgood' Hincl'. cbn [apply]. unfold stripped in Hst. rewrite Hst. rewrite Nat.eqb_refl.
      destruct (match args with [] => terminal g s | _ :: _ => false end) eqn:Ht.
      { intros _ _. split; [intros H; discriminate | discriminate]. }
      intros Hgood' Hincl'.
      (* the loop *)
      assert (Hloop : forall ms, (forall m, In m ms -> In m (collect D g s args ro)) ->
                forall sn, Good g sn -> In s sn ->
                  msr args ro * (N + 1) + (N - length sn) < f ->
                  let r := try_matches (apply D g f) args ro ms sn in
                  fst r = AFail ->
                  incl sn (snd r) /\
                  (forall x, In x (snd r) -> ~ In x sn -> Dead args ro (snd r) x) /\
                  (forall t rem ro' bs, In (t, rem, ro', bs) ms ->
                      (rem = args /\ ro' = ro -> In t (snd r)) /\
                      (~ (rem = args /\ ro' = ro) -> forall bs', ~ Acc t rem ro' bs'))).
      { induction ms as [|[[[t rem] ro'] bs] ms IHms]; intros Hall sn Hgs Hsin Hfs; cbn [try_matches]; cbn zeta.
        - intros _. split; [apply incl_refl|]. split; [intros x Hx Hn; contradiction | intros ? ? ? ? []].
        - assert (Hin : In (t, rem, ro', bs) (collect D g s args ro)) by (apply Hall; now left).
          destruct (collect_targets D g _ _ _ _ _ _ _ Hwf Hin) as [Htn Hprog].
          assert (Hall' : forall m, In m ms -> In m (collect D g s args ro)) by (intros m Hm; apply Hall; now right).
          destruct (strs_eqb rem args && Bool.eqb ro' ro) eqn:Hstall.
          + apply andb_true_iff in Hstall as [E1 E2]. apply strs_eqb_true in E1. apply eqb_prop in E2. subst rem ro'.
            destruct (mem_nat t sn) eqn:Hm.
            * (* already entered *)
              intros Hr. destruct (IHms Hall' sn Hgs Hsin Hfs Hr) as (I1 & I2 & I3).
              split; [assumption|]. split; [assumption|].
              intros t0 rem0 ro0 bs0 [Heq|Hin0]; [|exact (I3 _ _ _ _ Hin0)].
              injection Heq as <- <- <- <-. split; [intros _; apply I1; now apply mem_nat_In | intros Hc; exfalso; apply Hc; auto].
            * assert (Hnt : ~ In t sn) by (intros Hc; apply mem_nat_In in Hc; congruence).
              assert (Hlen : length sn < N).
              { destruct Hgs as [Hnd Hlt].
                assert (Hg2 : Good g (t :: sn)) by (split; [now constructor | intros x [<-|Hx]; auto]).
                apply good_length in Hg2. cbn in Hg2. lia. }
              destruct (IH t sn Htn Hgs Hnt) as [Hpost Hself]; [lia|].
              destruct (HT f t args ro sn Htn Hgs Hnt) as [Hnf Hterm]; [lia|].
              fold (stripped args ro) in Hst. specialize (Hterm Hst). destruct Hterm as [Hg' Hi'].
              destruct (apply D g f t args ro sn) as [[bs'| |] sn'] eqn:Ha; cbn [fst snd] in *.
              -- discriminate.
              -- intros Hr.
                 assert (Hle : length sn <= length sn').
                 { apply NoDup_incl_length; [apply Hgs|]. intros x Hx. apply Hi'. now right. }
                 destruct (IHms Hall' sn' Hg') as (I1 & I2 & I3); [apply Hi'; right; exact Hsin | lia | exact Hr |].
                 destruct (Hpost eq_refl) as [P1 P2].
                 split; [intros x Hx; apply I1, Hi'; now right|].
                 split.
                 ++ intros x Hx Hn. destruct (in_dec Nat.eq_dec x sn') as [Hin'|Hnin'].
                    ** eapply dead_mono; [exact I1 | now apply P2].
                    ** now apply I2.
                 ++ intros t0 rem0 ro0 bs0 [Heq|Hin0]; [|exact (I3 _ _ _ _ Hin0)].
                    injection Heq as <- <- <- <-. split; [intros _; apply I1, Hself; reflexivity | intros Hc; exfalso; apply Hc; auto].
              -- congruence.
          + (* progress *)
            assert (Hlt : msr rem ro' < msr args ro).
            { destruct Hprog as [[-> ->]|Hlt]; [|exact Hlt].
              rewrite (proj2 (strs_eqb_true args args) eq_refl), eqb_reflx in Hstall. discriminate. }
            assert (Hne : ~ (rem = args /\ ro' = ro)).
            { intros [-> ->]. rewrite (proj2 (strs_eqb_true args args) eq_refl), eqb_reflx in Hstall. discriminate. }
            assert (Hfuel : msr rem ro' * (N + 1) + N < f) by nia.
            destruct (apply D g f t rem ro' []) as [[bs'| |] sn'] eqn:Ha; cbn [fst snd].
            * discriminate.
            * intros Hr. destruct (IHms Hall' sn Hgs Hsin Hfs Hr) as (I1 & I2 & I3).
              split; [assumption|]. split; [assumption|].
              intros t0 rem0 ro0 bs0 [Heq|Hin0]; [|exact (I3 _ _ _ _ Hin0)].
              injection Heq as <- <- <- <-. split; [intros Hc; contradiction|].
              intros _ bs2 Hacc. destruct (IHc t rem ro' bs2 f Hlt Htn Hacc Hfuel) as [b Hb].
              rewrite Ha in Hb. discriminate.
            * discriminate. }
      set (sn1 := s :: seen) in *.
      assert (Hg1 : Good g sn1).
      { destruct Hg as [Hnd Hlt]. split; [now constructor | intros x [<-|Hx]; auto]. }
      assert (Hf1 : msr args ro * (N + 1) + (N - length sn1) < f).
      { pose proof (good_length g _ Hg1) as Hgl. unfold sn1 in *. cbn [length] in *. lia. }
      specialize (Hloop (collect D g s args ro) (fun m H => H) sn1 Hg1 (or_introl eq_refl) Hf1).
      cbn zeta in Hloop. split.
      - intros Hr. destruct (Hloop Hr) as (I1 & I2 & I3).
        split; [intros x Hx; apply I1; now right|].
        intros x Hx Hn. destruct (Nat.eq_dec x s) as [->|Hxs].
        + split; [exact Ht|]. intros t rem ro' bs Hin. exact (I3 _ _ _ _ Hin).
        + apply I2; [assumption|]. intros [Heq|Hc]; [congruence | contradiction].
      - intros Hr. destruct (Hloop Hr) as (I1 & _). apply I1. now left.
    Qed.
  End AtConfig.

  (** * Completeness, by induction on the measure of the configuration *)
  Theorem apply_complete : forall n s args ro bs fuel,
      msr args ro <= n -> s < N -> Acc s args ro bs ->
      msr args ro * (N + 1) + N < fuel ->
      exists b, fst (apply D g fuel s args ro []) = AOk b.
  Proof.
    induction n as [n IHn] using lt_wf_ind. intros s args ro bs fuel Hn Hs Hacc Hf.
    destruct (strip args ro) as [args1 ro1] eqn:Hstrip.
    assert (Hst1 : stripped args1 ro1).
    { unfold stripped. pose proof (strip_idem args ro) as H. now rewrite Hstrip in H. }
    assert (Hm1 : msr args1 ro1 <= msr args ro).
    { pose proof (strip_msr args ro) as H. now rewrite Hstrip in H. }
    (* the run, seen from the stripped configuration *)
    assert (Hacc1 : Acc s args1 ro1 bs).
    { inversion Hacc as [s0 a0 r0 He Ht | s0 a0 r0 l t rem ro' bs0 bs' Hedge Hrun Hrest]; subst.
      - apply AccEnd; [|assumption]. unfold stripped in Hst1. rewrite Hst1. cbn. rewrite Hstrip in He. exact He.
      - eapply AccStep; [exact Hedge| |exact Hrest]. unfold stripped in Hst1. rewrite Hst1. cbn [fst snd].
        rewrite Hstrip in Hrun. exact Hrun. }
    (* apply on (args, ro) behaves as on the stripped configuration, with the same fresh set *)
    assert (Heq : apply D g fuel s args ro [] = apply D g fuel s args1 ro1 []).
    { destruct fuel as [|f]; [reflexivity|]. cbn [apply]. rewrite Hstrip. unfold stripped in Hst1. rewrite Hst1.
      rewrite Nat.eqb_refl. destruct (Nat.eqb (length args1) (length args)); reflexivity. }
    rewrite Heq.
    assert (IHc : forall t rem ro' bs' fuel',
               msr rem ro' < msr args1 ro1 -> t < N -> Acc t rem ro' bs' ->
               msr rem ro' * (N + 1) + N < fuel' ->
               exists b, fst (apply D g fuel' t rem ro' []) = AOk b).
    { intros t rem ro' bs' fuel' Hlt Ht Ha Hfu. apply (IHn (msr rem ro')) with (bs := bs'); auto; lia. }
    assert (Hf1 : msr args1 ro1 * (N + 1) + (N - length (@nil nat)) < fuel) by (cbn [length]; nia).
    assert (Hg0 : Good g []) by (split; [constructor | intros x []]).
    destruct (dfs args1 ro1 Hst1 IHc fuel s [] Hs Hg0 (fun H => H) Hf1) as [Hpost Hself].
    pose proof (apply_terminates D g Hwf) as HT. unfold terminates, TermProofs.N in HT.
    destruct (HT fuel s args1 ro1 [] Hs Hg0 (fun H => H) Hf1) as [Hnf _].
    destruct (apply D g fuel s args1 ro1 []) as [[b| |] sn] eqn:Ha; cbn [fst snd] in *.
    - eauto.
    - exfalso. destruct (Hpost eq_refl) as [_ Hdead]. specialize (Hself eq_refl).
      apply (dead_set_no_run args1 ro1 sn Hst1) with (x := s) (bs := bs); auto.
    - congruence.
  Qed.

  (** the search of fsm.Parse finds an accepting run whenever there is one *)
  Theorem fsm_apply_complete start args bs :
    start < N -> Acc start args false bs -> exists b, fsm_apply D g start args = AOk b.
  Proof.
    intros Hs Hacc. unfold fsm_apply.
    apply (apply_complete (msr args false) start args false bs); auto.
    unfold apply_fuel, msr. nia.
  Qed.
End Complete.
