(** C17 — help text lists exactly what was declared (rows before whitespace normalisation; the
    tabwriter's column padding is not modelled: the property compares after normalisation). *)
From MowCli Require Import Base Values Flow Cmd.

Section C17.
  Variable parse_float : str -> option str.
  Variable getenv : str -> str.

  (** The help of any command, when all its children initialise, is, in this order: the usage line
      (full path, trimmed spec, COMMAND marker iff it has sub-commands); the description (the long
      one iff long help was asked and it is set); one row per declared argument in declaration order;
      one row per declared option in declaration order; one row per NON-HIDDEN sub-command with all
      its aliases and the closing hint; nothing else. *)
  Theorem C17_rows :
    forall path c i long,
      init_children parse_float getenv (c_subs c) = None ->
      print_help parse_float getenv path c i long =
      (let desc := if long then match c_longdesc c with [] => c_desc c | d => d end else c_desc c in
       let visible := filter (fun s => negb (c_hidden s)) (c_subs c) in
       ((lit "Usage: " ++ concat_str [c_space] path
             ++ (match trim_space (i_spec i) with [] => [] | _ => c_space :: trim_space (i_spec i) end)
             ++ (if match c_subs c with [] => false | _ => true end then lit " COMMAND [arg...]" else []))
          :: (match desc with [] => [] | _ => split_nl desc end))
         ++ (match i_args i with [] => [] | args => lit "Arguments:" :: flat_map (container_row false) args end)
         ++ (match i_opts i with [] => [] | opts => lit "Options:" :: flat_map (container_row true) opts end)
         ++ (match visible with
             | [] => []
             | _ => lit "Commands:"
                      :: flat_map (fun s => split_nl (lit "  " ++ concat_str (lit ", ") (c_aliases s)
                                                          ++ [c_tab] ++ c_desc s)) visible
                      ++ [lit "Run '" ++ concat_str [c_space] path
                              ++ lit " COMMAND --help' for more information on a command."]
             end), None).
  Proof.
    intros path c i long Hc. unfold print_help. rewrite Hc. unfold help_header, help_table.
    rewrite <- app_assoc. reflexivity.
  Qed.

  (** one row: first column the name (argument) or the first short and first long name (option);
      second column the description, the environment variables, and the default unless the value is
      hidden or the default is empty — blank parts are dropped *)
  Theorem C17_row :
    forall isopt c,
      container_row isopt c =
      tabbed_row (if isopt then format_opt_names (ct_names c) else d_name (ct_decl c))
                 (join_strings [d_desc (ct_decl c); format_env (d_env (ct_decl c));
                                format_value (d_hide (ct_decl c)) (ct_default c)]).
  Proof. reflexivity. Qed.

  Theorem C17_value_shown_iff :
    forall hide v, format_value hide v =
                   if hide then [] else match v with [] => [] | _ => lit "(default " ++ v ++ lit ")" end.
  Proof. reflexivity. Qed.

  Theorem C17_first_short_first_long :
    forall names,
      format_opt_names names =
      match find (fun n => Nat.eqb (length n) 2) names, find (fun n => 2 <? length n) names with
      | Some s, Some l => s ++ lit ", " ++ l
      | Some s, None => s
      | None, Some l => lit "    " ++ l
      | None, None => []
      end.
  Proof. reflexivity. Qed.

  (** the default shown is the declared one, captured before the environment is applied: it does not
      depend on the environment *)
  Theorem C17_default_before_env :
    forall d names (getenv' : str -> str),
      ct_default (mk_container parse_float getenv d names) = default_value (d_kind d) (d_init d) /\
      ct_default (mk_container parse_float getenv d names) = ct_default (mk_container parse_float getenv' d names).
  Proof.
    intros d names getenv'. unfold mk_container.
    destruct (set_from_env parse_float getenv _ _ _), (set_from_env parse_float getenv' _ _ _). split; reflexivity.
  Qed.

  (** hidden sub-commands never appear: the table only sees the non-hidden ones *)
  Theorem C17_hidden_absent :
    forall path i subs,
      help_table path i (filter (fun s => negb (c_hidden s)) subs) =
      help_table path i (filter (fun s => negb (c_hidden s)) (filter (fun s => negb (c_hidden s)) subs)).
  Proof.
    intros path i subs. f_equal. induction subs as [|s subs IH]; [reflexivity|]. cbn.
    destruct (c_hidden s) eqn:Hh; cbn; [assumption|]. rewrite Hh. cbn. now f_equal.
  Qed.
End C17.
Print Assumptions C17_rows.
Print Assumptions C17_row.
Print Assumptions C17_value_shown_iff.
Print Assumptions C17_first_short_first_long.
Print Assumptions C17_default_before_env.
Print Assumptions C17_hidden_absent.

Example C17_nonvacuous :
  let ge := fun k : str => if str_eqb k (lit "N") then lit "9" else [] in
  let hid := Cmd (lit "secret") (lit "hidden one") [] true [] None [] HAbsent HReturns HAbsent [] in
  let vis := Cmd (lit "run r") (lit "runs") [] false [] None [] HAbsent HReturns HAbsent [] in
  let root := Cmd (lit "app") (lit "short") (lit "long") false [] (Some 0)
                  [mkDecl true KInt (lit "n num") (lit "count") (lit "N") false (VInt 3) false;
                   mkDecl false KString (lit "SRC") (lit "source") [] true (VStr (lit "x")) false]
                  HAbsent HReturns HAbsent [hid; vis] in
  r_stderr (run (fun _ => None) ge (mkApp root None) [lit "--help"])
  = [lit "Usage: app [OPTIONS] SRC COMMAND [arg...]"; lit "long"; lit "Arguments:";
     lit "  SRC" ++ [c_tab] ++ lit "source"; lit "Options:";
     lit "  -n, --num" ++ [c_tab] ++ lit "count (env $N) (default 3)"; lit "Commands:";
     lit "  run, r" ++ [c_tab] ++ lit "runs";
     lit "Run 'app COMMAND --help' for more information on a command."].
Proof. vm_compute. reflexivity. Qed.
