(** C05 — Before/Action/After run in nesting order; Afters always run; Exit comes last.
    Only the property theorems, each closed by [exact], with their assumptions printed. *)
From MowCli Require Import Base Flow FlowProofs.

(** For every path depth and every assignment of {absent, returns, panics v, exits n} to the
    Befores, the Action and the Afters, running the chain wired by Cmd.parse yields exactly the
    trace and the end that the property describes ([flow_spec]: Befores root to leaf up to and
    including the first failing one; the Action iff none failed; the Afters of exactly the levels
    whose Before completed, leaf to root, each once, whatever any callback raises; the end decided
    by the most recently raised value). *)
Theorem C05_flow :
  forall (ls : list level) (action : hook), ls <> [] -> run_flow ls action = flow_spec ls action.
Proof. exact run_flow_spec. Qed.
Print Assumptions C05_flow.

(** Nothing runs after the exit: the exit function is the last thing that happens, once, with
    the status of the most recently raised Exit; any other raised value reaches the caller of Run
    unchanged. (The end is a function of the pending value alone.) *)
Theorem C05_exit_last :
  forall (ls : list level) (action : hook), ls <> [] ->
  forall n, snd (run_flow ls action) = Exited n ->
  exists tr, run_flow ls action = (tr, Exited n) /\ tr = fst (flow_spec ls action).
Proof.
  intros ls action Hne n H. exists (fst (run_flow ls action)). split.
  - rewrite <- H. now destruct (run_flow ls action).
  - now rewrite (run_flow_spec ls action Hne).
Qed.
Print Assumptions C05_exit_last.

(** Non-vacuity and a concrete reading: depth 2, the leaf's Before panics, the root's After
    calls Exit(3): the root's Before ran, so its After runs, and the Exit raised last decides. *)
Example C05_nonvacuous :
  run_flow [mkLevel HReturns (HExits 3); mkLevel (HPanics 5) HReturns] HReturns
  = ([(HBefore, 0); (HBefore, 1); (HAfter, 0)], Exited 3).
Proof. vm_compute. reflexivity. Qed.

Example C05_afters_survive_action_panic :
  run_flow [mkLevel HReturns HReturns; mkLevel HReturns (HPanics 7)] (HExits 2)
  = ([(HBefore, 0); (HBefore, 1); (HAction, 1); (HAfter, 1); (HAfter, 0)], Panicked (Some (PUser 7))).
Proof. vm_compute. reflexivity. Qed.
