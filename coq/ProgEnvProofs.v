(** C12 at the level of programs and environments: the same declarations and the same spec, initialised under two
    environments, compile to the SAME automaton (the names and kinds of the declared options and arguments do not
    depend on the environment; only the values and the "set from the environment" marks do), and when the second
    environment backs at least the options the first one backs, every command line accepted under the first is
    accepted under the second — every command line, every spec. *)
From MowCli Require Import Base Lexer Parser Nfa Matchers Apply Values Flow Cmd
     NfaProofs TermProofs ApplyProofs CompileProofs GrammarProofs GroupProofs EnvProofs.

(** * The grammar only looks at the tables through their answers *)
Section GrammarExt.
  Variables lo lo' la la' : str -> option nat.
  Hypothesis Hlo : forall n, lo' n = lo n.
  Hypothesis Hla : forall n, la' n = la n.

  Lemma resolve_seq_ext letters : resolve_seq lo' letters = resolve_seq lo letters.
  Proof.
    induction letters as [|c l IH]; cbn [resolve_seq]; [reflexivity|]. rewrite Hlo, IH. reflexivity.
  Qed.

  Lemma grammar_ext :
    (forall ro l s ro', GSeq lo la ro l s ro' -> GSeq lo' la' ro l s ro') /\
    (forall ro l c ro', GChoice lo la ro l c ro' -> GChoice lo' la' ro l c ro') /\
    (forall ro l a ro', GRatom lo la ro l a ro' -> GRatom lo' la' ro l a ro') /\
    (forall ro l a ro', GAtom lo la ro l a ro' -> GAtom lo' la' ro l a ro').
  Proof.
    apply gram_mutind; intros; try (econstructor; eauto; fail).
    - apply GArg; [assumption | now rewrite Hla].
    - apply GOpt; [assumption | now rewrite Hlo].
    - apply GOptV; [assumption | now rewrite Hlo | assumption].
    - eapply GGroup; [eassumption | rewrite resolve_seq_ext; eassumption].
  Qed.
End GrammarExt.

Lemma parse_tokens_ext lo lo' la la' speclen toks e :
  (forall n, lo' n = lo n) -> (forall n, la' n = la n) ->
  parse_tokens lo la speclen toks = ParseOk e -> parse_tokens lo' la' speclen toks = ParseOk e.
Proof.
  intros Hlo Hla H. apply parse_tokens_iff_grammar in H as (ro' & G). apply parse_tokens_iff_grammar.
  exists ro'. now apply (proj1 (grammar_ext lo lo' la la' Hlo Hla)).
Qed.

(** * Declarations: names and kinds do not depend on the environment *)
Section DeclEnv.
  Variable parse_float : str -> option str.
  Variables g1 g2 : str -> str.

  (** same names and same declarations, container by container *)
  Definition alike (c1 c2 : list container) : Prop :=
    map ct_names c1 = map ct_names c2 /\ map ct_decl c1 = map ct_decl c2.

  Lemma mk_container_alike d names :
    ct_names (mk_container parse_float g1 d names) = ct_names (mk_container parse_float g2 d names) /\
    ct_decl (mk_container parse_float g1 d names) = ct_decl (mk_container parse_float g2 d names).
  Proof.
    unfold mk_container.
    destruct (set_from_env parse_float g1 (d_kind d) (d_init d) (d_env d)),
             (set_from_env parse_float g2 (d_kind d) (d_init d) (d_env d)). cbn. auto.
  Qed.

  Lemma all_names_alike c1 c2 : alike c1 c2 -> all_names c1 = all_names c2.
  Proof.
    intros [Hn _]. unfold all_names. rewrite !flat_map_concat_map. now rewrite Hn.
  Qed.

  Lemma alike_snoc c1 c2 x1 x2 : alike c1 c2 -> ct_names x1 = ct_names x2 -> ct_decl x1 = ct_decl x2 ->
    alike (c1 ++ [x1]) (c2 ++ [x2]).
  Proof. intros [Hn Hd] En Ed. unfold alike. rewrite !map_app. cbn. now rewrite Hn, Hd, En, Ed. Qed.

  Lemma declare_alike ds : forall o1 a1 o2 a2 O1 A1,
    alike o1 o2 -> alike a1 a2 ->
    declare parse_float g1 ds o1 a1 = inl (O1, A1) ->
    exists O2 A2, declare parse_float g2 ds o2 a2 = inl (O2, A2) /\ alike O1 O2 /\ alike A1 A2.
  Proof.
    induction ds as [|d ds IH]; intros o1 a1 o2 a2 O1 A1 Ho Ha; cbn [declare].
    - intros [= <- <-]. eauto.
    - destruct (d_isopt d).
      + unfold mk_opt. rewrite <- (all_names_alike o1 o2 Ho).
        destruct (first_dup (all_names o1) (mk_opt_strs (d_name d))); [discriminate|].
        destruct (mk_container_alike d (mk_opt_strs (d_name d))) as [En Ed].
        apply IH; [now apply alike_snoc | assumption].
      + unfold mk_arg. rewrite <- (all_names_alike a1 a2 Ha).
        destruct (negb (valid_arg_name (d_name d))); [discriminate|].
        destruct (mem_str (d_name d) (all_names a1)); [discriminate|].
        destruct (mk_container_alike d [d_name d]) as [En Ed].
        apply IH; [assumption | now apply alike_snoc].
  Qed.

  Lemma lookup_name_alike c1 c2 n : alike c1 c2 -> lookup_name c2 n = lookup_name c1 n.
  Proof.
    intros [Hn _]. unfold lookup_name. revert c2 Hn.
    induction c1 as [|x c1 IH]; intros c2 Hn; destruct c2 as [|y c2]; try discriminate; [reflexivity|].
    cbn [map] in Hn. injection Hn as E Hn. cbn [find_index]. rewrite E.
    destruct (mem_str n (ct_names y)); [reflexivity | now rewrite (IH c2 Hn)].
  Qed.
End DeclEnv.

(** * The same program under two environments *)
Section ProgEnv.
  Variable parse_float : str -> option str.
  Variables g1 g2 : str -> str.

  Lemma alike_length c1 c2 : alike c1 c2 -> length c1 = length c2.
  Proof. intros [Hn _]. rewrite <- (map_length ct_names c1), Hn. apply map_length. Qed.

  Lemma alike_nth_decl c1 c2 k : alike c1 c2 -> option_map ct_decl (nth_error c2 k) = option_map ct_decl (nth_error c1 k).
  Proof. intros [_ Hd]. rewrite <- !nth_error_map. now rewrite Hd. Qed.

  Lemma default_spec_alike o1 o2 a1 a2 : alike o1 o2 -> alike a1 a2 -> default_spec o2 a2 = default_spec o1 a1.
  Proof.
    intros Ho [_ Ha]. unfold default_spec. f_equal.
    - pose proof (alike_length o1 o2 Ho) as L. destruct o1, o2; try discriminate; reflexivity.
    - rewrite !flat_map_concat_map. f_equal.
      rewrite <- (map_map ct_decl (fun d => d_name d ++ [c_space]) a2), <- (map_map ct_decl (fun d => d_name d ++ [c_space]) a1).
      now rewrite Ha.
  Qed.

  (** the two initialisations give the same automaton; the option tables answer alike about names and kinds *)
  Theorem do_init_two_envs ds spec i1 :
    do_init parse_float g1 ds spec = IOk i1 ->
    exists i2, do_init parse_float g2 ds spec = IOk i2 /\
               i_graph i2 = i_graph i1 /\ i_start i2 = i_start i1 /\
               same_names (optinfo_of (i_opts i1)) (optinfo_of (i_opts i2)).
  Proof.
    unfold do_init.
    destruct (declare parse_float g1 ds [] []) as [[O1 A1]|m] eqn:D1; [|discriminate].
    destruct (declare_alike parse_float g1 g2 ds [] [] [] [] O1 A1 (conj eq_refl eq_refl) (conj eq_refl eq_refl) D1)
      as (O2 & A2 & D2 & Ho & Ha).
    rewrite D2. rewrite (default_spec_alike O1 O2 A1 A2 Ho Ha).
    set (sp := match spec with [] => default_spec O1 A1 | _ => spec end).
    unfold compile. destruct (tokenize sp) as [toks|m p|]; try discriminate.
    destruct (parse_tokens (lookup_name O1) (lookup_name A1) (length sp) toks) as [ast|m p|] eqn:P1; try discriminate.
    rewrite (parse_tokens_ext (lookup_name O1) (lookup_name O2) (lookup_name A1) (lookup_name A2) (length sp) toks ast
               (fun n => lookup_name_alike O1 O2 n Ho) (fun n => lookup_name_alike A1 A2 n Ha) P1).
    rewrite <- (alike_length O1 O2 Ho).
    destruct (thompson (length O1) ast) as [start g]. destruct (prepare start g) as [g'|]; [|discriminate].
    intros [= <-]. eexists. split; [reflexivity|]. cbn [i_graph i_start i_opts]. repeat split.
    - intros n. cbn. now apply lookup_name_alike.
    - intros o. cbn. pose proof (alike_nth_decl O1 O2 o Ho) as E.
      destruct (nth_error O2 o) as [c2|], (nth_error O1 o) as [c1|]; cbn in E; try discriminate; [|reflexivity].
      injection E as E. now rewrite E.
  Qed.

  (** C12 for programs: if every option that the first environment backs is backed by the second, every command
      line that the program accepts under the first it accepts under the second *)
  Theorem env_only_enlarges_program ds spec i1 i2 argv bs :
    do_init parse_float g1 ds spec = IOk i1 -> do_init parse_float g2 ds spec = IOk i2 ->
    (forall o, oi_fromenv (optinfo_of (i_opts i1)) o = true -> oi_fromenv (optinfo_of (i_opts i2)) o = true) ->
    fsm_apply (optinfo_of (i_opts i1)) (i_graph i1) (i_start i1) argv = AOk bs ->
    exists bs', fsm_apply (optinfo_of (i_opts i2)) (i_graph i2) (i_start i2) argv = AOk bs'.
  Proof.
    intros H1 H2 Henv Hrun.
    destruct (do_init_two_envs ds spec i1 H1) as (i2' & H2' & Eg & Es & Hsame). rewrite H2 in H2'. injection H2' as <-.
    rewrite Eg, Es.
    destruct (do_init_total parse_float g1 ds spec) as [_ Hwf]. destruct (Hwf i1 H1) as [Hw Hs].
    apply (env_only_enlarges_all (optinfo_of (i_opts i1)) (optinfo_of (i_opts i2)) (conj Hsame Henv) (i_graph i1) (i_start i1) argv bs);
      assumption.
  Qed.
End ProgEnv.
