(** C09 — "--" ends option parsing; what follows is positional, verbatim.
    PROVED on the model, for command lines that read cleanly (decidable, PC10.v) and every command
    whose spec has no "--" atom and none of whose options is backed by the environment (the
    quantifier of the property):
    [C09_inserted_dd_same_parse] / [C09_insertion_changes_nothing]: inserting the first "--" of the
    command line at any point of the trailing block of positional arguments, its start and its very
    end included, changes neither the verdict nor the value of any variable (the depth-first searches
    proceed in lockstep under the relation [InsertProofs.RI]; after the inserted "--" is dropped the two
    remainders are the same positionals, one with options still open and one with options ended, and
    every matcher treats them alike — the option group only because none of its members is backed by
    the environment: quirk Q2 of DESIGN 1, met again by this proof; with E set, spec "-ef X" accepts
    "x" and rejects "-- x", which is outside the property's quantifier). [C09_positionals_verbatim] (PC02.v): what follows the first "--" is bound
    as positional, verbatim, each token once and in order; it is bound to nothing itself
    ([C02_after_cmdline_dd_verbatim]: it contributes no occurrence and no positional).
    State-machine level, every automaton: the leading "--" is dropped exactly once ([C09_dropped_once],
    [C09_further_dd_is_data]); a terminal state accepts as soon as nothing is left AFTER the drop (D1:
    [C09_trailing_dd_accepted]); after the drop — or after a spec-level "--", whose matcher only raises
    the same flag ([C09_spec_dd]) — every token is taken verbatim by the positional matcher and no
    option matcher consumes anything ([C09_verbatim], [C09_no_option_after_dd]).
    [C09_spec_dd_like_cmdline_dd]: crossing a "--" written in the spec leads to the very configuration
    that the drop of a "--" present at that position of the command line leads to (options ended, the
    same tokens left, nothing bound). NOT proved beyond this step-level statement: a whole-run
    transformation between a spec with "--" and the command line with "--" inserted where the atom is
    crossed; covered by the check on five spec pairs with/without "--" x random heads x arbitrary
    tails, and by the reference semantics on every claimed case. *)
From MowCli Require Import Base Nfa Matchers Apply Values Flow Cmd View ApplyProofs TermProofs ViewProofs ReadProofs InsertProofs ThompsonProofs.

Theorem C09_dropped_once :
  forall args ro, strip (fst (strip args ro)) (snd (strip args ro)) = strip args ro.
Proof. exact strip_idem. Qed.

Theorem C09_further_dd_is_data :
  forall args, strip args true = (args, true).
Proof. exact strip_ro_true. Qed.

(** D1: at a terminal state, a remainder consisting of "--" alone is accepted, like the empty one *)
Theorem C09_trailing_dd_accepted :
  forall D g fuel s seen,
    terminal g s = true ->
    fst (apply D g (S fuel) s [s_dd] false seen) = AOk [] /\
    fst (apply D g (S fuel) s [] false seen) = AOk [].
Proof.
  intros D g fuel s seen Ht. cbn [apply]. split.
  - cbn. now rewrite Ht.
  - cbn. now rewrite Ht.
Qed.

(** after the drop every token, dash-prefixed or "--" itself, is taken verbatim *)
Theorem C09_verbatim :
  forall i a rest, m_arg i (a :: rest) true = Some (rest, true, [(KA i, a)]).
Proof. exact m_arg_after_dd. Qed.

Theorem C09_no_option_after_dd :
  forall D o is args,
    m_opt D o args true = (if oi_fromenv D o then Some (args, true, []) else None) /\
    m_group D is args true = None.
Proof. intros. split; [apply m_opt_after_dd | apply m_group_after_dd]. Qed.

(** before it, a dash-prefixed token other than "-" is never a positional *)
Theorem C09_options_are_not_positionals :
  forall i a rest, dashed a = true -> a <> s_dash -> m_arg i (a :: rest) false = None.
Proof. exact m_arg_refuses_options. Qed.

(** a "--" written in the spec raises the same flag and consumes nothing *)
Theorem C09_spec_dd :
  forall args ro, m_dd args ro = Some (args, true, []).
Proof. reflexivity. Qed.

(** insertion of the first "--" in the trailing block of positionals: reading level *)
Theorem C09_insertion_same_result :
  forall D, oi_lookup D s_dd = None -> oi_lookup D [c_dash; c_eq] = None ->
  (forall o, oi_fromenv D o = false) ->
  forall g start a1 a2 p q,
    wf_graph g -> (forall s t, ~ In (LDD, t) (edges g s)) -> start < nstates g ->
    no_dd p -> Reads D a1 (p ++ map VP q) -> Reads D a2 (p ++ VDD :: map VP q) ->
    fsm_apply D g start a1 = fsm_apply D g start a2.
Proof. exact insertion_same_result. Qed.

(** token level: after any readable prefix without "--", between any two blocks of positionals *)
Theorem C09_insertion_changes_nothing :
  forall D, oi_lookup D s_dd = None -> oi_lookup D [c_dash; c_eq] = None ->
  (forall o, oi_fromenv D o = false) ->
  forall g start pre p q1 q2,
    wf_graph g -> (forall s t, ~ In (LDD, t) (edges g s)) -> start < nstates g ->
    Prefix D pre p -> no_dd p -> allpos q1 -> allpos q2 ->
    fsm_apply D g start (pre ++ q1 ++ q2) = fsm_apply D g start (pre ++ q1 ++ s_dd :: q2).
Proof. exact insert_dd_same_result. Qed.

(** command level, decidable hypotheses *)
Theorem C09_inserted_dd_same_parse :
  forall parse_float opts args spec i a1 a2 p q,
    compile opts args spec = IOk i ->
    sane (optinfo_of opts) = true -> no_dd_graph (i_graph i) = true -> no_env opts = true ->
    no_dd_b p = true ->
    view (optinfo_of opts) a1 = Some (p ++ map VP q) ->
    view (optinfo_of opts) a2 = Some (p ++ VDD :: map VP q) ->
    fsm_parse parse_float i a1 = fsm_parse parse_float i a2.
Proof. exact inserted_dd_same_parse. Qed.

(** without environment-backed options, positionals look the same to the option group whether
    options are open or ended: it fails *)
Theorem C09_group_cannot_tell_open_from_ended :
  forall D, (forall o, oi_fromenv D o = false) ->
  forall js q r, allpos q -> m_group D js q r = None.
Proof. exact m_group_allpos. Qed.

(** a "--" written in the spec leads to the very configuration that dropping a "--" present at that
    position of the command line leads to: options ended, the same tokens left, nothing bound *)
Theorem C09_spec_dd_like_cmdline_dd :
  forall D a c' b,
    mstep D LDD (a, true) c' b \/ mstep D LDD (a, false) c' b ->
    b = [] /\ (forall t rest, a = t :: rest -> str_eqb t s_dd = false -> c' = strip (s_dd :: a) false).
Proof.
  intros D a c' b H.
  assert (X : forall r, mstep D LDD (a, r) c' b -> b = [] /\ c' = (fst (strip a r), true)).
  { intros r Hm. unfold mstep in Hm. cbn [run_matcher fst snd] in Hm. unfold m_dd in Hm.
    injection Hm as E1 E2 E3. split; [auto|]. destruct c' as [x y]. cbn [fst snd] in *. now subst. }
  destruct H as [H|H]; destruct (X _ H) as [-> ->]; (split; [reflexivity|]); intros t rest -> Ht.
  - rewrite strip_ro_true. cbn [fst strip]. now rewrite str_eqb_refl.
  - cbn [strip fst]. rewrite Ht. cbn [negb andb fst]. now rewrite str_eqb_refl.
Qed.

Print Assumptions C09_spec_dd_like_cmdline_dd.
Print Assumptions C09_insertion_same_result.
Print Assumptions C09_insertion_changes_nothing.
Print Assumptions C09_inserted_dd_same_parse.
Print Assumptions C09_group_cannot_tell_open_from_ended.
Print Assumptions C09_dropped_once.
Print Assumptions C09_further_dd_is_data.
Print Assumptions C09_trailing_dd_accepted.
Print Assumptions C09_verbatim.
Print Assumptions C09_no_option_after_dd.
Print Assumptions C09_options_are_not_positionals.
Print Assumptions C09_spec_dd.

(** non-vacuity: "--" inserted before, inside and after the trailing block; and the Q2 witness, which
    the hypothesis [no_env] excludes *)
Definition c09_decls (env : str) : list decl :=
  [mkDecl true KStrings (lit "e") [] env false (VStrs []) false;
   mkDecl true KBool (lit "f") [] [] false (VBool false) false;
   mkDecl false KStrings (lit "X") [] [] false (VStrs []) false].

Example C09_nonvacuous :
  match declare (fun _ => None) (fun _ => []) (c09_decls []) [] [] with
  | inl (opts, args) =>
    match compile opts args (lit "[-ef] X...") with
    | IOk i =>
      let D := optinfo_of opts in
      let lines := [[lit "-f"; lit "x"; lit "y"]; [lit "-f"; lit "--"; lit "x"; lit "y"]; [lit "-f"; lit "x"; lit "--"; lit "y"];
                    [lit "-f"; lit "x"; lit "y"; lit "--"]] in
      sane D && no_dd_graph (i_graph i) && no_env opts &&
      match map (view D) lines with
      | [Some [VO 1 _; VP _; VP _]; Some [VO 1 _; VDD; VP _; VP _]; Some [VO 1 _; VP _; VDD; VP _]; Some [VO 1 _; VP _; VP _; VDD]] => true
      | _ => false
      end &&
      forallb (fun a => match fsm_parse (fun _ => None) i a with PAccept _ _ => true | _ => false end) lines
    | _ => false
    end
  | inr _ => false
  end = true.
Proof. vm_compute. reflexivity. Qed.

Example C09_q2_outside_the_quantifier :
  match declare (fun _ => None) (fun n => if str_eqb n (lit "VE_E") then lit "v" else []) (c09_decls (lit "VE_E")) [] [] with
  | inl (opts, args) =>
    match compile opts args (lit "-ef X") with
    | IOk i =>
      (no_env opts,
       match fsm_parse (fun _ => None) i [lit "x"] with PAccept _ _ => true | _ => false end,
       match fsm_parse (fun _ => None) i [lit "--"; lit "x"] with PAccept _ _ => true | _ => false end)
    | _ => (true, false, false)
    end
  | inr _ => (true, false, false)
  end = (false, true, false).
Proof. vm_compute. reflexivity. Qed.
