(** C09 — "--" ends option parsing; what follows is positional, verbatim.
    PARTIAL. Proved at the level of the state machine: the leading "--" is dropped exactly once
    ([strip] is idempotent and never fires once options are ended, so further "--" are data); a
    terminal state accepts as soon as nothing is left AFTER the drop (the D1 repair: a trailing "--"
    is accepted wherever the empty remainder is); after the drop — or after a spec-level "--", whose
    matcher only raises the same flag — every token is bound verbatim by the positional matcher and
    no option matcher consumes anything. NOT yet proved: the insertion invariance for an arbitrary
    prefix of the command line (needs the matcher-level bridge of DESIGN 5/T4) — covered on every run
    by comparing every insertion point on the implementation itself. *)
From MowCli Require Import Base Nfa Matchers Apply ApplyProofs TermProofs.

Theorem C09_dropped_once :
  forall args ro, strip (fst (strip args ro)) (snd (strip args ro)) = strip args ro.
Proof. exact strip_idem. Qed.

Theorem C09_further_dd_is_data :
  forall args, strip args true = (args, true).
Proof. exact strip_ro_true. Qed.

(** D1: at a terminal state, a remainder consisting of "--" alone is accepted, like the empty one *)
Theorem C09_trailing_dd_accepted :
  forall D g fuel s seen,
    terminal g s = true ->
    fst (apply D g (S fuel) s [s_dd] false seen) = AOk [] /\
    fst (apply D g (S fuel) s [] false seen) = AOk [].
Proof.
  intros D g fuel s seen Ht. cbn [apply]. split.
  - cbn. now rewrite Ht.
  - cbn. now rewrite Ht.
Qed.

(** after the drop every token, dash-prefixed or "--" itself, is taken verbatim *)
Theorem C09_verbatim :
  forall i a rest, m_arg i (a :: rest) true = Some (rest, true, [(KA i, a)]).
Proof. exact m_arg_after_dd. Qed.

Theorem C09_no_option_after_dd :
  forall D o is args,
    m_opt D o args true = (if oi_fromenv D o then Some (args, true, []) else None) /\
    m_group D is args true = None.
Proof. intros. split; [apply m_opt_after_dd | apply m_group_after_dd]. Qed.

(** before it, a dash-prefixed token other than "-" is never a positional *)
Theorem C09_options_are_not_positionals :
  forall i a rest, dashed a = true -> a <> s_dash -> m_arg i (a :: rest) false = None.
Proof. exact m_arg_refuses_options. Qed.

(** a "--" written in the spec raises the same flag and consumes nothing *)
Theorem C09_spec_dd :
  forall args ro, m_dd args ro = Some (args, true, []).
Proof. reflexivity. Qed.

Print Assumptions C09_dropped_once.
Print Assumptions C09_further_dd_is_data.
Print Assumptions C09_trailing_dd_accepted.
Print Assumptions C09_verbatim.
Print Assumptions C09_no_option_after_dd.
Print Assumptions C09_options_are_not_positionals.
Print Assumptions C09_spec_dd.
