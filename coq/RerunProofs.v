(** C20, "rerunning the same application yields the same acceptance and the same bound values", for ONE application
    object given the same line twice. fsm.Parse leaves the containers changed (the values written, SetByUser, and
    ValueSetFromEnv cleared for every container the line gave a value); the second Run starts from that state.
    [rerun_same_line]: for a command none of whose options is backed by the environment and whose variables are of
    the built-in kinds, the second parse of the same line accepts and leaves every container exactly as the first
    left it — the state after the first run is a fixed point of the line. The hypothesis about the environment cannot
    be dropped: [rerun_with_env_refuted] is the quirk Q12 (spec "-o X -o", $OO set, line "-o 1 x": accepted, then
    rejected), which no property quantifies over. (A user-defined value sees the calls of both runs; sub-commands run
    their initialiser again: Q10.) *)
From MowCli Require Import Base Lexer Parser Nfa Matchers Apply Values Flow Cmd ValueProofs GroupProofs.

(** * The search only looks at the option table through its three functions *)
Section ApplyExt.
  Variables D D' : optinfo.
  Hypothesis Hsame : same_names D D'.
  Hypothesis Henv : forall o, oi_fromenv D' o = oi_fromenv D o.

  Lemma m_opt_ext o a ro : m_opt D' o a ro = m_opt D o a ro.
  Proof. unfold m_opt. rewrite Henv. destruct a as [|a0 a']; [reflexivity|]. destruct ro; [reflexivity|]. now rewrite (scan_ext D D' Hsame). Qed.

  Lemma try_consume_ext opts : forall ex a, try_consume D' opts ex a = try_consume D opts ex a.
  Proof. induction opts as [|o opts IH]; intros ex a; cbn [try_consume]; [reflexivity|]. now rewrite m_opt_ext, !IH. Qed.

  Lemma try_env_ext opts : forall ex a, try_env D' opts ex a = try_env D opts ex a.
  Proof. induction opts as [|o opts IH]; intros ex a; cbn [try_env]; [reflexivity|]. now rewrite m_opt_ext, Henv, !IH. Qed.

  Lemma try_ext opts ex a ro : try_ D' opts ex a ro = try_ D opts ex a ro.
  Proof. unfold try_, try_opts. now rewrite try_consume_ext, try_env_ext. Qed.

  Lemma group_loop_ext f : forall opts ex a acc, group_loop D' f opts ex a acc = group_loop D f opts ex a acc.
  Proof.
    induction f as [|f IH]; intros opts ex a acc; cbn [group_loop]; [reflexivity|]. rewrite try_ext.
    destruct (try_ D opts ex a false) as [[[r b] ex']|]; [apply IH | reflexivity].
  Qed.

  Lemma m_group_ext opts a ro : m_group D' opts a ro = m_group D opts a ro.
  Proof. unfold m_group. rewrite try_ext. destruct (try_ D opts [] a ro) as [[[r b] ex]|]; [|reflexivity]. now rewrite group_loop_ext. Qed.

  Lemma run_matcher_ext l a ro : run_matcher D' l a ro = run_matcher D l a ro.
  Proof. destruct l; cbn [run_matcher]; auto using m_opt_ext, m_group_ext. Qed.

  Lemma collect_ext g s a ro : collect D' g s a ro = collect D g s a ro.
  Proof. unfold collect. induction (edges g s) as [|e es IH]; cbn [fold_right]; [reflexivity|]. now rewrite run_matcher_ext, IH. Qed.

  Lemma try_matches_ext (r r' : nat -> list str -> bool -> list nat -> ares * list nat) a1 ro1 :
    (forall t a ro sn, r' t a ro sn = r t a ro sn) ->
    forall ms sn, try_matches r' a1 ro1 ms sn = try_matches r a1 ro1 ms sn.
  Proof.
    intros Hr. induction ms as [|[[[t rem] ro'] bs] ms IH]; intros sn; cbn [try_matches]; [reflexivity|].
    rewrite !Hr. destruct (strs_eqb rem a1 && Bool.eqb ro' ro1).
    - destruct (mem_nat t sn); [apply IH|]. destruct (r t rem ro' sn) as [[b| |] sn']; auto.
    - destruct (r t rem ro' []) as [[b| |] sn']; auto.
  Qed.

  Lemma apply_ext g f : forall s a ro sn, apply D' g f s a ro sn = apply D g f s a ro sn.
  Proof.
    induction f as [|f IH]; intros s a ro sn; cbn [apply]; [reflexivity|].
    destruct (strip a ro) as [a1 ro1]. rewrite collect_ext.
    destruct (match a1 with [] => terminal g s | _ :: _ => false end); [reflexivity|].
    now apply try_matches_ext.
  Qed.

  Lemma fsm_apply_ext g start a : fsm_apply D' g start a = fsm_apply D g start a.
  Proof. unfold fsm_apply. now rewrite apply_ext. Qed.
End ApplyExt.

Section Rerun.
  Variable parse_float : str -> option str.

  (** variables of the built-in kinds, each holding a value of its kind (what every declaration gives) *)
  Definition plain (c : container) : Prop :=
    builtin (ct_value c) = true /\ kind_matches (d_kind (ct_decl c)) (ct_value c) = true.

  (** Set on a single-valued built-in does not look at what the variable held *)
  Definition same_shape (v w : cval) : Prop :=
    match v, w with
    | VBool _, VBool _ | VStr _, VStr _ | VInt _, VInt _ | VFloat _, VFloat _ => True
    | _, _ => False
    end.

  Lemma vset_log_single_indep v w s : same_shape v w ->
    (exists x, vset_log parse_float v s = (x, true) /\ vset_log parse_float w s = (x, true) /\ same_shape x x /\ same_shape v x) \/
    (snd (vset_log parse_float v s) = false /\ snd (vset_log parse_float w s) = false).
  Proof.
    destruct v, w; cbn; try contradiction; intros _.
    - destruct (parse_bool s); cbn; [left; eexists; repeat split | right; auto].
    - left; eexists; repeat split.
    - destruct (parse_int s); cbn; [left; eexists; repeat split | right; auto].
    - destruct (parse_float s); cbn; [left; eexists; repeat split | right; auto].
  Qed.

  Lemma same_shape_trans u v w : same_shape u v -> same_shape v w -> same_shape u w.
  Proof. destruct u, v, w; cbn; auto; contradiction. Qed.
  Lemma same_shape_sym u v : same_shape u v -> same_shape v u.
  Proof. destruct u, v; cbn; auto. Qed.

  Lemma set_all_single_indep vs : forall v w, same_shape v w -> vs <> [] ->
    set_all parse_float v vs = set_all parse_float w vs /\
    forall x, set_all parse_float v vs = Some x -> same_shape v x.
  Proof.
    induction vs as [|s vs IH]; intros v w Hs Hne; [congruence|]. cbn [set_all].
    destruct (vset_log_single_indep v w s Hs) as [(x & E1 & E2 & Hxx & Hvx)|[E1 E2]].
    - rewrite E1, E2. destruct vs as [|s2 vs2].
      + cbn. split; [reflexivity|]. now intros y [= <-].
      + destruct (IH x x Hxx ltac:(discriminate)) as [_ Hsh]. split; [reflexivity|].
        intros y Hy. eapply same_shape_trans; [exact Hvx | now apply Hsh].
    - destruct (vset_log parse_float v s) as [v1 ok1], (vset_log parse_float w s) as [w1 ok2]. cbn in E1, E2. subst.
      split; [reflexivity | discriminate].
  Qed.

  (** the multi-valued kinds are cleared first: nothing of the old content is looked at *)
  Lemma vclear_multi_indep v w : multi_val v = true -> builtin v = true ->
    (match v, w with VStrs _, VStrs _ | VInts _, VInts _ | VFloats _, VFloats _ => True | _, _ => False end) ->
    vclear v = vclear w.
  Proof. destruct v, w; cbn; try discriminate; try contradiction; reflexivity. Qed.

  Lemma set_all_shape vs : forall v x, builtin v = true -> set_all parse_float v vs = Some x ->
    match v, x with
    | VBool _, VBool _ | VStr _, VStr _ | VInt _, VInt _ | VFloat _, VFloat _
    | VStrs _, VStrs _ | VInts _, VInts _ | VFloats _, VFloats _ => True
    | _, _ => False
    end.
  Proof.
    induction vs as [|s vs IH]; intros v x Hb; cbn [set_all].
    - intros [= <-]. destruct v; cbn in *; auto; discriminate.
    - destruct (vset_log parse_float v s) as [v1 ok] eqn:E. destruct ok; [|discriminate]. intros H.
      assert (Hb1 : builtin v1 = true /\ match v, v1 with
                | VBool _, VBool _ | VStr _, VStr _ | VInt _, VInt _ | VFloat _, VFloat _
                | VStrs _, VStrs _ | VInts _, VInts _ | VFloats _, VFloats _ => True | _, _ => False end).
      { destruct v; cbn in E, Hb; try discriminate;
          try (destruct (parse_bool s)); try (destruct (parse_int s)); try (destruct (parse_float s));
          cbn in E; inversion E; subst; cbn; auto. }
      destruct Hb1 as [Hb1 Hsh]. specialize (IH v1 x Hb1 H).
      destruct v, v1, x; cbn in *; auto; contradiction.
  Qed.

  (** filling a container a second time with the same strings leaves it as the first filling left it *)
  Lemma fill_one_idem c vs c' : plain c -> fill_one parse_float c vs = Some c' ->
    fill_one parse_float c' vs = Some c' /\ plain c'.
  Proof.
    intros [Hb Hk]. unfold fill_one. destruct vs as [|s vs]; [intros [= <-]; repeat split; auto|].
    set (v0 := if is_multi (d_kind (ct_decl c)) then vclear (ct_value c) else ct_value c).
    destruct (set_all parse_float v0 (s :: vs)) as [v|] eqn:E; [|discriminate]. intros [= <-]. cbn [ct_decl ct_value ct_names ct_default].
    assert (Hb0 : builtin v0 = true) by (unfold v0; destruct (is_multi _), (ct_value c); cbn in *; auto).
    pose proof (set_all_shape _ _ _ Hb0 E) as Hsh.
    destruct (is_multi (d_kind (ct_decl c))) eqn:Hm.
    - (* multi-valued: cleared both times *)
      assert (Hmv : multi_val (ct_value c) = true)
        by (destruct (d_kind (ct_decl c)), (ct_value c); cbn in *; try discriminate; reflexivity).
      assert (Ev : vclear v = v0).
      { unfold v0. unfold v0 in Hsh. destruct (ct_value c), v; cbn in *; try discriminate; try contradiction; reflexivity. }
      rewrite Ev, E. split; [reflexivity|]. split; cbn.
      + destruct v; cbn in *; auto; try (unfold v0 in Hsh; destruct (ct_value c); cbn in Hsh; contradiction).
      + unfold v0 in Hsh. destruct (d_kind (ct_decl c)), (ct_value c), v; cbn in *; try discriminate; try contradiction; reflexivity.
    - (* single-valued: Set does not look at the old value *)
      assert (Hss : same_shape v v0).
      { unfold v0 in *. destruct (d_kind (ct_decl c)), (ct_value c), v; cbn in *; try discriminate; try contradiction; auto. }
      destruct (set_all_single_indep (s :: vs) v v0 Hss ltac:(discriminate)) as [Eq _]. rewrite Eq, E.
      split; [reflexivity|]. split; cbn.
      + destruct v; cbn in *; auto; try (destruct v0; contradiction).
      + unfold v0 in *. destruct (d_kind (ct_decl c)), (ct_value c), v; cbn in *; try discriminate; try contradiction; reflexivity.
  Qed.

  Lemma fill_idem cs : forall i mk bs cs', Forall plain cs -> fill parse_float cs i mk bs = Some cs' ->
    fill parse_float cs' i mk bs = Some cs' /\ Forall plain cs'.
  Proof.
    induction cs as [|c cs IH]; intros i mk bs cs' Hp; cbn [fill].
    - intros [= <-]. cbn. auto.
    - inversion Hp as [|c0 cs0 Hc Hcs]; subst.
      destruct (fill_one parse_float c (values_for (mk i) bs)) as [c1|] eqn:E1; [|discriminate].
      destruct (fill parse_float cs (S i) mk bs) as [cs1|] eqn:E2; [|discriminate]. cbn [option_map]. intros [= <-].
      destruct (fill_one_idem c _ c1 Hc E1) as [F1 P1]. destruct (IH (S i) mk bs cs1 Hcs E2) as [F2 P2].
      cbn [fill]. rewrite F1, F2. cbn. split; [reflexivity | now constructor].
  Qed.

  (** filling keeps names and declarations, and leaves no container marked as set from the environment that was not *)
  Lemma fill_one_meta c vs c' : fill_one parse_float c vs = Some c' ->
    ct_names c' = ct_names c /\ ct_decl c' = ct_decl c /\ (ct_fromenv c = false -> ct_fromenv c' = false).
  Proof.
    unfold fill_one. destruct vs as [|s vs]; [intros [= <-]; auto|].
    destruct (set_all _ _ _); [|discriminate]. intros [= <-]. cbn. auto.
  Qed.

  Lemma fill_meta cs : forall i mk bs cs', fill parse_float cs i mk bs = Some cs' ->
    map ct_names cs' = map ct_names cs /\ map ct_decl cs' = map ct_decl cs /\
    (Forall (fun c => ct_fromenv c = false) cs -> Forall (fun c => ct_fromenv c = false) cs').
  Proof.
    induction cs as [|c cs IH]; intros i mk bs cs'; cbn [fill].
    - intros [= <-]. auto.
    - destruct (fill_one parse_float c (values_for (mk i) bs)) as [c1|] eqn:E1; [|discriminate].
      destruct (fill parse_float cs (S i) mk bs) as [cs1|] eqn:E2; [|discriminate]. cbn [option_map]. intros [= <-].
      destruct (fill_one_meta _ _ _ E1) as (N1 & D1 & F1). destruct (IH _ _ _ _ E2) as (N2 & D2 & F2).
      cbn [map]. rewrite N1, D1, N2, D2. repeat split; auto.
      intros H. inversion H; subst. constructor; auto.
  Qed.

  Lemma lookup_name_names cs cs' n : map ct_names cs' = map ct_names cs -> lookup_name cs' n = lookup_name cs n.
  Proof.
    unfold lookup_name. revert cs'. induction cs as [|c cs IH]; intros [|c' cs'] H; try discriminate; [reflexivity|].
    cbn [map] in H. injection H as E H. cbn [find_index]. rewrite E. destruct (mem_str n (ct_names c)); [reflexivity|].
    now rewrite (IH cs' H).
  Qed.

  Lemma nth_fromenv_false cs o : Forall (fun c => ct_fromenv c = false) cs ->
    match nth_error cs o with Some c => ct_fromenv c | None => false end = false.
  Proof.
    intros H. destruct (nth_error cs o) as [c|] eqn:E; [|reflexivity].
    rewrite Forall_forall in H. apply H. eapply nth_error_In; exact E.
  Qed.

  Theorem rerun_same_line i argv opts' args' :
    Forall plain (i_opts i) -> Forall plain (i_args i) ->
    Forall (fun c => ct_fromenv c = false) (i_opts i) ->
    fsm_parse parse_float i argv = PAccept opts' args' ->
    fsm_parse parse_float (after_run i opts' args') argv = PAccept opts' args'.
  Proof.
    intros Po Pa Hne. unfold fsm_parse. cbn [after_run i_opts i_args i_graph i_start].
    destruct (fsm_apply (optinfo_of (i_opts i)) (i_graph i) (i_start i) argv) as [bs| |] eqn:Ha; try discriminate.
    destruct (fill parse_float (i_opts i) 0 KO bs) as [o1|] eqn:Fo; [|discriminate].
    destruct (fill parse_float (i_args i) 0 KA bs) as [a1|] eqn:Fa; [|discriminate].
    intros [= <- <-].
    destruct (fill_meta _ _ _ _ _ Fo) as (No & Do & Eo).
    assert (Hext : fsm_apply (optinfo_of o1) (i_graph i) (i_start i) argv = AOk bs).
    { rewrite <- Ha. apply fsm_apply_ext.
      - split.
        + intros n. cbn. now apply lookup_name_names.
        + intros o. cbn.
          assert (X : option_map ct_decl (nth_error o1 o) = option_map ct_decl (nth_error (i_opts i) o))
            by (rewrite <- !nth_error_map; now rewrite Do).
          destruct (nth_error o1 o), (nth_error (i_opts i) o); cbn in X; try discriminate; [|reflexivity].
          injection X as X. now rewrite X.
      - intros o. cbn. rewrite (nth_fromenv_false _ o (Eo Hne)), (nth_fromenv_false _ o Hne). reflexivity. }
    rewrite Hext.
    destruct (fill_idem _ _ _ _ _ Po Fo) as [Io _]. destruct (fill_idem _ _ _ _ _ Pa Fa) as [Ia _].
    now rewrite Io, Ia.
  Qed.
End Rerun.

(** Q12: with an option that the environment backs the statement fails, also for the same line. Spec "-o X -o",
    $OO set, line "-o 1 x": the first parse accepts (the second "-o" is satisfied by the environment value) and clears
    the option's ValueSetFromEnv; the second parse of the same line by the same object is a usage error. *)
Definition q12_second_verdict : option bool :=
  let pf := fun _ : str => None in
  let ge := fun k : str => if str_eqb k (lit "OO") then lit "e" else [] in
  let ds := [mkDecl true KString (lit "o") [] (lit "OO") false (VStr []) false;
             mkDecl false KString (lit "X") [] [] false (VStr []) false] in
  let line := [lit "-o"; lit "1"; lit "x"] in
  match do_init pf ge ds (lit "-o X -o") with
  | IOk i => match fsm_parse pf i line with
             | PAccept o' a' => match fsm_parse pf (after_run i o' a') line with
                                | PAccept _ _ => Some true
                                | PUsage => Some false
                                | _ => None
                                end
             | _ => None
             end
  | _ => None
  end.

Example rerun_with_env_refuted : q12_second_verdict = Some false.
Proof. vm_compute. reflexivity. Qed.

(** the hypotheses of [rerun_same_line] hold of a concrete command and line (two built-in variables, no environment) *)
Example rerun_example :
  let pf := fun _ : str => None in
  let ge := fun _ : str => [] in
  let ds := [mkDecl true KStrings (lit "o") [] [] false (VStrs []) false;
             mkDecl false KString (lit "X") [] [] false (VStr []) false] in
  let line := [lit "-o"; lit "1"; lit "-o2"; lit "x"] in
  match do_init pf ge ds (lit "-o... X") with
  | IOk i => match fsm_parse pf i line with
             | PAccept o' a' => map ct_value o' = [VStrs [lit "1"; lit "2"]] /\ map ct_value a' = [VStr (lit "x")] /\
                                fsm_parse pf (after_run i o' a') line = PAccept o' a'
             | _ => False
             end
  | _ => False
  end.
Proof. vm_compute. auto. Qed.

(** * The hypotheses follow from the declarations *)
Section FromDecls.
  Variable parse_float : str -> option str.
  Variable getenv : str -> str.

  (** the constructor of a value: Set, Clear and SetFromEnv never change it *)
  Definition shape (v : cval) : nat :=
    match v with
    | VBool _ => 0 | VStr _ => 1 | VInt _ => 2 | VFloat _ => 3 | VStrs _ => 4 | VInts _ => 5 | VFloats _ => 6 | VCustom _ => 7
    end.

  Lemma plain_shape k v w : shape w = shape v -> builtin v = true /\ kind_matches k v = true ->
    builtin w = true /\ kind_matches k w = true.
  Proof. destruct k, v, w; cbn; intros E [H1 H2]; try discriminate; auto. Qed.

  Lemma vset_log_shape v s : shape (fst (vset_log parse_float v s)) = shape v.
  Proof.
    destruct v; cbn; try reflexivity;
      try (destruct (parse_bool s)); try (destruct (parse_int s)); try (destruct (parse_float s)); reflexivity.
  Qed.

  Lemma vclear_shape v : shape (vclear v) = shape v.
  Proof. destruct v; reflexivity. Qed.

  Lemma set_all_trimmed_shape vs : forall v, shape (fst (set_all_trimmed parse_float v vs)) = shape v.
  Proof.
    induction vs as [|s vs IH]; intros v; cbn [set_all_trimmed]; [reflexivity|].
    pose proof (vset_log_shape v (trim_space s)) as H.
    destruct (vset_log parse_float v (trim_space s)) as [v' ok]. cbn [fst] in H.
    destruct ok; [now rewrite IH | cbn [fst]; now rewrite vclear_shape].
  Qed.

  Lemma set_from_env_vars_shape k vars : forall v, shape (fst (set_from_env_vars parse_float getenv k v vars)) = shape v.
  Proof.
    induction vars as [|ev vars IH]; intros v; cbn [set_from_env_vars]; [reflexivity|].
    destruct (getenv ev) as [|c0 val]; [apply IH|].
    assert (H : shape (fst (if is_multi k then set_multivalued parse_float v (split_comma (c0 :: val))
                            else vset_log parse_float v (c0 :: val))) = shape v).
    { destruct (is_multi k); [unfold set_multivalued; now rewrite set_all_trimmed_shape, vclear_shape | apply vset_log_shape]. }
    destruct (if is_multi k then _ else _) as [v' ok]. cbn [fst] in H.
    destruct ok; [exact H | now rewrite IH].
  Qed.

  (** a declaration of a built-in kind with a default of that kind *)
  Definition decl_plain (d : decl) : Prop := builtin (d_init d) = true /\ kind_matches (d_kind d) (d_init d) = true.

  Lemma mk_container_plain d names : decl_plain d -> plain (mk_container parse_float getenv d names).
  Proof.
    intros Hd. unfold plain, mk_container, set_from_env.
    pose proof (set_from_env_vars_shape (d_kind d) (fields (d_env d)) (d_init d)) as H.
    destruct (set_from_env_vars parse_float getenv (d_kind d) (d_init d) (fields (d_env d))) as [v fe]. cbn [fst] in H.
    cbn [ct_value ct_decl]. exact (plain_shape _ _ _ H Hd).
  Qed.

  Lemma mk_container_noenv d names : fields (d_env d) = [] -> ct_fromenv (mk_container parse_float getenv d names) = false.
  Proof. intros H. unfold mk_container, set_from_env. rewrite H. reflexivity. Qed.

  Lemma declare_plain ds : forall opts args opts' args',
    Forall decl_plain ds -> Forall (fun d => fields (d_env d) = []) ds ->
    declare parse_float getenv ds opts args = inl (opts', args') ->
    Forall plain opts -> Forall plain args -> Forall (fun c => ct_fromenv c = false) opts ->
    Forall plain opts' /\ Forall plain args' /\ Forall (fun c => ct_fromenv c = false) opts'.
  Proof.
    induction ds as [|d ds IH]; intros opts args opts' args' Hp He; cbn [declare].
    - intros [= <- <-]. auto.
    - inversion Hp as [|d0 ds0 Hd Hds]; subst. inversion He as [|d1 ds1 Hed Heds]; subst.
      destruct (d_isopt d).
      + unfold mk_opt. destruct (first_dup _ _); [discriminate|]. intros H Po Pa Fo.
        apply (IH _ _ _ _ Hds Heds H); [|assumption|].
        * apply Forall_app. split; [assumption|]. constructor; [now apply mk_container_plain | constructor].
        * apply Forall_app. split; [assumption|]. constructor; [now apply mk_container_noenv | constructor].
      + unfold mk_arg. destruct (negb _); [discriminate|]. destruct (mem_str _ _); [discriminate|]. intros H Po Pa Fo.
        apply (IH _ _ _ _ Hds Heds H); [assumption| |assumption].
        apply Forall_app. split; [assumption|]. constructor; [now apply mk_container_plain | constructor].
  Qed.

  (** for programs: declarations of built-in kinds, no environment variable named, any spec, any line *)
  Theorem rerun_same_line_program ds spec i argv opts' args' :
    Forall decl_plain ds -> Forall (fun d => fields (d_env d) = []) ds ->
    do_init parse_float getenv ds spec = IOk i ->
    fsm_parse parse_float i argv = PAccept opts' args' ->
    fsm_parse parse_float (after_run i opts' args') argv = PAccept opts' args'.
  Proof.
    intros Hp He Hi Hrun. pose proof (do_init_conts parse_float getenv ds spec i Hi) as Hd.
    destruct (declare_plain ds [] [] _ _ Hp He Hd (Forall_nil _) (Forall_nil _) (Forall_nil _)) as (Po & Pa & Fo).
    now apply rerun_same_line.
  Qed.
End FromDecls.

(** * The pass with failures ([Cmd.fill_partial], in the order of the names) refines the model's pass when it succeeds *)
From Coq Require Import Sorting.Permutation.
From MowCli Require Import OrderProofs.

Section Partial.
  Variable parse_float : str -> option str.

  Lemma set_all_partial_ok vs : forall v v', set_all_partial parse_float v vs = (v', true) -> set_all parse_float v vs = Some v'.
  Proof.
    induction vs as [|s vs IH]; intros v v'; cbn [set_all_partial set_all]; [now intros [= <-]|].
    destruct (vset_log parse_float v s) as [v1 ok]. destruct ok; [apply IH | discriminate].
  Qed.

  Lemma fill_one_partial_ok c vs c' : vs <> [] ->
    fill_one_partial parse_float c vs = (c', true) -> fill_one parse_float c vs = Some c'.
  Proof.
    intros Hne. unfold fill_one_partial, fill_one. destruct vs as [|s vs]; [congruence|].
    set (v0 := if is_multi _ then _ else _).
    destruct (set_all_partial parse_float v0 (s :: vs)) as [v ok] eqn:E. destruct ok; [|discriminate].
    intros [= <-]. now rewrite (set_all_partial_ok _ _ _ E).
  Qed.

  Lemma fill_partial_visit mk bs order : forall cs cs',
    (forall k, In k order -> values_for (mk k) bs <> []) ->
    fill_partial parse_float cs order mk bs = (cs', true) ->
    visit container (fill_at parse_float mk bs) cs order = Some cs'.
  Proof.
    induction order as [|k rest IH]; intros cs cs' Hne; cbn [fill_partial visit]; [now intros [= <-]|].
    destruct (nth_error cs k) as [c|]; [|apply IH; intros j Hj; apply Hne; now right].
    destruct (fill_one_partial parse_float c (values_for (mk k) bs)) as [c1 ok] eqn:E. destruct ok; [|discriminate].
    unfold fill_at. rewrite (fill_one_partial_ok c _ c1 (Hne k (or_introl eq_refl)) E).
    apply IH. intros j Hj. apply Hne. now right.
  Qed.

  Lemma insert_by_name_perm cs k l : Permutation (insert_by_name cs k l) (k :: l).
  Proof.
    induction l as [|j l IH]; cbn [insert_by_name]; [reflexivity|].
    destruct (str_ltb _ _); [|reflexivity]. rewrite IH. apply perm_swap.
  Qed.

  Lemma fill_order_perm cs mk bs :
    Permutation (fill_order cs mk bs)
                (filter (fun k => match values_for (mk k) bs with [] => false | _ => true end) (List.seq 0 (length cs))).
  Proof.
    unfold fill_order. induction (filter _ _) as [|k l IH]; cbn [fold_right]; [reflexivity|].
    rewrite insert_by_name_perm. now constructor.
  Qed.

  Lemma fill_order_spec cs mk bs :
    NoDup (fill_order cs mk bs) /\
    (forall k, In k (fill_order cs mk bs) <-> k < length cs /\ values_for (mk k) bs <> []).
  Proof.
    pose proof (fill_order_perm cs mk bs) as P. split.
    - eapply Permutation_NoDup; [apply Permutation_sym; exact P|]. apply NoDup_filter, seq_NoDup.
    - intros k. split.
      + intros H. apply (Permutation_in _ P) in H. apply filter_In in H as [H1 H2]. apply in_seq in H1. split; [lia|].
        destruct (values_for (mk k) bs); [discriminate | discriminate].
      + intros [H1 H2]. apply (Permutation_in _ (Permutation_sym P)). apply filter_In. split; [apply in_seq; lia|].
        destruct (values_for (mk k) bs); [congruence | reflexivity].
  Qed.

  (** when the pass in the order of the names goes through, it leaves what the model's pass in declaration order leaves *)
  Theorem fill_partial_refines_fill cs mk bs cs' :
    fill_partial parse_float cs (fill_order cs mk bs) mk bs = (cs', true) -> fill parse_float cs 0 mk bs = Some cs'.
  Proof.
    intros H. destruct (fill_order_spec cs mk bs) as [Hnd Hin].
    rewrite <- (fill_any_order parse_float cs (fill_order cs mk bs) mk bs Hnd).
    - unfold fill_visit. apply fill_partial_visit; [|exact H]. intros k Hk. now apply Hin.
    - intros k Hk Hv. now apply Hin.
  Qed.
End Partial.

Section PartialComplete.
  Variable parse_float : str -> option str.

  Lemma set_all_partial_fail vs : forall v v', set_all_partial parse_float v vs = (v', false) -> set_all parse_float v vs = None.
  Proof.
    induction vs as [|s vs IH]; intros v v'; cbn [set_all_partial set_all]; [discriminate|].
    destruct (vset_log parse_float v s) as [v1 ok]. destruct ok; [apply IH | reflexivity].
  Qed.

  Lemma fill_one_partial_fail c vs c' : vs <> [] ->
    fill_one_partial parse_float c vs = (c', false) -> fill_one parse_float c vs = None.
  Proof.
    intros Hne. unfold fill_one_partial, fill_one. destruct vs as [|s vs]; [congruence|].
    set (v0 := if is_multi _ then _ else _).
    destruct (set_all_partial parse_float v0 (s :: vs)) as [v ok] eqn:E. destruct ok; [discriminate|].
    intros _. now rewrite (set_all_partial_fail _ _ _ E).
  Qed.

  (** a failing pass fails on a container of the original list (no container is visited twice) *)
  Lemma fill_partial_fail mk bs order : forall cs cs', NoDup order ->
    (forall k, In k order -> values_for (mk k) bs <> []) ->
    fill_partial parse_float cs order mk bs = (cs', false) ->
    exists k c, In k order /\ nth_error cs k = Some c /\ fill_one parse_float c (values_for (mk k) bs) = None.
  Proof.
    induction order as [|k rest IH]; intros cs cs' Hnd Hne; cbn [fill_partial]; [discriminate|].
    inversion Hnd as [|k0 r0 Hnot Hnd']; subst.
    destruct (nth_error cs k) as [c|] eqn:Hk.
    - destruct (fill_one_partial parse_float c (values_for (mk k) bs)) as [c1 ok] eqn:E. destruct ok.
      + intros H. destruct (IH _ _ Hnd' (fun j Hj => Hne j (or_intror Hj)) H) as (j & cj & Hj & Hn & Hf).
        exists j, cj. split; [now right|]. split; [|exact Hf].
        assert (k <> j) by (intros ->; contradiction).
        now rewrite (nth_error_set_nth_neq container cs k j c1) in Hn.
      + intros _. exists k, c. split; [now left|]. split; [exact Hk|].
        exact (fill_one_partial_fail c _ c1 (Hne k (or_introl eq_refl)) E).
    - intros H. destruct (IH _ _ Hnd' (fun j Hj => Hne j (or_intror Hj)) H) as (j & cj & Hj & Hn & Hf).
      exists j, cj. split; [now right | auto].
  Qed.

  (** the two passes agree on success: the pass of the library (names order, failures kept) succeeds exactly when the
      model's pass does, with the same containers *)
  Theorem fill_partial_iff_fill cs mk bs cs' :
    fill parse_float cs 0 mk bs = Some cs' <-> fill_partial parse_float cs (fill_order cs mk bs) mk bs = (cs', true).
  Proof.
    split; [|apply fill_partial_refines_fill].
    intros H. destruct (fill_order_spec cs mk bs) as [Hnd Hin].
    destruct (fill_partial parse_float cs (fill_order cs mk bs) mk bs) as [cs2 ok] eqn:E. destruct ok.
    - rewrite (fill_partial_refines_fill parse_float cs mk bs cs2 E) in H. now injection H as ->.
    - exfalso. destruct (fill_partial_fail mk bs _ cs cs2 Hnd (fun k Hk => proj2 (proj1 (Hin k) Hk)) E) as (k & c & _ & Hk & Hf).
      pose proof (ValueProofs.fill_spec parse_float cs 0 mk bs) as S. rewrite H in S.
      destruct (S k c Hk) as (c' & _ & Hc). cbn in Hc. congruence.
  Qed.

  (** what an accepting parse leaves, computed by the pass of the library, is what the model's [fsm_parse] returns *)
  Theorem fsm_parse_state_accept i argv opts' args' :
    fsm_parse parse_float i argv = PAccept opts' args' ->
    fsm_parse_state parse_float i argv = after_run i opts' args'.
  Proof.
    unfold fsm_parse, fsm_parse_state.
    destruct (fsm_apply (optinfo_of (i_opts i)) (i_graph i) (i_start i) argv) as [bs| |]; try discriminate.
    destruct (fill parse_float (i_opts i) 0 KO bs) as [o1|] eqn:Fo; [|discriminate].
    destruct (fill parse_float (i_args i) 0 KA bs) as [a1|] eqn:Fa; [|discriminate].
    intros [= <- <-].
    rewrite (proj1 (fill_partial_iff_fill _ _ _ _) Fo), (proj1 (fill_partial_iff_fill _ _ _ _) Fa). reflexivity.
  Qed.
End PartialComplete.
