(** C07 — rejected invocations run nothing and follow the configured error policy. *)
From MowCli Require Import Base Values Flow Cmd TreeProofs TraceProofs.

Section C07.
  Variable parse_float : str -> option str.
  Variable getenv : str -> str.

  (** A level whose own arguments are rejected (spec mismatch: [EUsage]; value not convertible:
      [EConv]) yields [reject_result]: no callback runs (empty trace); the error stream receives
      the error line followed by the usage of that very command; the end is the policy of that
      command — ContinueOnError returns the error, ExitOnError exits with 2, PanicOnError panics
      with it. ([reject_result] is where [route] sends every rejecting level, C04_route.) *)
  Theorem C07_reject_runs_nothing :
    forall c i policy path e err filled,
      r_trace (reject_result parse_float getenv c i policy path e err filled) = [].
  Proof.
    intros. unfold reject_result. destruct (print_help _ _ _ _ _ _). reflexivity.
  Qed.

  Theorem C07_policy :
    forall c i policy path e err filled text,
      print_help parse_float getenv path c i false = (text, None) ->
      let r := reject_result parse_float getenv c i policy path e err filled in
      r_outcome r = match policy with
                    | 1 => RExit 2
                    | 2 => RPanicErr e
                    | _ => RRet (Some e)
                    end /\
      r_stderr r = err ++ [match e with EUsage => s_err_usage | EConv => s_err_conv end] ++ text.
  Proof.
    intros c i policy path e err filled text Hp. unfold reject_result. rewrite Hp. cbn.
    split; [|reflexivity]. destruct policy as [|[|[|p]]]; reflexivity.
  Qed.

  (** the usage shown is the rejecting command's own: its path, its spec, and the COMMAND marker
      when it has sub-commands, then its short description; the tables follow *)
  Theorem C07_usage_of_rejecting_command :
    forall c i path text,
      print_help parse_float getenv path c i false = (text, None) ->
      exists table,
        text = ((lit "Usage: " ++ concat_str [c_space] path
                     ++ (match trim_space (i_spec i) with [] => [] | _ => c_space :: trim_space (i_spec i) end)
                     ++ (if match c_subs c with [] => false | _ => true end then lit " COMMAND [arg...]" else []))
                  :: match c_desc c with [] => [] | _ => split_nl (c_desc c) end) ++ table.
  Proof.
    intros c i path text. unfold print_help, help_header.
    destruct (init_children _ _ _); intros [= <-]. eexists. reflexivity.
  Qed.

  (** an accepted invocation ends as the callbacks decide; with well-behaved callbacks it
      returns nil: it never exits or panics on its own *)
  Theorem C07_accepted_returns_nil :
    forall c i policy path levels paths err filled,
      c_action c <> HAbsent ->
      snd (run_flow levels (c_action c)) = Returned ->
      r_outcome (leaf_result parse_float getenv c i policy path levels paths err filled) = RRet None.
  Proof.
    intros c i policy path levels paths err filled Ha Hr. unfold leaf_result.
    destruct (c_action c); [congruence| | |];
      destruct (run_flow levels _) as [tr o]; cbn in *; subst o; reflexivity.
  Qed.

  (** For EVERY tree and EVERY argument vector (nothing assumed about the invocation, any depth): when Run
      ends with a usage or conversion error — returned under ContinueOnError, panicked with under
      PanicOnError — no Before, Action or After of any command has run. *)
  Theorem C07_error_runs_nothing_anywhere :
    forall a argv e,
      r_outcome (run parse_float getenv a argv) = RRet (Some e) \/
      r_outcome (run parse_float getenv a argv) = RPanicErr e ->
      r_trace (run parse_float getenv a argv) = [].
  Proof.
    intros a argv e H. apply run_error_runs_nothing. destruct H as [-> | ->]; reflexivity.
  Qed.
End C07.
Print Assumptions C07_error_runs_nothing_anywhere.
Print Assumptions C07_reject_runs_nothing.
Print Assumptions C07_policy.
Print Assumptions C07_usage_of_rejecting_command.
Print Assumptions C07_accepted_returns_nil.

Example C07_nonvacuous :
  let pf := fun _ : str => None in
  let ge := fun _ : str => [] in
  let root pol := Cmd (lit "app") [] [] false (lit "X") (Some pol)
                  [mkDecl false KInt (lit "X") [] [] false (VInt 0) false]
                  HReturns HReturns HReturns [] in
  (r_outcome (run pf ge (mkApp (root 0) None) [lit "zz"]),
   r_outcome (run pf ge (mkApp (root 1) None) []),
   r_outcome (run pf ge (mkApp (root 2) None) [lit "a"; lit "b"]),
   r_trace (run pf ge (mkApp (root 2) None) [lit "a"; lit "b"]))
  = (RRet (Some EConv), RExit 2, RPanicErr EUsage, []).
Proof. vm_compute. reflexivity. Qed.
