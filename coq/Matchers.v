(** Matchers of internal/matcher: arg, opt (matchLongOpt / matchShortOpt with their token
    surgery), options (greedy group), optsEnd. Repairs modelled: D6 (a lone "-" ends the
    option scan), D4 (a group excludes an env-backed option only after a match that recorded
    no value), D7 (a folded token is not rewritten into one that starts with "--"). *)
From MowCli Require Import Base.

(** What a matcher needs to know about the declared options of the command *)
Record optinfo := mkOI {
  oi_lookup : str -> option nat;   (* optionsIdx *)
  oi_isbool : nat -> bool;         (* values.IsBool(opt.Value) *)
  oi_fromenv : nat -> bool         (* opt.ValueSetFromEnv *)
}.

Inductive key := KO (i : nat) | KA (i : nat).
Definition key_eqb (a b : key) : bool :=
  match a, b with
  | KO i, KO j | KA i, KA j => Nat.eqb i j
  | _, _ => false
  end.
Definition binding := (key * str)%type.

(** result of one matcher call: remaining args, RejectOptions afterwards, recorded values *)
Definition mres := option (list str * bool * list binding).

Definition s_true := lit "true".

(** strings.SplitN(arg, "=", 2) *)
Fixpoint split_eq (s : str) : str * option str :=
  match s with
  | [] => ([], None)
  | c :: s' => if Ascii.eqb c c_eq then ([], Some s')
               else let (a, b) := split_eq s' in (c :: a, b)
  end.

Section Opt.
  Variable D : optinfo.
  Variable one : nat.      (* theOne *)

  (** outcome of matchLongOpt / matchShortOpt at args[idx], where [arg :: after] = args[idx:]:
      matched with a value and the replacement for args[idx:], or not matched with the number
      of tokens to skip (0 = give up) *)
  Inductive scan1 :=
  | Matched (value : str) (tail : list str)
  | Skip (consumed : nat).

  Definition match_long (arg : str) (after : list str) : scan1 :=
    let (name, v) := split_eq arg in
    match oi_lookup D name with
    | None => Skip 0
    | Some o =>
      match v with
      | Some value =>
        if negb (Nat.eqb o one) then Skip 1
        else match value with [] => Skip 0 | _ => Matched value after end
      | None =>
        if oi_isbool D o then
          if negb (Nat.eqb o one) then Skip 1 else Matched s_true after
        else
          match after with
          | [] => Skip 0
          | value :: after' =>
            if negb (Nat.eqb o one) then Skip 2
            else if dashed value then Skip 0
            else Matched value after'
          end
      end
    end.

  (** "-" ++ newRem, or nothing when newRem is empty *)
  Definition residue (newrem : str) (tail : list str) : list str :=
    match newrem with [] => tail | _ => (c_dash :: newrem) :: tail end.

  (** the loop over the letters of a folded token: [pre] = rem[:remIdx] (in order),
      [suf] = rem[remIdx:] *)
  Fixpoint short_loop (pre suf : str) (after : list str) : scan1 :=
    match suf with
    | [] => Skip 1
    | c :: value =>
      match oi_lookup D [c_dash; c] with
      | None => Skip 0
      | Some o =>
        if oi_isbool D o then
          if negb (Nat.eqb o one) then short_loop (pre ++ [c]) value after
          else if dashed (pre ++ value) then Skip 0     (* D7 repair: what is left would read "--..." *)
          else Matched s_true (residue (pre ++ value) after)
        else
          match value with
          | [] =>
            match after with
            | [] => Skip 0
            | v :: after' =>
              if negb (Nat.eqb o one) then Skip 2
              else if dashed v then Skip 0
              else Matched v (residue pre after')
            end
          | _ =>
            if negb (Nat.eqb o one) then Skip 1
            else Matched value (residue pre after)
          end
      end
    end.

  (** arg starts with '-' and has at least two bytes *)
  Definition match_short (arg : str) (after : list str) : scan1 :=
    match arg with
    | d :: n :: rest =>
      match rest with
      | e :: value =>
        if Ascii.eqb e c_eq then
          match oi_lookup D [d; n] with
          | Some o =>
            if negb (Nat.eqb o one) then Skip 1
            else match value with [] => Skip 0 | _ => Matched value after end
          | None => Skip 1
          end
        else short_loop [] (n :: rest) after
      | [] => short_loop [] (n :: rest) after
      end
    | _ => Skip 0
    end.

  (** the scan of opt.Match: [pre] = args[:idx] reversed, [rest] = args[idx:].
      [None] = the scan found nothing (the caller then falls back on ValueSetFromEnv) *)
  Fixpoint scan (pre : list str) (rest : list str) : option (str * list str) :=
    match rest with
    | [] => None
    | arg :: after =>
      if str_eqb arg s_dash then None            (* D6 repair *)
      else if str_eqb arg s_dd then None
      else if dashed arg then
        let r := if prefix_b s_dd arg then match_long arg after else match_short arg after in
        match r with
        | Matched v tail => Some (v, rev_append pre tail)
        | Skip 0 => None
        | Skip 1 => scan (arg :: pre) after
        | Skip _ =>
          match after with
          | a2 :: after2 => scan (a2 :: arg :: pre) after2
          | [] => None
          end
        end
      else None
    end.

  Definition m_opt (args : list str) (ro : bool) : mres :=
    let fallback : mres := if oi_fromenv D one then Some (args, ro, []) else None in
    match args with
    | [] => fallback
    | _ =>
      if ro then fallback
      else match scan [] args with
           | Some (v, rem) => Some (rem, ro, [(KO one, v)])
           | None => fallback
           end
    end.
End Opt.

(** total size of an argument list; every consuming match strictly decreases it *)
Definition args_size (args : list str) : nat :=
  fold_right (fun a n => length a + 1 + n) 0 args.

Section Group.
  Variable D : optinfo.

  (** options.try (with the D4 and D8 repairs): the first listed, non-excluded option that finds an occurrence
      of itself on the line; when none does, the first one that is satisfied by its environment value — which
      is then excluded from the rest of the group match *)
  Fixpoint try_consume (opts : list nat) (excluded : list nat) (args : list str)
    : option (list str * list binding) :=
    match opts with
    | [] => None
    | o :: opts' =>
      if mem_nat o excluded then try_consume opts' excluded args
      else match m_opt D o args false with
           | Some (rem, _, b :: bs) => Some (rem, b :: bs)
           | _ => try_consume opts' excluded args
           end
    end.

  Fixpoint try_env (opts : list nat) (excluded : list nat) (args : list str) : option nat :=
    match opts with
    | [] => None
    | o :: opts' =>
      if mem_nat o excluded then try_env opts' excluded args
      else match m_opt D o args false with
           | Some (_, _, []) => if oi_fromenv D o then Some o else try_env opts' excluded args
           | _ => try_env opts' excluded args
           end
    end.

  Definition try_opts (opts : list nat) (excluded : list nat) (args : list str)
    : option (list str * list binding * list nat) :=
    match try_consume opts excluded args with
    | Some (rem, bs) => Some (rem, bs, excluded)
    | None => match try_env opts excluded args with
              | Some o => Some (args, [], o :: excluded)
              | None => None
              end
    end.

  Definition try_ (opts excluded : list nat) (args : list str) (ro : bool) :=
    match args with
    | [] => None
    | _ => if ro then None else try_opts opts excluded args
    end.

  (** the [for] loop of options.Match after the first successful try *)
  Fixpoint group_loop (fuel : nat) (opts excluded : list nat) (args : list str) (acc : list binding)
    : option (list str * list binding) :=
    match fuel with
    | 0 => None
    | S f =>
      match try_ opts excluded args false with
      | Some (rem, bs, ex') => group_loop f opts ex' rem (acc ++ bs)
      | None => Some (args, acc)
      end
    end.

  Definition group_fuel (opts : list nat) (args : list str) : nat := args_size args + length opts + 2.

  (** [Some None] would be out of fuel; it is folded into failure here and shown impossible *)
  Definition m_group (opts : list nat) (args : list str) (ro : bool) : mres :=
    match try_ opts [] args ro with
    | None => None
    | Some (rem, bs, ex) =>
      match group_loop (group_fuel opts args) opts ex rem bs with
      | Some (rem', bs') => Some (rem', ro, bs')
      | None => None
      end
    end.
End Group.

Definition m_arg (i : nat) (args : list str) (ro : bool) : mres :=
  match args with
  | [] => None
  | a :: rest =>
    if negb ro && dashed a && negb (str_eqb a s_dash) then None
    else Some (rest, ro, [(KA i, a)])
  end.

Definition m_dd (args : list str) (ro : bool) : mres := Some (args, true, []).
