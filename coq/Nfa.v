(** The automaton: graph type, the Thompson-style construction of parser.go (seq / choice /
    atom with shortcut edges), and Prepare = simplify (in-place shortcut elimination, DFS,
    with the D2 repair) + stable priority sort, as in internal/fsm/fsm.go. *)
From MowCli Require Import Base Lexer Parser.

Inductive label :=
| LEps                      (* shortcut *)
| LArg (i : nat)
| LOpt (i : nat)
| LGrp (is : list nat)      (* options matcher: OPTIONS or a folded group *)
| LDD.                      (* optsEnd *)

Definition label_eqb (a b : label) : bool :=
  match a, b with
  | LEps, LEps => true
  | LArg i, LArg j => Nat.eqb i j
  | LOpt i, LOpt j => Nat.eqb i j
  | LGrp x, LGrp y => list_eqb Nat.eqb x y
  | LDD, LDD => true
  | _, _ => false
  end.

Definition is_eps (l : label) : bool := match l with LEps => true | _ => false end.

(** Priority() of each matcher (re-derived from the source in Generated.v) *)
Definition priority (l : label) : nat :=
  match l with
  | LOpt _ => 1 | LGrp _ => 2 | LArg _ => 8 | LDD => 9 | LEps => 10
  end.

Definition edge := (label * nat)%type.
Definition edge_eqb (a b : edge) : bool := label_eqb (fst a) (fst b) && Nat.eqb (snd a) (snd b).

(** states are 0 .. length g_tr - 1 *)
Record graph := mkGraph { g_tr : list (list edge); g_term : list bool }.

Definition empty_graph : graph := mkGraph [] [].
Definition nstates (g : graph) : nat := length (g_tr g).
Definition edges (g : graph) (s : nat) : list edge := nth s (g_tr g) [].
Definition terminal (g : graph) (s : nat) : bool := nth s (g_term g) false.

Definition new_state (g : graph) : nat * graph :=
  (nstates g, mkGraph (g_tr g ++ [[]]) (g_term g ++ [false])).
Definition set_edges (g : graph) (s : nat) (es : list edge) : graph :=
  mkGraph (set_nth s es (g_tr g)) (g_term g).
(** State.T *)
Definition add_edge (g : graph) (s : nat) (l : label) (t : nat) : graph :=
  set_edges g s (edges g s ++ [(l, t)]).
Definition set_terminal (g : graph) (s : nat) : graph :=
  mkGraph (g_tr g) (set_nth s true (g_term g)).

Section Thompson.
  Variable nopts : nat.   (* OPTIONS = group of all declared options, in declaration order *)

  (** each function returns (start, end, graph) like the Go methods return a pair of states *)
  Fixpoint th_seq (s : seq) (end_ : nat) (g : graph) : nat * graph :=
    (* the loop of parser.seq: [end_] is the current end; returns the final end *)
    match s with
    | SNil => (end_, g)
    | SCons c s' =>
      (* parser.choice: start, end := NewState(), NewState() *)
      let '(cs, g0) := new_state g in
      let '(ce, g0') := new_state g0 in
      let g1 := th_alts c cs ce g0' in
      (* appendComp: copy the transitions of the choice's start onto the current end *)
      let g2 := fold_left (fun g' (e : edge) => add_edge g' end_ (fst e) (snd e)) (edges g1 cs) g1 in
      th_seq s' ce g2
    end
  with th_alts (c : choice) (start end_ : nat) (g : graph) : graph :=
    match c with
    | COne a =>
      let '(s, e, g1) := th_ratom a g in
      add_edge (add_edge g1 start LEps s) e LEps end_
    | CAlt a c' =>
      let '(s, e, g1) := th_ratom a g in
      th_alts c' start end_ (add_edge (add_edge g1 start LEps s) e LEps end_)
    end
  with th_ratom (a : ratom) (g : graph) : nat * nat * graph :=
    match a with
    | RAtom a rep =>
      let '(s, e, g1) := th_atom a g in
      (s, e, if rep then add_edge g1 e LEps s else g1)
    end
  with th_atom (a : atom) (g : graph) : nat * nat * graph :=
    let '(start, g0) := new_state g in
    let leaf (l : label) :=
      let '(e, g1) := new_state g0 in (start, e, add_edge g1 start l e) in
    match a with
    | AArg i => leaf (LArg i)
    | AOptions => leaf (LGrp (List.seq 0 nopts))
    | AOpt i => leaf (LOpt i)
    | AGroup is => leaf (LGrp is)
    | ADD => leaf LDD
    | APar s =>
      let '(ss, g1) := new_state g0 in
      let '(se, g2) := th_seq s ss g1 in (ss, se, g2)
    | ASq s =>
      let '(ss, g1) := new_state g0 in
      let '(se, g2) := th_seq s ss g1 in (ss, se, add_edge g2 ss LEps se)
    end.

  (** parser.parse: s, e = seq(false); e.Terminal = true *)
  Definition thompson (s : seq) : nat * graph :=
    let '(ss, g1) := new_state empty_graph in
    let '(se, g2) := th_seq s ss g1 in
    (ss, set_terminal g2 se).
End Thompson.

(** * Prepare *)

Definition has_edge (es : list edge) (e : edge) : bool := existsb (edge_eqb e) es.

(** index and target of the first shortcut transition *)
Fixpoint first_eps (es : list edge) : option (nat * nat) :=
  match es with
  | [] => None
  | (l, t) :: es' => if is_eps l then Some (0, t)
                     else match first_eps es' with Some (i, t') => Some (S i, t') | None => None end
  end.

Fixpoint remove_at {A} (i : nat) (l : list A) : list A :=
  match i, l with
  | _, [] => []
  | 0, _ :: l' => l'
  | S i', x :: l' => x :: remove_at i' l'
  end.

(** append the transitions of [next] that [s] does not have yet (checked incrementally) *)
Definition absorb (mine theirs : list edge) : list edge :=
  fold_left (fun acc e => if has_edge acc e then acc else acc ++ [e]) theirs mine.

(** the loop [for s.simplifySelf(start) {}] with the D2 repair: [expanded] are the shortcut
    targets already expanded for [s] *)
Fixpoint simplify_self (fuel : nat) (g : graph) (s : nat) (expanded : list nat) : option graph :=
  match fuel with
  | 0 => None
  | S f =>
    match first_eps (edges g s) with
    | None => Some g
    | Some (idx, next) =>
      let g1 := set_edges g s (remove_at idx (edges g s)) in
      if mem_nat next expanded then simplify_self f g1 s expanded
      else
        let g2 := set_edges g1 s (absorb (edges g1 s) (edges g1 next)) in
        let g3 := if terminal g2 next then set_terminal g2 s else g2 in
        simplify_self f g3 s (next :: expanded)
    end
  end.

Definition count_eps (es : list edge) : nat := length (filter (fun e : edge => is_eps (fst e)) es).

Definition total_edges (g : graph) : nat := fold_left (fun n es => n + length es) (g_tr g) 0.

(** enough for the loop above: every round either expands a new state or drops a shortcut *)
Definition self_fuel (g : graph) : nat := (nstates g + 1) * (total_edges g + 2) + 1.

(** the loop [for _, tr := range s.Transitions { simplify(start, tr.Next, visited) }]; [rec] is the
    recursive call *)
Section Children.
  Variable rec : graph -> nat -> list nat -> option (graph * list nat).
  Fixpoint children (es : list edge) (g : graph) (visited : list nat) : option (graph * list nat) :=
    match es with
    | [] => Some (g, visited)
    | (_, t) :: es' =>
      match rec g t visited with
      | Some (g', v') => children es' g' v'
      | None => None
      end
    end.
End Children.

Fixpoint simplify (fuel : nat) (g : graph) (s : nat) (visited : list nat) : option (graph * list nat) :=
  match fuel with
  | 0 => None
  | S f =>
    if mem_nat s visited then Some (g, visited) else
    match children (simplify f) (edges g s) g (s :: visited) with
    | Some (g', v') =>
      match simplify_self (self_fuel g') g' s [] with
      | Some g'' => Some (g'', v')
      | None => None
      end
    | None => None
    end
  end.

(** insertion sort by priority, stable (sort.Sort is an insertion sort up to 12 elements) *)
Fixpoint insert_edge (e : edge) (l : list edge) : list edge :=
  match l with
  | [] => [e]
  | x :: l' => if priority (fst e) <=? priority (fst x) then e :: l
               else x :: insert_edge e l'
  end.

(** stable: fold from the right so that equal priorities keep their order *)
Definition sort_edges (l : list edge) : list edge := fold_right insert_edge [] l.

Definition sort_graph (g : graph) : graph := mkGraph (map sort_edges (g_tr g)) (g_term g).

Definition prepare (start : nat) (g : graph) : option graph :=
  match simplify (nstates g + 1) g start [] with
  | Some (g', _) => Some (sort_graph g')
  | None => None
  end.
