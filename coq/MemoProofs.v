(** The search as the library runs it since the repair D10: besides the set of states entered since input was
    last consumed, it remembers — for the whole search — the configurations (state, remaining arguments,
    options-ended flag), entered right after input was consumed, that were explored without success, and does not
    explore them again when another order of taking the arguments reaches them. [apply_m] models that search;
    [apply_m_same_result] shows that it returns what the plain search [Apply.apply] returns — verdict, bindings
    and visited set — so everything proved about [fsm_apply] is proved about the memoised search, and the
    extracted model may keep running the plain one. The invariant: every remembered configuration has no accepting
    run ([DeadOK]); it is established from a failed exploration by completeness of the plain search
    ([CompleteProofs.apply_complete]) and fuel independence ([SimProofs.apply_mono]), and used through soundness
    ([ApplyProofs.apply_sound]).
    How the library stores that memory changed twice after D10 (D13: the key is only built once something has failed;
    D15: a configuration is kept as the slice of remaining arguments itself, in buckets found through a hash, and
    membership is decided by comparing the arguments): neither changes WHICH configurations are looked up, found or
    recorded, which is all that [mem_key] and the list [dead] stand for here — membership up to equality of
    (state, remaining arguments, options-ended flag). *)
From MowCli Require Import Base Nfa Matchers Apply ApplyProofs TermProofs CompleteProofs SimProofs.

Definition ckey := (nat * list str * bool)%type.

Definition ckey_eqb (a b : ckey) : bool :=
  let '(s1, a1, r1) := a in let '(s2, a2, r2) := b in
  Nat.eqb s1 s2 && strs_eqb a1 a2 && Bool.eqb r1 r2.

Definition mem_key (k : ckey) (l : list ckey) : bool := existsb (ckey_eqb k) l.

Lemma ckey_eqb_eq a b : ckey_eqb a b = true <-> a = b.
Proof.
  destruct a as [[s1 a1] r1], b as [[s2 a2] r2]. cbn [ckey_eqb].
  rewrite !andb_true_iff, Nat.eqb_eq, strs_eqb_eq. split.
  - intros [[-> ->] E]. apply eqb_prop in E. now subst.
  - intros [= -> -> ->]. repeat split. apply eqb_reflx.
Qed.

Lemma mem_key_In k l : mem_key k l = true <-> In k l.
Proof.
  unfold mem_key. rewrite existsb_exists. split.
  - intros (x & Hin & E). apply ckey_eqb_eq in E. now subst.
  - intros H. exists k. split; [assumption | now apply ckey_eqb_eq].
Qed.

Section Memo.
  Variable D : optinfo.
  Variable g : graph.

  Section TryM.
    Variable rec : nat -> list str -> bool -> list nat -> list ckey -> ares * list nat * list ckey.
    Variables (args1 : list str) (ro1 : bool).

    Fixpoint try_matches_m (ms : list matchrec) (seen : list nat) (dead : list ckey) : ares * list nat * list ckey :=
      match ms with
      | [] => (AFail, seen, dead)
      | (t, rem, ro', bs) :: ms' =>
        if strs_eqb rem args1 && Bool.eqb ro' ro1 then
          if mem_nat t seen then try_matches_m ms' seen dead
          else match rec t rem ro' seen dead with
               | (AOk bs', seen', dead') => (AOk (bs ++ bs'), seen', dead')
               | (AFail, seen', dead') => try_matches_m ms' seen' dead'
               | (AFuel, seen', dead') => (AFuel, seen', dead')
               end
        else if mem_key (t, rem, ro') dead then try_matches_m ms' seen dead
             else match rec t rem ro' [] dead with
                  | (AOk bs', _, dead') => (AOk (bs ++ bs'), seen, dead')
                  | (AFail, _, dead') => try_matches_m ms' seen ((t, rem, ro') :: dead')
                  | (AFuel, _, dead') => (AFuel, seen, dead')
                  end
      end.
  End TryM.

  Fixpoint apply_m (fuel : nat) (s : nat) (args : list str) (ro : bool) (seen : list nat) (dead : list ckey)
    : ares * list nat * list ckey :=
    match fuel with
    | 0 => (AFuel, seen, dead)
    | S f =>
      let '(args1, ro1) := strip args ro in
      let seen1 := s :: (if Nat.eqb (length args1) (length args) then seen else []) in
      if (match args1 with [] => terminal g s | _ => false end) then (AOk [], seen1, dead)
      else try_matches_m (apply_m f) args1 ro1 (collect D g s args1 ro1) seen1 dead
    end.

  Definition fsm_apply_m (start : nat) (args : list str) : ares :=
    fst (fst (apply_m (apply_fuel g args) start args false [] [])).

  Hypothesis Hwf : wf_graph g.

  (** every remembered configuration is a state of the automaton from which no run accepts *)
  Definition DeadOK (dead : list ckey) : Prop :=
    forall t rem ro', In (t, rem, ro') dead -> t < nstates g /\ forall bs, ~ Acc D g t rem ro' bs.

  (** a failed exploration, whatever the fuel it was given, means that no run accepts *)
  Lemma failed_is_dead f t rem ro' sn : t < nstates g ->
    apply D g f t rem ro' [] = (AFail, sn) -> forall bs, ~ Acc D g t rem ro' bs.
  Proof.
    intros Ht Ha bs Hacc.
    set (F := Nat.max f (msr rem ro' * (nstates g + 1) + nstates g + 1)).
    destruct (apply_complete D g Hwf (msr rem ro') t rem ro' bs F (le_n _) Ht Hacc ltac:(unfold F, TermProofs.N; lia)) as (b & Hb).
    rewrite (apply_mono D g f F t rem ro' [] AFail sn ltac:(unfold F; lia) Ha ltac:(discriminate)) in Hb. discriminate.
  Qed.

  Theorem apply_m_same_result : forall fuel s args ro seen dead,
    DeadOK dead -> fst (apply D g fuel s args ro seen) <> AFuel ->
    fst (apply_m fuel s args ro seen dead) = apply D g fuel s args ro seen /\ DeadOK (snd (apply_m fuel s args ro seen dead)).
  Proof.
    induction fuel as [|f IH]; intros s args ro seen dead Hd Hnf; [cbn in Hnf; congruence|].
    cbn [apply apply_m] in *. destruct (strip args ro) as [args1 ro1].
    set (seen1 := s :: (if Nat.eqb (length args1) (length args) then seen else [])) in *. clearbody seen1.
    destruct (match args1 with [] => terminal g s | _ :: _ => false end); [split; [reflexivity | exact Hd]|].
    (* the loop over the matches *)
    assert (Hloop : forall ms, (forall m, In m ms -> In m (collect D g s args1 ro1)) ->
              forall sn dd, DeadOK dd -> fst (try_matches (apply D g f) args1 ro1 ms sn) <> AFuel ->
                fst (try_matches_m (apply_m f) args1 ro1 ms sn dd) = try_matches (apply D g f) args1 ro1 ms sn /\
                DeadOK (snd (try_matches_m (apply_m f) args1 ro1 ms sn dd))).
    { induction ms as [|[[[t rem] ro'] bs] ms IHms]; intros Hall sn dd Hdd Hn; cbn [try_matches try_matches_m] in *.
      - split; [reflexivity | exact Hdd].
      - assert (Hin : In (t, rem, ro', bs) (collect D g s args1 ro1)) by (apply Hall; now left).
        destruct (collect_targets D g _ _ _ _ _ _ _ Hwf Hin) as [Htn _].
        assert (Hall' : forall m, In m ms -> In m (collect D g s args1 ro1)) by (intros m Hm; apply Hall; now right).
        destruct (strs_eqb rem args1 && Bool.eqb ro' ro1).
        + destruct (mem_nat t sn); [now apply IHms|].
          destruct (apply D g f t rem ro' sn) as [r sn'] eqn:Ea.
          assert (Hr : r <> AFuel) by (intros ->; now cbn in Hn).
          destruct (IH t rem ro' sn dd Hdd ltac:(now rewrite Ea)) as [E Hd'].
          rewrite Ea in E. destruct (apply_m f t rem ro' sn dd) as [[r2 sn2] dd2]. cbn [fst snd] in E, Hd'.
          injection E as -> ->. destruct r as [bs'| |]; [split; [reflexivity | exact Hd'] | now apply IHms | congruence].
        + destruct (apply D g f t rem ro' []) as [r sn'] eqn:Ea.
          assert (Hr : r <> AFuel) by (intros ->; now cbn in Hn).
          destruct (mem_key (t, rem, ro') dd) eqn:Hk.
          * (* remembered as explored without success: the plain search fails there too *)
            apply mem_key_In in Hk. destruct (Hdd _ _ _ Hk) as [_ Hno].
            destruct r as [bs'| |]; [exfalso; exact (Hno bs' (apply_sound D g f _ _ _ _ _ _ Ea)) | now apply IHms | congruence].
          * destruct (IH t rem ro' [] dd Hdd ltac:(now rewrite Ea)) as [E Hd'].
            rewrite Ea in E. destruct (apply_m f t rem ro' [] dd) as [[r2 sn2] dd2]. cbn [fst snd] in E, Hd'.
            injection E as -> ->. destruct r as [bs'| |]; [split; [reflexivity | exact Hd'] | | congruence].
            apply IHms; [assumption | | exact Hn].
            intros t0 rem0 ro0 [[= <- <- <-]|H0]; [|now apply Hd'].
            split; [exact Htn | exact (failed_is_dead f t rem ro' sn' Htn Ea)]. }
    apply Hloop; [auto | exact Hd | exact Hnf].
  Qed.

  (** the memoised search of fsm.Parse returns what the plain one returns *)
  Theorem fsm_apply_m_same start args : start < nstates g -> fsm_apply_m start args = fsm_apply D g start args.
  Proof.
    intros Hs. unfold fsm_apply_m, fsm_apply.
    destruct (apply_m_same_result (apply_fuel g args) start args false [] []) as [E _].
    - intros t rem ro' [].
    - exact (fsm_apply_total D g start args Hwf Hs).
    - now rewrite E.
  Qed.
End Memo.
