(** Extraction of the model's entry points. ExtrOcamlBasic only: bool, option, unit, list,
    prod, sumbool, sumor map to OCaml's; ascii, nat, N, Z, positive stay Coq inductives. *)
From MowCli Require Import Base Entry.
From Coq Require Import Extraction ExtrOcamlBasic.
Extraction Language OCaml.
Extraction "model.ml" e_dispatch.
