(** A spec without a "--" atom compiles to an automaton without a "--" transition: the hypothesis
    [no_dd_graph] of the C02 / C09 / C10 / C11 theorems follows from the syntax of the spec. *)
From MowCli Require Import Base Lexer Parser Nfa Matchers RefSem View Values Flow Cmd NfaProofs.

(** every transition label of the graph satisfies [P] *)
Definition labs (P : label -> Prop) (g : graph) : Prop := forall s l t, In (l, t) (edges g s) -> P l.

Section Labs.
  Variable P : label -> Prop.
  Hypothesis Peps : P LEps.

  Lemma labs_new g : labs P g -> labs P (snd (new_state g)).
  Proof. intros H s l t Hin. rewrite edges_new in Hin. eauto. Qed.

  Lemma labs_set_edges g s es : labs P g -> (forall l t, In (l, t) es -> P l) -> labs P (set_edges g s es).
  Proof.
    intros H He s' l t Hin. rewrite edges_set_edges in Hin.
    destruct (Nat.eqb s s'); [destruct (s <? nstates g)|]; eauto.
  Qed.

  Lemma labs_add_edge g s l t : labs P g -> P l -> labs P (add_edge g s l t).
  Proof.
    intros H Hl. unfold add_edge. apply labs_set_edges; [assumption|].
    intros l' t' Hin. apply in_app_or in Hin as [Hin|[[= <- <-]|[]]]; eauto.
  Qed.

  Lemma labs_set_terminal g s : labs P g -> labs P (set_terminal g s).
  Proof. intros H s' l t Hin. exact (H s' l t Hin). Qed.

  Lemma labs_fold_add es : forall g end_, labs P g -> (forall l t, In (l, t) es -> P l) ->
    labs P (fold_left (fun g' (e : edge) => add_edge g' end_ (fst e) (snd e)) es g).
  Proof.
    induction es as [|[l t] es IH]; intros g end_ H He; cbn [fold_left]; [assumption|].
    apply IH; [apply labs_add_edge; [assumption | apply (He l t); now left] | intros l' t' Hin; apply (He l' t'); now right].
  Qed.

  Variable nopts : nat.

  (** the leaves of the syntax tree carry labels that satisfy [P] *)
  Fixpoint leaves_seq (s : seq) : Prop :=
    match s with SNil => True | SCons c s' => leaves_choice c /\ leaves_seq s' end
  with leaves_choice (c : choice) : Prop :=
    match c with COne a => leaves_ratom a | CAlt a c' => leaves_ratom a /\ leaves_choice c' end
  with leaves_ratom (a : ratom) : Prop := match a with RAtom a _ => leaves_atom a end
  with leaves_atom (a : atom) : Prop :=
    match a with
    | AArg i => P (LArg i)
    | AOptions => P (LGrp (List.seq 0 nopts))
    | AOpt i => P (LOpt i)
    | AGroup js => P (LGrp js)
    | ADD => P LDD
    | APar s | ASq s => leaves_seq s
    end.

  Lemma labs_leaf g l : labs P g -> P l ->
    labs P (snd (let '(start, g0) := new_state g in let '(e, g1) := new_state g0 in (start, e, add_edge g1 start l e))).
  Proof.
    intros H Hl. destruct (new_state g) as [st g0] eqn:E0. destruct (new_state g0) as [e g1] eqn:E1. cbn [snd].
    apply labs_add_edge; [|assumption]. pose proof (labs_new g0) as X. rewrite E1 in X. apply X.
    pose proof (labs_new g H) as Y. now rewrite E0 in Y.
  Qed.

  Theorem thompson_labs :
    (forall s, leaves_seq s -> forall end_ g, labs P g -> labs P (snd (th_seq nopts s end_ g))) /\
    (forall c, leaves_choice c -> forall start end_ g, labs P g -> labs P (th_alts nopts c start end_ g)) /\
    (forall a, leaves_ratom a -> forall g, labs P g -> labs P (snd (th_ratom nopts a g))) /\
    (forall a, leaves_atom a -> forall g, labs P g -> labs P (snd (th_atom nopts a g))).
  Proof.
    apply ast_mutind.
    - intros _ end_ g H. exact H.
    - intros c IHc s IHs [Lc Ls] end_ g H. rewrite th_seq_cons.
      destruct (new_state g) as [cs g0] eqn:E0. destruct (new_state g0) as [ce g0'] eqn:E1.
      assert (H0 : labs P g0) by (pose proof (labs_new g H) as X; now rewrite E0 in X).
      assert (H1 : labs P g0') by (pose proof (labs_new g0 H0) as X; now rewrite E1 in X).
      cbv zeta. apply (IHs Ls). pose proof (IHc Lc cs ce g0' H1) as H2.
      apply labs_fold_add; [exact H2|]. intros l t Hin. exact (H2 cs l t Hin).
    - intros a IHa La start end_ g H. rewrite th_alts_one. specialize (IHa La g H).
      destruct (th_ratom nopts a g) as [[s e] g1]. cbn [snd] in IHa. apply labs_add_edge; [apply labs_add_edge|]; assumption.
    - intros a IHa c IHc [La Lc] start end_ g H. rewrite th_alts_alt. specialize (IHa La g H).
      destruct (th_ratom nopts a g) as [[s e] g1]. cbn [snd] in IHa. apply (IHc Lc). apply labs_add_edge; [apply labs_add_edge|]; assumption.
    - intros a IHa rep La g H. rewrite th_ratom_eq. specialize (IHa La g H).
      destruct (th_atom nopts a g) as [[s e] g1]. cbn [snd] in *. destruct rep; [apply labs_add_edge; assumption | assumption].
    - intros i La g H. now apply (labs_leaf g (LArg i)).
    - intros La g H. now apply (labs_leaf g (LGrp (List.seq 0 nopts))).
    - intros i La g H. now apply (labs_leaf g (LOpt i)).
    - intros js La g H. now apply (labs_leaf g (LGrp js)).
    - intros La g H. now apply (labs_leaf g LDD).
    - intros s IHs La g H. rewrite th_atom_par. destruct (new_state g) as [st g0] eqn:E0. destruct (new_state g0) as [ss g1] eqn:E1.
      assert (H1 : labs P g1). { pose proof (labs_new g0) as X. rewrite E1 in X. apply X. pose proof (labs_new g H) as Y. now rewrite E0 in Y. }
      specialize (IHs La ss g1 H1). destruct (th_seq nopts s ss g1) as [se g2]. exact IHs.
    - intros s IHs La g H. rewrite th_atom_sq. destruct (new_state g) as [st g0] eqn:E0. destruct (new_state g0) as [ss g1] eqn:E1.
      assert (H1 : labs P g1). { pose proof (labs_new g0) as X. rewrite E1 in X. apply X. pose proof (labs_new g H) as Y. now rewrite E0 in Y. }
      specialize (IHs La ss g1 H1). destruct (th_seq nopts s ss g1) as [se g2]. cbn [snd] in *. apply labs_add_edge; assumption.
  Qed.

  Lemma thompson_labs_top s : leaves_seq s -> labs P (snd (thompson nopts s)).
  Proof.
    intros L. unfold thompson. destruct (new_state empty_graph) as [ss g1] eqn:E1.
    assert (H1 : labs P g1).
    { pose proof (labs_new empty_graph) as X. rewrite E1 in X. apply X. intros s0 l t Hin.
      unfold edges, empty_graph in Hin. cbn in Hin. destruct s0; destruct Hin. }
    destruct thompson_labs as (Hs & _). specialize (Hs s L ss g1 H1).
    destruct (th_seq nopts s ss g1) as [se g2]. cbn [snd] in *. now apply labs_set_terminal.
  Qed.

  (** * Prepare only moves transitions around *)
  Lemma in_remove_at {A} (x : A) l : forall i, In x (remove_at i l) -> In x l.
  Proof.
    induction l as [|y l IH]; intros [|i]; cbn; auto.
    intros [->|H]; [now left | right; eauto].
  Qed.

  Lemma simplify_self_labs fuel : forall g s expanded g',
    labs P g -> simplify_self fuel g s expanded = Some g' -> labs P g'.
  Proof.
    induction fuel as [|f IH]; intros g s expanded g' H; cbn [simplify_self]; [discriminate|].
    destruct (first_eps (edges g s)) as [[idx next]|]; [|now intros [= <-]].
    set (g1 := set_edges g s (remove_at idx (edges g s))).
    assert (H1 : labs P g1).
    { apply labs_set_edges; [assumption|]. intros l t Hin. apply in_remove_at in Hin. eauto. }
    destruct (mem_nat next expanded); [now apply IH|].
    set (g2 := set_edges g1 s (absorb (edges g1 s) (edges g1 next))).
    assert (H2 : labs P g2).
    { apply labs_set_edges; [assumption|]. intros l t Hin.
      destruct (absorb_spec (edges g1 next) (edges g1 s)) as (A & _). destruct (A _ Hin); eauto. }
    apply IH. destruct (terminal g2 next); [now apply labs_set_terminal | assumption].
  Qed.

  Lemma simplify_labs fuel : forall g s visited g' v',
    labs P g -> simplify fuel g s visited = Some (g', v') -> labs P g'.
  Proof.
    induction fuel as [|f IH]; intros g s visited g' v' H; cbn [simplify]; [discriminate|].
    destruct (mem_nat s visited); [now intros [= <- <-]|].
    assert (Hch : forall es g0 v0 g1 v1, labs P g0 -> children (simplify f) es g0 v0 = Some (g1, v1) -> labs P g1).
    { induction es as [|[l t] es IHe]; intros g0 v0 g1 v1 H0; cbn [children]; [now intros [= <- <-]|].
      destruct (simplify f g0 t v0) as [[g2 v2]|] eqn:E; [|discriminate]. intros Hc.
      apply (IHe g2 v2 g1 v1); [eapply IH; eauto | exact Hc]. }
    destruct (children (simplify f) (edges g s) g (s :: visited)) as [[g1 v1]|] eqn:Ec; [|discriminate].
    destruct (simplify_self (self_fuel g1) g1 s []) as [g2|] eqn:Es; [|discriminate]. intros [= <- <-].
    eapply simplify_self_labs; [|exact Es]. eapply Hch; eauto.
  Qed.

  Lemma nth_map_sort (l0 : list (list edge)) : forall s, nth s (map sort_edges l0) [] = sort_edges (nth s l0 []).
  Proof. induction l0 as [|x l0 IH]; intros [|s]; cbn [map nth]; auto. Qed.

  Lemma sort_graph_labs g : labs P g -> labs P (sort_graph g).
  Proof.
    intros H s l t Hin. unfold sort_graph, edges in Hin. cbn [g_tr] in Hin.
    rewrite nth_map_sort in Hin. apply -> sort_edges_in in Hin. exact (H s l t Hin).
  Qed.

  Lemma prepare_labs start g g' : labs P g -> prepare start g = Some g' -> labs P g'.
  Proof.
    intros H. unfold prepare. destruct (simplify (nstates g + 1) g start []) as [[g1 v1]|] eqn:E; [|discriminate].
    intros [= <-]. apply sort_graph_labs. eapply simplify_labs; eauto.
  Qed.
End Labs.

(** the spec has no "--" atom iff none of its leaves is labelled "--" *)
Lemma has_dd_leaves nopts :
  (forall s, seq_has_dd s = false -> leaves_seq (fun l => l <> LDD) nopts s) /\
  (forall c, choice_has_dd c = false -> leaves_choice (fun l => l <> LDD) nopts c) /\
  (forall a, ratom_has_dd a = false -> leaves_ratom (fun l => l <> LDD) nopts a) /\
  (forall a, atom_has_dd a = false -> leaves_atom (fun l => l <> LDD) nopts a).
Proof.
  set (Q := fun l : label => l <> LDD).
  apply ast_mutind.
  - intros _. exact I.
  - intros c IHc s IHs H. cbn in H. apply orb_false_iff in H as [A B].
    change (leaves_choice Q nopts c /\ leaves_seq Q nopts s). auto.
  - intros a IHa H. change (leaves_ratom Q nopts a). apply IHa. exact H.
  - intros a IHa c IHc H. cbn in H. apply orb_false_iff in H as [A B].
    change (leaves_ratom Q nopts a /\ leaves_choice Q nopts c). auto.
  - intros a IHa rep H. change (leaves_atom Q nopts a). apply IHa. exact H.
  - intros i _. unfold Q. cbn. discriminate.
  - intros _. unfold Q. cbn. discriminate.
  - intros i _. unfold Q. cbn. discriminate.
  - intros js _. unfold Q. cbn. discriminate.
  - intros H. cbn in H. discriminate.
  - intros s IHs H. change (leaves_seq Q nopts s). apply IHs. exact H.
  - intros s IHs H. change (leaves_seq Q nopts s). apply IHs. exact H.
Qed.

Lemma labs_no_dd_graph g : labs (fun l => l <> LDD) g -> no_dd_graph g = true.
Proof.
  intros H. unfold no_dd_graph. apply forallb_forall. intros es Hes. apply forallb_forall. intros [l t] Hin.
  apply In_nth with (d := []) in Hes as (s & Hs & <-). specialize (H s l t Hin).
  cbn [fst]. destruct l; try reflexivity. congruence.
Qed.

(** a compiled command whose spec has no "--" atom has no "--" transition *)
Theorem compile_no_dd opts args spec i toks e :
  compile opts args spec = IOk i ->
  tokenize spec = LexOk toks ->
  parse_tokens (lookup_name opts) (lookup_name args) (length spec) toks = ParseOk e ->
  seq_has_dd e = false -> no_dd_graph (i_graph i) = true.
Proof.
  intros Hc Hl Hp Hd. unfold compile in Hc. rewrite Hl, Hp in Hc.
  pose proof (thompson_labs_top (fun l => l <> LDD) ltac:(discriminate) (length opts) e (proj1 (has_dd_leaves (length opts)) e Hd)) as HL.
  destruct (thompson (length opts) e) as [start g]. cbn [snd] in HL.
  destruct (prepare start g) as [g'|] eqn:Hpr; [|discriminate]. injection Hc as <-. cbn [i_graph].
  apply labs_no_dd_graph. eapply prepare_labs; eauto.
Qed.
