(** C14 — help and version requests short-circuit everything else. *)
From MowCli Require Import Base Values Flow Cmd TreeProofs TraceProofs.

Section C14.
  Variable parse_float : str -> option str.
  Variable getenv : str -> str.

  (** For every tree, every path written with any aliases, every policy and every argument
      vector in which the first help token is preceded by no "--" (and by no other help token):
      Cmd.parse prints the LONG help of the command addressed by the sub-command names preceding
      the token ([help_descend] follows [find_sub] and validates nothing: [fsm_parse] does not
      occur in it), runs no callback, and ends with exit 0 under ExitOnError and a nil return
      otherwise ([on_help]); whatever follows the help token ([more]) is irrelevant. *)
  Theorem C14_help :
    forall (rest : tail) (c : cmd) (i : inited) (policy : nat) (path w : list str)
           h more levels paths filled err r,
      is_help h = true ->
      plain w && plain_tail rest = true ->
      own_ok c w rest = true ->
      help_descend parse_float getenv c i policy path rest w h err filled = Some r ->
      parse_cmd parse_float getenv c i policy path (flatten_help w rest h more) levels paths filled err = r.
  Proof. exact (parse_cmd_help parse_float getenv). Qed.

  Theorem C14_help_result :
    forall c i policy path err filled text,
      print_help parse_float getenv path c i true = (text, None) ->
      let r := help_result parse_float getenv c i policy path err filled in
      r_trace r = [] /\ r_stderr r = err ++ text /\
      r_outcome r = match policy with 1 => RExit 0 | _ => RRet None end.
  Proof.
    intros c i policy path err filled text Hp. unfold help_result. rewrite Hp. cbn. auto.
  Qed.

  (** a declared version option given as the first argument prints the version string, wherever
      Version was called among the declarations of the app *)
  Theorem C14_version :
    forall (a : cliapp) (name text : str) (i : inited) (a0 : str) (rest : list str),
      a_version a = Some (name, text) ->
      do_init parse_float getenv (root_decls a) (c_spec (a_root a)) = IOk i ->
      mem_str a0 (mk_opt_strs name) = true ->
      let r := run parse_float getenv a (a0 :: rest) in
      r_trace r = [] /\ r_stderr r = [text] /\
      r_outcome r = match effective_policy 1 (a_root a) with 1 => RExit 0 | _ => RRet None end.
  Proof.
    intros a name text i a0 rest Hv Hi Hm. unfold run. rewrite Hi, Hv, Hm. cbn. auto.
  Qed.

  (** A help token that follows a "--" within a command's own arguments is ordinary data: the scan for the
      help token stops at the first "--" ([help_index] is [None] whatever [more] holds), and on a command
      without sub-commands the whole vector is validated against the spec like any other — the result is that
      of the addressed command on these arguments, or of its rejection. *)
  Theorem C14_help_after_dd_is_data :
    forall c i policy path pre more levels paths filled err,
      c_subs c = [] -> plain pre = true ->
      help_index (pre ++ s_dd :: more) = None /\
      parse_cmd parse_float getenv c i policy path (pre ++ s_dd :: more) levels paths filled err =
      match fsm_parse parse_float i (pre ++ s_dd :: more) with
      | PFuelOut => mkResult RFuel [] err filled
      | PUsage => reject_result parse_float getenv c i policy path EUsage err filled
      | PConv => reject_result parse_float getenv c i policy path EConv err filled
      | PAccept o a => leaf_result parse_float getenv c i policy path (levels ++ [mkLevel (c_before c) (c_after c)])
                                   (paths ++ [path]) err (filled ++ [(path, o, a)])
      end.
  Proof.
    intros c i policy path pre more levels paths filled err Hs Hp. split.
    - exact (help_index_dd pre more Hp).
    - exact (parse_cmd_help_after_dd parse_float getenv c i policy path pre more levels paths filled err Hs Hp).
  Qed.

  (** The whole tree at once: for EVERY application (after the repair D9 also one with a sub-command named "-h" or
      "--help") and EVERY argument vector whose first help token is preceded by no "--" ([help_index] finds it), Run
      lets no Before, no Action and no After run — whichever command the token addresses, whatever stands before and
      after it, valid or not, whatever the policies are. (What is printed and how Run ends: [C14_help],
      [C14_help_result].) *)
  Theorem C14_help_runs_nothing_anywhere :
    forall a argv,
      help_index argv <> None ->
      r_trace (run parse_float getenv a argv) = [].
  Proof. exact (run_help_runs_nothing parse_float getenv). Qed.
End C14.
Print Assumptions C14_help_runs_nothing_anywhere.
Print Assumptions C14_help_after_dd_is_data.
Print Assumptions C14_help.
Print Assumptions C14_help_result.
Print Assumptions C14_version.

Example C14_nonvacuous :
  let pf := fun _ : str => None in
  let ge := fun _ : str => [] in
  let sub := Cmd (lit "run r") [] (lit "LONG") false (lit "X") None
                 [mkDecl false KString (lit "X") [] [] false (VStr []) false]
                 HReturns HReturns HReturns [] in
  let root := Cmd (lit "app") [] [] false (lit "[-v]") None
                  [mkDecl true KBool (lit "v") [] [] false (VBool false) false]
                  HReturns HReturns HReturns [sub] in
  let r := run pf ge (mkApp root None) [lit "--bogus"; lit "r"; lit "-h"; lit "a"; lit "b"; lit "c"] in
  (r_outcome r, r_trace r, firstn 2 (r_stderr r))
  = (RExit 0, [], [lit "Usage: app run X"; lit "LONG"]).
Proof. vm_compute. reflexivity. Qed.

(** "-h" after "--" is bound to the argument like any other token, and the Action runs *)
Example C14_after_dd_example :
  let pf := fun _ : str => None in
  let ge := fun _ : str => [] in
  let root := Cmd (lit "app") [] [] false (lit "X...") (Some 0)
                  [mkDecl false KStrings (lit "X") [] [] false (VStrs []) false]
                  HAbsent HReturns HAbsent [] in
  let r := run pf ge (mkApp root None) [lit "--"; lit "-h"; lit "--help"] in
  (r_outcome r, map fst (r_trace r), map (fun l => map ct_value (snd l)) (r_levels r))
  = (RRet None, [HAction], [[VStrs [lit "-h"; lit "--help"]]]).
Proof. vm_compute. reflexivity. Qed.
