(** The tie between the inductive reading of ViewProofs ([Reads]) and the executable reading of the
    reference semantics ([RefSem.read], the one the test oracle runs): a command line that
    [RefSem.read] reads without a [Bad] token and that has no Q1 token is read by [Reads] as the
    same symbols. So the hypotheses of the view theorems are decidable by running [clean]. *)
From MowCli Require Import Base Parser Nfa Matchers Apply RefSem View MatcherProofs ViewProofs.
Local Arguments Ascii.eqb : simpl never.

Lemma erase_all_app l1 l2 u : erase_all (l1 ++ l2) = Some u ->
  exists u1 u2, erase_all l1 = Some u1 /\ erase_all l2 = Some u2 /\ u = u1 ++ u2.
Proof.
  revert u. induction l1 as [|s l1 IH]; intros u; cbn [List.app erase_all].
  - intros H. exists [], u. auto.
  - destruct (erase s) as [x|]; [|discriminate].
    destruct (erase_all (l1 ++ l2)) as [xs|] eqn:E; [|discriminate]. intros [= <-].
    destruct (IH xs eq_refl) as (u1 & u2 & -> & -> & ->). exists (x :: u1), u2. auto.
Qed.

Lemma erase_all_P rest : erase_all (map P rest) = Some (map VP rest).
Proof. induction rest as [|t rest IH]; cbn; [reflexivity|]. now rewrite IH. Qed.

Lemma split_eq_shape t : forall n v, split_eq t = (n, v) ->
  split_eq n = (n, None) /\ t = n ++ match v with Some w => c_eq :: w | None => [] end.
Proof.
  induction t as [|c t IH]; intros n v; cbn [split_eq].
  - intros [= <- <-]. auto.
  - destruct (Ascii.eqb c c_eq) eqn:E.
    + intros [= <- <-]. apply Ascii.eqb_eq in E. subst. auto.
    + destruct (split_eq t) as [a b]. intros [= <- <-]. destruct (IH a b eq_refl) as [H1 H2].
      cbn [split_eq List.app]. rewrite E, H1. split; [reflexivity | now f_equal].
Qed.

Lemma split_eq_dd t n v : prefix_b s_dd t = true -> split_eq t = (n, v) -> exists n', n = c_dash :: c_dash :: n'.
Proof.
  destruct t as [|d1 [|d2 t]]; cbn [prefix_b s_dd]; try discriminate.
  - rewrite andb_false_r. discriminate.
  - destruct (Ascii.eqb_spec c_dash d1) as [<-|]; [|discriminate].
    destruct (Ascii.eqb_spec c_dash d2) as [<-|]; [|discriminate]. intros _.
    cbn [split_eq]. change (Ascii.eqb c_dash c_eq) with false. cbv iota.
    destruct (split_eq t) as [a b]. intros [= <- <-]. eauto.
Qed.

Section Read.
  Variable D : optinfo.
  Hypothesis Hnodd : oi_lookup D s_dd = None.
  Hypothesis Hnoeq : oi_lookup D [c_dash; c_eq] = None.
  Notation RD := (rdecl_of D).

  (** what [read_letters] accepts: flags, then nothing, or a valued option with its value attached or
      in the next token *)
  Lemma read_letters_shape : forall letters next src syms used,
    read_letters RD letters next src = Some (syms, used) ->
    exists fs us, Flags D fs us /\
      ((letters = fs /\ used = false /\ erase_all syms = Some us) \/
       (exists x o v, letters = fs ++ x :: v /\ v <> [] /\ oi_lookup D [c_dash; x] = Some o /\
                      oi_isbool D o = false /\ used = false /\ erase_all syms = Some (us ++ [VO o v])) \/
       (exists x o v, letters = fs ++ [x] /\ next = Some v /\ dashed v = false /\
                      oi_lookup D [c_dash; x] = Some o /\ oi_isbool D o = false /\ used = true /\
                      erase_all syms = Some (us ++ [VO o v]))).
  Proof.
    induction letters as [|c rest IH]; intros next src syms used; cbn [read_letters].
    - intros [= <- <-]. exists [], []. split; [constructor|]. left. auto.
    - cbn [rd_lookup rd_isflag rdecl_of]. destruct (oi_lookup D [c_dash; c]) as [o|] eqn:Hl; [|discriminate].
      destruct (oi_isbool D o) eqn:Hb.
      + destruct (read_letters RD rest next []) as [[syms' used']|] eqn:Hr; [|discriminate].
        intros [= <- <-]. destruct (IH _ _ _ _ Hr) as (fs & us & Hf & Hcase).
        exists (c :: fs), (VO o s_true :: us). split; [econstructor; eauto|].
        destruct Hcase as [(-> & -> & He)|[(x & o' & v & -> & Hv & Hl' & Hb' & -> & He)|(x & o' & v & -> & Hn & Hd & Hl' & Hb' & -> & He)]].
        * left. cbn [erase_all erase]. rewrite He. auto.
        * right. left. exists x, o', v. cbn [erase_all erase List.app]. rewrite He. auto 10.
        * right. right. exists x, o', v. cbn [erase_all erase List.app]. rewrite He. auto 10.
      + destruct rest as [|e rest']; cbv iota beta.
        * destruct next as [v|]; [|discriminate]. destruct (dashed v) eqn:Hd; [discriminate|].
          intros [= <- <-]. exists [], []. split; [constructor|]. right. right. exists c, o, v. cbn. auto 10.
        * intros [= <- <-]. exists [], []. split; [constructor|]. right. left. exists c, o, (e :: rest'). cbn. repeat split; auto. discriminate.
  Qed.

  (** the Q1 test on a token that reads: flags followed by a valued option whose attached value
      begins with '=' *)
  Lemma q1_walk_flags fs us : Flags D fs us -> forall x o v j,
    oi_lookup D [c_dash; x] = Some o -> oi_isbool D o = false ->
    q1_walk RD (fs ++ x :: v) j =
    (2 <=? j + length fs) && match v with e :: _ => Ascii.eqb e c_eq | [] => false end.
  Proof.
    induction 1 as [|c o' fs us Hl' Hb' Hf IH]; intros x o v j Hl Hb; cbn [List.app q1_walk length].
    - rewrite (letter_not_eq D Hnoeq x o Hl). cbn [rd_lookup rd_isflag rdecl_of]. rewrite Hl, Hb. now rewrite Nat.add_0_r.
    - rewrite (letter_not_eq D Hnoeq c o' Hl'). cbn [rd_lookup rd_isflag rdecl_of]. rewrite Hl', Hb'.
      rewrite (IH x o v (S j) Hl Hb). f_equal. f_equal. lia.
  Qed.

  Lemma erase_all_cons_inv s l u : erase_all (s :: l) = Some u ->
    exists x xs, erase s = Some x /\ erase_all l = Some xs /\ u = x :: xs.
  Proof.
    cbn [erase_all]. destruct (erase s) as [x|]; [|discriminate].
    destruct (erase_all l) as [xs|]; [|discriminate]. intros [= <-]. eauto.
  Qed.

  Lemma has_q1_cons t rest : has_q1 RD (t :: rest) = false ->
    str_eqb t s_dd = false -> q1_token RD t = false /\ has_q1 RD rest = false.
  Proof. cbn [has_q1]. intros H E. rewrite E in H. now apply orb_false_iff in H. Qed.

  Lemma has_q1_skip v r2 : dashed v = false -> has_q1 RD (v :: r2) = false -> has_q1 RD r2 = false.
  Proof.
    intros Hd. cbn [has_q1]. destruct (str_eqb v s_dd) eqn:E.
    - apply str_eqb_eq in E. subst v. discriminate.
    - intros H. now apply orb_false_iff in H.
  Qed.

  Theorem clean_reads : forall n a, length a <= n -> forall u,
    erase_all (read RD a) = Some u -> has_q1 RD a = false -> Reads D a u.
  Proof.
    induction n as [|n IH]; intros a Hlen u He Hq.
    { destruct a; [|cbn in Hlen; lia]. cbn in He. injection He as <-. constructor. }
    destruct a as [|t rest]; [cbn in He; injection He as <-; constructor|].
    cbn [length] in Hlen. cbn [read] in He.
    destruct (str_eqb t s_dd) eqn:Edd.
    { apply str_eqb_eq in Edd. subst t. apply erase_all_cons_inv in He as (x & xs & Hx & Hxs & ->).
      cbn in Hx. injection Hx as <-. rewrite erase_all_P in Hxs. injection Hxs as <-. constructor. }
    destruct (has_q1_cons t rest Hq Edd) as [Hq1 Hqr].
    destruct (str_eqb t s_dash || negb (dashed t)) eqn:Epos.
    { apply erase_all_cons_inv in He as (x & xs & Hx & Hxs & ->). cbn in Hx. injection Hx as <-.
      apply RPos; [|apply (IH rest); [lia | assumption | assumption]].
      apply orb_true_iff in Epos as [E|E]; [left; now apply str_eqb_eq | right; now destruct (dashed t)]. }
    apply orb_false_iff in Epos as [Ed1 Ed2]. apply negb_false_iff in Ed2.
    destruct (read_token RD t (hd_error rest)) as [[syms used]|] eqn:Hrt.
    2:{ cbn in He. discriminate. }
    apply erase_all_app in He as (u1 & u2 & Hs1 & Hs2 & ->).
    (* what follows the token(s) *)
    assert (Hrest : used = false -> Reads D rest u2).
    { intros ->. apply (IH rest); [lia | assumption | assumption]. }
    assert (Hrest2 : forall v, used = true -> hd_error rest = Some v -> dashed v = false ->
                               exists r2, rest = v :: r2 /\ Reads D r2 u2).
    { intros v -> Hv Hd. destruct rest as [|v' r2]; [discriminate|]. injection Hv as ->. exists r2. split; [reflexivity|].
      apply (IH r2); [cbn in Hlen; lia | assumption | now apply has_q1_skip with v]. }
    unfold read_token in Hrt. destruct (prefix_b s_dd t) eqn:Epre.
    - (* long *)
      destruct (split_eq t) as [name v] eqn:Esp. cbn [rd_lookup rd_isflag rdecl_of] in Hrt.
      destruct (oi_lookup D name) as [o|] eqn:Hl; [|discriminate].
      destruct (split_eq_shape t name v Esp) as [Hne Ht].
      destruct (split_eq_dd t name v Epre Esp) as (n' & Hn').
      assert (Hln : long_name name).
      { split; [|exact Hne]. destruct n' as [|l1 l2]; [|eauto]. subst name. change [c_dash; c_dash] with s_dd in Hl. congruence. }
      destruct v as [value|].
      + destruct value as [|e value]; [discriminate|]. injection Hrt as <- <-.
        cbn in Hs1. injection Hs1 as <-. subst t. apply RLongEq; auto. discriminate.
      + rewrite app_nil_r in Ht. subst t. destruct (oi_isbool D o) eqn:Hb.
        * injection Hrt as <- <-. cbn in Hs1. injection Hs1 as <-. apply RLongFlag; auto.
        * destruct (hd_error rest) as [value|] eqn:Hhd; [|discriminate].
          destruct (dashed value) eqn:Hd; [discriminate|]. injection Hrt as <- <-.
          cbn in Hs1. injection Hs1 as <-.
          destruct (Hrest2 value eq_refl eq_refl Hd) as (r2 & -> & Hr2). apply RLongSep; auto.
    - (* short *)
      destruct t as [|d letters]; [discriminate|]. cbn in Ed2. apply Ascii.eqb_eq in Ed2. subst d.
      destruct letters as [|n0 l0]; [cbn in Ed1; discriminate|].
      assert (Hloop : forall syms0 used0, read_letters RD (n0 :: l0) (hd_error rest) [c_dash :: n0 :: l0] = Some (syms0, used0) ->
                      second_ok (n0 :: l0) -> syms0 = syms -> used0 = used -> Reads D ((c_dash :: n0 :: l0) :: rest) (u1 ++ u2)).
      { intros syms0 used0 Hrl Hso -> ->.
        destruct (read_letters_shape _ _ _ _ _ Hrl) as (fs & us & Hf & Hcase).
        destruct Hcase as [(E & -> & Hes)|[(x & o & v & E & Hv & Hl & Hb & -> & Hes)|(x & o & v & E & Hn & Hd & Hl & Hb & -> & Hes)]].
        - rewrite Hs1 in Hes. injection Hes as ->. rewrite E. apply RFoldEnd; [rewrite <- E; discriminate | assumption | auto].
        - rewrite Hs1 in Hes. injection Hes as ->. rewrite E. rewrite <- app_assoc. cbn [List.app].
          apply RFoldAtt; auto.
          (* the value does not begin with '=' *)
          destruct fs as [|f fs'].
          + cbn [List.app] in E. injection E as -> ->. unfold second_ok in Hso. destruct v; [congruence | exact Hso].
          + unfold q1_token in Hq1. change (prefix_b s_dd (c_dash :: n0 :: l0)) with (prefix_b s_dd (c_dash :: n0 :: l0)) in Hq1.
            rewrite Epre in Hq1. rewrite Ascii.eqb_refl in Hq1. cbn [andb negb] in Hq1.
            rewrite E in Hq1. rewrite (q1_walk_flags _ _ Hf x o v 1 Hl Hb) in Hq1. cbn [length Nat.add Nat.leb] in Hq1.
            destruct v as [|e v']; [exact I|]. cbn [andb] in Hq1. exact Hq1.
        - rewrite Hs1 in Hes. injection Hes as ->. rewrite E. rewrite <- app_assoc. cbn [List.app].
          destruct (Hrest2 v eq_refl Hn Hd) as (r2 & -> & Hr2). apply RFoldSep; auto. }
      destruct l0 as [|e value].
      + apply (Hloop syms used); auto. exact I.
      + destruct (Ascii.eqb e c_eq) eqn:Ee.
        * cbn [rd_lookup rdecl_of] in Hrt. destruct (oi_lookup D [c_dash; n0]) as [o|] eqn:Hl; [|discriminate].
          destruct value as [|v0 value]; [discriminate|]. injection Hrt as <- <-.
          cbn in Hs1. injection Hs1 as <-. apply Ascii.eqb_eq in Ee. subst e. apply RShortEq; auto. discriminate.
        * apply (Hloop syms used); auto.
  Qed.

  (** decidable form *)
  Corollary view_reads a u : view D a = Some u -> Reads D a u.
  Proof.
    unfold view. destruct (has_q1 RD a) eqn:Hq; [discriminate|]. intros He.
    now apply (clean_reads (length a) a (le_n _)).
  Qed.

  (** * The converse: everything [Reads] reads, [view] reads the same way *)
  Lemma erase_all_app_some l1 l2 u1 u2 : erase_all l1 = Some u1 -> erase_all l2 = Some u2 -> erase_all (l1 ++ l2) = Some (u1 ++ u2).
  Proof.
    revert u1. induction l1 as [|s l1 IH]; intros u1; cbn [List.app erase_all]; [intros [= <-]; auto|].
    destruct (erase s) as [x|]; [|discriminate]. destruct (erase_all l1) as [xs|]; [|discriminate].
    intros [= <-] H2. now rewrite (IH xs eq_refl H2).
  Qed.

  (** the letters of declared flags, then whatever [tl] reads as *)
  Lemma read_letters_flags fs us : Flags D fs us -> forall tl next used w,
    (forall src, exists syms, read_letters RD tl next src = Some (syms, used) /\ erase_all syms = Some w) ->
    forall src, exists syms', read_letters RD (fs ++ tl) next src = Some (syms', used) /\ erase_all syms' = Some (us ++ w).
  Proof.
    induction 1 as [|c o fs us Hl Hb Hf IH]; intros tl next used w Ht src; cbn [List.app]; [apply Ht|].
    cbn [read_letters rd_lookup rd_isflag rdecl_of]. rewrite Hl, Hb.
    destruct (IH tl next used w Ht []) as (syms1 & E1 & W1). rewrite E1.
    exists (O o s_true src :: syms1). split; [reflexivity|]. cbn [erase_all erase List.app]. now rewrite W1.
  Qed.

  Lemma q1_walk_flags_end fs us : Flags D fs us -> forall j, q1_walk RD fs j = false.
  Proof.
    induction 1 as [|c o fs us Hl Hb Hf IH]; intros j; cbn [q1_walk]; [reflexivity|].
    rewrite (letter_not_eq D Hnoeq c o Hl). cbn [rd_lookup rd_isflag rdecl_of]. rewrite Hl, Hb. apply IH.
  Qed.

  Lemma q1_token_not_dashed t : dashed t = false -> q1_token RD t = false.
  Proof. unfold q1_token. destruct t as [|d rest]; [reflexivity|]. cbn [dashed]. now intros ->. Qed.

  Lemma q1_token_long t : prefix_b s_dd t = true -> q1_token RD t = false.
  Proof. unfold q1_token. destruct t as [|d rest]; [reflexivity|]. intros ->. now rewrite andb_false_r. Qed.

  Lemma not_dashed_not_dd v : dashed v = false -> str_eqb v s_dd = false.
  Proof. destruct v as [|c0 v0]; [reflexivity|]. cbn. now intros ->. Qed.

  (** a token "-" ++ letters whose third character is not '=' is read letter by letter *)
  Lemma read_token_fold l next : l <> [] -> second_ok l -> prefix_b s_dd (c_dash :: l) = false ->
    read_token RD (c_dash :: l) next = read_letters RD l next [c_dash :: l].
  Proof.
    intros Hne Hso Hp. unfold read_token. rewrite Hp. destruct l as [|n0 [|e value]]; [congruence | reflexivity |].
    unfold second_ok in Hso. now rewrite Hso.
  Qed.

  Lemma q1_token_fold l : q1_token RD (c_dash :: l) = negb (prefix_b s_dd (c_dash :: l)) && q1_walk RD l 1.
  Proof. unfold q1_token. now rewrite Ascii.eqb_refl. Qed.

  Theorem reads_view a u : Reads D a u -> erase_all (read RD a) = Some u /\ has_q1 RD a = false.
  Proof.
    induction 1 as [ | rest | t rest u Hp Hr [IH1 IH2]
                   | n o v rest u [Hlong Hne] Hl Hv Hr [IH1 IH2] | n o rest u [Hlong Hne] Hl Hb Hr [IH1 IH2]
                   | n o v rest u [Hlong Hne] Hl Hb Hd Hr [IH1 IH2]
                   | x o v rest u Hl Hv Hr [IH1 IH2]
                   | fs us rest u Hnf Hf Hr [IH1 IH2]
                   | fs us x o v rest u Hf Hl Hb Hv Hq Hr [IH1 IH2]
                   | fs us x o v rest u Hf Hl Hb Hd Hr [IH1 IH2] ].
    - split; reflexivity.
    - cbn [read has_q1]. rewrite str_eqb_refl. split; [|reflexivity]. cbn [erase_all erase]. now rewrite erase_all_P.
    - (* positional *)
      cbn [read has_q1]. rewrite (positional_not_dd t Hp).
      assert (E : str_eqb t s_dash || negb (dashed t) = true).
      { destruct Hp as [->|Hd]; [reflexivity | rewrite Hd; now rewrite orb_true_r]. }
      rewrite E. cbn [erase_all erase]. rewrite IH1. split; [reflexivity|]. rewrite IH2, orb_false_r.
      destruct Hp as [->|Hd]; [reflexivity | now apply q1_token_not_dashed].
    - (* --name=value *)
      destruct (long_shape D o n Hl Hlong Hne (c_eq :: v)) as (S1 & S2 & S3 & S4).
      cbn [read has_q1]. rewrite S2, S1, S3. cbn [orb negb]. unfold read_token. rewrite S4.
      rewrite (split_eq_app _ _ Hne). cbn [rd_lookup rd_isflag rdecl_of]. rewrite Hl. destruct v as [|e v']; [congruence|].
      cbn [List.app erase_all erase]. rewrite IH1. split; [reflexivity|]. now rewrite (q1_token_long _ S4), IH2.
    - (* --flag *)
      destruct (long_shape D o n Hl Hlong Hne []) as (S1 & S2 & S3 & S4). rewrite app_nil_r in *.
      cbn [read has_q1]. rewrite S2, S1, S3. cbn [orb negb]. unfold read_token. rewrite S4, Hne.
      cbn [rd_lookup rd_isflag rdecl_of]. rewrite Hl, Hb. cbn [List.app erase_all erase]. rewrite IH1.
      split; [reflexivity|]. now rewrite (q1_token_long _ S4), IH2.
    - (* --name value *)
      destruct (long_shape D o n Hl Hlong Hne []) as (S1 & S2 & S3 & S4). rewrite app_nil_r in *.
      cbn [read has_q1]. rewrite S2, S1, S3. cbn [orb negb hd_error]. unfold read_token. rewrite S4, Hne.
      cbn [rd_lookup rd_isflag rdecl_of]. rewrite Hl, Hb, Hd. cbn [List.app erase_all erase]. rewrite IH1.
      split; [reflexivity|]. rewrite (q1_token_long _ S4). cbn [orb has_q1].
      rewrite (not_dashed_not_dd v Hd), (q1_token_not_dashed v Hd). exact IH2.
    - (* -x=value *)
      pose proof (letter_not_dash D Hnodd Hnoeq x o Hl) as Hx.
      destruct (short_shape x Hx (c_eq :: v)) as (S1 & S2 & S3 & S4).
      cbn [read has_q1]. rewrite S2, S1, S3. cbn [orb negb]. unfold read_token. rewrite S4, Ascii.eqb_refl.
      cbn [rd_lookup rd_isflag rdecl_of]. rewrite Hl. destruct v as [|e v']; [congruence|].
      cbn [List.app erase_all erase]. rewrite IH1. split; [reflexivity|].
      assert (Q : q1_token RD (c_dash :: x :: c_eq :: e :: v') = false).
      { rewrite q1_token_fold, S4. cbn [andb negb q1_walk]. rewrite (letter_not_eq D Hnoeq x o Hl).
        cbn [rd_lookup rd_isflag rdecl_of]. rewrite Hl. destruct (oi_isbool D o); [|reflexivity].
        cbn [q1_walk]. now rewrite Ascii.eqb_refl. }
      now rewrite Q, IH2.
    - (* -abc *)
      assert (Hfirst : match fs with c :: _ => Ascii.eqb c c_dash = false | [] => False end).
      { pose proof (flags_first D Hnodd Hnoeq fs us [] Hf (or_intror Hnf)) as X. now rewrite app_nil_r in X. }
      destruct (fold_shape fs Hfirst) as (S1 & S2 & S3 & S4).
      assert (Hso : second_ok fs).
      { pose proof (flags_second_ok D Hnoeq fs us [] Hf I (or_intror I)) as X. rewrite app_nil_r in X. apply X. now destruct fs. }
      cbn [read has_q1]. rewrite S2, S1, S3. cbn [orb negb]. rewrite (read_token_fold fs _ Hnf Hso S4).
      destruct (read_letters_flags fs us Hf [] (hd_error rest) false []
                  (fun src => ex_intro _ [] (conj eq_refl eq_refl)) [c_dash :: fs]) as (syms' & E & W).
      rewrite app_nil_r in E, W. rewrite E. rewrite (erase_all_app_some _ _ _ _ W IH1). split; [reflexivity|].
      rewrite q1_token_fold, S4, (q1_walk_flags_end fs us Hf 1). exact IH2.
    - (* -abxVALUE *)
      assert (Hxd : Ascii.eqb x c_dash = false) by (now apply (letter_not_dash D Hnodd Hnoeq) with o).
      assert (Hfirst : match fs ++ x :: v with c :: _ => Ascii.eqb c c_dash = false | [] => False end)
        by (apply (flags_first D Hnodd Hnoeq fs us (x :: v) Hf); now left).
      destruct (fold_shape _ Hfirst) as (S1 & S2 & S3 & S4).
      assert (Hso : second_ok (fs ++ x :: v)).
      { apply (flags_second_ok D Hnoeq fs us (x :: v) Hf); [destruct v; [exact I | exact Hq] | now right |].
        destruct fs; [exact I | now apply (letter_not_eq D Hnoeq) with o]. }
      cbn [read has_q1]. rewrite S2, S1, S3. cbn [orb negb].
      rewrite (read_token_fold (fs ++ x :: v) _ ltac:(destruct fs; discriminate) Hso S4).
      assert (Htl : forall src, exists syms, read_letters RD (x :: v) (hd_error rest) src = Some (syms, false) /\ erase_all syms = Some [VO o v]).
      { intros src. cbn [read_letters rd_lookup rd_isflag rdecl_of]. rewrite Hl, Hb. destruct v as [|e v']; [congruence|].
        eexists. split; reflexivity. }
      destruct (read_letters_flags fs us Hf (x :: v) (hd_error rest) false [VO o v] Htl [c_dash :: fs ++ x :: v]) as (syms' & E & W).
      rewrite E. rewrite (erase_all_app_some _ _ _ _ W IH1). rewrite <- app_assoc. split; [reflexivity|].
      rewrite q1_token_fold, S4, (q1_walk_flags fs us Hf x o v 1 Hl Hb). cbn [negb andb].
      assert (X : match v with e :: _ => Ascii.eqb e c_eq | [] => false end = false) by (destruct v; [reflexivity | exact Hq]).
      rewrite X, andb_false_r. exact IH2.
    - (* -abx VALUE *)
      assert (Hxd : Ascii.eqb x c_dash = false) by (now apply (letter_not_dash D Hnodd Hnoeq) with o).
      assert (Hfirst : match fs ++ [x] with c :: _ => Ascii.eqb c c_dash = false | [] => False end)
        by (apply (flags_first D Hnodd Hnoeq fs us [x] Hf); now left).
      destruct (fold_shape _ Hfirst) as (S1 & S2 & S3 & S4).
      assert (Hso : second_ok (fs ++ [x])).
      { apply (flags_second_ok D Hnoeq fs us [x] Hf); [exact I | now right |].
        destruct fs; [exact I | now apply (letter_not_eq D Hnoeq) with o]. }
      cbn [read has_q1]. rewrite S2, S1, S3. cbn [orb negb hd_error].
      rewrite (read_token_fold (fs ++ [x]) _ ltac:(destruct fs; discriminate) Hso S4).
      assert (Htl : forall src, exists syms, read_letters RD [x] (Some v) src = Some (syms, true) /\ erase_all syms = Some [VO o v]).
      { intros src. cbn [read_letters rd_lookup rd_isflag rdecl_of]. rewrite Hl, Hb, Hd. eexists. split; reflexivity. }
      destruct (read_letters_flags fs us Hf [x] (Some v) true [VO o v] Htl [c_dash :: fs ++ [x]]) as (syms' & E & W).
      rewrite E. rewrite (erase_all_app_some _ _ _ _ W IH1). rewrite <- app_assoc. split; [reflexivity|].
      rewrite q1_token_fold, S4, (q1_walk_flags fs us Hf x o [] 1 Hl Hb). cbn [negb andb]. rewrite andb_false_r. cbn [orb has_q1].
      rewrite (not_dashed_not_dd v Hd), (q1_token_not_dashed v Hd). exact IH2.
  Qed.

  (** [Reads] is exactly the clean readings of [RefSem.read] *)
  Corollary reads_iff_view a u : Reads D a u <-> view D a = Some u.
  Proof.
    split; [|apply view_reads]. intros H. destruct (reads_view a u H) as [E Q]. unfold view. now rewrite Q.
  Qed.
End Read.

(** * Command level: decidable hypotheses *)
From MowCli Require Import Values Flow Cmd NfaProofs TermProofs CompileProofs.

Lemma no_dd_graph_spec g : no_dd_graph g = true -> forall s t, ~ In (LDD, t) (edges g s).
Proof.
  unfold no_dd_graph, edges. intros H s t Hin. rewrite forallb_forall in H.
  destruct (Nat.lt_ge_cases s (length (g_tr g))) as [Hlt|Hge].
  - specialize (H (nth s (g_tr g) []) (nth_In _ _ Hlt)). rewrite forallb_forall in H.
    specialize (H _ Hin). discriminate.
  - rewrite nth_overflow in Hin by assumption. destruct Hin.
Qed.

Section CmdLevel.
  Variable parse_float : str -> option str.

  (** Two command lines with the same clean reading are parsed alike by a compiled command whose
      spec has no "--": same verdict, same values in every variable *)
  Theorem same_view_same_parse opts args spec i a1 a2 u :
    compile opts args spec = IOk i ->
    sane (optinfo_of opts) = true -> no_dd_graph (i_graph i) = true ->
    view (optinfo_of opts) a1 = Some u -> view (optinfo_of opts) a2 = Some u ->
    fsm_parse parse_float i a1 = fsm_parse parse_float i a2.
  Proof.
    intros Hc Hsane Hnd V1 V2. destruct (compile_total opts args spec) as [_ Hok].
    destruct (Hok i Hc) as (Hw & Hs & Ho & _). unfold fsm_parse. rewrite Ho.
    unfold sane in Hsane.
    destruct (oi_lookup (optinfo_of opts) s_dd) eqn:E1; [discriminate|].
    destruct (oi_lookup (optinfo_of opts) [c_dash; c_eq]) eqn:E2; [discriminate|].
    rewrite (same_reading_same_result (optinfo_of opts) E1 E2 (i_graph i) (i_start i) a1 a2 u); auto.
    - now apply no_dd_graph_spec.
    - now apply view_reads.
    - now apply view_reads.
  Qed.

  Lemma no_dd_b_spec p : no_dd_b p = true -> no_dd p.
  Proof.
    unfold no_dd_b, no_dd. rewrite forallb_forall, Forall_forall. intros H x Hx ->. specialize (H _ Hx). discriminate.
  Qed.

  (** and two command lines whose readings differ by the order of two adjacent occurrences of
      different options *)
  Theorem swapped_view_same_parse opts args spec i a1 a2 p o v o' v' w :
    compile opts args spec = IOk i ->
    sane (optinfo_of opts) = true -> no_dd_graph (i_graph i) = true ->
    no_dd_b p = true -> Nat.eqb o o' = false ->
    view (optinfo_of opts) a1 = Some (p ++ VO o v :: VO o' v' :: w) ->
    view (optinfo_of opts) a2 = Some (p ++ VO o' v' :: VO o v :: w) ->
    fsm_parse parse_float i a1 = fsm_parse parse_float i a2.
  Proof.
    intros Hc Hsane Hnd Hp Hne V1 V2. destruct (compile_total opts args spec) as [_ Hok].
    destruct (Hok i Hc) as (Hw & Hs & Ho & _). unfold fsm_parse. rewrite Ho.
    unfold sane in Hsane.
    destruct (oi_lookup (optinfo_of opts) s_dd) eqn:E1; [discriminate|].
    destruct (oi_lookup (optinfo_of opts) [c_dash; c_eq]) eqn:E2; [discriminate|].
    rewrite (swap_same_result (optinfo_of opts) E1 E2 (i_graph i) (i_start i) a1 a2 p o v o' v' w); auto.
    - now apply no_dd_graph_spec.
    - now apply no_dd_b_spec.
    - now apply view_reads.
    - now apply view_reads.
  Qed.
End CmdLevel.
