(** Termination (C03): every matcher either leaves the configuration unchanged or strictly
    decreases it; the group matcher never exhausts its fuel; State.apply never exhausts the fuel
    [apply_fuel] on a well-formed graph, whatever environment variables back the options. *)
From MowCli Require Import Base Nfa Matchers Apply ApplyProofs.

Lemma args_size_cons x a : args_size (x :: a) = length x + 1 + args_size a.
Proof. reflexivity. Qed.
Lemma args_size_nil : args_size [] = 0.
Proof. reflexivity. Qed.
Arguments args_size : simpl never.

Ltac sz := repeat rewrite args_size_cons in *; repeat rewrite args_size_nil in *; cbn [length] in *; try lia.

Lemma args_size_app a b : args_size (a ++ b) = args_size a + args_size b.
Proof. induction a as [|x a IH]; cbn [List.app]; sz. Qed.

Lemma args_size_rev a : args_size (rev a) = args_size a.
Proof. induction a as [|x a IH]; cbn [rev]; [reflexivity|]. rewrite args_size_app, IH. sz. Qed.

Lemma args_size_rev_append pre tl : args_size (rev_append pre tl) = args_size pre + args_size tl.
Proof. rewrite rev_append_rev, args_size_app, args_size_rev. reflexivity. Qed.

Section Progress.
  Variable D : optinfo.
  Variable one : nat.

  Lemma residue_size newrem tail : args_size (residue newrem tail) <= length newrem + 2 + args_size tail.
  Proof. unfold residue. destruct newrem; sz. Qed.

  (** a successful single-token match replaces [arg :: after] by something strictly smaller *)
  Lemma match_long_decreases arg after v tl :
    match_long D one arg after = Matched v tl -> args_size tl < args_size (arg :: after).
  Proof.
    unfold match_long. destruct (split_eq arg) as [name vo].
    destruct (oi_lookup D name) as [o|]; [|discriminate].
    destruct vo as [value|].
    - destruct (negb (Nat.eqb o one)); [discriminate|]. destruct value; [discriminate|].
      intros [= <- <-]. sz.
    - destruct (oi_isbool D o).
      + destruct (negb (Nat.eqb o one)); [discriminate|]. intros [= <- <-]. sz.
      + destruct after as [|value after']; [discriminate|].
        destruct (negb (Nat.eqb o one)); [discriminate|]. destruct (dashed value); [discriminate|].
        intros [= <- <-]. sz.
  Qed.

  Lemma short_loop_decreases suf : forall pre after v tl,
    short_loop D one pre suf after = Matched v tl ->
    args_size tl < length pre + length suf + 2 + args_size after.
  Proof.
    induction suf as [|c value IH]; intros pre after v tl; cbn [short_loop]; [discriminate|].
    destruct (oi_lookup D [c_dash; c]) as [o|]; [|discriminate].
    destruct (oi_isbool D o).
    - destruct (negb (Nat.eqb o one)).
      + intros H. apply IH in H. rewrite app_length in H. sz.
      + destruct (dashed (pre ++ value)); [discriminate|].
        intros [= <- <-]. pose proof (residue_size (pre ++ value) after) as Hr.
        rewrite app_length in Hr. sz.
    - destruct value as [|v0 value].
      + destruct after as [|v1 after']; [discriminate|].
        destruct (negb (Nat.eqb o one)); [discriminate|]. destruct (dashed v1); [discriminate|].
        intros [= <- <-]. pose proof (residue_size pre after') as Hr. sz.
      + destruct (negb (Nat.eqb o one)); [discriminate|].
        intros [= <- <-]. pose proof (residue_size pre after) as Hr. sz.
  Qed.

  Lemma match_short_decreases arg after v tl :
    match_short D one arg after = Matched v tl -> args_size tl < args_size (arg :: after).
  Proof.
    unfold match_short. destruct arg as [|d [|n rest]]; try discriminate.
    assert (Hloop : short_loop D one [] (n :: rest) after = Matched v tl ->
                    args_size tl < args_size ((d :: n :: rest) :: after)).
    { intros H. apply short_loop_decreases in H. sz. }
    destruct rest as [|e value]; [exact Hloop|].
    destruct (Ascii.eqb e c_eq); [|exact Hloop].
    destruct (oi_lookup D [d; n]) as [o|]; [|discriminate].
    destruct (negb (Nat.eqb o one)); [discriminate|]. destruct value; [discriminate|].
    intros [= <- <-]. sz.
  Qed.

  Lemma scan_decreases rest : forall pre v rem,
    scan D one pre rest = Some (v, rem) -> args_size rem < args_size pre + args_size rest.
  Proof.
    assert (Hn : forall n rest, length rest <= n -> forall pre v rem,
                 scan D one pre rest = Some (v, rem) -> args_size rem < args_size pre + args_size rest).
    { induction n as [|n IHn]; intros rest0 Hlen pre v rem.
      - destruct rest0; [discriminate | cbn in Hlen; lia].
      - destruct rest0 as [|arg after]; [discriminate|]. cbn [scan]. cbn [length] in Hlen.
        destruct (str_eqb arg s_dash); [discriminate|]. destruct (str_eqb arg s_dd); [discriminate|].
        destruct (dashed arg); [|discriminate].
        destruct (if prefix_b s_dd arg then match_long D one arg after else match_short D one arg after)
          as [v0 tl|[|[|k]]] eqn:Hm.
        + intros [= <- <-]. rewrite args_size_rev_append.
          assert (args_size tl < args_size (arg :: after)).
          { destruct (prefix_b s_dd arg); [now apply match_long_decreases in Hm | now apply match_short_decreases in Hm]. }
          lia.
        + discriminate.
        + intros H. apply IHn in H; [|lia]. sz.
        + destruct after as [|a2 after2]; [discriminate|]. intros H. apply IHn in H; [|cbn in Hlen; lia].
          sz. }
    intros pre v rem. now apply (Hn (length rest)).
  Qed.

  (** the single-option matcher: the environment fallback changes nothing, a real match strictly
      decreases the size; the flag is never touched *)
  Lemma m_opt_progress args ro rem ro' bs :
    m_opt D one args ro = Some (rem, ro', bs) ->
    ro' = ro /\ ((rem = args /\ bs = []) \/ (args_size rem < args_size args /\ bs <> [])).
  Proof.
    unfold m_opt.
    assert (Hfb : (if oi_fromenv D one then Some (args, ro, []) else None) = Some (rem, ro', bs) ->
                  ro' = ro /\ ((rem = args /\ bs = []) \/ (args_size rem < args_size args /\ bs <> []))).
    { destruct (oi_fromenv D one); [|discriminate]. intros [= <- <- <-]. auto. }
    destruct args as [|a args]; [exact Hfb|]. destruct ro; [exact Hfb|].
    destruct (scan D one [] (a :: args)) as [[v rem0]|] eqn:Hs; [|exact Hfb].
    intros [= <- <- <-]. apply scan_decreases in Hs. split; [reflexivity|]. right. split; [sz | discriminate].
  Qed.
End Progress.

Section GroupTerm.
  Variable D : optinfo.

  (** options.try: a real match decreases the size, an environment-only match excludes one more
      listed option *)
  Lemma try_consume_spec opts : forall excluded args rem bs,
    try_consume D opts excluded args = Some (rem, bs) ->
    exists o ro', In o opts /\ mem_nat o excluded = false /\ bs <> [] /\ m_opt D o args false = Some (rem, ro', bs).
  Proof.
    induction opts as [|o opts IH]; intros excluded args rem bs; cbn [try_consume]; [discriminate|].
    destruct (mem_nat o excluded) eqn:Hm.
    - intros H. destruct (IH _ _ _ _ H) as (o' & ro' & Hin & X). exists o', ro'. split; [now right | exact X].
    - destruct (m_opt D o args false) as [[[rem0 ro0] [|b0 bs0]]|] eqn:Ho.
      + intros H. destruct (IH _ _ _ _ H) as (o' & ro' & Hin & X). exists o', ro'. split; [now right | exact X].
      + intros [= <- <-]. exists o, ro0. repeat split; auto; [now left | discriminate].
      + intros H. destruct (IH _ _ _ _ H) as (o' & ro' & Hin & X). exists o', ro'. split; [now right | exact X].
  Qed.

  Lemma try_env_spec opts : forall excluded args o,
    try_env D opts excluded args = Some o ->
    In o opts /\ mem_nat o excluded = false /\ oi_fromenv D o = true /\
    exists rem ro', m_opt D o args false = Some (rem, ro', []).
  Proof.
    induction opts as [|p opts IH]; intros excluded args o; cbn [try_env]; [discriminate|].
    destruct (mem_nat p excluded) eqn:Hm.
    - intros H. destruct (IH _ _ _ H) as (Hin & X). split; [now right | exact X].
    - destruct (m_opt D p args false) as [[[rem0 ro0] [|b0 bs0]]|] eqn:Ho.
      + destruct (oi_fromenv D p) eqn:He.
        * intros [= <-]. repeat split; auto; [now left | eauto].
        * intros H. destruct (IH _ _ _ H) as (Hin & X). split; [now right | exact X].
      + intros H. destruct (IH _ _ _ H) as (Hin & X). split; [now right | exact X].
      + intros H. destruct (IH _ _ _ H) as (Hin & X). split; [now right | exact X].
  Qed.

  Lemma try_opts_progress opts : forall excluded args rem bs ex',
    try_opts D opts excluded args = Some (rem, bs, ex') ->
    (args_size rem < args_size args /\ ex' = excluded) \/
    (rem = args /\ bs = [] /\ exists o, In o opts /\ mem_nat o excluded = false /\ ex' = o :: excluded).
  Proof.
    intros excluded args rem bs ex'. unfold try_opts.
    destruct (try_consume D opts excluded args) as [[rem0 bs0]|] eqn:Hc.
    - intros [= <- <- <-]. destruct (try_consume_spec _ _ _ _ _ Hc) as (o & ro' & Hin & Hm & Hne & Ho).
      destruct (m_opt_progress _ _ _ _ _ _ _ Ho) as [_ [[-> ->]|[Hlt _]]]; [congruence|]. now left.
    - destruct (try_env D opts excluded args) as [o|] eqn:He; [|discriminate].
      intros [= <- <- <-]. destruct (try_env_spec _ _ _ _ He) as (Hin & Hm & _).
      right. repeat split; auto. exists o. auto.
  Qed.

  (** number of listed options not yet excluded *)
  Definition free (opts excluded : list nat) : nat :=
    length (filter (fun o => negb (mem_nat o excluded)) (nodup Nat.eq_dec opts)).

  Lemma mem_nat_In n l : mem_nat n l = true <-> In n l.
  Proof.
    induction l as [|x l IH]; cbn; [split; [discriminate | tauto]|].
    rewrite orb_true_iff, IH, Nat.eqb_eq. split; intros [H|H]; auto.
  Qed.

  Lemma filter_length_mono {A} (p q : A -> bool) l :
    (forall x, q x = true -> p x = true) -> length (filter q l) <= length (filter p l).
  Proof.
    intros H. induction l as [|x l IH]; cbn [filter]; [lia|].
    destruct (q x) eqn:Hq; [rewrite (H x Hq); cbn [length]; lia|]. destruct (p x); cbn [length]; lia.
  Qed.

  Lemma filter_length_lt {A} (p q : A -> bool) l o :
    (forall x, q x = true -> p x = true) -> In o l -> p o = true -> q o = false ->
    length (filter q l) < length (filter p l).
  Proof.
    intros H. induction l as [|x l IH]; intros Hin Hp Hq; [destruct Hin|]. cbn [filter].
    destruct Hin as [->|Hin].
    - rewrite Hp, Hq. cbn [length]. pose proof (filter_length_mono p q l H). lia.
    - specialize (IH Hin Hp Hq). destruct (q x) eqn:Hqx; [rewrite (H x Hqx); cbn [length]; lia|].
      destruct (p x); cbn [length]; lia.
  Qed.

  Lemma free_decreases opts excluded o :
    In o opts -> mem_nat o excluded = false -> free opts (o :: excluded) < free opts excluded.
  Proof.
    unfold free. intros Hin Hne.
    apply filter_length_lt with (o := o).
    - intros x Hx. apply negb_true_iff in Hx. cbn [mem_nat] in Hx. apply orb_false_iff in Hx as [_ Hx].
      now rewrite Hx.
    - now apply nodup_In.
    - now rewrite Hne.
    - cbn [mem_nat]. now rewrite Nat.eqb_refl.
  Qed.

  (** the loop of options.Match never runs out of the fuel [group_fuel] *)
  Lemma group_loop_total fuel : forall opts excluded args acc,
    args_size args + free opts excluded < fuel ->
    group_loop D fuel opts excluded args acc <> None.
  Proof.
    induction fuel as [|f IH]; intros opts excluded args acc Hf; [lia|]. cbn [group_loop].
    unfold try_. destruct args as [|a args]; [discriminate|].
    destruct (try_opts D opts excluded (a :: args)) as [[[rem bs] ex']|] eqn:Ht; [|discriminate].
    apply IH. destruct (try_opts_progress _ _ _ _ _ _ Ht) as [[Hlt ->]|(-> & _ & o & Hin & Hne & ->)].
    - lia.
    - pose proof (free_decreases opts excluded o Hin Hne). lia.
  Qed.

  Lemma free_le opts excluded : free opts excluded <= length opts.
  Proof.
    unfold free.
    assert (Hf : forall (p : nat -> bool) l, length (filter p l) <= length l).
    { intros p l. induction l as [|x l IH]; cbn; [lia|]. destruct (p x); cbn; lia. }
    etransitivity; [apply Hf|].
    clear. induction opts as [|x l IH]; cbn; [lia|]. destruct (in_dec Nat.eq_dec x l); cbn; lia.
  Qed.

  (** the group matcher: failure is never an exhausted loop; the flag is never touched; it either
      changes nothing (environment only) or strictly decreases the size *)
  Theorem m_group_progress opts args ro rem ro' bs :
    m_group D opts args ro = Some (rem, ro', bs) ->
    ro' = ro /\ (rem = args \/ args_size rem < args_size args).
  Proof.
    unfold m_group. destruct (try_ D opts [] args ro) as [[[rem0 bs0] ex]|] eqn:Ht; [|discriminate].
    destruct (group_loop D (group_fuel opts args) opts ex rem0 bs0) as [[rem1 bs1]|] eqn:Hg; [|discriminate].
    intros [= <- <- <-]. split; [reflexivity|].
    assert (H0 : rem0 = args \/ args_size rem0 < args_size args).
    { unfold try_ in Ht. destruct args as [|a args]; [discriminate|]. destruct ro; [discriminate|].
      destruct (try_opts_progress _ _ _ _ _ _ Ht) as [[Hlt _]|(-> & _)]; auto. }
    assert (Hl : forall fuel ex r b r1 b1, group_loop D fuel opts ex r b = Some (r1, b1) -> r1 = r \/ args_size r1 < args_size r).
    { induction fuel as [|f IH]; intros ex0 r b r1 b1; cbn [group_loop]; [discriminate|].
      destruct (try_ D opts ex0 r false) as [[[r2 b2] ex2]|] eqn:Ht2.
      - intros H. apply IH in H. unfold try_ in Ht2. destruct r as [|a r]; [discriminate|].
        destruct (try_opts_progress _ _ _ _ _ _ Ht2) as [[Hlt _]|(-> & _)]; [right; destruct H as [->|H]; lia | exact H].
      - intros [= <- <-]. now left. }
    apply Hl in Hg. destruct H0 as [->|H0]; destruct Hg as [->|Hg]; auto; right; lia.
  Qed.

  Theorem m_group_never_out_of_fuel opts args :
    match try_ D opts [] args false with
    | Some (rem, bs, ex) => group_loop D (group_fuel opts args) opts ex rem bs <> None
    | None => True
    end.
  Proof.
    destruct (try_ D opts [] args false) as [[[rem bs] ex]|] eqn:Ht; [|exact I].
    apply group_loop_total. unfold group_fuel.
    unfold try_ in Ht. destruct args as [|a args]; [discriminate|].
    pose proof (free_le opts ex).
    destruct (try_opts_progress _ _ _ _ _ _ Ht) as [[Hlt _]|(-> & _)]; lia.
  Qed.
End GroupTerm.

(** * State.apply terminates within [apply_fuel] *)
Section ApplyTerm.
  Variable D : optinfo.
  Variable g : graph.

  Definition wf_graph : Prop := forall s l t, In (l, t) (edges g s) -> t < nstates g.

  (** the configuration measure: twice the size of the remaining arguments, plus one while options
      are not ended *)
  Definition msr (args : list str) (ro : bool) : nat := 2 * args_size args + (if ro then 0 else 1).

  Lemma strs_eqb_true a b : strs_eqb a b = true <-> a = b.
  Proof. apply strs_eqb_eq. Qed.

  Lemma run_matcher_progress l a r rem ro' bs :
    run_matcher D l a r = Some (rem, ro', bs) -> (rem = a /\ ro' = r) \/ msr rem ro' < msr a r.
  Proof.
    destruct l as [|i|o|is|]; cbn [run_matcher].
    - intros [= <- <- <-]. now left.
    - unfold m_arg. destruct a as [|x rest]; [discriminate|].
      destruct (negb r && dashed x && negb (str_eqb x s_dash)); [discriminate|].
      intros [= <- <- <-]. right. unfold msr. sz.
    - intros H. destruct (m_opt_progress _ _ _ _ _ _ _ H) as [-> [[-> _]|[Hlt _]]]; [now left|].
      right. unfold msr. lia.
    - intros H. destruct (m_group_progress _ _ _ _ _ _ _ H) as [-> [->|Hlt]]; [now left|].
      right. unfold msr. lia.
    - unfold m_dd. intros [= <- <- <-]. destruct r; [now left|]. right. unfold msr. lia.
  Qed.

  Lemma strip_msr args ro : msr (fst (strip args ro)) (snd (strip args ro)) <= msr args ro.
  Proof.
    unfold strip. destruct args as [|a rest]; [cbn; lia|].
    destruct (negb ro && str_eqb a s_dd); cbn [fst snd]; [|lia]. unfold msr. destruct ro; sz.
  Qed.

  Lemma strip_idem args ro : strip (fst (strip args ro)) (snd (strip args ro)) = strip args ro.
  Proof.
    unfold strip at 2 3 4. destruct args as [|a rest]; [reflexivity|].
    destruct (negb ro && str_eqb a s_dd) eqn:H; cbn [fst snd].
    - apply strip_ro_true.
    - unfold strip. now rewrite H.
  Qed.

  Lemma strip_length args ro :
    length (fst (strip args ro)) = length args -> strip args ro = (args, ro).
  Proof.
    unfold strip. destruct args as [|a rest]; [reflexivity|].
    destruct (negb ro && str_eqb a s_dd); cbn [fst length]; [lia | reflexivity].
  Qed.

  Definition Good (seen : list nat) : Prop := NoDup seen /\ forall x, In x seen -> x < nstates g.

  Lemma good_length seen : Good seen -> length seen <= nstates g.
  Proof.
    intros [Hnd Hlt].
    assert (Hincl : incl seen (List.seq 0 (nstates g))).
    { intros x Hx. apply in_seq. specialize (Hlt x Hx). lia. }
    pose proof (NoDup_incl_length Hnd Hincl) as H. now rewrite seq_length in H.
  Qed.

  Lemma collect_targets s a r t rem ro' bs :
    wf_graph -> In (t, rem, ro', bs) (collect D g s a r) ->
    t < nstates g /\ ((rem = a /\ ro' = r) \/ msr rem ro' < msr a r).
  Proof.
    intros Hwf Hin. destruct (collect_sound _ _ _ _ _ _ _ _ _ Hin) as (l & He & Hr).
    split; [eapply Hwf; eauto | eapply run_matcher_progress; eauto].
  Qed.

  Definition N := nstates g.

  (** the specification of a call that is given enough fuel *)
  Definition terminates (fuel : nat) : Prop :=
    forall s args ro seen,
      s < N -> Good seen -> ~ In s seen ->
      msr args ro * (N + 1) + (N - length seen) < fuel ->
      fst (apply D g fuel s args ro seen) <> AFuel /\
      (strip args ro = (args, ro) ->
       Good (snd (apply D g fuel s args ro seen)) /\ incl (s :: seen) (snd (apply D g fuel s args ro seen))).

  Lemma try_matches_terminates f s args1 ro1 :
    wf_graph -> terminates f ->
    strip args1 ro1 = (args1, ro1) ->
    forall ms, (forall m, In m ms -> In m (collect D g s args1 ro1)) ->
    forall seen, Good seen -> In s seen ->
      msr args1 ro1 * (N + 1) + (N - length seen) < f ->
      fst (try_matches (apply D g f) args1 ro1 ms seen) <> AFuel /\
      Good (snd (try_matches (apply D g f) args1 ro1 ms seen)) /\
      incl seen (snd (try_matches (apply D g f) args1 ro1 ms seen)).
  Proof.
    intros Hwf Hrec Hstr. induction ms as [|[[[t rem] ro'] bs] ms IH]; intros Hall seen Hg Hs Hf; cbn [try_matches].
    - cbn [fst snd]. split; [discriminate|]. split; [exact Hg | apply incl_refl].
    - assert (Hin : In (t, rem, ro', bs) (collect D g s args1 ro1)) by (apply Hall; now left).
      destruct (collect_targets _ _ _ _ _ _ _ Hwf Hin) as [Ht Hprog].
      assert (Hall' : forall m, In m ms -> In m (collect D g s args1 ro1)) by (intros m Hm; apply Hall; now right).
      destruct (strs_eqb rem args1 && Bool.eqb ro' ro1) eqn:Hst.
      + apply andb_true_iff in Hst as [H1 H2]. apply strs_eqb_true in H1. apply eqb_prop in H2. subst rem ro'.
        destruct (mem_nat t seen) eqn:Hm; [now apply IH|].
        assert (Hnin : ~ In t seen) by (intros Hc; apply mem_nat_In in Hc; congruence).
        assert (Hlen : length seen < N).
        { destruct Hg as [Hnd Hlt].
          assert (Hg2 : Good (t :: seen)) by (split; [now constructor | intros x [<-|Hx]; auto]).
          apply good_length in Hg2. cbn in Hg2. unfold N. lia. }
        destruct (Hrec t args1 ro1 seen Ht Hg Hnin) as [Hnf Hgood]; [lia|].
        specialize (Hgood Hstr). destruct Hgood as [Hg' Hincl].
        destruct (apply D g f t args1 ro1 seen) as [[bs'| |] seen'] eqn:Ha; cbn [fst snd] in *.
        * split; [discriminate|]. split; [exact Hg'|]. intros x Hx. apply Hincl. now right.
        * assert (Hle : length seen <= length seen').
          { apply NoDup_incl_length; [apply Hg|]. intros x Hx. apply Hincl. now right. }
          destruct (IH Hall' seen' Hg') as (Ha1 & Ha2 & Ha3); [apply Hincl; right; exact Hs | lia |].
          split; [exact Ha1|]. split; [exact Ha2|]. intros x Hx. apply Ha3, Hincl. now right.
        * congruence.
      + assert (Hlt : msr rem ro' < msr args1 ro1).
        { destruct Hprog as [[-> ->]|Hlt]; [|exact Hlt].
          rewrite (proj2 (strs_eqb_true args1 args1) eq_refl), eqb_reflx in Hst. discriminate. }
        destruct (Hrec t rem ro' [] Ht) as [Hnf _].
        { split; [constructor | intros x []]. }
        { intros []. }
        { cbn [length]. nia. }
        destruct (apply D g f t rem ro' []) as [[bs'| |] seen'] eqn:Ha; cbn [fst snd] in *.
        * split; [discriminate|]. split; [exact Hg | apply incl_refl].
        * now apply IH.
        * congruence.
  Qed.

  Theorem apply_terminates : wf_graph -> forall fuel, terminates fuel.
  Proof.
    intros Hwf. induction fuel as [|f IH]; intros s args ro seen Hs Hg Hnin Hf; [lia|].
    cbn [apply]. destruct (strip args ro) as [args1 ro1] eqn:Hstrip.
    set (seen1 := s :: (if Nat.eqb (length args1) (length args) then seen else [])).
    assert (Hm1 : msr args1 ro1 <= msr args ro).
    { pose proof (strip_msr args ro) as H. now rewrite Hstrip in H. }
    assert (Hg1 : Good seen1 /\ (strip args ro = (args, ro) -> seen1 = s :: seen)).
    { unfold seen1. destruct (Nat.eqb (length args1) (length args)) eqn:Hl.
      - split; [|reflexivity]. destruct Hg as [Hnd Hlt]. split; [now constructor | intros x [<-|Hx]; auto].
      - split; [split; [repeat constructor; intros [] | intros x [<-|[]]; exact Hs]|].
        intros He. rewrite He in Hstrip. injection Hstrip as <- <-. rewrite Nat.eqb_refl in Hl. discriminate. }
    destruct Hg1 as [Hg1 Hs1]. rewrite Hstrip in Hs1.
    destruct (match args1 with [] => terminal g s | _ :: _ => false end).
    - cbn [fst snd]. split; [discriminate|]. intros He. rewrite (Hs1 He). split; [now rewrite <- (Hs1 He) | apply incl_refl].
    - assert (Hstr1 : strip args1 ro1 = (args1, ro1)).
      { pose proof (strip_idem args ro) as H. now rewrite Hstrip in H. }
      assert (Hlen1 : msr args1 ro1 * (N + 1) + (N - length seen1) < f).
      { pose proof (good_length _ Hg1) as Hgl. fold N in Hgl. revert Hgl.
        unfold seen1. destruct (Nat.eqb (length args1) (length args)) eqn:Hl; intros Hgl.
        - cbn [length] in *. assert (msr args1 ro1 * (N + 1) <= msr args ro * (N + 1)) by nia. lia.
        - (* a "--" was dropped: strictly smaller measure *)
          assert (Hlt : msr args1 ro1 < msr args ro).
          { unfold strip in Hstrip. destruct args as [|a rest]; [injection Hstrip as <- <-; rewrite Nat.eqb_refl in Hl; discriminate|].
            destruct (negb ro && str_eqb a s_dd) eqn:Hc.
            - injection Hstrip as <- <-. apply andb_true_iff in Hc as [Hr _]. apply negb_true_iff in Hr. subst ro.
              unfold msr. sz.
            - injection Hstrip as <- <-. rewrite Nat.eqb_refl in Hl. discriminate. }
          cbn [length]. nia. }
      destruct (try_matches_terminates f s args1 ro1 Hwf IH Hstr1 (collect D g s args1 ro1) (fun m H => H) seen1 Hg1)
        as (H1 & H2 & H3); [unfold seen1; now left | exact Hlen1 |].
      split; [exact H1|]. intros He. split; [exact H2|]. now rewrite <- (Hs1 He).
  Qed.

  (** the fuel handed out by [fsm_apply] is enough: parsing a command line never ends out of fuel *)
  Theorem fsm_apply_total start args :
    wf_graph -> start < nstates g -> fsm_apply D g start args <> AFuel.
  Proof.
    intros Hwf Hs. unfold fsm_apply.
    apply (apply_terminates Hwf (apply_fuel g args) start args false []); auto.
    - split; [constructor | intros x []].
    - unfold apply_fuel, msr, N. cbn [length]. nia.
  Qed.
End ApplyTerm.
