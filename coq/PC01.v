(** C01 — a command line is accepted iff it is a sentence of the spec's language.
    PARTIAL. Proved for every graph, command line and environment: (soundness of the search) whatever
    State.apply accepts is an accepting run of the compiled automaton ([Acc]: at each state a leading
    "--" is dropped once, a transition is taken when its matcher succeeds on what is left, the run
    ends in a terminal state with nothing left), the search always ends (C03), and (backtracking
    completeness) it finds an accepting run whenever one exists: accepted iff the automaton has an
    accepting run; and Prepare keeps exactly the accepting runs of the Thompson automaton. NOT yet proved:
    that the automaton built by the Thompson construction has exactly the runs of the regular
    expression (first half of T1), and that matcher-level runs coincide with the sentences of the
    reference semantics of RefSem.v (T4). These are covered on every run by the check: the
    automaton of every generated spec is compared with the implementation's, and the implementation's
    verdict is compared with the reference semantics ([RefSem.r_match], an independent backtracking
    matcher over symbol sequences) on every claimed case. *)
From MowCli Require Import Base Parser Nfa Matchers Apply Values Flow Cmd RefSem ApplyProofs TermProofs NfaProofs CompleteProofs PrepareProofs.

Theorem C01_accepts_only_accepting_runs :
  forall D g start args bs,
    fsm_apply D g start args = AOk bs -> Acc D g start args false bs.
Proof. exact fsm_apply_sound. Qed.

Theorem C01_search_decides :
  forall D g start args,
    wf_graph g -> start < nstates g ->
    (exists bs, fsm_apply D g start args = AOk bs) \/ fsm_apply D g start args = AFail.
Proof.
  intros D g start args Hw Hs. pose proof (fsm_apply_total D g start args Hw Hs) as H.
  destruct (fsm_apply D g start args) as [bs| |]; [left; eauto | now right | congruence].
Qed.

(** backtracking completeness: whenever some accepting run exists — some assignment of the tokens to
    the transitions — the depth-first search with the visited set finds one, for command lines of
    any length, any graph, any environment *)
Theorem C01_search_complete :
  forall D g start args bs,
    wf_graph g -> start < nstates g ->
    Acc D g start args false bs -> exists b, fsm_apply D g start args = AOk b.
Proof. intros D g start args bs Hw. exact (fsm_apply_complete D g Hw start args bs). Qed.

(** hence: accepted iff the automaton has an accepting run *)
Theorem C01_accepted_iff_accepting_run :
  forall D g start args,
    wf_graph g -> start < nstates g ->
    ((exists b, fsm_apply D g start args = AOk b) <-> (exists bs, Acc D g start args false bs)).
Proof.
  intros D g start args Hw Hs. split.
  - intros [b Hb]. exists b. now apply fsm_apply_sound.
  - intros [bs Ha]. now apply (fsm_apply_complete D g Hw start args bs).
Qed.

(** Prepare — shortcut elimination in place, in depth-first order, with the D2 repair, then the
    priority sort — keeps exactly the accepting runs of the automaton it is given, from every state,
    for every command line and whatever the matchers do (soundness of dropping a shortcut to an
    already merged target included) *)
Theorem C01_prepare_preserves_runs :
  forall D start g g',
    wfg g -> wft g -> start < nstates g -> prepare start g = Some g' ->
    forall s args ro bs, Acc D g s args ro bs <-> Acc D g' s args ro bs.
Proof. exact prepare_same_runs. Qed.

Print Assumptions C01_accepts_only_accepting_runs.
Print Assumptions C01_prepare_preserves_runs.
Print Assumptions C01_search_complete.
Print Assumptions C01_accepted_iff_accepting_run.
Print Assumptions C01_search_decides.

Definition ex_decls : list decl :=
  [mkDecl true KBool (lit "a") [] [] false (VBool false) false;
   mkDecl true KBool (lit "b") [] [] false (VBool false) false;
   mkDecl false KStrings (lit "SRC") [] [] false (VStrs []) false;
   mkDecl false KString (lit "DST") [] [] false (VStr []) false].

Definition accepts (spec : str) (argv : list str) : bool :=
  match do_init (fun _ => None) (fun _ => []) ex_decls spec with
  | IOk i => match fsm_parse (fun _ => None) i argv with PAccept _ _ => true | _ => false end
  | _ => false
  end.

(** backtracking: SRC... DST on "a b c" *)
Example C01_backtracking_example :
  (accepts (lit "SRC... DST") [lit "a"; lit "b"; lit "c"], accepts (lit "SRC... DST") [lit "a"],
   accepts (lit "[-a] SRC") [lit "x"; lit "-a"], accepts (lit "-a SRC") [lit "-"; lit "-a"],
   accepts (lit "SRC") [lit "x"; lit "--"])
  = (true, false, false, false, true).
Proof. vm_compute. reflexivity. Qed.

(** K2 (known finding): the option group is greedy and never backtracked: "-a -a" is a sentence
    of "-ab -a" when a group may take a subset of the adjacent occurrences ([Ideal]), and is rejected *)
Example C01_greedy_refuted :
  let D := mkRD (fun n => if str_eqb n (lit "-a") then Some 0 else if str_eqb n (lit "-b") then Some 1 else None)
                (fun _ => true) (fun _ => false) in
  let ast := SCons (COne (RAtom (AGroup [0; 1]) false)) (SCons (COne (RAtom (AOpt 0) false)) SNil) in
  (r_match D Ideal 2 ast [lit "-a"; lit "-a"] None, r_match D (Greedy false) 2 ast [lit "-a"; lit "-a"] None,
   accepts (lit "-ab -a") [lit "-a"; lit "-a"])
  = (Yes, No, false).
Proof. vm_compute. reflexivity. Qed.
