(** C01 — a command line is accepted iff it is a sentence of the spec's language.
    PROVED on the model, with the option group greedy (K2) and, for the symbol-level statement, on
    specs without "--" and command lines that read cleanly (decidable, PC10.v).
    [C01_symbols]: a compiled command whose spec has no "--" accepts a cleanly read command line iff
    the SYMBOLS of the reading — occurrences (option, value), positionals, the first "--" — are a
    sentence of the spec read as a regular expression ([SymProofs.VAccepts]): juxtaposition is ordered
    concatenation, | is choice, [ ] is optional, ... is one or more, at any nesting depth; an argument
    takes the next symbol when it is a positional; an option takes the first occurrence of itself in
    the leading run of occurrences ([View.take]) — so adjacent occurrences are matched in any order
    among themselves while their position relative to the positionals is enforced — or nothing when
    backed by the environment; a folded group or OPTIONS takes its listed options in any order,
    greedily: every occurrence in the run ([VGreedy]; known finding K2: it never takes a sub-multiset,
    [C01_greedy_refuted]). The bindings recorded are those of such a sentence.
    [C01_structural] (every spec that compiles, "--" included, every command line): the compiled
    command accepts iff the spec's syntax tree, as a regular expression over matcher steps
    ([Accepts]), has a reading that consumes the whole line. The chain:
      parser output has no empty group ([parser_ne])
      -> the Thompson construction has exactly the runs of the expression ([C01_thompson_correct])
      -> Prepare (shortcut elimination with the D2 repair, then the sort) keeps them ([C01_prepare_preserves_runs])
      -> the visited-set depth-first search is sound, terminates and is complete — backtracking
         completeness, for command lines of any length
         ([C01_accepts_only_accepting_runs], [C01_search_decides], [C01_search_complete])
      -> matcher steps on tokens are steps on symbols (T4a, [SymProofs.step_fwd] / [step_bwd]).
    [C01_reference_matcher_decides] (T4b): the executable reference matcher [RefSem.r_match] that the test
    oracle runs — continuation-passing, with a progress guard on repetitions — decides [VAccepts]
    (specs without "--", greedy-with-environment mode, no target): a repetition never needs an
    iteration that changes nothing, and the progressing ones are bounded by the number of symbols.
    [C01_accepts_iff_reference_says_yes] closes the loop: compiled command accepts <-> reference says Yes.
    NOT proved: the symbol-level statement for specs with "--" (crossing the atom re-reads the remaining
    tokens as positionals, which is not a function of the symbols), the ideal (non-greedy) reading of
    groups (K2). (The target — derivation — mode of the reference matcher used by C02 is proved in PC02.) Covered on every
    run: the implementation's verdict is compared with [r_match] on every claimed case. *)
From MowCli Require Import Base Parser Nfa Matchers Apply Values Flow Cmd RefSem ApplyProofs TermProofs NfaProofs CompleteProofs PrepareProofs ThompsonProofs StructProofs.
From MowCli Require Import Lexer View SymProofs RefProofs IdealProofs.

Theorem C01_accepts_only_accepting_runs :
  forall D g start args bs,
    fsm_apply D g start args = AOk bs -> Acc D g start args false bs.
Proof. exact fsm_apply_sound. Qed.

Theorem C01_search_decides :
  forall D g start args,
    wf_graph g -> start < nstates g ->
    (exists bs, fsm_apply D g start args = AOk bs) \/ fsm_apply D g start args = AFail.
Proof.
  intros D g start args Hw Hs. pose proof (fsm_apply_total D g start args Hw Hs) as H.
  destruct (fsm_apply D g start args) as [bs| |]; [left; eauto | now right | congruence].
Qed.

(** backtracking completeness: whenever some accepting run exists — some assignment of the tokens to
    the transitions — the depth-first search with the visited set finds one, for command lines of
    any length, any graph, any environment *)
Theorem C01_search_complete :
  forall D g start args bs,
    wf_graph g -> start < nstates g ->
    Acc D g start args false bs -> exists b, fsm_apply D g start args = AOk b.
Proof. intros D g start args bs Hw. exact (fsm_apply_complete D g Hw start args bs). Qed.

(** hence: accepted iff the automaton has an accepting run *)
Theorem C01_accepted_iff_accepting_run :
  forall D g start args,
    wf_graph g -> start < nstates g ->
    ((exists b, fsm_apply D g start args = AOk b) <-> (exists bs, Acc D g start args false bs)).
Proof.
  intros D g start args Hw Hs. split.
  - intros [b Hb]. exists b. now apply fsm_apply_sound.
  - intros [bs Ha]. now apply (fsm_apply_complete D g Hw start args bs).
Qed.

(** Prepare — shortcut elimination in place, in depth-first order, with the D2 repair, then the
    priority sort — keeps exactly the accepting runs of the automaton it is given, from every state,
    for every command line and whatever the matchers do (soundness of dropping a shortcut to an
    already merged target included) *)
Theorem C01_prepare_preserves_runs :
  forall D start g g',
    wfg g -> wft g -> start < nstates g -> prepare start g = Some g' ->
    forall s args ro bs, Acc D g s args ro bs <-> Acc D g' s args ro bs.
Proof. exact prepare_same_runs. Qed.

(** the Thompson-style construction of parser.go: for every syntax tree without an empty group (which
    is what the parser produces, [parser_ne]), the automaton it builds accepts from its start state
    exactly the configurations the expression accepts, with the same bindings *)
Theorem C01_thompson_correct :
  forall D nopts e, ne_seq e = true ->
    forall (c : cfg) bs,
      Acc D (snd (thompson nopts e)) (fst (thompson nopts e)) (fst c) (snd c) bs <-> Accepts D nopts e c bs.
Proof. exact thompson_correct. Qed.

(** the structural statement: lexer, parser, Thompson construction, Prepare and the search, end to end *)
Theorem C01_structural :
  forall opts args spec i toks e,
    compile opts args spec = IOk i ->
    tokenize spec = LexOk toks ->
    parse_tokens (lookup_name opts) (lookup_name args) (length spec) toks = ParseOk e ->
    forall argv,
      (exists bs, fsm_apply (optinfo_of opts) (i_graph i) (i_start i) argv = AOk bs) <->
      (exists bs, Accepts (optinfo_of opts) (length opts) e (argv, false) bs).
Proof. exact compile_accepts_iff_language. Qed.

Theorem C01_structural_bindings :
  forall opts args spec i toks e,
    compile opts args spec = IOk i ->
    tokenize spec = LexOk toks ->
    parse_tokens (lookup_name opts) (lookup_name args) (length spec) toks = ParseOk e ->
    forall argv bs,
      fsm_apply (optinfo_of opts) (i_graph i) (i_start i) argv = AOk bs ->
      Accepts (optinfo_of opts) (length opts) e (argv, false) bs.
Proof. exact compile_bindings_from_language. Qed.

(** symbol level: specs without "--", command lines that read cleanly *)
Theorem C01_matcher_steps_are_symbol_steps :
  forall D, oi_lookup D s_dd = None -> oi_lookup D [c_dash; c_eq] = None ->
  forall nopts e a u bs, seq_has_dd e = false -> ViewProofs.Reads D a u ->
    (Accepts D nopts e (a, false) bs <-> VAccepts D nopts e (u, false) bs).
Proof. exact accepts_iff_symbols. Qed.

Theorem C01_symbols :
  forall opts args spec i toks e a u,
    compile opts args spec = IOk i ->
    tokenize spec = LexOk toks ->
    parse_tokens (lookup_name opts) (lookup_name args) (length spec) toks = ParseOk e ->
    seq_has_dd e = false -> sane (optinfo_of opts) = true -> view (optinfo_of opts) a = Some u ->
    ((exists bs, fsm_apply (optinfo_of opts) (i_graph i) (i_start i) a = AOk bs) <->
     (exists bs, VAccepts (optinfo_of opts) (length opts) e (u, false) bs)) /\
    (forall bs, fsm_apply (optinfo_of opts) (i_graph i) (i_start i) a = AOk bs ->
                VAccepts (optinfo_of opts) (length opts) e (u, false) bs).
Proof. exact compile_accepts_iff_symbols. Qed.

(** T4b: the executable reference matcher that the test oracle runs decides the symbol-level language
    (specs without "--", greedy-with-environment mode, no target) *)
Theorem C01_reference_matcher_decides :
  forall D nopts e w u,
    seq_has_dd e = false -> erase_all (read (View.rdecl_of D) w) = Some u ->
    (r_match (View.rdecl_of D) (Greedy true) nopts e w None = Yes <-> exists bs, VAccepts D nopts e (u, false) bs).
Proof. exact r_match_decides. Qed.

(** the loop closed: on a cleanly read command line, a compiled command whose spec has no "--" accepts
    iff the reference matcher says Yes *)
Theorem C01_accepts_iff_reference_says_yes :
  forall opts args spec i toks e a u,
    compile opts args spec = IOk i ->
    tokenize spec = LexOk toks ->
    parse_tokens (lookup_name opts) (lookup_name args) (length spec) toks = ParseOk e ->
    seq_has_dd e = false -> sane (optinfo_of opts) = true -> view (optinfo_of opts) a = Some u ->
    ((exists bs, fsm_apply (optinfo_of opts) (i_graph i) (i_start i) a = AOk bs) <->
     r_match (View.rdecl_of (optinfo_of opts)) (Greedy true) (length opts) e a None = Yes).
Proof. exact accepts_iff_reference. Qed.

(** The direction of the property that holds without reservation: whatever a compiled command accepts is a sentence
    of the DOCUMENTED language, in which an option group takes "its listed options in any order" — any non-empty
    sequence of occurrences of listed options from the leading run, not necessarily all of them ([VAcceptsIdeal]).
    The implementation's greedy reading is one of the ideal readings ([C01_greedy_readings_are_ideal_readings]), with
    the same bindings. The converse is the known finding K2 ([C01_k2_is_an_ideal_sentence_that_is_rejected]). *)
Theorem C01_greedy_readings_are_ideal_readings :
  forall D nopts e c bs, VAccepts D nopts e c bs -> VAcceptsIdeal D nopts e c bs.
Proof. exact accepts_is_ideal. Qed.

Theorem C01_accepted_lines_are_sentences_of_the_documented_language :
  forall opts args spec i toks e a u bs,
    compile opts args spec = IOk i ->
    tokenize spec = LexOk toks ->
    parse_tokens (lookup_name opts) (lookup_name args) (length spec) toks = ParseOk e ->
    seq_has_dd e = false -> sane (optinfo_of opts) = true -> view (optinfo_of opts) a = Some u ->
    fsm_apply (optinfo_of opts) (i_graph i) (i_start i) a = AOk bs ->
    VAcceptsIdeal (optinfo_of opts) (length opts) e (u, false) bs.
Proof. exact accepted_lines_are_ideal_sentences. Qed.

Print Assumptions C01_greedy_readings_are_ideal_readings.
Print Assumptions C01_accepted_lines_are_sentences_of_the_documented_language.
Print Assumptions C01_reference_matcher_decides.
Print Assumptions C01_accepts_iff_reference_says_yes.
Print Assumptions C01_matcher_steps_are_symbol_steps.
Print Assumptions C01_symbols.
Print Assumptions C01_thompson_correct.
Print Assumptions C01_structural.
Print Assumptions C01_structural_bindings.
Print Assumptions C01_accepts_only_accepting_runs.
Print Assumptions C01_prepare_preserves_runs.
Print Assumptions C01_search_complete.
Print Assumptions C01_accepted_iff_accepting_run.
Print Assumptions C01_search_decides.

Definition ex_decls : list decl :=
  [mkDecl true KBool (lit "a") [] [] false (VBool false) false;
   mkDecl true KBool (lit "b") [] [] false (VBool false) false;
   mkDecl false KStrings (lit "SRC") [] [] false (VStrs []) false;
   mkDecl false KString (lit "DST") [] [] false (VStr []) false].

Definition accepts (spec : str) (argv : list str) : bool :=
  match do_init (fun _ => None) (fun _ => []) ex_decls spec with
  | IOk i => match fsm_parse (fun _ => None) i argv with PAccept _ _ => true | _ => false end
  | _ => false
  end.

(** backtracking: SRC... DST on "a b c" *)
Example C01_backtracking_example :
  (accepts (lit "SRC... DST") [lit "a"; lit "b"; lit "c"], accepts (lit "SRC... DST") [lit "a"],
   accepts (lit "[-a] SRC") [lit "x"; lit "-a"], accepts (lit "-a SRC") [lit "-"; lit "-a"],
   accepts (lit "SRC") [lit "x"; lit "--"])
  = (true, false, false, false, true).
Proof. vm_compute. reflexivity. Qed.

(** K2 (known finding): the option group is greedy and never backtracked: "-a -a" is a sentence
    of "-ab -a" when a group may take a subset of the adjacent occurrences ([Ideal]), and is rejected *)
Example C01_greedy_refuted :
  let D := mkRD (fun n => if str_eqb n (lit "-a") then Some 0 else if str_eqb n (lit "-b") then Some 1 else None)
                (fun _ => true) (fun _ => false) in
  let ast := SCons (COne (RAtom (AGroup [0; 1]) false)) (SCons (COne (RAtom (AOpt 0) false)) SNil) in
  (r_match D Ideal 2 ast [lit "-a"; lit "-a"] None, r_match D (Greedy false) 2 ast [lit "-a"; lit "-a"] None,
   accepts (lit "-ab -a") [lit "-a"; lit "-a"])
  = (Yes, No, false).
Proof. vm_compute. reflexivity. Qed.

(** the premises of [C01_structural] are met by ordinary specs: this one compiles, lexes and parses *)
Example C01_structural_nonvacuous :
  match declare (fun _ => None) (fun _ => []) ex_decls [] [] with
  | inl (opts, args) =>
      let spec := lit "[-a | -b] SRC... DST" in
      match compile opts args spec, tokenize spec with
      | IOk _, LexOk toks =>
          match parse_tokens (lookup_name opts) (lookup_name args) (length spec) toks with
          | ParseOk e => ne_seq e
          | _ => false
          end
      | _, _ => false
      end
  | inr _ => false
  end = true.
Proof. vm_compute. reflexivity. Qed.

(** K2 at the symbol level, both halves proved: for the spec "-ab -a" and two occurrences of -a, the documented
    language has a reading (the group takes the first occurrence, the single option the second) and the greedy
    language has none *)
Example C01_k2_is_an_ideal_sentence_that_is_rejected :
  let D := mkOI (fun _ => None) (fun _ => true) (fun _ => false) in
  let e := SCons (COne (RAtom (AGroup [0; 1]) false)) (SCons (COne (RAtom (AOpt 0) false)) SNil) in
  let u := [VO 0 (lit "true"); VO 0 (lit "true")] in
  VAcceptsIdeal D 2 e (u, false) [(KO 0, lit "true"); (KO 0, lit "true")] /\
  ~ exists bs, VAccepts D 2 e (u, false) bs.
Proof. exact ideal_k2_witness. Qed.
