(** C15 — SetByUser is true exactly for values given on the command line. *)
From MowCli Require Import Base Matchers Apply Values Cmd View ValueProofs AccountProofs UserProofs ArgRangeProofs.

(** For every declaration list, spec, environment and command line: after a successful parse of
    a command, the SetByUser flag of option (resp. argument) number k is true iff the accepting
    path bound at least one command-line string to it. Declarations (default, environment) never
    raise the flag; [fill] is the only writer. *)
Theorem C15_iff :
  forall (parse_float : str -> option str) (getenv : str -> str)
         (ds : list decl) (spec : str) (i : inited) (argv : list str) (opts' args' : list container),
    do_init parse_float getenv ds spec = IOk i ->
    fsm_parse parse_float i argv = PAccept opts' args' ->
    exists bs, fsm_apply (optinfo_of (i_opts i)) (i_graph i) (i_start i) argv = AOk bs /\
      (forall k c, nth_error opts' k = Some c -> (ct_user c = true <-> values_for (KO k) bs <> [])) /\
      (forall k c, nth_error args' k = Some c -> (ct_user c = true <-> values_for (KA k) bs <> [])).
Proof. exact setbyuser_iff. Qed.
Print Assumptions C15_iff.

(** The "only if" half rests on the flag being false when the declaration is made, whatever the caller's variable held
    before (the repair D12: the library used to leave the variable alone and only ever write true to it): every
    container that doInit produces has its flag down, for every declaration list, spec and environment. *)
Theorem C15_flag_starts_false :
  forall (parse_float : str -> option str) (getenv : str -> str) (ds : list decl) (spec : str) (i : inited),
    do_init parse_float getenv ds spec = IOk i ->
    Forall (fun c => ct_user c = false) (i_opts i) /\ Forall (fun c => ct_user c = false) (i_args i).
Proof.
  intros pf ge ds spec i H. apply (do_init_conts pf ge) in H.
  exact (declare_user pf ge ds [] [] _ _ H (Forall_nil _) (Forall_nil _)).
Qed.
Print Assumptions C15_flag_starts_false.

(** ... and, read off the command line: for a compiled command whose automaton has no spec-level "--" and a
    command line that reads cleanly ([view]: occurrences of options with their values, positionals, the first
    "--"), the flag of option number k is true iff option k is WRITTEN on the line — it has at least one
    occurrence in the reading — whatever the environment and the defaults are *)
Theorem C15_true_iff_written_on_the_line :
  forall (parse_float : str -> option str) (getenv : str -> str)
         (ds : list decl) (spec : str) (i : inited) (argv : list str) (opts' args' : list container) (u : list vs),
    do_init parse_float getenv ds spec = IOk i ->
    sane (optinfo_of (i_opts i)) = true -> no_dd_graph (i_graph i) = true ->
    view (optinfo_of (i_opts i)) argv = Some u ->
    fsm_parse parse_float i argv = PAccept opts' args' ->
    forall k c, nth_error opts' k = Some c -> (ct_user c = true <-> occs k u <> []).
Proof. exact setbyuser_iff_written. Qed.
Print Assumptions C15_true_iff_written_on_the_line.

(** ... and the arguments, read off the command line under the same hypotheses: the flag of an argument is raised only
    by a positional token that is written on the line (one of the reading's positionals is bound to it), so a line
    without positional tokens leaves every argument's flag down — whatever the environment and the defaults are *)
Theorem C15_arg_flag_needs_a_positional :
  forall (parse_float : str -> option str) (getenv : str -> str)
         (ds : list decl) (spec : str) (i : inited) (argv : list str) (opts' args' : list container) (u : list vs),
    do_init parse_float getenv ds spec = IOk i ->
    sane (optinfo_of (i_opts i)) = true -> no_dd_graph (i_graph i) = true ->
    view (optinfo_of (i_opts i)) argv = Some u ->
    fsm_parse parse_float i argv = PAccept opts' args' ->
    forall k c, nth_error args' k = Some c -> ct_user c = true -> exists v, In v (poss u).
Proof. exact setbyuser_arg_needs_a_positional. Qed.
Print Assumptions C15_arg_flag_needs_a_positional.

Theorem C15_no_positional_no_arg_flag :
  forall (parse_float : str -> option str) (getenv : str -> str)
         (ds : list decl) (spec : str) (i : inited) (argv : list str) (opts' args' : list container) (u : list vs),
    do_init parse_float getenv ds spec = IOk i ->
    sane (optinfo_of (i_opts i)) = true -> no_dd_graph (i_graph i) = true ->
    view (optinfo_of (i_opts i)) argv = Some u -> poss u = [] ->
    fsm_parse parse_float i argv = PAccept opts' args' ->
    Forall (fun c => ct_user c = false) args'.
Proof. exact no_positional_no_arg_flag. Qed.
Print Assumptions C15_no_positional_no_arg_flag.

(** ... and conversely a positional token written on the line raises the flag of a DECLARED argument: every binding
    [(KA k, v)] of an accepting run has [k] below the number of argument containers the parse returns ([ArgRangeProofs]:
    the parser builds an argument leaf only from a name the argument table maps to an index, Thompson's construction,
    the shortcut elimination and the sort keep the labels, the matcher of a transition [LArg k] binds to [KA k] only).
    Together: some argument's flag is up iff the line has a positional token *)
Theorem C15_bound_arguments_are_declared :
  forall (parse_float : str -> option str) (getenv : str -> str)
         (ds : list decl) (spec : str) (i : inited) (argv : list str) (opts' args' : list container)
         (bs : list binding) (k : nat) (v : str),
    do_init parse_float getenv ds spec = IOk i ->
    fsm_parse parse_float i argv = PAccept opts' args' ->
    fsm_apply (optinfo_of (i_opts i)) (i_graph i) (i_start i) argv = AOk bs ->
    In (KA k, v) bs -> k < length args'.
Proof. exact bound_arguments_are_declared. Qed.
Print Assumptions C15_bound_arguments_are_declared.

Theorem C15_some_arg_flag_iff_a_positional :
  forall (parse_float : str -> option str) (getenv : str -> str)
         (ds : list decl) (spec : str) (i : inited) (argv : list str) (opts' args' : list container) (u : list vs),
    do_init parse_float getenv ds spec = IOk i ->
    sane (optinfo_of (i_opts i)) = true -> no_dd_graph (i_graph i) = true ->
    view (optinfo_of (i_opts i)) argv = Some u ->
    fsm_parse parse_float i argv = PAccept opts' args' ->
    ((exists k c, nth_error args' k = Some c /\ ct_user c = true) <-> poss u <> []).
Proof. exact some_arg_flag_iff_a_positional. Qed.
Print Assumptions C15_some_arg_flag_iff_a_positional.

(** non-vacuity of the last one: "[-f] [X]" with X backed by the environment variable XV, line "-f": accepted, the line
    reads cleanly and has no positional; the argument holds the environment's value and its flag is down *)
Example C15_no_positional_nonvacuous :
  let pf := fun _ : str => None in
  let ge := fun k : str => if str_eqb k (lit "XV") then lit "e" else [] in
  let ds := [mkDecl true KBool (lit "f") [] [] false (VBool false) true;
             mkDecl false KString (lit "X") [] (lit "XV") false (VStr []) true] in
  match do_init pf ge ds (lit "[-f] [X]") with
  | IOk i => match view (optinfo_of (i_opts i)) [lit "-f"], fsm_parse pf i [lit "-f"] with
             | Some u, PAccept [o] [a] =>
                 (sane (optinfo_of (i_opts i)), no_dd_graph (i_graph i), poss u, ct_user o, ct_user a, ct_fromenv a)
             | _, _ => (false, false, [], false, true, false)
             end
  | _ => (false, false, [], false, true, false)
  end = (true, true, [], true, false, true).
Proof. vm_compute. reflexivity. Qed.

(** non-vacuity: "-f" with F set in the environment and "x" on the line: the flag of the option
    stays false (environment), the flag of the argument is raised (command line) *)
Example C15_nonvacuous :
  let pf := fun _ : str => None in
  let ge := fun k : str => if str_eqb k (lit "F") then lit "true" else [] in
  let ds := [mkDecl true KBool (lit "f") [] (lit "F") false (VBool false) true;
             mkDecl false KString (lit "X") [] [] false (VStr []) true] in
  match do_init pf ge ds (lit "[-f] X") with
  | IOk i => match fsm_parse pf i [lit "x"] with
             | PAccept [o] [a] => (ct_user o, ct_fromenv o, ct_user a)
             | _ => (true, false, false)
             end
  | _ => (true, false, false)
  end = (false, true, true).
Proof. vm_compute. reflexivity. Qed.
