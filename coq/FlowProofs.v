(** C05: the step chain wired by Cmd.parse runs the callbacks exactly as the property says. *)
From MowCli Require Import Base Flow.

(** * The property, read directly (FlowSpec) *)

Definition raise_of (h : hook) : option pval :=
  match h with
  | HPanics v => Some (PUser v)
  | HExits n => Some (PExit n)
  | _ => None
  end.

(** Befores root to leaf, up to and including the first failing one:
    (trace, number of levels whose Before completed, value raised) *)
Fixpoint befores_spec (ls : list level) (d : nat) : list event * nat * option pval :=
  match ls with
  | [] => ([], 0, None)
  | l :: rest =>
    match l_before l with
    | HAbsent => let '(tr, n, p) := befores_spec rest (S d) in (tr, S n, p)
    | HReturns => let '(tr, n, p) := befores_spec rest (S d) in ((HBefore, d) :: tr, S n, p)
    | h => ([(HBefore, d)], 0, raise_of h)
    end
  end.

(** the Action, iff no Before failed *)
Definition action_spec (d : nat) (action : hook) : list event * option pval :=
  match action with
  | HAbsent => ([], None)
  | h => ([(HAction, d)], raise_of h)
  end.

(** Afters in the given order, each once, whatever any of them raises; the most recently
    raised value is kept *)
Fixpoint afters_spec (ls : list (nat * level)) (p : option pval) : list event * option pval :=
  match ls with
  | [] => ([], p)
  | (d, l) :: rest =>
    match l_after l with
    | HAbsent => afters_spec rest p
    | HReturns => let (tr, p') := afters_spec rest p in ((HAfter, d) :: tr, p')
    | h => let (tr, p') := afters_spec rest (raise_of h) in ((HAfter, d) :: tr, p')
    end
  end.

(** the end, decided by the most recently raised value *)
Definition end_of (p : option pval) : outcome :=
  match p with
  | None => Returned
  | Some (PExit n) => Exited n
  | Some (PUser v) => Panicked (Some (PUser v))
  end.

Definition flow_spec_from (ls : list level) (d : nat) (action : hook) (done : list (nat * level))
  : list event * outcome :=
  let '(trb, n, pb) := befores_spec ls d in
  (* the levels whose Before completed, leaf first, then the ancestors already entered *)
  let completed := rev (firstn n (combine (seq d (length ls)) ls)) ++ done in
  let '(tra, pa) := match pb with
                    | Some _ => ([], pb)
                    | None => action_spec (d + length ls - 1) action
                    end in
  let '(trf, pf) := afters_spec completed pa in
  (trb ++ tra ++ trf, end_of pf).

Definition flow_spec (ls : list level) (action : hook) : list event * outcome :=
  flow_spec_from ls 0 action [].

(** * Proof *)

(** the chain of After steps for the levels in [done] (leaf first), ending in RootOut *)
Fixpoint out_chain (done : list (nat * level)) : step :=
  match done with
  | [] => root_out
  | (d, l) :: rest => Step (HAfter, d) (l_after l) (Some (out_chain rest)) (Some (out_chain rest)) true
  end.

Lemma afters_spec_some done e :
  exists e', snd (afters_spec done (Some e)) = Some e'.
Proof.
  revert e; induction done as [|[d l] rest IH]; intros e; cbn [afters_spec].
  - eexists; reflexivity.
  - destruct (l_after l) eqn:Ha; cbn [raise_of].
    + apply IH.
    + destruct (IH e) as [e' He']. destruct (afters_spec rest (Some e)); cbn in *; eauto.
    + destruct (IH (PUser v)) as [e' He']. destruct (afters_spec rest (Some (PUser v))); cbn in *; eauto.
    + destruct (IH (PExit n)) as [e' He']. destruct (afters_spec rest (Some (PExit n))); cbn in *; eauto.
Qed.

Lemma end_of_some_not_returned e : end_of (Some e) <> Returned.
Proof. destruct e; discriminate. Qed.

Lemma run_out_chain done p tr :
  run_step (out_chain done) p tr =
  (tr ++ fst (afters_spec done p), end_of (snd (afters_spec done p))).
Proof.
  revert p tr; induction done as [|[d l] rest IH]; intros p tr.
  - cbn. rewrite app_nil_r. destruct p as [[v|n]|]; reflexivity.
  - cbn [out_chain afters_spec run_step].
    destruct (l_after l) eqn:Ha; cbn [raise_of].
    + apply IH.
    + rewrite IH. destruct (afters_spec rest p) as [t p']; cbn. now rewrite <- app_assoc.
    + rewrite IH.
      destruct (afters_spec_some rest (PUser v)) as [e' He'].
      destruct (afters_spec rest (Some (PUser v))) as [t p'] eqn:Hs; cbn in *. subst p'.
      rewrite <- app_assoc; cbn.
      destruct e'; reflexivity.
    + rewrite IH.
      destruct (afters_spec_some rest (PExit n)) as [e' He'].
      destruct (afters_spec rest (Some (PExit n))) as [t p'] eqn:Hs; cbn in *. subst p'.
      rewrite <- app_assoc; cbn.
      destruct e'; reflexivity.
Qed.

(** running the chain from an Action step *)
Lemma run_action d action done tr :
  run_step (Step (HAction, d) action (Some (out_chain done)) (Some (out_chain done)) true) None tr =
  (tr ++ fst (action_spec d action) ++ fst (afters_spec done (snd (action_spec d action))),
   end_of (snd (afters_spec done (snd (action_spec d action))))).
Proof.
  cbn [run_step]. destruct action; cbn [action_spec raise_of fst snd].
  - rewrite run_out_chain. reflexivity.
  - rewrite run_out_chain. now rewrite <- app_assoc.
  - rewrite run_out_chain.
    destruct (afters_spec_some done (PUser v)) as [e' He'].
    destruct (afters_spec done (Some (PUser v))) as [t p'] eqn:Hs; cbn in *. subst p'.
    rewrite <- app_assoc. destruct e'; reflexivity.
  - rewrite run_out_chain.
    destruct (afters_spec_some done (PExit n)) as [e' He'].
    destruct (afters_spec done (Some (PExit n))) as [t p'] eqn:Hs; cbn in *. subst p'.
    rewrite <- app_assoc. destruct e'; reflexivity.
Qed.

Lemma run_build_in ls : forall d action done tr s,
  build_in ls d action (out_chain done) = Some s ->
  run_step s None tr =
  (tr ++ fst (flow_spec_from ls d action done), snd (flow_spec_from ls d action done)).
Proof.
  induction ls as [|l rest IH]; intros d action done tr s Hb; [discriminate|].
  cbn [build_in] in Hb. injection Hb as <-.
  (* the successor of this level's Before, and what the spec says about the rest *)
  set (done' := (d, l) :: done).
  assert (Hnext : forall tr',
    match match rest with
          | [] => Some (Step (HAction, d) action
                             (Some (Step (HAfter, d) (l_after l) (Some (out_chain done)) (Some (out_chain done)) true))
                             (Some (Step (HAfter, d) (l_after l) (Some (out_chain done)) (Some (out_chain done)) true)) true)
          | _ :: _ => build_in rest (S d) action
                               (Step (HAfter, d) (l_after l) (Some (out_chain done)) (Some (out_chain done)) true)
          end with
    | Some nxt => run_step nxt None tr'
    | None => (tr', Returned)
    end =
    let '(trb, n, pb) := befores_spec rest (S d) in
    let completed := rev (firstn n (combine (seq (S d) (length rest)) rest)) ++ done' in
    let '(tra, pa) := match pb with
                      | Some _ => ([], pb)
                      | None => action_spec (d + length (l :: rest) - 1) action
                      end in
    let '(trf, pf) := afters_spec completed pa in
    (tr' ++ trb ++ tra ++ trf, end_of pf)).
  { intros tr'. destruct rest as [|l2 rest2].
    - change (Step (HAfter, d) (l_after l) (Some (out_chain done)) (Some (out_chain done)) true)
        with (out_chain done').
      rewrite run_action. cbn [befores_spec length firstn combine seq rev app].
      replace (d + 1 - 1) with d by lia.
      destruct (action_spec d action) as [tra pa]; cbn [fst snd].
      destruct (afters_spec done' pa) as [trf pf]; cbn [fst snd]. reflexivity.
    - change (Step (HAfter, d) (l_after l) (Some (out_chain done)) (Some (out_chain done)) true)
        with (out_chain done').
      destruct (build_in (l2 :: rest2) (S d) action (out_chain done')) as [nxt|] eqn:Hn;
        [|cbn in Hn; discriminate].
      rewrite (IH (S d) action done' tr' nxt Hn).
      unfold flow_spec_from.
      replace (S d + length (l2 :: rest2) - 1) with (d + length (l :: l2 :: rest2) - 1) by (cbn; lia).
      destruct (befores_spec (l2 :: rest2) (S d)) as [[trb n] pb].
      destruct (match pb with Some _ => _ | None => _ end) as [tra pa].
      destruct (afters_spec _ pa) as [trf pf]. reflexivity. }
  unfold flow_spec_from. cbn [befores_spec length seq combine].
  cbn [run_step].
  destruct (l_before l) eqn:Hbf.
  - (* absent *)
    rewrite Hnext.
    destruct (befores_spec rest (S d)) as [[trb n] pb].
    cbn [firstn rev]. rewrite <- app_assoc. cbn [app].
    destruct (match pb with Some _ => _ | None => _ end) as [tra pa].
    destruct (afters_spec _ pa) as [trf pf]. reflexivity.
  - (* returns *)
    rewrite Hnext.
    destruct (befores_spec rest (S d)) as [[trb n] pb].
    cbn [firstn rev]. rewrite <- app_assoc. cbn [app].
    destruct (match pb with Some _ => _ | None => _ end) as [tra pa].
    destruct (afters_spec _ pa) as [trf pf]. cbn [fst snd].
    now rewrite <- app_assoc.
  - (* panics *)
    rewrite run_out_chain. cbn [raise_of firstn rev app].
    destruct (afters_spec_some done (PUser v)) as [e' He'].
    destruct (afters_spec done (Some (PUser v))) as [t p'] eqn:Hs; cbn in *. subst p'.
    rewrite <- app_assoc. destruct e'; reflexivity.
  - (* exits *)
    rewrite run_out_chain. cbn [raise_of firstn rev app].
    destruct (afters_spec_some done (PExit n)) as [e' He'].
    destruct (afters_spec done (Some (PExit n))) as [t p'] eqn:Hs; cbn in *. subst p'.
    rewrite <- app_assoc. destruct e'; reflexivity.
Qed.

Theorem run_flow_spec ls action : ls <> [] -> run_flow ls action = flow_spec ls action.
Proof.
  intros Hne. unfold run_flow, entry_step. cbn [run_step].
  destruct (build_in ls 0 action root_out) as [s|] eqn:Hb.
  - change root_out with (out_chain []) in Hb.
    rewrite (run_build_in ls 0 action [] [] s Hb). cbn [app].
    unfold flow_spec. now destruct (flow_spec_from ls 0 action []).
  - destruct ls; [congruence | discriminate].
Qed.

(** every callback runs at most once, Befores in root-to-leaf order before the Action before
    the Afters in leaf-to-root order: read off the shape of [flow_spec] *)
Lemma befores_spec_trace ls d :
  forall e, In e (fst (fst (befores_spec ls d))) -> fst e = HBefore /\ d <= snd e < d + length ls.
Proof.
  revert d; induction ls as [|l rest IH]; intros d e; cbn [befores_spec].
  - intros [].
  - destruct (l_before l).
    + specialize (IH (S d) e). destruct (befores_spec rest (S d)) as [[tr n] p]; cbn in *.
      intros H; destruct (IH H); split; [assumption | lia].
    + specialize (IH (S d) e). destruct (befores_spec rest (S d)) as [[tr n] p]; cbn in *.
      intros [<-|H]; [cbn; split; [reflexivity | lia] | destruct (IH H); split; [assumption | lia]].
    + cbn. intros [<-|[]]; cbn; split; [reflexivity | lia].
    + cbn. intros [<-|[]]; cbn; split; [reflexivity | lia].
Qed.
