(** C18 (declaration tables) and C16 (default spec). *)
From MowCli Require Import Base Lexer Parser Nfa Matchers Apply Values Flow Cmd.

Lemma mem_str_In s l : mem_str s l = true <-> In s l.
Proof.
  induction l as [|x l IH]; cbn; [split; [discriminate | tauto]|].
  rewrite orb_true_iff, IH, str_eqb_eq. split; intros [H|H]; auto.
Qed.

(** [first_dup seen names] finds nothing iff the names are pairwise distinct and none is seen *)
Lemma first_dup_none names : forall seen,
  first_dup seen names = None <-> (NoDup names /\ forall n, In n names -> ~ In n seen).
Proof.
  induction names as [|n names IH]; intros seen; cbn [first_dup].
  - split; [intros _; split; [constructor | intros ? []] | reflexivity].
  - destruct (mem_str n seen) eqn:Hm.
    + split; [discriminate|]. intros [_ H]. exfalso. apply (H n); [now left | now apply mem_str_In].
    + rewrite IH. split.
      * intros [Hnd Hs]. split.
        -- constructor; [|assumption]. intros Hin. apply (Hs n Hin). now left.
        -- intros x [<-|Hx]; [intros Hc; apply mem_str_In in Hc; congruence|].
           intros Hc. apply (Hs x Hx). now right.
      * intros [Hnd Hs]. inversion Hnd as [|? ? Hn Hnd']; subst. split; [assumption|].
        intros x Hx [<-|Hc]; [contradiction | apply (Hs x); [now right | assumption]].
Qed.

Lemma NoDup_app_intro {A} (a b : list A) :
  NoDup a -> NoDup b -> (forall x, In x a -> In x b -> False) -> NoDup (a ++ b).
Proof.
  induction a as [|x a IH]; intros Ha Hb Hd; cbn; [assumption|].
  inversion Ha as [|? ? Hx Ha']; subst. constructor.
  - intros Hin. apply in_app_or in Hin as [Hin|Hin]; [contradiction|]. apply (Hd x); [now left | assumption].
  - apply IH; auto. intros y Hy. apply Hd. now right.
Qed.

Lemma NoDup_app_remove_l {A} (a b : list A) : NoDup (a ++ b) -> NoDup b.
Proof. induction a as [|x a IH]; cbn; [auto|]. intros H. inversion H; auto. Qed.

Section DP.
  Variable parse_float : str -> option str.
  Variable getenv : str -> str.
  Notation mk_opt := (mk_opt parse_float getenv).
  Notation mk_arg := (mk_arg parse_float getenv).
  Notation declare := (declare parse_float getenv).
  Notation mk_container := (mk_container parse_float getenv).

  Lemma mk_container_names d names : ct_names (mk_container d names) = names.
  Proof. unfold mk_container. now destruct (set_from_env _ _ _ _ _). Qed.

  Lemma all_names_app a b : all_names (a ++ b) = all_names a ++ all_names b.
  Proof. unfold all_names. apply flat_map_app. Qed.

  (** an option declaration panics iff one of its names is already in the table or is listed
      twice; on success the table gains exactly its names *)
  Theorem mk_opt_spec opts d :
    match mk_opt opts d with
    | inr m => exists n, m = msg_dup_opt n /\ first_dup (all_names opts) (mk_opt_strs (d_name d)) = Some n
    | inl c => ct_names c = mk_opt_strs (d_name d) /\ ct_decl c = d /\
               NoDup (mk_opt_strs (d_name d)) /\
               forall n, In n (mk_opt_strs (d_name d)) -> ~ In n (all_names opts)
    end.
  Proof.
    unfold mk_opt. destruct (first_dup _ _) as [n|] eqn:Hf.
    - eauto.
    - apply first_dup_none in Hf as [Hnd Hs]. rewrite mk_container_names. repeat split; auto.
      unfold mk_container. now destruct (set_from_env _ _ _ _ _).
  Qed.

  Theorem mk_arg_spec args d :
    match mk_arg args d with
    | inr m => (valid_arg_name (d_name d) = false /\ m = msg_bad_arg (d_name d)) \/
               (valid_arg_name (d_name d) = true /\ In (d_name d) (all_names args) /\ m = msg_dup_arg (d_name d))
    | inl c => ct_names c = [d_name d] /\ ct_decl c = d /\ valid_arg_name (d_name d) = true /\
               ~ In (d_name d) (all_names args)
    end.
  Proof.
    unfold mk_arg. destruct (valid_arg_name (d_name d)) eqn:Hv; cbn [negb]; [|left; auto].
    destruct (mem_str (d_name d) (all_names args)) eqn:Hm.
    - right. repeat split; auto. now apply mem_str_In.
    - rewrite mk_container_names. repeat split; auto.
      + unfold mk_container. now destruct (set_from_env _ _ _ _ _).
      + intros H. apply mem_str_In in H. congruence.
  Qed.

  (** invariant of the two name tables over any sequence of successful declarations *)
  Theorem declare_inv ds : forall opts args opts' args',
    declare ds opts args = inl (opts', args') ->
    NoDup (all_names opts) -> NoDup (all_names args) ->
    NoDup (all_names opts') /\ NoDup (all_names args') /\
    (exists o2, opts' = opts ++ o2) /\ (exists a2, args' = args ++ a2).
  Proof.
    induction ds as [|d ds IH]; intros opts args opts' args' H Ho Ha; cbn [declare] in H.
    - injection H as <- <-. repeat split; auto; exists []; now rewrite app_nil_r.
    - destruct (d_isopt d).
      + pose proof (mk_opt_spec opts d) as Hs.
        destruct (mk_opt opts d) as [c|m]; [|discriminate].
        destruct Hs as (Hn & _ & Hnd & Hfresh).
        destruct (IH _ _ _ _ H) as (H1 & H2 & (o2 & ->) & H4); auto.
        * rewrite all_names_app. cbn. rewrite app_nil_r, Hn.
          apply NoDup_app_intro; auto.
          intros n Hin1 Hin2. exact (Hfresh n Hin2 Hin1).
        * repeat split; auto. exists (c :: o2). now rewrite <- app_assoc.
      + pose proof (mk_arg_spec args d) as Hs.
        destruct (mk_arg args d) as [c|m]; [|discriminate].
        destruct Hs as (Hn & _ & _ & Hfresh).
        destruct (IH _ _ _ _ H) as (H1 & H2 & H3 & (a2 & ->)); auto.
        * rewrite all_names_app. cbn. rewrite Hn.
          apply NoDup_app_intro; auto; [repeat constructor; intros [] |].
          intros n Hin1 [<-|[]]. exact (Hfresh Hin1).
        * repeat split; auto. exists (c :: a2). now rewrite <- app_assoc.
  Qed.
End DP.

(** every listed name addresses its own container, and a later declaration never changes that *)
Lemma find_index_app_l {A} (p : A -> bool) l l' i :
  find_index p l = Some i -> find_index p (l ++ l') = Some i.
Proof.
  revert i; induction l as [|x l IH]; intros i; cbn; [discriminate|].
  destruct (p x); [auto|]. destruct (find_index p l) as [j|]; [|discriminate].
  intros [= <-]. now rewrite (IH j eq_refl).
Qed.

Lemma lookup_no_shadow opts c n i :
  lookup_name opts n = Some i -> lookup_name (opts ++ [c]) n = Some i.
Proof. apply find_index_app_l. Qed.

Lemma lookup_finds opts n :
  In n (all_names opts) -> exists i c, lookup_name opts n = Some i /\ nth_error opts i = Some c /\ In n (ct_names c).
Proof.
  unfold lookup_name, all_names. induction opts as [|c opts IH]; cbn; [intros []|].
  intros H. apply in_app_or in H. destruct (mem_str n (ct_names c)) eqn:Hm.
  - exists 0, c. repeat split. now apply mem_str_In.
  - destruct H as [H|H]; [apply mem_str_In in H; congruence|].
    destruct (IH H) as (i & c' & Hl & Hn & Hin). rewrite Hl. exists (S i), c'. auto.
Qed.

Lemma lookup_sound opts n i :
  lookup_name opts n = Some i -> exists c, nth_error opts i = Some c /\ In n (ct_names c).
Proof.
  unfold lookup_name. revert i; induction opts as [|c opts IH]; intros i; cbn; [discriminate|].
  destruct (mem_str n (ct_names c)) eqn:Hm.
  - intros [= <-]. exists c. split; [reflexivity | now apply mem_str_In].
  - destruct (find_index _ opts) as [j|]; [|discriminate]. intros [= <-]. apply (IH j eq_refl).
Qed.

(** with pairwise distinct names a name addresses exactly the container that lists it *)
Lemma lookup_unique opts n i c :
  NoDup (all_names opts) -> nth_error opts i = Some c -> In n (ct_names c) -> lookup_name opts n = Some i.
Proof.
  unfold lookup_name, all_names. revert i; induction opts as [|c0 opts IH]; intros i Hnd Hn Hin; [destruct i; discriminate|].
  cbn in *. destruct i as [|i]; cbn in Hn.
  - injection Hn as ->. apply mem_str_In in Hin. now rewrite Hin.
  - destruct (mem_str n (ct_names c0)) eqn:Hm.
    + exfalso. apply mem_str_In in Hm.
      apply NoDup_app_remove_l in Hnd as Hnd2.
      (* n is both in c0's names and in a later container's names *)
      assert (Hlater : In n (flat_map ct_names opts)).
      { apply in_flat_map. exists c. split; [now apply nth_error_In in Hn | assumption]. }
      clear -Hnd Hm Hlater. induction (ct_names c0) as [|x l IHl]; [destruct Hm|].
      cbn in Hnd. inversion Hnd as [|? ? Hx Hnd']; subst. destruct Hm as [<-|Hm].
      * apply Hx. apply in_or_app. now right.
      * now apply IHl.
    + apply NoDup_app_remove_l in Hnd. now rewrite (IH i Hnd Hn Hin).
Qed.

(** * C16: the default spec *)
Section C16.
  Variable parse_float : str -> option str.
  Variable getenv : str -> str.

  Theorem do_init_default ds opts args :
    declare parse_float getenv ds [] [] = inl (opts, args) ->
    do_init parse_float getenv ds [] = do_init parse_float getenv ds (default_spec opts args).
  Proof.
    intros H. unfold do_init. rewrite H.
    destruct (default_spec opts args) eqn:Hd; [reflexivity | reflexivity].
  Qed.

  (** the spec field of a command is consulted by doInit only: Cmd.parse itself never reads it *)
  Lemma parse_cmd_spec_irrelevant n d ld h sp sp' pol ds b act af subs i policy path args levels paths filled err :
    parse_cmd parse_float getenv (Cmd n d ld h sp pol ds b act af subs) i policy path args levels paths filled err =
    parse_cmd parse_float getenv (Cmd n d ld h sp' pol ds b act af subs) i policy path args levels paths filled err.
  Proof. reflexivity. Qed.

  Definition with_spec (c : cmd) (sp : str) : cmd :=
    match c with Cmd n d ld h _ pol ds b act af subs => Cmd n d ld h sp pol ds b act af subs end.

  Theorem run_default_spec (c : cmd) (ver : option (str * str)) (argv : list str) opts args :
    c_spec c = [] ->
    declare parse_float getenv (root_decls (mkApp c ver)) [] [] = inl (opts, args) ->
    run parse_float getenv (mkApp c ver) argv =
    run parse_float getenv (mkApp (with_spec c (default_spec opts args)) ver) argv.
  Proof.
    destruct c as [n d ld h sp pol ds b act af subs]. cbn [c_spec]. intros -> Hd.
    unfold run, mkApp. cbn [a_root a_version a_version_last with_spec c_spec effective_policy c_policy c_name c_namefield].
    assert (Hrd : root_decls (mkAppAt (Cmd n d ld h (default_spec opts args) pol ds b act af subs) ver false)
                  = root_decls (mkAppAt (Cmd n d ld h [] pol ds b act af subs) ver false)) by reflexivity.
    rewrite Hrd. unfold mkApp in Hd. rewrite <- (do_init_default _ _ _ Hd). reflexivity.
  Qed.

  (** the usage line shows the synthesised spec *)
  Theorem usage_shows_default ds opts args i path has_subs desc :
    declare parse_float getenv ds [] [] = inl (opts, args) ->
    do_init parse_float getenv ds [] = IOk i ->
    i_spec i = default_spec opts args /\
    hd [] (help_header path i has_subs desc) =
    lit "Usage: " ++ concat_str [c_space] path
        ++ (match trim_space (default_spec opts args) with [] => [] | _ => c_space :: trim_space (default_spec opts args) end)
        ++ (if has_subs then lit " COMMAND [arg...]" else []).
  Proof.
    intros Hd Hi. unfold do_init in Hi. rewrite Hd in Hi.
    assert (Hs : i_spec i = default_spec opts args).
    { unfold compile in Hi. destruct (tokenize _); try discriminate.
      destruct (parse_tokens _ _ _ _); try discriminate. destruct (thompson _ _) as [st g].
      destruct (prepare st g); [|discriminate]. now injection Hi as <-. }
    split; [assumption|]. unfold help_header. rewrite Hs. reflexivity.
  Qed.
End C16.
