(** C02 — bound values are exactly a valid derivation of the command line.
    PROVED on the model for every command whose spec has no "--" atom, on command lines that read
    cleanly (decidable, [View.view]; see PC10.v), for every options table with no option called "-"
    or "=":
    [C02_written_values_exactly]: when the command line is accepted, for each option the values
    recorded ([values_for (KO o)], which [C02_values_are_the_bindings_of_the_run] shows are exactly
    what is pushed into the option's variable, in order) are the values of its occurrences in the
    reading, in command-line order, and the positional bindings, all argument variables together and
    in the order of the run, are exactly the positional tokens of the reading in order — tokens after
    the first "--" included, verbatim ([C02_after_cmdline_dd_verbatim]). So nothing is invented,
    dropped, duplicated or bound to another option, and each positional is bound exactly once, in
    order. That the distribution over the argument variables is that of a valid derivation of the
    spec is [PC01.C01_structural_bindings] (the bindings are those of a reading of the spec's regular
    expression). The proof: every matcher step accounts for the difference between the readings
    before and after it ([AccountProofs.step_acct], through T4a), hence every accepting run accounts
    for the whole reading ([C02_every_run_accounts]).
    NOT covered by the theorem: specs with a "--" atom (crossing the atom turns what is left into
    positionals), lines with an unreadable or Q1 token; covered on every run by the derivation oracle
    ([RefSem.r_match] with the observed bindings as target) on the implementation. *)
From MowCli Require Import Base Nfa Matchers Apply Values Flow Cmd View ApplyProofs ValueProofs ViewProofs ReadProofs AccountProofs Parser Lexer RefSem SymProofs RefProofs RefProofsT.

Section C02.
  Variable parse_float : str -> option str.

  Theorem C02_values_are_the_bindings_of_the_run :
    forall (i : inited) argv opts' args',
      fsm_parse parse_float i argv = PAccept opts' args' ->
      exists bs,
        Acc (optinfo_of (i_opts i)) (i_graph i) (i_start i) argv false bs /\
        (forall k c, nth_error (i_opts i) k = Some c ->
                     exists c', nth_error opts' k = Some c' /\
                                fill_one parse_float c (values_for (KO k) bs) = Some c') /\
        (forall k c, nth_error (i_args i) k = Some c ->
                     exists c', nth_error args' k = Some c' /\
                                fill_one parse_float c (values_for (KA k) bs) = Some c').
  Proof.
    intros i argv opts' args' H. unfold fsm_parse in H.
    destruct (fsm_apply _ _ _ argv) as [bs| |] eqn:Ha; try discriminate.
    exists bs. split; [now apply fsm_apply_sound|].
    pose proof (fill_spec parse_float (i_opts i) 0 KO bs) as Ho.
    pose proof (fill_spec parse_float (i_args i) 0 KA bs) as Hg.
    destruct (fill parse_float (i_opts i) 0 KO bs) as [o1|]; [|discriminate].
    destruct (fill parse_float (i_args i) 0 KA bs) as [a1|]; [|discriminate].
    injection H as <- <-. split; [apply Ho | apply Hg].
  Qed.
End C02.

(** tokens following "--" are bound verbatim: once options are ended the positional matcher takes
    any token as it is, and no option matcher consumes anything *)
Theorem C02_after_dd_verbatim :
  forall i a rest, m_arg i (a :: rest) true = Some (rest, true, [(KA i, a)]).
Proof. exact m_arg_after_dd. Qed.

Theorem C02_after_dd_no_option :
  forall D o is args,
    m_opt D o args true = (if oi_fromenv D o then Some (args, true, []) else None) /\
    m_group D is args true = None.
Proof. intros. split; [apply m_opt_after_dd | apply m_group_after_dd]. Qed.

(** an option matcher records one value, for its own option only *)
Theorem C02_option_binds_itself :
  forall D o args ro rem ro' bs,
    m_opt D o args ro = Some (rem, ro', bs) ->
    ro' = ro /\ (bs = [] /\ rem = args /\ oi_fromenv D o = true \/ exists v, bs = [(KO o, v)]).
Proof. exact m_opt_shape. Qed.

(** every accepting run of an automaton without a spec-level "--" accounts for the whole reading *)
Theorem C02_every_run_accounts :
  forall D, oi_lookup D s_dd = None -> oi_lookup D [c_dash; c_eq] = None ->
  forall g, (forall s t, ~ In (LDD, t) (edges g s)) ->
  forall s a ro bs, Acc D g s a ro bs -> forall u, View D a ro u ->
    (forall x, occs x u = b_occs x bs ++ occs x []) /\ poss u = b_poss bs ++ poss [].
Proof. exact acc_accounts. Qed.

Theorem C02_written_values_exactly :
  forall opts args spec i a u bs,
    compile opts args spec = IOk i ->
    sane (optinfo_of opts) = true -> no_dd_graph (i_graph i) = true ->
    view (optinfo_of opts) a = Some u ->
    fsm_apply (optinfo_of opts) (i_graph i) (i_start i) a = AOk bs ->
    (forall o, values_for (KO o) bs = occs o u) /\ positional_bindings bs = poss u.
Proof. exact accepted_values_are_the_written_values. Qed.

(** what follows the first "--" of the command line reads as positionals, verbatim *)
Theorem C02_after_cmdline_dd_verbatim :
  forall rest, poss (VDD :: map VP rest) = rest /\ forall o, occs o (VDD :: map VP rest) = [].
Proof. intros rest. split; [apply poss_map_VP | intros o; apply occs_map_VP]. Qed.

(** The oracle that judges the implementation's bound values ("a derivation"): the executable reference matcher run
    with, for every variable, the list of values observed. For specs without "--" and cleanly read command lines
    it is proved to say Yes EXACTLY when some sentence reading of the spec binds every listed variable to exactly
    those values, in order, and binds nothing else ([bound_to], [expected]) — so it is no longer trusted there. *)
Theorem C02_derivation_oracle_decides :
  forall D nopts e w u t,
    seq_has_dd e = false -> erase_all (read (rdecl_of D) w) = Some u ->
    (r_match (rdecl_of D) (Greedy true) nopts e w t = Yes <->
     exists bs, VAccepts D nopts e (u, false) bs /\ absorbed bs t).
Proof. exact r_match_decides_target. Qed.

Theorem C02_absorbed_means_variable_by_variable :
  forall bs l, NoDup (map fst l) ->
    (absorbed bs (Some l) <->
     (forall b, In b bs -> In (fst b) (map fst l)) /\ (forall k, In k (map fst l) -> bound_to k bs = expected k l)).
Proof. exact absorbed_spec. Qed.

(** ... and it never rejects what the compiled command itself binds (no false alarm of the oracle on a faithful
    implementation): the bindings of an accepted line, projected on any duplicate-free list of variables covering
    them, are answered Yes *)
Theorem C02_derivation_oracle_accepts_the_commands_bindings :
  forall opts args spec i toks e a u bs keys,
    compile opts args spec = IOk i ->
    tokenize spec = LexOk toks ->
    parse_tokens (lookup_name opts) (lookup_name args) (length spec) toks = ParseOk e ->
    seq_has_dd e = false -> sane (optinfo_of opts) = true -> view (optinfo_of opts) a = Some u ->
    fsm_apply (optinfo_of opts) (i_graph i) (i_start i) a = AOk bs ->
    NoDup keys -> (forall b, In b bs -> In (fst b) keys) ->
    r_match (rdecl_of (optinfo_of opts)) (Greedy true) (length opts) e a (Some (project keys bs)) = Yes.
Proof. exact oracle_accepts_the_commands_bindings. Qed.

Print Assumptions C02_derivation_oracle_decides.
Print Assumptions C02_absorbed_means_variable_by_variable.
Print Assumptions C02_derivation_oracle_accepts_the_commands_bindings.
Print Assumptions C02_every_run_accounts.
Print Assumptions C02_written_values_exactly.
Print Assumptions C02_after_cmdline_dd_verbatim.
Print Assumptions C02_values_are_the_bindings_of_the_run.
Print Assumptions C02_after_dd_verbatim.
Print Assumptions C02_after_dd_no_option.
Print Assumptions C02_option_binds_itself.

(** non-vacuity: a repeated multi-valued option around a positional, and tokens after "--" *)
Definition c02_decls : list decl :=
  [mkDecl true KStrings (lit "o out") [] [] false (VStrs []) false;
   mkDecl true KBool (lit "f force") [] [] false (VBool false) false;
   mkDecl false KStrings (lit "SRC") [] [] false (VStrs []) false].

Example C02_nonvacuous :
  match declare (fun _ => None) (fun _ => []) c02_decls [] [] with
  | inl (opts, args) =>
    match compile opts args (lit "[OPTIONS] SRC...") with
    | IOk i =>
      let D := optinfo_of opts in
      let a := [lit "-fo1"; lit "--out"; lit "2"; lit "x"; lit "--"; lit "-o3"; lit "--"] in
      match view D a, fsm_apply D (i_graph i) (i_start i) a with
      | Some u, AOk bs =>
        sane D && no_dd_graph (i_graph i) &&
        strs_eqb (occs 0 u) [lit "1"; lit "2"] && strs_eqb (values_for (KO 0) bs) [lit "1"; lit "2"] &&
        strs_eqb (poss u) [lit "x"; lit "-o3"; lit "--"] && strs_eqb (positional_bindings bs) [lit "x"; lit "-o3"; lit "--"]
      | _, _ => false
      end
    | _ => false
    end
  | inr _ => false
  end = true.
Proof. vm_compute. reflexivity. Qed.

(** the derivation oracle at work: spec "[-o]... X Y" (option 0 valued, arguments 0 and 1), line "-o a -o=b x y": the
    values observed are accepted, the same values attributed to the wrong variables are not *)
Example C02_derivation_oracle_example :
  let D := mkRD (fun n => if str_eqb n (lit "-o") then Some 0 else None) (fun _ => false) (fun _ => false) in
  let ast := SCons (COne (RAtom (ASq (SCons (COne (RAtom (AOpt 0) false)) SNil)) true))
                   (SCons (COne (RAtom (AArg 0) false)) (SCons (COne (RAtom (AArg 1) false)) SNil)) in
  let line := [lit "-o"; lit "a"; lit "-o=b"; lit "x"; lit "y"] in
  (r_match D (Greedy true) 1 ast line (Some [(KO 0, [lit "a"; lit "b"]); (KA 0, [lit "x"]); (KA 1, [lit "y"])]),
   r_match D (Greedy true) 1 ast line (Some [(KO 0, [lit "b"; lit "a"]); (KA 0, [lit "x"]); (KA 1, [lit "y"])]),
   r_match D (Greedy true) 1 ast line (Some [(KO 0, [lit "a"; lit "b"]); (KA 0, [lit "y"]); (KA 1, [lit "x"])]),
   r_match D (Greedy true) 1 ast line (Some [(KO 0, [lit "a"]); (KA 0, [lit "x"]); (KA 1, [lit "y"])]))
  = (Yes, No, No, No).
Proof. vm_compute. reflexivity. Qed.

(** Nothing is bound to a variable that does not exist — for every declaration list, spec (with or without "--"),
    environment and accepted command line: the option of every binding [(KO k, v)] of the accepting run is the k-th
    option container the parse returns, the argument of every binding [(KA k, v)] the k-th argument container
    ([ArgRangeProofs]: the parser builds an argument leaf only from a declared name, the construction of the
    automaton keeps labels, a transition [LArg k] binds to [KA k] only; [NamedProofs] for the options). So the values
    C02 speaks of always have a place: [fill] drops none of them for want of a container. *)
From MowCli Require Import ArgRangeProofs.
Theorem C02_every_binding_has_a_container :
  forall (parse_float : str -> option str) (getenv : str -> str)
         (ds : list decl) (spec : str) (i : inited) (argv : list str) (opts' args' : list container)
         (bs : list binding) (key : key) (v : str),
    do_init parse_float getenv ds spec = IOk i ->
    fsm_parse parse_float i argv = PAccept opts' args' ->
    fsm_apply (optinfo_of (i_opts i)) (i_graph i) (i_start i) argv = AOk bs ->
    In (key, v) bs ->
    match key with
    | KO k => exists c, nth_error opts' k = Some c
    | KA k => exists c, nth_error args' k = Some c
    end.
Proof. exact every_binding_has_a_container. Qed.
Print Assumptions C02_every_binding_has_a_container.
