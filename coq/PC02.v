(** C02 — bound values are exactly a valid derivation of the command line.
    PARTIAL. Proved: the strings pushed into the user's variables are exactly the bindings recorded
    along the accepting run found by the search, per variable and in path order; each container is
    filled from its own bindings only; after options are ended the positional matcher binds tokens
    verbatim. NOT yet proved: conservation (every occurrence and positional of the line bound exactly
    once) against the reference reading — covered on every run by the derivation oracle
    ([RefSem.r_match] with the observed bindings as target). *)
From MowCli Require Import Base Nfa Matchers Apply Values Flow Cmd ApplyProofs ValueProofs.

Section C02.
  Variable parse_float : str -> option str.

  Theorem C02_values_are_the_bindings_of_the_run :
    forall (i : inited) argv opts' args',
      fsm_parse parse_float i argv = PAccept opts' args' ->
      exists bs,
        Acc (optinfo_of (i_opts i)) (i_graph i) (i_start i) argv false bs /\
        (forall k c, nth_error (i_opts i) k = Some c ->
                     exists c', nth_error opts' k = Some c' /\
                                fill_one parse_float c (values_for (KO k) bs) = Some c') /\
        (forall k c, nth_error (i_args i) k = Some c ->
                     exists c', nth_error args' k = Some c' /\
                                fill_one parse_float c (values_for (KA k) bs) = Some c').
  Proof.
    intros i argv opts' args' H. unfold fsm_parse in H.
    destruct (fsm_apply _ _ _ argv) as [bs| |] eqn:Ha; try discriminate.
    exists bs. split; [now apply fsm_apply_sound|].
    pose proof (fill_spec parse_float (i_opts i) 0 KO bs) as Ho.
    pose proof (fill_spec parse_float (i_args i) 0 KA bs) as Hg.
    destruct (fill parse_float (i_opts i) 0 KO bs) as [o1|]; [|discriminate].
    destruct (fill parse_float (i_args i) 0 KA bs) as [a1|]; [|discriminate].
    injection H as <- <-. split; [apply Ho | apply Hg].
  Qed.
End C02.

(** tokens following "--" are bound verbatim: once options are ended the positional matcher takes
    any token as it is, and no option matcher consumes anything *)
Theorem C02_after_dd_verbatim :
  forall i a rest, m_arg i (a :: rest) true = Some (rest, true, [(KA i, a)]).
Proof. exact m_arg_after_dd. Qed.

Theorem C02_after_dd_no_option :
  forall D o is args,
    m_opt D o args true = (if oi_fromenv D o then Some (args, true, []) else None) /\
    m_group D is args true = None.
Proof. intros. split; [apply m_opt_after_dd | apply m_group_after_dd]. Qed.

(** an option matcher records one value, for its own option only *)
Theorem C02_option_binds_itself :
  forall D o args ro rem ro' bs,
    m_opt D o args ro = Some (rem, ro', bs) ->
    ro' = ro /\ (bs = [] /\ rem = args /\ oi_fromenv D o = true \/ exists v, bs = [(KO o, v)]).
Proof. exact m_opt_shape. Qed.

Print Assumptions C02_values_are_the_bindings_of_the_run.
Print Assumptions C02_after_dd_verbatim.
Print Assumptions C02_after_dd_no_option.
Print Assumptions C02_option_binds_itself.
