(** C04 — sub-command routing runs exactly the addressed command with its own bindings. *)
From MowCli Require Import Base Values Flow Cmd FlowProofs TreeProofs TraceProofs.

Section C04.
  Variable parse_float : str -> option str.
  Variable getenv : str -> str.

  (** For every command tree, every invocation path (each level addressed by any alias: the
      first sub-command carrying the token, [find_sub]) and every per-level argument vector that
      names no sub-command of its level (and holds no help token), Cmd.parse computes [route]:
      each level validates exactly its own tokens against its own spec ([fsm_parse] of that
      level) and binds its own containers; the first level that rejects ends the run with a usage
      error and an empty trace; otherwise the callbacks of the path run around the Action of the
      LAST command only ([leaf_result] = [run_flow] over the levels of the path). *)
  Theorem C04_route :
    forall (rest : tail) (c : cmd) (i : inited) (policy : nat) (path w : list str)
           levels paths filled err r,
      no_alias (c_subs c) w = true ->
      no_help (w ++ flatten rest) = true ->
      route parse_float getenv c i policy path w rest levels paths filled err = Some r ->
      parse_cmd parse_float getenv c i policy path (w ++ flatten rest) levels paths filled err = r.
  Proof. exact (parse_cmd_route parse_float getenv). Qed.

  (** the argument split: the tokens of a level are those before the first token naming one of
      its sub-commands *)
  Theorem C04_split :
    forall subs w more,
      no_alias subs w = true ->
      (match more with [] => True | a :: _ => names_sub subs a = true end) ->
      opts_and_args subs (w ++ more) = length w.
  Proof. exact opts_and_args_own. Qed.

  (** For EVERY tree and EVERY argument vector (nothing assumed about the invocation): at most one
      Action runs, and callbacks run only inside the one step chain of the addressed command. *)
  Theorem C04_at_most_one_action :
    forall a argv, length (filter is_action (r_trace (run parse_float getenv a argv))) <= 1.
  Proof. exact (run_at_most_one_action parse_float getenv). Qed.

  (** ... and the Action that runs is the one of the last command entered: the trace is the trace of
      the chain over the levels [ls] with command paths [ps], and the Action event carries the last
      path of [ps]. *)
  Theorem C04_action_is_the_addressed_one :
    forall a argv p,
      In (HAction, p) (r_trace (run parse_float getenv a argv)) ->
      exists ls ps act, flowed (run parse_float getenv a argv) /\
        r_trace (run parse_float getenv a argv) = trace_of ps (fst (run_flow ls act)) /\
        length ps = length ls /\ p = last ps [].
  Proof. exact (run_action_is_the_addressed_one parse_float getenv). Qed.
End C04.
Print Assumptions C04_at_most_one_action.
Print Assumptions C04_action_is_the_addressed_one.
Print Assumptions C04_route.
Print Assumptions C04_split.

(** non-vacuity: app (spec "[-v]") > sub "run r" (spec "X"); "-v r x" runs sub's Action once,
    with each level's own bindings *)
Example C04_nonvacuous :
  let pf := fun _ : str => None in
  let ge := fun _ : str => [] in
  let sub := Cmd (lit "run r") [] [] false (lit "X") None
                 [mkDecl false KString (lit "X") [] [] false (VStr []) false]
                 HReturns HReturns HReturns [] in
  let root := Cmd (lit "app") [] [] false (lit "[-v]") (Some 0)
                  [mkDecl true KBool (lit "v") [] [] false (VBool false) false]
                  HReturns HReturns HReturns [sub] in
  let r := run pf ge (mkApp root None) [lit "-v"; lit "r"; lit "x"] in
  (r_outcome r, map fst (r_trace r),
   map (fun l => (fst (fst l), map ct_value (snd (fst l)), map ct_value (snd l))) (r_levels r))
  = (RRet None, [HBefore; HBefore; HAction; HAfter; HAfter],
     [([lit "app"], [VBool true], []); ([lit "app"; lit "run"], [], [VStr (lit "x")])]).
Proof. vm_compute. reflexivity. Qed.
