(** C04 / C07 / C14: sub-command routing, rejections and help, by induction over the path. *)
From MowCli Require Import Base Lexer Parser Nfa Matchers Apply Values Flow Cmd.

Section TP.
  Variable parse_float : str -> option str.
  Variable getenv : str -> str.

  Notation do_init := (do_init parse_float getenv).
  Notation fsm_parse := (fsm_parse parse_float).
  Notation parse_cmd := (parse_cmd parse_float getenv).
  Notation print_help := (print_help parse_float getenv).

  (** no token of [w] names a direct sub-command *)
  Definition no_alias (subs : list cmd) (w : list str) : bool :=
    forallb (fun t => negb (existsb (fun s => is_alias s t) subs)) w.

  Definition names_sub (subs : list cmd) (a : str) : bool := existsb (fun s => is_alias s a) subs.

  Lemma opts_and_args_own subs w more :
    no_alias subs w = true ->
    (match more with [] => True | a :: _ => names_sub subs a = true end) ->
    opts_and_args subs (w ++ more) = length w.
  Proof.
    induction w as [|t w IH]; cbn [no_alias forallb app length opts_and_args]; intros Hw Hm.
    - destruct more as [|a more]; [reflexivity|]. cbn [opts_and_args]. unfold names_sub in Hm. now rewrite Hm.
    - apply andb_true_iff in Hw as [Ht Hw]. apply negb_true_iff in Ht. rewrite Ht. f_equal. now apply IH.
  Qed.

  (** no help token anywhere: helpIndex finds nothing *)
  Definition no_help (w : list str) : bool :=
    forallb (fun t => negb (str_eqb t s_h || str_eqb t s_help)) w.

  Lemma help_index_none w : no_help w = true -> help_index w = None.
  Proof.
    induction w as [|t w IH]; cbn [no_help forallb help_index]; [reflexivity|]. intros H.
    apply andb_true_iff in H as [Ht Hw]. apply negb_true_iff in Ht. rewrite Ht.
    destruct (str_eqb t s_dd); [reflexivity|]. now rewrite IH.
  Qed.

  (** the rest of an invocation below a command: (alias token, own arguments) per level *)
  Definition tail := list (str * list str).

  Fixpoint flatten (rest : tail) : list str :=
    match rest with
    | [] => []
    | (a, w) :: rest' => a :: w ++ flatten rest'
    end.

  (** what happens at a level whose own arguments are rejected: error line, usage of that very
      command, then the policy of that command; nothing runs *)
  Definition reject_result (c : cmd) (i : inited) (policy : nat) (path : list str)
             (e : errclass) (err : list str)
             (filled : list (list str * list container * list container)) : result :=
    let line := match e with EUsage => s_err_usage | EConv => s_err_conv end in
    let (text, interrupted) := print_help path c i false in
    mkResult (match interrupted with
              | Some r => r
              | None => match on_error policy (Some e) with
                        | Some r => r
                        | None => RRet (Some e)
                        end
              end) [] (err ++ [line] ++ text) filled.

  (** the addressed command: its Action runs inside the chain of all levels, or help is shown
      when it has none *)
  Definition leaf_result (c : cmd) (i : inited) (policy : nat) (path : list str)
             (levels : list level) (paths : list (list str)) (err : list str)
             (filled : list (list str * list container * list container)) : result :=
    match c_action c with
    | HAbsent =>
      let (text, interrupted) := print_help path c i false in
      mkResult (match interrupted with
                | Some r => r
                | None => match on_error policy None with
                          | Some r => r
                          | None => RRet None
                          end
                end) [] (err ++ text) filled
    | act =>
      let (tr, o) := run_flow levels act in
      mkResult (outcome_of_flow o) (trace_of paths tr) err filled
    end.

  (** The routing specification: every level validates ITS OWN tokens [w] against ITS OWN spec
      and binds ITS OWN containers; the first level that rejects ends the run; the last one is
      the addressed command. *)
  Fixpoint route (c : cmd) (i : inited) (policy : nat) (path : list str) (w : list str) (rest : tail)
           (levels : list level) (paths : list (list str))
           (filled : list (list str * list container * list container)) (err : list str)
           {struct rest} : option result :=
    let levels' := levels ++ [mkLevel (c_before c) (c_after c)] in
    let paths' := paths ++ [path] in
    match rest with
    | [] =>
      Some match fsm_parse i w with
           | PFuelOut => mkResult RFuel [] err filled
           | PUsage => reject_result c i policy path EUsage err filled
           | PConv => reject_result c i policy path EConv err filled
           | PAccept o a => leaf_result c i policy path levels' paths' err (filled ++ [(path, o, a)])
           end
    | (alias, w') :: rest' =>
      (* well-formed invocations only: the token names a sub-command, whose own arguments do
         not name one of its sub-commands *)
      match find_sub (c_subs c) alias with
      | None => None
      | Some sub =>
        if negb (no_alias (c_subs sub) w') then None else
        match fsm_parse i w with
        | PFuelOut => Some (mkResult RFuel [] err filled)
        | PUsage => Some (reject_result c i policy path EUsage err filled)
        | PConv => Some (reject_result c i policy path EConv err filled)
        | PAccept o a =>
          let filled' := filled ++ [(path, o, a)] in
          let path' := path ++ [c_name false sub] in
          match do_init (c_decls sub) (c_spec sub) with
          | IOk si => route sub si (effective_policy policy sub) path' w' rest' levels' paths' filled' err
          | ISpecErr m p => Some (mkResult (RPanicSpec m p) [] err filled')
          | IDeclPanic m => Some (mkResult (RPanicDecl m) [] err filled')
          | IFuel => Some (mkResult RFuel [] err filled')
          end
        end
      end
    end.

  Lemma find_sub_names subs a sub : find_sub subs a = Some sub -> names_sub subs a = true.
  Proof.
    unfold find_sub, names_sub. induction subs as [|s subs IH]; cbn; [discriminate|].
    destruct (is_alias s a); [reflexivity|]. exact IH.
  Qed.

  Lemma no_help_app a b : no_help (a ++ b) = no_help a && no_help b.
  Proof. apply forallb_app. Qed.

  Lemma first_some_alias {B} (F : cmd -> B) subs arg :
    first_some (fun sub => if is_alias sub arg then Some (F sub) else None) subs
    = option_map F (find_sub subs arg).
  Proof.
    unfold find_sub. induction subs as [|s subs IH]; cbn; [reflexivity|].
    destruct (is_alias s arg); [reflexivity | exact IH].
  Qed.

  (** Cmd.parse on a well-formed invocation is [route] *)
  Theorem parse_cmd_route : forall (rest : tail) (c : cmd) (i : inited) (policy : nat) (path w : list str)
                                   levels paths filled err r,
    no_alias (c_subs c) w = true ->
    no_help (w ++ flatten rest) = true ->
    route c i policy path w rest levels paths filled err = Some r ->
    parse_cmd c i policy path (w ++ flatten rest) levels paths filled err = r.
  Proof.
    induction rest as [|[alias w'] rest IH]; intros c i policy path w levels paths filled err r Hw Hh Hr.
    - (* the addressed command *)
      cbn [flatten] in *. rewrite app_nil_r in *.
      destruct c as [n d ld h sp pol ds b act af subs].
      cbn [parse_cmd c_subs] in *.
      rewrite (help_index_none _ Hh).
      pose proof (opts_and_args_own subs w [] Hw I) as Hn. rewrite app_nil_r in Hn. rewrite Hn.
      rewrite firstn_all, skipn_all.
      cbn [route] in Hr. unfold reject_result in Hr. injection Hr as <-.
      destruct (fsm_parse i w) as [o a| | |]; cbn [c_action c_before c_after] in *; try reflexivity.
      all: unfold leaf_result; cbn [c_action]; destruct act; reflexivity.
    - cbn [flatten] in *.
      destruct c as [n d ld h sp pol ds b act af subs].
      cbn [route c_subs] in Hr. unfold reject_result in Hr.
      cbn [parse_cmd c_subs].
      rewrite (help_index_none _ Hh).
      destruct (find_sub subs alias) as [sub|] eqn:Hf.
      + destruct (no_alias (c_subs sub) w') eqn:Hw'; [|discriminate]. cbn [negb] in Hr.
        pose proof (opts_and_args_own subs w (alias :: w' ++ flatten rest) Hw (find_sub_names _ _ _ Hf)) as Hn.
        rewrite Hn. rewrite firstn_app, firstn_all, Nat.sub_diag. cbn [firstn]. rewrite app_nil_r.
        rewrite skipn_app, skipn_all, Nat.sub_diag. cbn [skipn List.app].
        destruct (fsm_parse i w) as [o a| | |] eqn:Hp; try (injection Hr as <-; reflexivity).
        rewrite first_some_alias, Hf. cbn [option_map].
        cbn [c_before c_after c_action] in *.
        destruct (do_init (c_decls sub) (c_spec sub)) as [si|m p|m|]; try (injection Hr as <-; reflexivity).
        apply IH; [assumption| |assumption].
        rewrite no_help_app in Hh. apply andb_true_iff in Hh as [_ Hh]. cbn [no_help forallb] in Hh.
        now apply andb_true_iff in Hh as [_ Hh].
      + discriminate.
  Qed.

  (** * Help *)

  (** neither a help token nor "--" *)
  Definition plain (w : list str) : bool :=
    forallb (fun t => negb (str_eqb t s_h || str_eqb t s_help) && negb (str_eqb t s_dd)) w.

  Definition is_help (t : str) : bool := str_eqb t s_h || str_eqb t s_help.

  Lemma help_index_at pre h more :
    plain pre = true -> is_help h = true -> help_index (pre ++ h :: more) = Some (length pre).
  Proof.
    intros Hp Hh. induction pre as [|t pre IH]; cbn [List.app length help_index].
    - unfold is_help in Hh. rewrite Hh.
      destruct (str_eqb h s_dd) eqn:Hd; [|reflexivity].
      apply str_eqb_eq in Hd. subst h. vm_compute in Hh. discriminate.
    - cbn [plain forallb] in Hp. apply andb_true_iff in Hp as [Ht Hp].
      apply andb_true_iff in Ht as [Ht1 Ht2]. apply negb_true_iff in Ht1, Ht2.
      rewrite Ht2, Ht1. now rewrite (IH Hp).
  Qed.

  Lemma plain_app a b : plain (a ++ b) = plain a && plain b.
  Proof. apply forallb_app. Qed.

  (** a "--" stops the scan for a help token: whatever follows it is not looked at *)
  Lemma help_index_dd pre more : plain pre = true -> help_index (pre ++ s_dd :: more) = None.
  Proof.
    intros Hp. induction pre as [|t pre IH]; cbn [List.app help_index].
    - now rewrite str_eqb_refl.
    - cbn [plain forallb] in Hp. apply andb_true_iff in Hp as [Ht Hp].
      apply andb_true_iff in Ht as [Ht1 Ht2]. apply negb_true_iff in Ht1, Ht2.
      rewrite Ht2, Ht1. now rewrite (IH Hp).
  Qed.

  (** ... so on a command without sub-commands the whole vector, help tokens after the "--" included, is
      validated against the spec like any other data: the result is the one of the addressed command
      ([leaf_result]) or of its rejection *)
  Theorem parse_cmd_help_after_dd c i policy path pre more levels paths filled err :
    c_subs c = [] -> plain pre = true ->
    parse_cmd c i policy path (pre ++ s_dd :: more) levels paths filled err =
    match fsm_parse i (pre ++ s_dd :: more) with
    | PFuelOut => mkResult RFuel [] err filled
    | PUsage => reject_result c i policy path EUsage err filled
    | PConv => reject_result c i policy path EConv err filled
    | PAccept o a => leaf_result c i policy path (levels ++ [mkLevel (c_before c) (c_after c)]) (paths ++ [path]) err
                                 (filled ++ [(path, o, a)])
    end.
  Proof.
    intros Hs Hp. destruct c as [n d ld h sp pol ds b act af subs]. cbn [c_subs] in Hs. subst subs.
    cbn [parse_cmd c_subs]. rewrite (help_index_dd _ _ Hp).
    assert (Hn : forall args, opts_and_args [] args = length args)
      by (induction args as [|a args IHa]; cbn [opts_and_args existsb length]; [reflexivity | now rewrite IHa]).
    rewrite Hn, firstn_all, skipn_all. unfold reject_result, leaf_result.
    destruct (fsm_parse i _) as [o a| | |]; cbn [c_action c_before c_after]; try reflexivity.
  Qed.

  (** the long help of the addressed command; nothing is validated, nothing runs *)
  Definition help_result (c : cmd) (i : inited) (policy : nat) (path : list str) (err : list str)
             (filled : list (list str * list container * list container)) : result :=
    let (text, interrupted) := print_help path c i true in
    mkResult (match interrupted with Some r => r | None => on_help policy end) [] (err ++ text) filled.

  (** follow the sub-command names that precede the help token; no level is validated *)
  Fixpoint help_descend (c : cmd) (i : inited) (policy : nat) (path : list str) (rest : tail)
           (last_w : list str) (h : str) (err : list str)
           (filled : list (list str * list container * list container)) {struct rest} : option result :=
    match rest with
    | [] =>
      (* the tokens between the last sub-command name and the help token name no sub-command,
         and neither does the help token *)
      if no_alias (c_subs c) last_w && negb (names_sub (c_subs c) h)
      then Some (help_result c i policy path err filled) else None
    | (alias, w') :: rest' =>
      match find_sub (c_subs c) alias with
      | None => None
      | Some sub =>
        match do_init (c_decls sub) (c_spec sub) with
        | IOk si => help_descend sub si (effective_policy policy sub) (path ++ [c_name false sub])
                                 rest' w' h err filled
        | ISpecErr m p => Some (mkResult (RPanicSpec m p) [] err filled)
        | IDeclPanic m => Some (mkResult (RPanicDecl m) [] err filled)
        | IFuel => Some (mkResult RFuel [] err filled)
        end
      end
    end.

  (** own arguments of every level but the last, to be interleaved with the aliases *)
  Fixpoint flatten_help (w : list str) (rest : tail) (h : str) (more : list str) : list str :=
    match rest with
    | [] => w ++ h :: more
    | (a, w') :: rest' => w ++ a :: flatten_help w' rest' h more
    end.

  Fixpoint plain_tail (rest : tail) : bool :=
    match rest with
    | [] => true
    | (a, w) :: rest' => plain [a] && plain w && plain_tail rest'
    end.

  (** every level's own tokens before the help token name no sub-command of that level *)
  Fixpoint own_ok (c : cmd) (w : list str) (rest : tail) : bool :=
    match rest with
    | [] => true
    | (a, w') :: rest' =>
      no_alias (c_subs c) w &&
      match find_sub (c_subs c) a with
      | Some sub => own_ok sub w' rest'
      | None => false
      end
    end.

  Lemma flatten_help_split w rest h more :
    exists pre : list str, flatten_help w rest h more = pre ++ h :: more /\
                (plain w && plain_tail rest = true -> plain pre = true) /\
                (forall a w' rest', rest = (a, w') :: rest' -> exists pre', pre = w ++ a :: pre').
  Proof.
    revert w. induction rest as [|[a w'] rest IH]; intros w; cbn [flatten_help plain_tail].
    - exists w. repeat split; [now rewrite andb_true_r | discriminate].
    - destruct (IH w') as (pre & He & Hp & _). exists (w ++ a :: pre). rewrite He. repeat split.
      + now rewrite <- app_assoc.
      + intros H. apply andb_true_iff in H as [Hw H]. apply andb_true_iff in H as [H Ht].
        apply andb_true_iff in H as [Ha Hw'].
        rewrite plain_app, Hw. cbn [andb]. change (a :: pre) with ([a] ++ pre). rewrite plain_app, Ha.
        apply Hp. now rewrite Hw', Ht.
      + intros a0 w0 r0 [= -> -> ->]. eauto.
  Qed.

  Theorem parse_cmd_help : forall (rest : tail) (c : cmd) (i : inited) (policy : nat) (path w : list str)
                                  h more levels paths filled err r,
    is_help h = true ->
    plain w && plain_tail rest = true ->
    own_ok c w rest = true ->
    help_descend c i policy path rest w h err filled = Some r ->
    parse_cmd c i policy path (flatten_help w rest h more) levels paths filled err = r.
  Proof.
    induction rest as [|[alias w'] rest IH]; intros c i policy path w h more levels paths filled err r Hh Hp Ho Hr.
    - cbn [flatten_help plain_tail help_descend] in *. rewrite andb_true_r in Hp.
      destruct (no_alias (c_subs c) w) eqn:Hw; [|discriminate].
      destruct (names_sub (c_subs c) h) eqn:Hn; [discriminate|]. injection Hr as <-.
      destruct c as [n d ld hd sp pol ds b act af subs]. cbn [parse_cmd c_subs] in *.
      rewrite (help_index_at w h more Hp Hh).
      assert (Hlt : (length w <=? opts_and_args subs (w ++ h :: more)) = true).
      { clear -Hw Hn. apply Nat.leb_le. apply Nat.lt_le_incl. induction w as [|t w IHw]; cbn [List.app length opts_and_args].
        - unfold names_sub in Hn. rewrite Hn. lia.
        - cbn [no_alias forallb] in Hw. apply andb_true_iff in Hw as [Ht Hw]. apply negb_true_iff in Ht.
          rewrite Ht. specialize (IHw Hw). lia. }
      rewrite Hlt. reflexivity.
    - cbn [flatten_help plain_tail help_descend own_ok] in *.
      apply andb_true_iff in Ho as [Hw Ho].
      destruct (find_sub (c_subs c) alias) as [sub|] eqn:Hf; [|discriminate].
      destruct c as [n d ld hd sp pol ds b act af subs]. cbn [parse_cmd c_subs] in *.
      destruct (flatten_help_split w' rest h more) as (pre & He & Hpl & _).
      apply andb_true_iff in Hp as [Hpw Hp]. apply andb_true_iff in Hp as [Hp Hpt].
      apply andb_true_iff in Hp as [Hpa Hpw'].
      assert (Hpre : plain pre = true) by (apply Hpl; now rewrite Hpw', Hpt).
      rewrite He.
      assert (Hhi : help_index (w ++ alias :: pre ++ h :: more) = Some (length (w ++ alias :: pre))).
      { replace (w ++ alias :: pre ++ h :: more) with ((w ++ alias :: pre) ++ h :: more)
          by (now rewrite <- app_assoc).
        apply help_index_at; [|assumption].
        rewrite plain_app, Hpw. change (alias :: pre) with ([alias] ++ pre). now rewrite plain_app, Hpa, Hpre. }
      rewrite Hhi.
      pose proof (opts_and_args_own subs w (alias :: pre ++ h :: more) Hw (find_sub_names _ _ _ Hf)) as Hn.
      rewrite Hn.
      assert (Hge : (length (w ++ alias :: pre) <=? length w) = false).
      { apply Nat.leb_gt. rewrite app_length. cbn [length]. lia. }
      rewrite Hge.
      rewrite skipn_app, skipn_all, Nat.sub_diag. cbn [skipn List.app].
      rewrite first_some_alias, Hf. cbn [option_map].
      destruct (do_init (c_decls sub) (c_spec sub)) as [si|m p|m|]; try (injection Hr as <-; reflexivity).
      rewrite <- He. apply IH; try assumption. now rewrite Hpw', Hpt.
  Qed.
End TP.
