(** T4a, the view bridge: the token surgery of the option matchers (matchLongOpt, matchShortOpt with
    its residue rewriting of folded tokens, the skip-one / skip-two scan) is, on command lines that
    read cleanly, the removal of the first occurrence of the option from the leading run of a
    sequence of symbols: occurrences (option, value), positionals, and the first "--".
    [Reads a u]: the tokens [a], in option mode, read as the symbols [u]. *)
From MowCli Require Import Base Nfa Matchers Apply View ApplyProofs TermProofs MatcherProofs SimProofs.
Local Arguments Ascii.eqb : simpl never.

Definition positional (t : str) : Prop := t = s_dash \/ dashed t = false.
Definition long_name (n : str) : Prop :=
  (exists l1 l2, n = c_dash :: c_dash :: l1 :: l2) /\ split_eq n = (n, None).
Definition noeq_head (v : str) : Prop :=
  match v with e :: _ => Ascii.eqb e c_eq = false | [] => True end.

Section View.
  Variable D : optinfo.
  (** no option is called "-" or "=" (their short forms would be "--" and "-=") *)
  Hypothesis Hnodd : oi_lookup D s_dd = None.
  Hypothesis Hnoeq : oi_lookup D [c_dash; c_eq] = None.

  (** the letters of declared flags, and their occurrences *)
  Inductive Flags : str -> list vs -> Prop :=
  | FlNil : Flags [] []
  | FlCons c o fs us :
      oi_lookup D [c_dash; c] = Some o -> oi_isbool D o = true -> Flags fs us ->
      Flags (c :: fs) (VO o s_true :: us).

  Inductive Reads : list str -> list vs -> Prop :=
  | RNil : Reads [] []
  | RDD rest : Reads (s_dd :: rest) (VDD :: map VP rest)
  | RPos t rest u : positional t -> Reads rest u -> Reads (t :: rest) (VP t :: u)
  | RLongEq n o v rest u :                      (* --name=value *)
      long_name n -> oi_lookup D n = Some o -> v <> [] -> Reads rest u ->
      Reads ((n ++ c_eq :: v) :: rest) (VO o v :: u)
  | RLongFlag n o rest u :                      (* --flag *)
      long_name n -> oi_lookup D n = Some o -> oi_isbool D o = true -> Reads rest u ->
      Reads (n :: rest) (VO o s_true :: u)
  | RLongSep n o v rest u :                     (* --name value *)
      long_name n -> oi_lookup D n = Some o -> oi_isbool D o = false -> dashed v = false -> Reads rest u ->
      Reads (n :: v :: rest) (VO o v :: u)
  | RShortEq x o v rest u :                     (* -x=value *)
      oi_lookup D [c_dash; x] = Some o -> v <> [] -> Reads rest u ->
      Reads ((c_dash :: x :: c_eq :: v) :: rest) (VO o v :: u)
  | RFoldEnd fs us rest u :                     (* -abc, flags only *)
      fs <> [] -> Flags fs us -> Reads rest u ->
      Reads ((c_dash :: fs) :: rest) (us ++ u)
  | RFoldAtt fs us x o v rest u :               (* -abxVALUE *)
      Flags fs us -> oi_lookup D [c_dash; x] = Some o -> oi_isbool D o = false ->
      v <> [] -> noeq_head v -> Reads rest u ->
      Reads ((c_dash :: fs ++ x :: v) :: rest) (us ++ VO o v :: u)
  | RFoldSep fs us x o v rest u :               (* -abx VALUE *)
      Flags fs us -> oi_lookup D [c_dash; x] = Some o -> oi_isbool D o = false ->
      dashed v = false -> Reads rest u ->
      Reads ((c_dash :: fs ++ [x]) :: v :: rest) (us ++ VO o v :: u).

  Lemma letter_not_dash c o : oi_lookup D [c_dash; c] = Some o -> Ascii.eqb c c_dash = false.
  Proof.
    intros H. destruct (Ascii.eqb_spec c c_dash) as [->|]; [|reflexivity].
    change [c_dash; c_dash] with s_dd in H. congruence.
  Qed.

  Lemma letter_not_eq c o : oi_lookup D [c_dash; c] = Some o -> Ascii.eqb c c_eq = false.
  Proof. intros H. destruct (Ascii.eqb_spec c c_eq) as [->|]; [congruence | reflexivity]. Qed.

  Lemma flags_app f1 u1 f2 u2 : Flags f1 u1 -> Flags f2 u2 -> Flags (f1 ++ f2) (u1 ++ u2).
  Proof. induction 1; cbn [List.app]; [auto|]. intros H2. econstructor; eauto. Qed.

  Lemma flags_nil_r fs : Flags fs [] -> fs = [].
  Proof. inversion 1; reflexivity. Qed.

  Lemma flags_nil_l us : Flags [] us -> us = [].
  Proof. inversion 1; reflexivity. Qed.

  Section Scan.
    Variable one : nat.

    Definition others (us : list vs) : Prop :=
      Forall (fun s => match s with VO o _ => Nat.eqb one o = false | _ => False end) us.

    Lemma take_others us : others us -> forall w,
      take one (us ++ w) = match take one w with Some (v, w') => Some (v, us ++ w') | None => None end.
    Proof.
      induction 1 as [|s us Hs _ IH]; intros w; cbn [List.app].
      - destruct (take one w) as [[v w']|]; reflexivity.
      - destruct s as [o v| |]; try contradiction. cbn [take]. rewrite Hs, IH.
        destruct (take one w) as [[v' w']|]; reflexivity.
    Qed.

    (** the flags of a folded token: either none is the option looked for, or there is a first one *)
    Lemma flags_split fs us : Flags fs us ->
      others us \/
      exists f1 c f2 u1 u2, fs = f1 ++ c :: f2 /\ us = u1 ++ VO one s_true :: u2 /\
                            Flags f1 u1 /\ others u1 /\ Flags f2 u2 /\
                            oi_lookup D [c_dash; c] = Some one /\ oi_isbool D one = true.
    Proof.
      induction 1 as [|c o fs us Hl Hb Hf IH]; [left; constructor|].
      destruct (Nat.eqb one o) eqn:E.
      - apply Nat.eqb_eq in E. subst o. right. exists [], c, fs, [], us. repeat split; auto; constructor.
      - destruct IH as [IH|(f1 & c' & f2 & u1 & u2 & -> & -> & H1 & H2 & H3 & H4 & H5)].
        + left. constructor; assumption.
        + right. exists (c :: f1), c', f2, (VO o s_true :: u1), u2. repeat split; auto.
          * econstructor; eauto.
          * constructor; assumption.
    Qed.

    (** the loop over the letters passes the flags that are not the one looked for *)
    Lemma loop_others fs us : Flags fs us -> others us -> forall pre suf after,
      short_loop D one pre (fs ++ suf) after = short_loop D one (pre ++ fs) suf after.
    Proof.
      induction 1 as [|c o fs us Hl Hb Hf IH]; intros Ho pre suf after; cbn [List.app].
      - now rewrite app_nil_r.
      - inversion Ho as [|s l Hs Ho']; subst. cbn [short_loop]. rewrite Hl, Hb.
        assert (E : Nat.eqb o one = false) by (rewrite Nat.eqb_sym; exact Hs). rewrite E. cbn [negb].
        rewrite (IH Ho'). now rewrite <- app_assoc.
    Qed.

    Lemma flags_not_dashed fs us tl : Flags fs us -> dashed tl = false -> dashed (fs ++ tl) = false.
    Proof.
      intros [|c o fs' us' Hl Hb Hf] Ht; [exact Ht|]. cbn [List.app dashed]. now apply letter_not_dash with o.
    Qed.

    (** and stops at the first that is (D7: what is left does not start with '-', its letters being
        declared ones) *)
    Lemma loop_found f1 u1 c : Flags f1 u1 -> others u1 ->
      oi_lookup D [c_dash; c] = Some one -> oi_isbool D one = true -> forall pre suf after,
      dashed (pre ++ f1 ++ suf) = false ->
      short_loop D one pre (f1 ++ c :: suf) after = Matched s_true (residue (pre ++ f1 ++ suf) after).
    Proof.
      intros Hf Ho Hl Hb pre suf after Hd. rewrite (loop_others f1 u1 Hf Ho). cbn [short_loop].
      rewrite Hl, Hb, Nat.eqb_refl. cbn [negb]. rewrite <- app_assoc. now rewrite Hd.
    Qed.

    (** a token "-" ++ letters goes through the loop unless its third character is '=' *)
    Definition second_ok (l : str) : Prop :=
      match l with _ :: e :: _ => Ascii.eqb e c_eq = false | _ => True end.

    Lemma match_short_loop n l after : second_ok (n :: l) ->
      match_short D one (c_dash :: n :: l) after = short_loop D one [] (n :: l) after.
    Proof. unfold match_short, second_ok. destruct l as [|e l]; [reflexivity|]. now intros ->. Qed.

    Lemma flags_second_ok fs us tl : Flags fs us -> second_ok tl -> fs <> [] \/ True ->
      (match fs with [] => True | _ => match tl with x :: _ => Ascii.eqb x c_eq = false | [] => True end end) ->
      second_ok (fs ++ tl).
    Proof.
      intros Hf Htl _ Hx. destruct Hf as [|c o fs us Hl Hb Hf]; [exact Htl|]. cbn [List.app].
      destruct Hf as [|c' o' fs' us' Hl' Hb' Hf']; cbn [List.app second_ok].
      - destruct tl; [exact I | exact Hx].
      - now apply letter_not_eq with o'.
    Qed.

    (** first letter of a folded token *)
    Lemma fold_shape l : (match l with c :: _ => Ascii.eqb c c_dash = false | [] => False end) ->
      str_eqb (c_dash :: l) s_dash = false /\ str_eqb (c_dash :: l) s_dd = false /\
      dashed (c_dash :: l) = true /\ prefix_b s_dd (c_dash :: l) = false.
    Proof. destruct l as [|c l]; [contradiction|]. intros Hc. now apply short_shape. Qed.

    Lemma flags_first fs us tl : Flags fs us ->
      (match tl with c :: _ => Ascii.eqb c c_dash = false | [] => False end) \/ fs <> [] ->
      match fs ++ tl with c :: _ => Ascii.eqb c c_dash = false | [] => False end.
    Proof.
      intros Hf H. destruct Hf as [|c o fs us Hl Hb Hf]; cbn [List.app].
      - destruct H as [H|H]; [exact H | congruence].
      - now apply letter_not_dash with o.
    Qed.

    (** what is left of a folded token *)
    Lemma reads_residue_end fs us rest u : Flags fs us -> Reads rest u -> Reads (residue fs rest) (us ++ u).
    Proof.
      intros Hf Hr. destruct fs as [|c fs]; cbn [residue].
      - now rewrite (flags_nil_l _ Hf).
      - apply RFoldEnd; [discriminate | assumption | assumption].
    Qed.

    Lemma residue_cons l tail : l <> [] -> residue l tail = (c_dash :: l) :: tail.
    Proof. destruct l; [congruence | reflexivity]. Qed.

    (** The scan of opt.Match is [take] on the symbols *)
    Theorem scan_reads a u : Reads a u -> forall pre,
      match take one u with
      | Some (v, u') => exists a', scan D one pre a = Some (v, rev_append pre a') /\ Reads a' u'
      | None => scan D one pre a = None
      end.
    Proof.
      induction 1 as [ | rest | t rest u Hp Hr IH
                     | n o v rest u Hn Hl Hv Hr IH | n o rest u Hn Hl Hb Hr IH | n o v rest u Hn Hl Hb Hd Hr IH
                     | x o v rest u Hl Hv Hr IH
                     | fs us rest u Hne Hf Hr IH
                     | fs us x o v rest u Hf Hl Hb Hv Hq Hr IH
                     | fs us x o v rest u Hf Hl Hb Hd Hr IH ]; intros pre.
      - reflexivity.
      - cbn [take scan]. change (str_eqb s_dd s_dash) with false. cbv iota. now rewrite str_eqb_refl.
      - cbn [take scan]. destruct Hp as [->|Hd]; [now rewrite str_eqb_refl|].
        destruct (str_eqb t s_dash); [reflexivity|]. destruct (str_eqb t s_dd); [reflexivity|]. now rewrite Hd.
      - (* --name=value *)
        destruct Hn as [Hlong Hne]. cbn [take scan].
        destruct (long_shape D o n Hl Hlong Hne (c_eq :: v)) as (-> & -> & -> & ->).
        unfold match_long. rewrite (split_eq_app _ _ Hne), Hl. rewrite (Nat.eqb_sym o one).
        destruct (Nat.eqb one o) eqn:E; cbn [negb].
        + destruct v; [congruence|]. exists rest. split; [reflexivity | assumption].
        + specialize (IH ((n ++ c_eq :: v) :: pre)). destruct (take one u) as [[v' u']|].
          * destruct IH as (a' & Hs & Hr'). exists ((n ++ c_eq :: v) :: a'). split; [exact Hs|]. now apply RLongEq.
          * exact IH.
      - (* --flag *)
        destruct Hn as [Hlong Hne]. cbn [take scan].
        destruct (long_shape D o n Hl Hlong Hne []) as (H1 & H2 & H3 & H4). rewrite app_nil_r in *.
        rewrite H1, H2, H3, H4. unfold match_long. rewrite Hne, Hl, Hb. rewrite (Nat.eqb_sym o one).
        destruct (Nat.eqb one o) eqn:E; cbn [negb].
        + exists rest. split; [reflexivity | assumption].
        + specialize (IH (n :: pre)). destruct (take one u) as [[v' u']|].
          * destruct IH as (a' & Hs & Hr'). exists (n :: a'). split; [exact Hs|]. now apply RLongFlag.
          * exact IH.
      - (* --name value *)
        destruct Hn as [Hlong Hne]. cbn [take scan].
        destruct (long_shape D o n Hl Hlong Hne []) as (H1 & H2 & H3 & H4). rewrite app_nil_r in *.
        rewrite H1, H2, H3, H4. unfold match_long. rewrite Hne, Hl, Hb. rewrite (Nat.eqb_sym o one).
        destruct (Nat.eqb one o) eqn:E; cbn [negb].
        + rewrite Hd. exists rest. split; [reflexivity | assumption].
        + specialize (IH (v :: n :: pre)). destruct (take one u) as [[v' u']|].
          * destruct IH as (a' & Hs & Hr'). exists (n :: v :: a'). split; [exact Hs|]. apply RLongSep; auto; now split.
          * exact IH.
      - (* -x=value *)
        cbn [take scan]. pose proof (letter_not_dash x o Hl) as Hx.
        destruct (short_shape x Hx (c_eq :: v)) as (-> & -> & -> & ->).
        unfold match_short. rewrite Ascii.eqb_refl, Hl. rewrite (Nat.eqb_sym o one).
        destruct (Nat.eqb one o) eqn:E; cbn [negb].
        + destruct v; [congruence|]. exists rest. split; [reflexivity | assumption].
        + specialize (IH ((c_dash :: x :: c_eq :: v) :: pre)). destruct (take one u) as [[v' u']|].
          * destruct IH as (a' & Hs & Hr'). exists ((c_dash :: x :: c_eq :: v) :: a'). split; [exact Hs|]. now apply RShortEq.
          * exact IH.
      - (* -abc *)
        cbn [scan].
        assert (Hfirst : match fs with c :: _ => Ascii.eqb c c_dash = false | [] => False end).
        { pose proof (flags_first fs us [] Hf (or_intror Hne)) as X. now rewrite app_nil_r in X. }
        destruct (fold_shape fs Hfirst) as (-> & -> & -> & ->).
        assert (Hso : second_ok fs).
        { pose proof (flags_second_ok fs us [] Hf I (or_intror I)) as X. rewrite app_nil_r in X. apply X. now destruct fs. }
        destruct fs as [|n l]; [congruence|]. rewrite (match_short_loop n l rest Hso).
        destruct (flags_split (n :: l) us Hf) as [Ho|(f1 & c & f2 & u1 & u2 & E1 & -> & H1 & H2 & H3 & H4 & H5)].
        + rewrite (take_others us Ho).
          pose proof (loop_others (n :: l) us Hf Ho [] [] rest) as X. rewrite app_nil_r in X. rewrite X.
          cbn [List.app short_loop]. specialize (IH ((c_dash :: n :: l) :: pre)).
          destruct (take one u) as [[v' u']|].
          * destruct IH as (a' & Hs & Hr'). exists ((c_dash :: n :: l) :: a'). split; [exact Hs|]. apply RFoldEnd; [discriminate | assumption | assumption].
          * exact IH.
        + rewrite E1. rewrite <- app_assoc. rewrite (take_others u1 H2). cbn [List.app take]. rewrite Nat.eqb_refl.
          rewrite (loop_found f1 u1 c H1 H2 H4 H5 [] f2 rest)
            by (cbn [List.app]; apply (flags_not_dashed f1 u1 _ H1); rewrite <- (app_nil_r f2); now apply (flags_not_dashed f2 u2)).
          cbn [List.app]. exists (residue (f1 ++ f2) rest). split; [reflexivity|].
          rewrite app_assoc. apply reads_residue_end; [now apply flags_app | assumption].
      - (* -abxVALUE *)
        cbn [scan].
        assert (Hxd : Ascii.eqb x c_dash = false) by (now apply letter_not_dash with o).
        assert (Hxe : Ascii.eqb x c_eq = false) by (now apply letter_not_eq with o).
        assert (Hfirst : match fs ++ x :: v with c :: _ => Ascii.eqb c c_dash = false | [] => False end)
          by (apply (flags_first fs us (x :: v) Hf); now left).
        destruct (fold_shape _ Hfirst) as (-> & -> & -> & ->).
        assert (Hso : second_ok (fs ++ x :: v)).
        { apply (flags_second_ok fs us (x :: v) Hf); [destruct v; [exact I | exact Hq] | now right | now destruct fs]. }
        destruct (fs ++ x :: v) as [|n l] eqn:EL; [now destruct fs|]. rewrite (match_short_loop n l rest Hso). rewrite <- EL.
        assert (Hown : short_loop D one fs (x :: v) rest =
                       if Nat.eqb one o then Matched v (residue fs rest) else Skip 1).
        { cbn [short_loop]. rewrite Hl, Hb. rewrite (Nat.eqb_sym o one). destruct v; [congruence|].
          destruct (Nat.eqb one o); reflexivity. }
        destruct (flags_split fs us Hf) as [Ho|(f1 & c & f2 & u1 & u2 & E1 & -> & H1 & H2 & H3 & H4 & H5)].
        + rewrite (take_others us Ho). cbn [take].
          rewrite (loop_others fs us Hf Ho [] (x :: v) rest). cbn [List.app]. rewrite Hown.
          destruct (Nat.eqb one o) eqn:E.
          * exists (residue fs rest). split; [reflexivity|]. now apply reads_residue_end.
          * specialize (IH ((c_dash :: fs ++ x :: v) :: pre)). destruct (take one u) as [[v' u']|].
            -- destruct IH as (a' & Hs & Hr'). exists ((c_dash :: fs ++ x :: v) :: a'). split; [exact Hs|]. now apply RFoldAtt.
            -- exact IH.
        + rewrite E1. rewrite <- !app_assoc. rewrite (take_others u1 H2). cbn [List.app take]. rewrite Nat.eqb_refl.
          rewrite (loop_found f1 u1 c H1 H2 H4 H5 [] (f2 ++ x :: v) rest)
            by (cbn [List.app]; apply (flags_not_dashed f1 u1 _ H1); apply (flags_not_dashed f2 u2 _ H3); exact Hxd).
          cbn [List.app].
          exists (residue (f1 ++ f2 ++ x :: v) rest). split; [reflexivity|].
          rewrite residue_cons by (destruct f1; [destruct f2|]; discriminate).
          rewrite (app_assoc f1 f2), (app_assoc u1 u2). apply RFoldAtt; auto. now apply flags_app.
      - (* -abx VALUE *)
        cbn [scan].
        assert (Hxd : Ascii.eqb x c_dash = false) by (now apply letter_not_dash with o).
        assert (Hxe : Ascii.eqb x c_eq = false) by (now apply letter_not_eq with o).
        assert (Hfirst : match fs ++ [x] with c :: _ => Ascii.eqb c c_dash = false | [] => False end)
          by (apply (flags_first fs us [x] Hf); now left).
        destruct (fold_shape _ Hfirst) as (-> & -> & -> & ->).
        assert (Hso : second_ok (fs ++ [x])).
        { apply (flags_second_ok fs us [x] Hf); [exact I | now right | now destruct fs]. }
        destruct (fs ++ [x]) as [|n l] eqn:EL; [now destruct fs|]. rewrite (match_short_loop n l (v :: rest) Hso). rewrite <- EL.
        assert (Hown : short_loop D one fs [x] (v :: rest) =
                       if Nat.eqb one o then Matched v (residue fs rest) else Skip 2).
        { cbn [short_loop]. rewrite Hl, Hb. rewrite (Nat.eqb_sym o one).
          destruct (Nat.eqb one o); cbn [negb]; [now rewrite Hd | reflexivity]. }
        destruct (flags_split fs us Hf) as [Ho|(f1 & c & f2 & u1 & u2 & E1 & -> & H1 & H2 & H3 & H4 & H5)].
        + rewrite (take_others us Ho). cbn [take].
          rewrite (loop_others fs us Hf Ho [] [x] (v :: rest)). cbn [List.app]. rewrite Hown.
          destruct (Nat.eqb one o) eqn:E.
          * exists (residue fs rest). split; [reflexivity|]. now apply reads_residue_end.
          * specialize (IH (v :: (c_dash :: fs ++ [x]) :: pre)). destruct (take one u) as [[v' u']|].
            -- destruct IH as (a' & Hs & Hr'). exists ((c_dash :: fs ++ [x]) :: v :: a'). split; [exact Hs|].
               apply RFoldSep; auto.
            -- exact IH.
        + rewrite E1. rewrite <- !app_assoc. rewrite (take_others u1 H2). cbn [List.app take]. rewrite Nat.eqb_refl.
          rewrite (loop_found f1 u1 c H1 H2 H4 H5 [] (f2 ++ [x]) (v :: rest))
            by (cbn [List.app]; apply (flags_not_dashed f1 u1 _ H1); apply (flags_not_dashed f2 u2 _ H3); exact Hxd).
          cbn [List.app].
          exists (residue (f1 ++ f2 ++ [x]) (v :: rest)). split; [reflexivity|].
          rewrite residue_cons by (destruct f1; [destruct f2|]; discriminate).
          rewrite (app_assoc f1 f2), (app_assoc u1 u2). apply RFoldSep; auto. now apply flags_app.
    Qed.
  End Scan.

  (** * The view of a configuration, and what each matcher does to it *)
  Definition View (a : list str) (ro : bool) (u : list vs) : Prop :=
    if ro then u = map VP a else Reads a u.

  Lemma positional_not_dd t : positional t -> str_eqb t s_dd = false.
  Proof.
    intros [->|Hd]; [reflexivity|]. destruct t as [|c t]; [reflexivity|]. cbn in Hd. cbn. now rewrite Hd.
  Qed.

  Lemma flags_head fs us : Flags fs us -> fs <> [] -> exists o v us', us = VO o v :: us'.
  Proof. intros [|c o fs' us' Hl Hb Hf] Hne; [congruence|]. eauto. Qed.

  (** the first token decides the first symbol *)
  Lemma reads_head a u : Reads a u ->
    match a with
    | [] => u = []
    | t :: rest =>
      if str_eqb t s_dd then u = VDD :: map VP rest
      else match u with
           | VP t' :: u' => t' = t /\ positional t /\ Reads rest u'
           | VO _ _ :: _ => dashed t = true /\ str_eqb t s_dash = false
           | _ => False
           end
    end.
  Proof.
    intros H. destruct H as [ | rest | t rest u Hp Hr
                     | n o v rest u [Hlong Hne] Hl Hv Hr | n o rest u [Hlong Hne] Hl Hb Hr | n o v rest u [Hlong Hne] Hl Hb Hg Hr
                     | x o v rest u Hl Hv Hr
                     | fs us rest u Hne Hf Hr
                     | fs us x o v rest u Hf Hl Hb Hv Hq Hr
                     | fs us x o v rest u Hf Hl Hb Hg Hr ].
    - reflexivity.
    - now rewrite str_eqb_refl.
    - rewrite (positional_not_dd t Hp). auto.
    - destruct (long_shape D o n Hl Hlong Hne (c_eq :: v)) as (H1 & -> & H3 & H4). auto.
    - destruct (long_shape D o n Hl Hlong Hne []) as (H1 & H2 & H3 & H4). rewrite app_nil_r in *. rewrite H2. auto.
    - destruct (long_shape D o n Hl Hlong Hne []) as (H1 & H2 & H3 & H4). rewrite app_nil_r in *. rewrite H2. auto.
    - destruct (short_shape x (letter_not_dash x o Hl) (c_eq :: v)) as (H1 & -> & H3 & H4). auto.
    - assert (Hfirst : match fs with c :: _ => Ascii.eqb c c_dash = false | [] => False end).
      { pose proof (flags_first fs us [] Hf (or_intror Hne)) as X. now rewrite app_nil_r in X. }
      destruct (fold_shape fs Hfirst) as (H1 & -> & H3 & H4).
      destruct (flags_head fs us Hf Hne) as (o & v & us' & ->). cbn [List.app]. auto.
    - assert (Hfirst : match fs ++ x :: v with c :: _ => Ascii.eqb c c_dash = false | [] => False end)
        by (apply (flags_first fs us (x :: v) Hf); left; now apply letter_not_dash with o).
      destruct (fold_shape _ Hfirst) as (H1 & -> & H3 & H4).
      destruct Hf as [|c o' fs us Hl' Hb' Hf]; cbn [List.app]; auto.
    - assert (Hfirst : match fs ++ [x] with c :: _ => Ascii.eqb c c_dash = false | [] => False end)
        by (apply (flags_first fs us [x] Hf); left; now apply letter_not_dash with o).
      destruct (fold_shape _ Hfirst) as (H1 & -> & H3 & H4).
      destruct Hf as [|c o' fs us Hl' Hb' Hf]; cbn [List.app]; auto.
  Qed.

  Lemma reads_nil u : Reads [] u -> u = [].
  Proof. intros H. exact (reads_head [] u H). Qed.

  Lemma reads_nil_iff a u : Reads a u -> (a = [] <-> u = []).
  Proof.
    intros H. pose proof (reads_head a u H) as X. destruct a as [|t rest]; [tauto|].
    split; [discriminate|]. intros ->. destruct (str_eqb t s_dd); [discriminate | contradiction].
  Qed.

  (** the single-option matcher takes the first occurrence of its option out of the leading run *)
  Theorem m_opt_view o a u : Reads a u ->
    match take o u with
    | Some (v, u') => exists a', m_opt D o a false = Some (a', false, [(KO o, v)]) /\ Reads a' u'
    | None => m_opt D o a false = if oi_fromenv D o then Some (a, false, []) else None
    end.
  Proof.
    intros H. unfold m_opt. destruct a as [|t rest].
    - rewrite (reads_nil u H). reflexivity.
    - pose proof (scan_reads o (t :: rest) u H []) as Hs. destruct (take o u) as [[v u']|].
      + destruct Hs as (a' & -> & Hr). exists a'. split; [reflexivity | exact Hr].
      + now rewrite Hs.
  Qed.

  Lemma m_opt_ro o a : m_opt D o a true = if oi_fromenv D o then Some (a, true, []) else None.
  Proof. unfold m_opt. now destruct a. Qed.

  (** * Relations on views that the matchers respect *)
  Section ViewSim.
    Variable S : list vs -> list vs -> Prop.
    Hypothesis S_refl : forall u, S u u.
    Hypothesis S_len : forall u1 u2, S u1 u2 -> length u1 = length u2.
    Hypothesis S_head : forall u1 u2, S u1 u2 ->
      match u1, u2 with
      | [], [] => True
      | VDD :: u1', VDD :: u2' => u1' = u2'
      | VP t1 :: u1', VP t2 :: u2' => t1 = t2 /\ S u1' u2'
      | VO _ _ :: _, VO _ _ :: _ => True
      | _, _ => False
      end.
    Hypothesis S_take : forall o u1 u2, S u1 u2 ->
      match take o u1, take o u2 with
      | Some (v1, w1), Some (v2, w2) => v1 = v2 /\ S w1 w2
      | None, None => True
      | _, _ => False
      end.

    Definition RV (c1 c2 : cfg) : Prop :=
      snd c1 = snd c2 /\ exists u1 u2, View (fst c1) (snd c1) u1 /\ View (fst c2) (snd c2) u2 /\ S u1 u2.

    Definition RO (a1 a2 : list str) : Prop := exists u1 u2, Reads a1 u1 /\ Reads a2 u2 /\ S u1 u2.

    Lemma map_VP_inj a b : map VP a = map VP b -> a = b.
    Proof.
      revert b; induction a as [|x a IH]; intros [|y b]; cbn; try congruence.
      intros [= -> H]. f_equal. auto.
    Qed.

    Lemma S_vp a1 a2 : S (map VP a1) (map VP a2) -> a1 = a2.
    Proof.
      revert a2. induction a1 as [|x a1 IH]; intros [|y a2] H; pose proof (S_head _ _ H) as X; cbn in X; try contradiction.
      - reflexivity.
      - destruct X as [-> X]. f_equal. auto.
    Qed.

    Lemma strip_false_cons t rest :
      strip (t :: rest) false = if str_eqb t s_dd then (rest, true) else (t :: rest, false).
    Proof. reflexivity. Qed.

    Lemma RV_strip a1 r1 a2 r2 : RV (a1, r1) (a2, r2) ->
      RV (strip a1 r1) (strip a2 r2) /\
      Nat.eqb (length (fst (strip a1 r1))) (length a1) = Nat.eqb (length (fst (strip a2 r2))) (length a2) /\
      (fst (strip a1 r1) = [] <-> fst (strip a2 r2) = []).
    Proof.
      intros (Er & u1 & u2 & V1 & V2 & HS). cbn [fst snd] in *. subst r2. destruct r1.
      - rewrite !strip_ro_true. cbn [fst]. cbn in V1, V2. subst. apply S_vp in HS. subst a2.
        split; [|tauto]. split; [reflexivity|]. exists (map VP a1), (map VP a1). cbn. auto.
      - cbn in V1, V2. pose proof (reads_head _ _ V1) as H1. pose proof (reads_head _ _ V2) as H2.
        pose proof (S_head _ _ HS) as Hh. pose proof (S_len _ _ HS) as Hlen.
        destruct a1 as [|t1 rest1].
        + subst u1. destruct u2; [|discriminate]. assert (a2 = []) as -> by (now apply (reads_nil_iff _ _ V2)).
          cbn. split; [|tauto]. split; [reflexivity|]. exists [], []. cbn. auto using RNil.
        + destruct a2 as [|t2 rest2].
          { subst u2. destruct u1; [|discriminate]. destruct (str_eqb t1 s_dd); [discriminate | contradiction]. }
          rewrite !strip_false_cons.
          destruct (str_eqb t1 s_dd) eqn:E1.
          * subst u1. destruct u2 as [|[o v|t|] u2]; try contradiction. subst u2.
            destruct (str_eqb t2 s_dd) eqn:E2.
            -- injection H2 as H2. apply map_VP_inj in H2. subst rest2. cbn [fst snd length].
               split; [|split; [|tauto]].
               ++ split; [reflexivity|]. exists (map VP rest1), (map VP rest1). cbn. auto.
               ++ assert (X : forall n, Nat.eqb n (Datatypes.S n) = false) by (induction n; auto). now rewrite !X.
            -- contradiction.
          * destruct (str_eqb t2 s_dd) eqn:E2.
            -- subst u2. destruct u1 as [|[o v|t|] u1]; try contradiction.
            -- cbn [fst snd]. rewrite !Nat.eqb_refl. split; [|split; [reflexivity | split; discriminate]].
               split; [reflexivity|]. exists u1, u2. cbn. auto.
    Qed.

    Lemma stripped_head t rest : strip (t :: rest) false = (t :: rest, false) -> str_eqb t s_dd = false.
    Proof.
      rewrite strip_false_cons. destruct (str_eqb t s_dd); [|reflexivity].
      discriminate.
    Qed.

    Lemma unchanged_shorter a r m o : length m < length a -> unchanged a r m o = false.
    Proof.
      intros H. unfold unchanged. destruct (strs_eqb m a) eqn:E; [|reflexivity].
      apply strs_eqb_eq in E. subst. lia.
    Qed.

    Lemma unchanged_smaller a r m o : args_size m < args_size a -> unchanged a r m o = false.
    Proof.
      intros H. unfold unchanged. destruct (strs_eqb m a) eqn:E; [|reflexivity].
      apply strs_eqb_eq in E. subst. lia.
    Qed.

    Lemma unchanged_same a r : unchanged a r a r = true.
    Proof.
      unfold unchanged. replace (strs_eqb a a) with true by (symmetry; now apply strs_eqb_eq).
      now destruct r.
    Qed.

    (** the single-option matchers respect [RO] *)
    Lemma RO_opt o a1 a2 : RO a1 a2 ->
      match m_opt D o a1 false, m_opt D o a2 false with
      | Some (m1, _, b1), Some (m2, _, b2) => b1 = b2 /\ RO m1 m2 /\ (m1 = a1 <-> m2 = a2)
      | None, None => True
      | _, _ => False
      end.
    Proof.
      intros (u1 & u2 & H1 & H2 & HS).
      pose proof (m_opt_view o a1 u1 H1) as M1. pose proof (m_opt_view o a2 u2 H2) as M2.
      pose proof (S_take o u1 u2 HS) as Ht.
      destruct (take o u1) as [[v1 w1]|], (take o u2) as [[v2 w2]|]; try contradiction.
      - destruct M1 as (m1 & E1 & R1), M2 as (m2 & E2 & R2). destruct Ht as [-> HS'].
        rewrite E1, E2. split; [reflexivity|]. split; [exists w1, w2; auto|].
        destruct (m_opt_progress _ _ _ _ _ _ _ E1) as [_ [[_ X]|[L1 _]]]; [discriminate|].
        destruct (m_opt_progress _ _ _ _ _ _ _ E2) as [_ [[_ X]|[L2 _]]]; [discriminate|].
        split; intros ->; lia.
      - rewrite M1, M2. destruct (oi_fromenv D o); [|exact I].
        split; [reflexivity|]. split; [exists u1, u2; auto | tauto].
    Qed.

    Lemma RO_nil a1 a2 : RO a1 a2 -> (a1 = [] <-> a2 = []).
    Proof.
      intros (u1 & u2 & H1 & H2 & HS). rewrite (reads_nil_iff _ _ H1), (reads_nil_iff _ _ H2).
      pose proof (S_len _ _ HS) as L. destruct u1, u2; cbn in L; try discriminate; split; auto; discriminate.
    Qed.

    (** every matcher but the spec-level "--" respects [RV] *)
    Lemma RV_step l a1 r1 a2 r2 : l <> LDD -> RV (a1, r1) (a2, r2) ->
      strip a1 r1 = (a1, r1) -> strip a2 r2 = (a2, r2) ->
      match run_matcher D l a1 r1, run_matcher D l a2 r2 with
      | Some (m1, o1, b1), Some (m2, o2, b2) =>
        b1 = b2 /\ RV (m1, o1) (m2, o2) /\ unchanged a1 r1 m1 o1 = unchanged a2 r2 m2 o2
      | None, None => True
      | _, _ => False
      end.
    Proof.
      intros Hl HR St1 St2. pose proof HR as (Er & u1 & u2 & V1 & V2 & HS). cbn [fst snd] in *. subst r2.
      destruct l as [|i|o|js|]; cbn [run_matcher]; [| | | |congruence].
      - (* shortcut *) split; [reflexivity|]. split; [exact HR|]. now rewrite !unchanged_same.
      - (* positional *)
        pose proof (S_head _ _ HS) as Hh. unfold m_arg. destruct r1.
        + cbn in V1, V2. subst u1 u2. cbn [negb andb].
          destruct a1 as [|t1 q1], a2 as [|t2 q2]; cbn in Hh; try contradiction; [exact I|].
          destruct Hh as [-> HS']. split; [reflexivity|]. split.
          * split; [reflexivity|]. exists (map VP q1), (map VP q2). cbn. auto.
          * rewrite !unchanged_shorter by (cbn; lia). reflexivity.
        + cbn in V1, V2. pose proof (reads_head _ _ V1) as H1. pose proof (reads_head _ _ V2) as H2.
          destruct a1 as [|t1 q1].
          { subst u1. destruct u2; [|contradiction]. pose proof (reads_nil_iff _ _ V2) as X.
            destruct a2; [exact I|]. destruct X as [_ X]. specialize (X eq_refl). discriminate. }
          destruct a2 as [|t2 q2].
          { subst u2. destruct u1 as [|[?|?|] ?]; try contradiction.
            rewrite (stripped_head _ _ St1) in H1. contradiction. }
          rewrite (stripped_head _ _ St1) in H1. rewrite (stripped_head _ _ St2) in H2. cbn [negb andb].
          destruct u1 as [|[o1 v1|p1|] u1], u2 as [|[o2 v2|p2|] u2]; try contradiction.
          * destruct H1 as [-> ->], H2 as [-> ->]. exact I.
          * destruct H1 as (-> & P1 & R1), H2 as (-> & P2 & R2). destruct Hh as [-> HS'].
            assert (X : dashed t2 && negb (str_eqb t2 s_dash) = false).
            { destruct P2 as [-> | ->]; reflexivity. }
            rewrite X. split; [reflexivity|]. split.
            -- split; [reflexivity|]. exists u1, u2. cbn. auto.
            -- rewrite !unchanged_shorter by (cbn; lia). reflexivity.
      - (* single option *)
        destruct r1.
        + rewrite !m_opt_ro. destruct (oi_fromenv D o); [|exact I].
          split; [reflexivity|]. split; [exact HR|]. now rewrite !unchanged_same.
        + assert (HO : RO a1 a2) by (exists u1, u2; auto).
          pose proof (RO_opt o a1 a2 HO) as X.
          destruct (m_opt D o a1 false) as [[[m1 o1] b1]|] eqn:E1, (m_opt D o a2 false) as [[[m2 o2] b2]|] eqn:E2;
            try contradiction; [|exact I].
          destruct (m_opt_progress _ _ _ _ _ _ _ E1) as [-> _]. destruct (m_opt_progress _ _ _ _ _ _ _ E2) as [-> _].
          destruct X as (-> & (w1 & w2 & R1 & R2 & HS') & Hu). split; [reflexivity|]. split.
          * split; [reflexivity|]. exists w1, w2. cbn. auto.
          * unfold unchanged. cbn [Bool.eqb]. rewrite !andb_true_r.
            destruct (strs_eqb m1 a1) eqn:Q1, (strs_eqb m2 a2) eqn:Q2; try reflexivity.
            -- apply strs_eqb_eq in Q1. apply Hu in Q1. apply strs_eqb_eq in Q1. congruence.
            -- apply strs_eqb_eq in Q2. apply Hu in Q2. apply strs_eqb_eq in Q2. congruence.
      - (* group *)
        destruct r1.
        + unfold m_group, try_. destruct a1, a2; exact I.
        + assert (HO : RO a1 a2) by (exists u1, u2; auto).
          pose proof (m_group_rel D RO (fun x y H => or_introl (RO_nil x y H)) RO_opt js a1 a2 HO) as X.
          destruct (m_group D js a1 false) as [[[m1 o1] b1]|] eqn:E1, (m_group D js a2 false) as [[[m2 o2] b2]|] eqn:E2;
            try contradiction; [|exact I].
          destruct (m_group_progress _ _ _ _ _ _ _ E1) as [-> _]. destruct (m_group_progress _ _ _ _ _ _ _ E2) as [-> _].
          destruct X as (-> & (w1 & w2 & R1 & R2 & HS') & Hu). split; [reflexivity|]. split.
          * split; [reflexivity|]. exists w1, w2. cbn. auto.
          * unfold unchanged. cbn [Bool.eqb]. rewrite !andb_true_r.
            destruct (strs_eqb m1 a1) eqn:Q1, (strs_eqb m2 a2) eqn:Q2; try reflexivity.
            -- apply strs_eqb_eq in Q1. apply Hu in Q1. apply strs_eqb_eq in Q1. congruence.
            -- apply strs_eqb_eq in Q2. apply Hu in Q2. apply strs_eqb_eq in Q2. congruence.
    Qed.

    (** Two command lines whose readings are related give the same verdict and the same bindings, on
        every automaton without a spec-level "--" *)
    Theorem view_same_result g start a1 a2 u1 u2 :
      wf_graph g -> (forall s t, ~ In (LDD, t) (edges g s)) -> start < nstates g ->
      Reads a1 u1 -> Reads a2 u2 -> S u1 u2 ->
      fsm_apply D g start a1 = fsm_apply D g start a2.
    Proof.
      intros Hwf Hnd Hs H1 H2 HS.
      apply (bisim_same_result D g RV (fun l => l <> LDD) Hwf).
      - intros s l t Hin ->. exact (Hnd s t Hin).
      - intros b1 q1 b2 q2 H. destruct (RV_strip _ _ _ _ H) as (A & _ & C). split; assumption.
      - intros l b1 r1 b2 r2 Hl. now apply RV_step.
      - exact Hs.
      - split; [reflexivity|]. exists u1, u2. cbn. auto.
    Qed.
  End ViewSim.

  (** * C10: command lines that read as the same symbols are indistinguishable *)
  Theorem same_reading_same_result g start a1 a2 u :
    wf_graph g -> (forall s t, ~ In (LDD, t) (edges g s)) -> start < nstates g ->
    Reads a1 u -> Reads a2 u ->
    fsm_apply D g start a1 = fsm_apply D g start a2.
  Proof.
    intros Hwf Hnd Hs H1 H2. apply (view_same_result eq) with (u1 := u) (u2 := u); auto.
    - intros u1 u2 ->. reflexivity.
    - intros u1 u2 ->. destruct u2 as [|[o v|t|] u2]; auto.
    - intros o u1 u2 ->. destruct (take o u2) as [[v w]|]; auto.
  Qed.

  (** a group of tokens that reads as [up] whatever follows *)
  Definition Prefix (pre : list str) (up : list vs) : Prop :=
    forall rest u, Reads rest u -> Reads (pre ++ rest) (up ++ u).

  Lemma prefix_nil : Prefix [] [].
  Proof. intros rest u H. exact H. Qed.

  Lemma prefix_app p1 u1 p2 u2 : Prefix p1 u1 -> Prefix p2 u2 -> Prefix (p1 ++ p2) (u1 ++ u2).
  Proof. intros H1 H2 rest u H. rewrite <- !app_assoc. apply H1, H2, H. Qed.

  Lemma prefix_positional t : positional t -> Prefix [t] [VP t].
  Proof. intros Hp rest u H. now apply RPos. Qed.

  (** every documented spelling of an occurrence (MatcherProofs.Spelled) is such a group *)
  Lemma prefix_spelled o c long v toks : named D o c long -> Spelled D o c long v toks -> Prefix toks [VO o v].
  Proof.
    intros [Hc Hls Hll Hlong Hne] Hs rest u H.
    assert (Hln : long_name long) by (split; assumption).
    inversion Hs as [Hf|Hf|Hf|Hf|v0 Hv Hg|v0 Hv Hn0|e v0 Hv He|v0 Hv Hg|v0 Hv Hn0]; subst; cbn [List.app].
    - apply (RFoldEnd [c] [VO o s_true]); [discriminate | econstructor; eauto; constructor | assumption].
    - apply RShortEq; [assumption | discriminate | assumption].
    - now apply RLongFlag.
    - apply RLongEq; [assumption | assumption | discriminate | assumption].
    - apply (RFoldSep [] [] c o v rest u FlNil); auto. apply Hg.
    - now apply RShortEq.
    - apply (RFoldAtt [] [] c o (e :: v0) rest u FlNil); auto. discriminate.
    - apply RLongSep; auto. apply Hg.
    - now apply RLongEq.
  Qed.

  (** folded flags, with or without a valued option at the end *)
  Lemma prefix_fold_flags fs us : fs <> [] -> Flags fs us -> Prefix [c_dash :: fs] us.
  Proof. intros Hne Hf rest u H. now apply RFoldEnd. Qed.

  Lemma prefix_fold_att fs us x o v :
    Flags fs us -> oi_lookup D [c_dash; x] = Some o -> oi_isbool D o = false -> v <> [] -> noeq_head v ->
    Prefix [c_dash :: fs ++ x :: v] (us ++ [VO o v]).
  Proof. intros Hf Hl Hb Hv Hq rest u H. rewrite <- app_assoc. now apply RFoldAtt. Qed.

  Lemma prefix_fold_sep fs us x o v :
    Flags fs us -> oi_lookup D [c_dash; x] = Some o -> oi_isbool D o = false -> dashed v = false ->
    Prefix [c_dash :: fs ++ [x]; v] (us ++ [VO o v]).
  Proof. intros Hf Hl Hb Hg rest u H. rewrite <- app_assoc. now apply RFoldSep. Qed.

  (** Rewriting a group of tokens into another group with the same reading, anywhere before the first
      "--", changes nothing: neither the verdict nor any binding *)
  Theorem respell_same_result g start pre up t1 t2 ut rest u :
    wf_graph g -> (forall s t, ~ In (LDD, t) (edges g s)) -> start < nstates g ->
    Prefix pre up -> Prefix t1 ut -> Prefix t2 ut -> Reads rest u ->
    fsm_apply D g start (pre ++ t1 ++ rest) = fsm_apply D g start (pre ++ t2 ++ rest).
  Proof.
    intros Hwf Hnd Hs Hp H1 H2 Hr.
    apply (same_reading_same_result g start _ _ (up ++ ut ++ u)); auto.
  Qed.

  (** * C11: adjacent occurrences of different options commute *)
  Definition no_dd (p : list vs) : Prop := Forall (fun s => s <> VDD) p.

  Inductive Sw : list vs -> list vs -> Prop :=
  | SwEq u : Sw u u
  | SwSwap p o v o' v' w : no_dd p -> Nat.eqb o o' = false ->
      Sw (p ++ VO o v :: VO o' v' :: w) (p ++ VO o' v' :: VO o v :: w).

  Lemma sw_cons s u1 u2 : s <> VDD -> Sw u1 u2 -> Sw (s :: u1) (s :: u2).
  Proof.
    intros Hs [u|p o v o' v' w Hp Hne]; [constructor|].
    apply (SwSwap (s :: p)); [constructor; assumption | assumption].
  Qed.

  Lemma sw_take x u1 u2 : Sw u1 u2 ->
    match take x u1, take x u2 with
    | Some (v1, w1), Some (v2, w2) => v1 = v2 /\ Sw w1 w2
    | None, None => True
    | _, _ => False
    end.
  Proof.
    intros [u|p o v o' v' w Hp Hne].
    - destruct (take x u) as [[v w]|]; [split; [reflexivity | constructor] | exact I].
    - induction Hp as [|s p Hs Hp IH]; cbn [List.app].
      + cbn [take]. destruct (Nat.eqb x o) eqn:Exo.
        * apply Nat.eqb_eq in Exo. subst x. rewrite Hne. split; [reflexivity | constructor].
        * destruct (Nat.eqb x o') eqn:Exo'.
          -- split; [reflexivity | constructor].
          -- destruct (take x w) as [[v'' w']|]; [|exact I]. split; [reflexivity|]. apply (SwSwap []); [constructor | assumption].
      + destruct s as [q vq|t|]; [| exact I | congruence]. cbn [take].
        destruct (Nat.eqb x q).
        * split; [reflexivity|]. now apply SwSwap.
        * destruct (take x (p ++ VO o v :: VO o' v' :: w)) as [[v1 w1]|],
                   (take x (p ++ VO o' v' :: VO o v :: w)) as [[v2 w2]|]; try contradiction; [|exact I].
          destruct IH as [-> IH]. split; [reflexivity|]. apply sw_cons; [discriminate | assumption].
  Qed.

  Theorem swap_same_result g start a1 a2 p o v o' v' w :
    wf_graph g -> (forall s t, ~ In (LDD, t) (edges g s)) -> start < nstates g ->
    no_dd p -> Nat.eqb o o' = false ->
    Reads a1 (p ++ VO o v :: VO o' v' :: w) -> Reads a2 (p ++ VO o' v' :: VO o v :: w) ->
    fsm_apply D g start a1 = fsm_apply D g start a2.
  Proof.
    intros Hwf Hnd Hs Hp Hne H1 H2.
    apply (view_same_result Sw) with (u1 := p ++ VO o v :: VO o' v' :: w) (u2 := p ++ VO o' v' :: VO o v :: w); auto.
    - constructor.
    - intros u1 u2 [u|p0 o0 v0 o0' v0' w0 _ _]; [reflexivity|]. rewrite !app_length. reflexivity.
    - intros u1 u2 [u|p0 o0 v0 o0' v0' w0 Hp0 Hne0].
      + destruct u as [|[q vq|t|] u]; auto. split; [reflexivity | constructor].
      + destruct Hp0 as [|s p0 Hs0 Hp0]; cbn [List.app]; [exact I|].
        destruct s as [q vq|t|]; [exact I | | congruence]. split; [reflexivity|]. now apply SwSwap.
    - intros x u1 u2. apply sw_take.
    - now apply SwSwap.
  Qed.

  (** token level: two adjacent groups of tokens, each one occurrence, of different options *)
  Theorem swap_tokens_same_result g start pre up t o v t' o' v' rest u :
    wf_graph g -> (forall s t0, ~ In (LDD, t0) (edges g s)) -> start < nstates g ->
    Prefix pre up -> no_dd up -> Prefix t [VO o v] -> Prefix t' [VO o' v'] -> Nat.eqb o o' = false ->
    Reads rest u ->
    fsm_apply D g start (pre ++ t ++ t' ++ rest) = fsm_apply D g start (pre ++ t' ++ t ++ rest).
  Proof.
    intros Hwf Hnd Hs Hp Hup Ht Ht' Hne Hr.
    apply (swap_same_result g start _ _ up o v o' v' u); auto.
    - apply Hp. apply (Ht (t' ++ rest) (VO o' v' :: u)). now apply (Ht' rest u).
    - apply Hp. apply (Ht' (t ++ rest) (VO o v :: u)). now apply (Ht rest u).
  Qed.
End View.
