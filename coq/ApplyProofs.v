(** The backtracking matcher State.apply: soundness (whatever it accepts is an accepting run of
    the automaton, and the bindings it returns are the ones recorded along that run) and the
    matcher-level facts used by C03 / C09 / C12. *)
From MowCli Require Import Base Nfa Matchers Apply.

Section AP.
  Variable D : optinfo.
  Variable g : graph.

  (** accepting runs of the automaton: at every state a leading "--" is dropped once, the state
      accepts when it is terminal and nothing is left, and a transition is taken when its matcher
      succeeds on what is left *)
  Inductive Acc : nat -> list str -> bool -> list binding -> Prop :=
  | AccEnd s args ro :
      fst (strip args ro) = [] -> terminal g s = true -> Acc s args ro []
  | AccStep s args ro l t rem ro' bs bs' :
      In (l, t) (edges g s) ->
      run_matcher D l (fst (strip args ro)) (snd (strip args ro)) = Some (rem, ro', bs) ->
      Acc t rem ro' bs' ->
      Acc s args ro (bs ++ bs').

  Lemma collect_sound s a r t rem ro' bs :
    In (t, rem, ro', bs) (collect D g s a r) ->
    exists l, In (l, t) (edges g s) /\ run_matcher D l a r = Some (rem, ro', bs).
  Proof.
    unfold collect. induction (edges g s) as [|[l t0] es IH]; cbn [fold_right]; [intros []|].
    cbn [fst snd]. destruct (run_matcher D l a r) as [[[rem0 ro0] bs0]|] eqn:Hm.
    - intros [H|H].
      + injection H as -> -> -> ->. exists l. split; [now left | assumption].
      + destruct (IH H) as (l' & Hin & Hr). exists l'. split; [now right | assumption].
    - intros H. destruct (IH H) as (l' & Hin & Hr). exists l'. split; [now right | assumption].
  Qed.

  Lemma try_matches_sound (rec : nat -> list str -> bool -> list nat -> ares * list nat) s args ro args1 ro1 :
    strip args ro = (args1, ro1) ->
    (forall t a r sn bs sn', rec t a r sn = (AOk bs, sn') -> Acc t a r bs) ->
    forall ms, (forall m, In m ms -> In m (collect D g s args1 ro1)) ->
    forall sn bs sn', try_matches rec args1 ro1 ms sn = (AOk bs, sn') -> Acc s args ro bs.
  Proof.
    intros Hs Hrec. induction ms as [|[[[t rem] ro'] bs0] ms IHms]; intros Hall sn bs sn'; cbn [try_matches]; [discriminate|].
    assert (Hin : In (t, rem, ro', bs0) (collect D g s args1 ro1)) by (apply Hall; now left).
    destruct (collect_sound _ _ _ _ _ _ _ Hin) as (l & Hedge & Hrun).
    assert (Hstep : forall bs', Acc t rem ro' bs' -> Acc s args ro (bs0 ++ bs')).
    { intros bs' Ha. eapply AccStep; [exact Hedge | rewrite Hs; exact Hrun | exact Ha]. }
    assert (Hall' : forall m, In m ms -> In m (collect D g s args1 ro1)) by (intros m Hm; apply Hall; now right).
    destruct (strs_eqb rem args1 && Bool.eqb ro' ro1).
    - destruct (mem_nat t sn); [now apply IHms|].
      destruct (rec t rem ro' sn) as [[bs'| |] sn2] eqn:Ha.
      + intros [= <- _]. apply Hstep. eapply Hrec; exact Ha.
      + now apply IHms.
      + discriminate.
    - destruct (rec t rem ro' []) as [[bs'| |] sn2] eqn:Ha.
      + intros [= <- _]. apply Hstep. eapply Hrec; exact Ha.
      + now apply IHms.
      + discriminate.
  Qed.

  Theorem apply_sound fuel : forall s args ro seen bs seen',
    apply D g fuel s args ro seen = (AOk bs, seen') -> Acc s args ro bs.
  Proof.
    induction fuel as [|f IH]; intros s args ro seen bs seen'; cbn [apply]; [discriminate|].
    destruct (strip args ro) as [args1 ro1] eqn:Hs.
    destruct (match args1 with [] => terminal g s | _ :: _ => false end) eqn:Ht.
    - intros [= <- _]. destruct args1; [|discriminate]. apply AccEnd; [now rewrite Hs | assumption].
    - apply (try_matches_sound (apply D g f) s args ro args1 ro1 Hs IH); auto.
  Qed.

  Corollary fsm_apply_sound start args bs :
    fsm_apply D g start args = AOk bs -> Acc start args false bs.
  Proof.
    unfold fsm_apply. destruct (apply D g (apply_fuel g args) start args false []) as [r sn] eqn:Ha.
    cbn. intros ->. eapply apply_sound; exact Ha.
  Qed.
End AP.

(** * Matcher facts *)

Lemma strip_ro_true args : strip args true = (args, true).
Proof. destruct args; reflexivity. Qed.

(** once options are ended the positional matcher takes any token verbatim, dash-prefixed or not *)
Lemma m_arg_after_dd i a rest : m_arg i (a :: rest) true = Some (rest, true, [(KA i, a)]).
Proof. reflexivity. Qed.

(** before that it refuses dash-prefixed tokens other than "-" *)
Lemma m_arg_refuses_options i a rest :
  dashed a = true -> a <> s_dash -> m_arg i (a :: rest) false = None.
Proof.
  intros Hd Hn. unfold m_arg. cbn [negb andb]. rewrite Hd.
  destruct (str_eqb a s_dash) eqn:He; [apply str_eqb_eq in He; contradiction | reflexivity].
Qed.

(** once options are ended no option matcher consumes anything: it only succeeds through the
    environment fallback *)
Lemma m_opt_after_dd D o args :
  m_opt D o args true = if oi_fromenv D o then Some (args, true, []) else None.
Proof. unfold m_opt. destruct args; reflexivity. Qed.

Lemma m_group_after_dd D is args : m_group D is args true = None.
Proof. unfold m_group, try_. destruct args; reflexivity. Qed.

(** an option matcher never changes the options-ended flag, and what it records is one value of
    its own option *)
Lemma m_opt_shape D o args ro rem ro' bs :
  m_opt D o args ro = Some (rem, ro', bs) ->
  ro' = ro /\ (bs = [] /\ rem = args /\ oi_fromenv D o = true \/ exists v, bs = [(KO o, v)]).
Proof.
  unfold m_opt. intros H.
  assert (Hfb : (if oi_fromenv D o then Some (args, ro, []) else None) = Some (rem, ro', bs) ->
                ro' = ro /\ (bs = [] /\ rem = args /\ oi_fromenv D o = true \/ exists v, bs = [(KO o, v)])).
  { destruct (oi_fromenv D o); [|discriminate]. intros [= <- <- <-]. auto. }
  destruct args as [|a args]; [now apply Hfb|].
  destruct ro; [now apply Hfb|].
  destruct (scan D o [] (a :: args)) as [[v rem0]|]; [|now apply Hfb].
  injection H as <- <- <-. split; [reflexivity|]. right. eauto.
Qed.

(** C12 at the matcher level: giving more options an environment value never turns a success of
    the single-option matcher into a failure, nor changes what it consumes and records *)
Lemma m_opt_env_monotone (D D' : optinfo) o args ro r :
  oi_lookup D' = oi_lookup D -> oi_isbool D' = oi_isbool D ->
  (forall i, oi_fromenv D i = true -> oi_fromenv D' i = true) ->
  m_opt D o args ro = Some r -> m_opt D' o args ro = Some r.
Proof.
  intros Hl Hb He. unfold m_opt.
  assert (Hscan : forall pre rest, scan D' o pre rest = scan D o pre rest).
  { assert (Hlong : forall a af, match_long D' o a af = match_long D o a af).
    { intros. unfold match_long. now rewrite Hl, Hb. }
    assert (Hloop : forall suf pre af, short_loop D' o pre suf af = short_loop D o pre suf af).
    { induction suf as [|c suf IHs]; intros pre af; cbn [short_loop]; [reflexivity|].
      rewrite Hl, Hb. destruct (oi_lookup D [c_dash; c]); [|reflexivity].
      destruct (oi_isbool D n); [|reflexivity]. destruct (negb (Nat.eqb n o)); [apply IHs | reflexivity]. }
    assert (Hshort : forall a af, match_short D' o a af = match_short D o a af).
    { intros a af. unfold match_short. destruct a as [|d [|n rest]]; try reflexivity.
      destruct rest as [|e value]; [apply Hloop|]. rewrite Hl. destruct (Ascii.eqb e c_eq); [reflexivity | apply Hloop]. }
    assert (Hn : forall n rest, length rest <= n -> forall pre, scan D' o pre rest = scan D o pre rest).
    { induction n as [|n IHn]; intros rest Hlen pre.
      - destruct rest; [reflexivity | cbn in Hlen; lia].
      - destruct rest as [|a0 after]; [reflexivity|]. cbn [scan]. cbn in Hlen.
        rewrite Hlong, Hshort.
        destruct (str_eqb a0 s_dash); [reflexivity|]. destruct (str_eqb a0 s_dd); [reflexivity|].
        destruct (dashed a0); [|reflexivity].
        destruct (if prefix_b s_dd a0 then match_long D o a0 after else match_short D o a0 after) as [v tl|[|[|k]]];
          try reflexivity.
        + apply IHn. lia.
        + destruct after as [|a2 after2]; [reflexivity|]. apply IHn. cbn in Hlen. lia. }
    intros pre rest. now apply (Hn (length rest)). }
  intros H. destruct args as [|a args].
  - destruct (oi_fromenv D o) eqn:Hf; [|discriminate]. now rewrite (He _ Hf).
  - destruct ro.
    + destruct (oi_fromenv D o) eqn:Hf; [|discriminate]. now rewrite (He _ Hf).
    + rewrite Hscan. destruct (scan D o [] (a :: args)); [assumption|].
      destruct (oi_fromenv D o) eqn:Hf; [|discriminate]. now rewrite (He _ Hf).
Qed.
