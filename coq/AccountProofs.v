(** C02 at the level of readings: on a command line that reads cleanly, every accepting run of an
    automaton without a spec-level "--" records, for each option, exactly the values of its
    occurrences in command-line order, and binds the positional tokens (those after the first "--"
    included, verbatim) exactly once each, in order. Nothing is invented, dropped, duplicated or
    bound to another option. *)
From MowCli Require Import Base Nfa Matchers Apply View ApplyProofs TermProofs MatcherProofs SimProofs ViewProofs.

(** what a reading holds *)
Definition occs (o : nat) (u : list vs) : list str :=
  flat_map (fun s => match s with VO o' v => if Nat.eqb o o' then [v] else [] | _ => [] end) u.
Definition poss (u : list vs) : list str :=
  flat_map (fun s => match s with VP t => [t] | _ => [] end) u.
(** what a run records *)
Definition b_occs (o : nat) (bs : list binding) : list str :=
  flat_map (fun b : binding => match fst b with KO o' => if Nat.eqb o o' then [snd b] else [] | KA _ => [] end) bs.
Definition b_poss (bs : list binding) : list str :=
  flat_map (fun b : binding => match fst b with KA _ => [snd b] | KO _ => [] end) bs.

(** [b] accounts for the difference between the readings [u] and [u'] *)
Definition Acct (u : list vs) (b : list binding) (u' : list vs) : Prop :=
  (forall x, occs x u = b_occs x b ++ occs x u') /\ poss u = b_poss b ++ poss u'.

Lemma acct_refl u : Acct u [] u.
Proof. split; reflexivity. Qed.

Lemma acct_trans u b1 u1 b2 u2 : Acct u b1 u1 -> Acct u1 b2 u2 -> Acct u (b1 ++ b2) u2.
Proof.
  intros [H1 P1] [H2 P2]. split.
  - intros x. unfold b_occs. rewrite flat_map_app. fold (b_occs x b1) (b_occs x b2).
    rewrite H1, H2. now rewrite app_assoc.
  - unfold b_poss. rewrite flat_map_app. fold (b_poss b1) (b_poss b2). rewrite P1, P2. now rewrite app_assoc.
Qed.

Lemma occs_VO x o w u : occs x (VO o w :: u) = (if Nat.eqb x o then [w] else []) ++ occs x u.
Proof. reflexivity. Qed.

Lemma b_occs_one x o v : b_occs x [(KO o, v)] = if Nat.eqb x o then [v] else [].
Proof. cbn. now rewrite app_nil_r. Qed.

Lemma take_acct o u v u' : take o u = Some (v, u') -> Acct u [(KO o, v)] u'.
Proof.
  revert v u'. induction u as [|s u IH]; intros v u'; cbn [take]; [discriminate|].
  destruct s as [o' w|t|]; try discriminate.
  destruct (Nat.eqb o o') eqn:E.
  - intros [= <- <-]. apply Nat.eqb_eq in E. subst o'. split; [|reflexivity].
    intros x. now rewrite occs_VO, b_occs_one.
  - destruct (take o u) as [[v' u'']|]; [|discriminate]. intros [= <- <-].
    destruct (IH v' u'' eq_refl) as [H P]. split; [|exact P].
    intros x. rewrite !occs_VO, (H x), b_occs_one.
    destruct (Nat.eqb x o) eqn:E1, (Nat.eqb x o') eqn:E2; try reflexivity.
    apply Nat.eqb_eq in E1, E2. subst. rewrite Nat.eqb_refl in E. discriminate.
Qed.

Lemma poss_map_VP a : poss (map VP a) = a.
Proof. induction a as [|t a IH]; cbn; [reflexivity | now f_equal]. Qed.

Lemma occs_map_VP x a : occs x (map VP a) = [].
Proof. induction a as [|t a IH]; cbn; auto. Qed.

Section Account.
  Variable D : optinfo.
  Hypothesis Hnodd : oi_lookup D s_dd = None.
  Hypothesis Hnoeq : oi_lookup D [c_dash; c_eq] = None.

  Notation Reads := (Reads D).
  Notation View := (View D).

  Lemma m_opt_acct o a u a' ro' b : Reads a u -> m_opt D o a false = Some (a', ro', b) ->
    ro' = false /\ exists u', Reads a' u' /\ Acct u b u'.
  Proof.
    intros Hr Hm. pose proof (m_opt_view D Hnodd Hnoeq o a u Hr) as Hv.
    destruct (take o u) as [[v u']|] eqn:Ht.
    - destruct Hv as (a0 & E & Hr'). rewrite E in Hm. injection Hm as <- <- <-.
      split; [reflexivity|]. exists u'. split; [assumption | now apply take_acct].
    - rewrite Hv in Hm. destruct (oi_fromenv D o); [|discriminate]. injection Hm as <- <- <-.
      split; [reflexivity|]. exists u. split; [assumption | apply acct_refl].
  Qed.

  Lemma try_opts_acct opts : forall ex a u a' b ex', Reads a u ->
    try_opts D opts ex a = Some (a', b, ex') -> exists u', Reads a' u' /\ Acct u b u'.
  Proof.
    intros ex a u a' b ex' Hr. unfold try_opts.
    destruct (try_consume D opts ex a) as [[m bs]|] eqn:Ec.
    - intros [= <- <- <-]. destruct (try_consume_spec D opts ex a m bs Ec) as (o & ro & _ & _ & _ & E).
      now destruct (m_opt_acct o a u m ro bs Hr E) as [_ H].
    - destruct (try_env D opts ex a) as [o|]; [|discriminate]. intros [= <- <- <-].
      exists u. split; [assumption | apply acct_refl].
  Qed.

  Lemma try_acct opts ex a u a' b ex' : Reads a u ->
    try_ D opts ex a false = Some (a', b, ex') -> exists u', Reads a' u' /\ Acct u b u'.
  Proof. unfold try_. destruct a; [discriminate|]. apply try_opts_acct. Qed.

  Lemma group_loop_acct f : forall opts ex a acc u m b, Reads a u ->
    group_loop D f opts ex a acc = Some (m, b) ->
    exists u' b', b = acc ++ b' /\ Reads m u' /\ Acct u b' u'.
  Proof.
    induction f as [|f IH]; intros opts ex a acc u m b Hr; cbn [group_loop]; [discriminate|].
    destruct (try_ D opts ex a false) as [[[r bs] ex']|] eqn:Et.
    - intros Hg. destruct (try_acct _ _ _ _ _ _ _ Hr Et) as (u1 & Hr1 & A1).
      destruct (IH _ _ _ _ _ _ _ Hr1 Hg) as (u' & b' & -> & Hr' & A2).
      exists u', (bs ++ b'). split; [now rewrite app_assoc|]. split; [assumption | eapply acct_trans; eauto].
    - intros [= <- <-]. exists u, []. split; [now rewrite app_nil_r|]. split; [assumption | apply acct_refl].
  Qed.

  Lemma m_group_acct opts a u a' ro' b : Reads a u -> m_group D opts a false = Some (a', ro', b) ->
    ro' = false /\ exists u', Reads a' u' /\ Acct u b u'.
  Proof.
    intros Hr. unfold m_group. destruct (try_ D opts [] a false) as [[[r bs] ex]|] eqn:Et; [|discriminate].
    destruct (group_loop D (group_fuel opts a) opts ex r bs) as [[m b0]|] eqn:Eg; [|discriminate].
    intros [= <- <- <-]. split; [reflexivity|].
    destruct (try_acct _ _ _ _ _ _ _ Hr Et) as (u1 & Hr1 & A1).
    destruct (group_loop_acct _ _ _ _ _ _ _ _ Hr1 Eg) as (u' & b' & -> & Hr' & A2).
    exists u'. split; [assumption | eapply acct_trans; eauto].
  Qed.

  (** the one-time drop of "--" *)
  Lemma strip_acct a ro u : View a ro u ->
    exists u', View (fst (strip a ro)) (snd (strip a ro)) u' /\ Acct u [] u'.
  Proof.
    intros Hv. destruct ro.
    - rewrite strip_ro_true. exists u. split; [exact Hv | apply acct_refl].
    - cbn in Hv. destruct a as [|t rest]; [exists u; split; [exact Hv | apply acct_refl]|].
      rewrite strip_false_cons. pose proof (reads_head D Hnodd Hnoeq _ _ Hv) as Hh. cbv beta iota in Hh.
      destruct (str_eqb t s_dd).
      + subst u. exists (map VP rest). split; [reflexivity|]. split; [intros x|]; reflexivity.
      + exists u. split; [exact Hv | apply acct_refl].
  Qed.

  Lemma step_acct l a ro u a' ro' b : l <> LDD -> View a ro u -> strip a ro = (a, ro) ->
    run_matcher D l a ro = Some (a', ro', b) -> exists u', View a' ro' u' /\ Acct u b u'.
  Proof.
    intros Hl Hv Hst. destruct l as [|i|o|js|]; cbn [run_matcher]; [| | | |congruence].
    - intros [= <- <- <-]. exists u. split; [exact Hv | apply acct_refl].
    - unfold m_arg. destruct a as [|t rest]; [discriminate|].
      destruct (negb ro && dashed t && negb (str_eqb t s_dash)) eqn:Ec; [discriminate|]. intros [= <- <- <-].
      destruct ro.
      + cbn in Hv. subst u. exists (map VP rest). split; [reflexivity|]. split; [intros x|]; reflexivity.
      + cbn in Hv. pose proof (reads_head D Hnodd Hnoeq _ _ Hv) as Hh. cbv beta iota in Hh.
        rewrite (stripped_head _ _ Hst) in Hh. destruct u as [|[o v|p|] u]; try contradiction.
        * destruct Hh as [Hd Hn]. cbn [negb andb] in Ec. rewrite Hd, Hn in Ec. discriminate.
        * destruct Hh as (-> & _ & Hr). exists u. split; [exact Hr|]. split; [intros x|]; reflexivity.
    - destruct ro.
      + rewrite (m_opt_ro D). destruct (oi_fromenv D o); [|discriminate]. intros [= <- <- <-].
        exists u. split; [exact Hv | apply acct_refl].
      + intros Hm. destruct (m_opt_acct o a u a' ro' b Hv Hm) as [-> H]. exact H.
    - destruct ro.
      + unfold m_group, try_. destruct a; discriminate.
      + intros Hm. destruct (m_group_acct js a u a' ro' b Hv Hm) as [-> H]. exact H.
  Qed.

  Lemma view_nil ro u : View [] ro u -> u = [].
  Proof. destruct ro; cbn; [auto | apply (reads_nil D Hnodd Hnoeq)]. Qed.

  (** every accepting run accounts for the whole reading *)
  Theorem acc_accounts g : (forall s t, ~ In (LDD, t) (edges g s)) ->
    forall s a ro bs, Acc D g s a ro bs -> forall u, View a ro u -> Acct u bs [].
  Proof.
    intros Hnd s a ro bs H.
    induction H as [s a ro He Ht | s a ro l t rem ro' b bs' Hedge Hrun Hrest IH]; intros u Hv.
    - destruct (strip_acct a ro u Hv) as (u' & Hv' & A). rewrite He in Hv'. now rewrite (view_nil _ _ Hv') in A.
    - destruct (strip_acct a ro u Hv) as (u1 & Hv1 & A1).
      assert (Hl : l <> LDD) by (intros ->; exact (Hnd s t Hedge)).
      pose proof (strip_idem a ro) as Hid.
      destruct (strip a ro) as [a1 r1] eqn:Es. cbn [fst snd] in *.
      destruct (step_acct l a1 r1 u1 rem ro' b Hl Hv1 Hid Hrun) as (u2 & Hv2 & A2).
      specialize (IH u2 Hv2). change b with ([] ++ b). rewrite <- app_assoc.
      eapply acct_trans; [exact A1|]. eapply acct_trans; eauto.
  Qed.

  (** what the search returns on a cleanly read command line *)
  Theorem accepted_bindings_are_the_reading g start a u bs :
    (forall s t, ~ In (LDD, t) (edges g s)) -> Reads a u ->
    fsm_apply D g start a = AOk bs ->
    (forall o, b_occs o bs = occs o u) /\ b_poss bs = poss u.
  Proof.
    intros Hnd Hr Ha. apply fsm_apply_sound in Ha.
    destruct (acc_accounts g Hnd start a false bs Ha u Hr) as [H P]. split.
    - intros o. rewrite (H o). cbn. now rewrite app_nil_r.
    - rewrite P. cbn. now rewrite app_nil_r.
  Qed.
End Account.

(** * Command level *)
From MowCli Require Import Parser Values Flow Cmd RefSem NfaProofs CompileProofs ReadProofs.

Lemma values_for_occs o bs : values_for (KO o) bs = b_occs o bs.
Proof.
  unfold values_for, b_occs. induction bs as [|[k v] bs IH]; [reflexivity|]. cbn [filter map flat_map fst snd].
  destruct k as [o'|i]; cbn [key_eqb].
  - rewrite (Nat.eqb_sym o' o). destruct (Nat.eqb o o'); cbn [map List.app]; now rewrite IH.
  - exact IH.
Qed.

(** the positional bindings, all argument variables together, in the order of the run *)
Definition positional_bindings (bs : list binding) : list str := b_poss bs.

Theorem accepted_values_are_the_written_values opts args spec i a u bs :
  compile opts args spec = IOk i ->
  sane (optinfo_of opts) = true -> no_dd_graph (i_graph i) = true ->
  view (optinfo_of opts) a = Some u ->
  fsm_apply (optinfo_of opts) (i_graph i) (i_start i) a = AOk bs ->
  (forall o, values_for (KO o) bs = occs o u) /\ positional_bindings bs = poss u.
Proof.
  intros Hc Hsane Hnd Hv Ha. unfold sane in Hsane.
  destruct (oi_lookup (optinfo_of opts) s_dd) eqn:E1; [discriminate|].
  destruct (oi_lookup (optinfo_of opts) [c_dash; c_eq]) eqn:E2; [discriminate|].
  destruct (accepted_bindings_are_the_reading (optinfo_of opts) E1 E2 (i_graph i) (i_start i) a u bs) as [H P]; auto.
  - now apply no_dd_graph_spec.
  - now apply view_reads.
  - split; [|exact P]. intros o. rewrite values_for_occs. apply H.
Qed.
