(** C18 — invalid declarations fail fast. *)
From MowCli Require Import Base Lexer Values Cmd DeclProofs.

Section C18.
  Variable parse_float : str -> option str.
  Variable getenv : str -> str.

  (** one-letter names become short options, longer ones long options *)
  Theorem C18_name_forms :
    forall name n, In n (mk_opt_strs name) ->
      exists w, In w (fields name) /\
                n = match w with [_] => c_dash :: w | _ => c_dash :: c_dash :: w end.
  Proof.
    intros name n H. unfold mk_opt_strs in H. apply in_map_iff in H as (w & <- & Hw). eauto.
  Qed.

  (** An option declaration panics iff one of its names (after the dash prefix) is already in the
      table — a name of any earlier option, short or long, in either order — or is listed twice in
      the declaration itself ([first_dup]); otherwise the table gains exactly these names. *)
  Theorem C18_option_fail_fast :
    forall opts d,
      match mk_opt parse_float getenv opts d with
      | inr m => exists n, m = msg_dup_opt n /\ first_dup (all_names opts) (mk_opt_strs (d_name d)) = Some n
      | inl c => ct_names c = mk_opt_strs (d_name d) /\ ct_decl c = d /\
                 NoDup (mk_opt_strs (d_name d)) /\
                 forall n, In n (mk_opt_strs (d_name d)) -> ~ In n (all_names opts)
      end.
  Proof. exact (mk_opt_spec parse_float getenv). Qed.

  Theorem C18_first_dup_complete :
    forall names seen,
      first_dup seen names = None <-> (NoDup names /\ forall n, In n names -> ~ In n seen).
  Proof. exact first_dup_none. Qed.

  (** An argument declaration panics iff its name does not lex to exactly one Arg token (the spec
      lexer is the judge) or is already declared. *)
  Theorem C18_argument_fail_fast :
    forall args d,
      match mk_arg parse_float getenv args d with
      | inr m => (valid_arg_name (d_name d) = false /\ m = msg_bad_arg (d_name d)) \/
                 (valid_arg_name (d_name d) = true /\ In (d_name d) (all_names args) /\ m = msg_dup_arg (d_name d))
      | inl c => ct_names c = [d_name d] /\ ct_decl c = d /\ valid_arg_name (d_name d) = true /\
                 ~ In (d_name d) (all_names args)
      end.
  Proof. exact (mk_arg_spec parse_float getenv). Qed.

  (** Invariant over every sequence of successful declarations: the names of the option table
      and of the argument table are pairwise distinct, and earlier containers are kept. *)
  Theorem C18_table_inv :
    forall ds opts args opts' args',
      declare parse_float getenv ds opts args = inl (opts', args') ->
      NoDup (all_names opts) -> NoDup (all_names args) ->
      NoDup (all_names opts') /\ NoDup (all_names args') /\
      (exists o2, opts' = opts ++ o2) /\ (exists a2, args' = args ++ a2).
  Proof. exact (declare_inv parse_float getenv). Qed.

  (** Every listed name addresses the container declared with it, and no later declaration
      changes the target of an existing name (no silent shadowing). *)
  Theorem C18_names_address_their_container :
    forall opts n i c,
      NoDup (all_names opts) -> nth_error opts i = Some c -> In n (ct_names c) ->
      lookup_name opts n = Some i.
  Proof. exact lookup_unique. Qed.

  Theorem C18_no_shadow :
    forall opts c n i, lookup_name opts n = Some i -> lookup_name (opts ++ [c]) n = Some i.
  Proof. exact lookup_no_shadow. Qed.
End C18.
Print Assumptions C18_name_forms.
Print Assumptions C18_option_fail_fast.
Print Assumptions C18_first_dup_complete.
Print Assumptions C18_argument_fail_fast.
Print Assumptions C18_table_inv.
Print Assumptions C18_names_address_their_container.
Print Assumptions C18_no_shadow.

Example C18_nonvacuous :
  let d1 := mkDecl true KBool (lit "f force") [] [] false (VBool false) false in
  let d2 := mkDecl true KString (lit "o f") [] [] false (VStr []) false in
  let d3 := mkDecl false KString (lit "src") [] [] false (VStr []) false in
  (match declare (fun _ => None) (fun _ => []) [d1; d2] [] [] with inr m => m | _ => [] end,
   match declare (fun _ => None) (fun _ => []) [d1; d3] [] [] with inr m => m | _ => [] end,
   match declare (fun _ => None) (fun _ => []) [d1] [] [] with inl ([c], []) => ct_names c | _ => [] end)
  = (lit "duplicate option name ""-f""", lit "invalid argument name ""src"": must be in all caps",
     [lit "-f"; lit "--force"]).
Proof. vm_compute. reflexivity. Qed.
