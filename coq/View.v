(** The symbol view of a command line (definitions only; the theorems are in ViewProofs.v and
    ReadProofs.v): occurrences (option, value), positionals, the first "--"; the executable reading
    [view], taken from the reference semantics' [RefSem.read]; the decidable side conditions of the
    C10 / C11 theorems. *)
From MowCli Require Import Base Parser Nfa Matchers RefSem Values Flow Cmd.

Inductive vs := VO (o : nat) (v : str) | VP (t : str) | VDD.

(** first occurrence of [o] in the leading run of occurrences: its value, and the sequence without it *)
Fixpoint take (o : nat) (u : list vs) : option (str * list vs) :=
  match u with
  | VO o' v :: u' =>
    if Nat.eqb o o' then Some (v, u')
    else match take o u' with
         | Some (v', u'') => Some (v', VO o' v :: u'')
         | None => None
         end
  | _ => None
  end.

Definition rdecl_of (D : optinfo) : rdecl := mkRD (oi_lookup D) (oi_isbool D) (oi_fromenv D).

Definition erase (s : sym) : option vs :=
  match s with
  | O o v _ => Some (VO o v)
  | P t => Some (VP t)
  | DDTok => Some VDD
  | Bad _ | Raw _ => None
  end.

Fixpoint erase_all (l : list sym) : option (list vs) :=
  match l with
  | [] => Some []
  | s :: l' =>
    match erase s, erase_all l' with
    | Some x, Some xs => Some (x :: xs)
    | _, _ => None
    end
  end.

(** the symbols of a command line, when it reads cleanly *)
Definition view (D : optinfo) (a : list str) : option (list vs) :=
  if has_q1 (rdecl_of D) a then None else erase_all (read (rdecl_of D) a).

Definition sane (D : optinfo) : bool :=
  match oi_lookup D s_dd, oi_lookup D [c_dash; c_eq] with None, None => true | _, _ => false end.

Definition is_dd (l : label) : bool := match l with LDD => true | _ => false end.
(** no transition of the automaton is a spec-level "--" *)
Definition no_dd_graph (g : graph) : bool :=
  forallb (forallb (fun e : edge => negb (is_dd (fst e)))) (g_tr g).

Definition no_dd_b (p : list vs) : bool := forallb (fun s => match s with VDD => false | _ => true end) p.


(** no declared option has its value from the environment (the quantifier of C09) *)
Definition no_env (opts : list container) : bool := forallb (fun c => negb (ct_fromenv c)) opts.
