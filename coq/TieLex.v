(** Tie 2, lexer: the byte predicates of internal/lexer, evaluated by running their own source text on
    all 256 bytes (tools/srcscan, tables in Generated.v), are the predicates of the model — for every byte.
    Imported by PC08: when a predicate of the source changes its value on any byte, C08's theorems no longer
    check. A refactoring that keeps the values leaves the tables, and this file, unchanged. *)
From MowCli Require Import Base Lexer Generated.

Lemma tie_isLowercase c : g_isLowercase c = isLowercase c.
Proof. destruct c as [[] [] [] [] [] [] [] []]; reflexivity. Qed.
Lemma tie_isUppercase c : g_isUppercase c = isUppercase c.
Proof. destruct c as [[] [] [] [] [] [] [] []]; reflexivity. Qed.
Lemma tie_isDigit c : g_isDigit c = isDigit c.
Proof. destruct c as [[] [] [] [] [] [] [] []]; reflexivity. Qed.
Lemma tie_isLetter c : g_isLetter c = isLetter c.
Proof. destruct c as [[] [] [] [] [] [] [] []]; reflexivity. Qed.
Lemma tie_isOkInArg c : g_isOkInArg c = isOkInArg c.
Proof. destruct c as [[] [] [] [] [] [] [] []]; reflexivity. Qed.
Lemma tie_isOkLongOpt c f : g_isOkLongOpt c f = isOkLongOpt c f.
Proof. destruct f; destruct c as [[] [] [] [] [] [] [] []]; reflexivity. Qed.

Theorem tie_lexer_classes :
  forall c f, (g_isLowercase c, g_isUppercase c, g_isDigit c, g_isLetter c, g_isOkInArg c, g_isOkLongOpt c f)
            = (isLowercase c, isUppercase c, isDigit c, isLetter c, isOkInArg c, isOkLongOpt c f).
Proof.
  intros c f. now rewrite tie_isLowercase, tie_isUppercase, tie_isDigit, tie_isLetter, tie_isOkInArg, tie_isOkLongOpt.
Qed.
