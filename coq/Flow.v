(** internal/flow/flow.go: Step.Run / callDo, and the wiring that Cmd.parse performs while
    descending (newInFlow / newOutFlow). A step graph is finite and immutable during a run, so
    it is modelled as an inductive tree (shared successors are simply duplicated). *)
From MowCli Require Import Base.

(** what a user callback does *)
Inductive hook :=
| HAbsent                 (* nil func *)
| HReturns
| HPanics (v : nat)       (* panic(v), v any non-nil value that is not an ExitCode *)
| HExits (n : Z).         (* cli.Exit(n) = panic(flow.ExitCode(n)) *)

(** a recovered panic value *)
Inductive pval :=
| PUser (v : nat)
| PExit (n : Z).

(** identification of a callback in the trace: kind and depth on the path (0 = root) *)
Inductive hkind := HBefore | HAction | HAfter.
Definition event := (hkind * nat)%type.

Inductive step :=
| Step (name : event) (do : hook) (success : option step) (error : option step) (has_exiter : bool).

Inductive outcome :=
| Returned                (* Run returned normally to its caller *)
| Exited (n : Z)          (* the exiter was called; it does not return *)
| Panicked (p : option pval).   (* a panic propagates to the caller of entry.Run; None = panic(nil) *)

(** Step.Run(p). The trace is threaded through; the result says how control leaves Run. *)
Fixpoint run_step (s : step) (p : option pval) (tr : list event) {struct s} : list event * outcome :=
  match s with
  | Step name do success error has_exiter =>
    (* the part of Run after callDo *)
    let continue (tr : list event) : list event * outcome :=
        match success with
        | Some nxt => run_step nxt p tr
        | None =>
          match p with
          | None => (tr, Returned)
          | Some (PExit n) => if has_exiter then (tr, Exited n) else (tr, Returned)
          | Some (PUser v) => (tr, Panicked p)
          end
        end in
    (* callDo: a panicking Do hands the recovered value to the Error successor *)
    let raised (e : pval) (tr : list event) : list event * outcome :=
        match error with
        | None => (tr, Panicked p)                  (* panic(p) from the deferred function *)
        | Some err =>
          match run_step err (Some e) tr with
          | (tr', Returned) => continue tr'        (* only possible without an exiter *)
          | r => r
          end
        end in
    match do with
    | HAbsent => continue tr
    | HReturns => continue (tr ++ [name])
    | HPanics v => raised (PUser v) (tr ++ [name])
    | HExits n => raised (PExit n) (tr ++ [name])
    end
  end.

(** one level of the path as Cmd.parse sees it *)
Record level := mkLevel { l_before : hook; l_after : hook }.

Definition root_out : step := Step (HAfter, 0) HAbsent None None true.

(** the chain built by the descent: [out] is the parent's outFlow, [d] the depth of the first
    level in [ls]; [action] is the addressed command's Action *)
Fixpoint build_in (ls : list level) (d : nat) (action : hook) (out : step) : option step :=
  match ls with
  | [] => None
  | l :: rest =>
    let new_out := Step (HAfter, d) (l_after l) (Some out) (Some out) true in
    let succ := match rest with
                | [] => Some (Step (HAction, d) action (Some new_out) (Some new_out) true)
                | _ => build_in rest (S d) action new_out
                end in
    Some (Step (HBefore, d) (l_before l) succ (Some out) true)
  end.

Definition entry_step (ls : list level) (action : hook) : step :=
  Step (HBefore, 0) HAbsent (build_in ls 0 action root_out) None true.

(** entry.Run(nil) *)
Definition run_flow (ls : list level) (action : hook) : list event * outcome :=
  run_step (entry_step ls action) None [].
