(** State.apply of internal/fsm/fsm.go: depth-first backtracking over all matching
    transitions. Repairs modelled: D1 (the terminal test comes after the leading "--" has been
    dropped) and D3 (a transition that neither consumed input nor changed the options-ended
    flag is not followed into a state already entered since the last progress). *)
From MowCli Require Import Base Nfa Matchers.

Section Apply.
  Variable D : optinfo.
  Variable g : graph.

  Definition run_matcher (l : label) (args : list str) (ro : bool) : mres :=
    match l with
    | LEps => Some (args, ro, [])
    | LArg i => m_arg i args ro
    | LOpt i => m_opt D i args ro
    | LGrp is => m_group D is args ro
    | LDD => m_dd args ro
    end.

  (** a match: target, remaining args, flag, recorded bindings *)
  Definition matchrec := (nat * list str * bool * list binding)%type.

  Definition collect (s : nat) (args : list str) (ro : bool) : list matchrec :=
    fold_right (fun (e : edge) acc =>
                  match run_matcher (fst e) args ro with
                  | Some (rem, ro', bs) => (snd e, rem, ro', bs) :: acc
                  | None => acc
                  end) [] (edges g s).

  (** drop a leading "--" once *)
  Definition strip (args : list str) (ro : bool) : list str * bool :=
    match args with
    | a :: rest => if negb ro && str_eqb a s_dd then (rest, true) else (args, ro)
    | [] => (args, ro)
    end.

  Inductive ares :=
  | AOk (bs : list binding)
  | AFail
  | AFuel.

  (** The loop over the matches of one state. [rec] is the recursive call (apply with less fuel);
      [seen]: the states entered since input was last consumed (or the flag last changed),
      whether still on the current path or already explored without success. The set is
      threaded through the backtracking, so each state is explored at most once per
      configuration. *)
  Section Try.
    Variable rec : nat -> list str -> bool -> list nat -> ares * list nat.
    Variables (args1 : list str) (ro1 : bool).

    Fixpoint try_matches (ms : list matchrec) (seen : list nat) : ares * list nat :=
      match ms with
      | [] => (AFail, seen)
      | (t, rem, ro', bs) :: ms' =>
        if strs_eqb rem args1 && Bool.eqb ro' ro1 then
          (* no progress: do not re-enter a state already entered with this configuration *)
          if mem_nat t seen then try_matches ms' seen
          else match rec t rem ro' seen with
               | (AOk bs', seen') => (AOk (bs ++ bs'), seen')
               | (AFail, seen') => try_matches ms' seen'
               | (AFuel, seen') => (AFuel, seen')
               end
        else match rec t rem ro' [] with
             | (AOk bs', _) => (AOk (bs ++ bs'), seen)
             | (AFail, _) => try_matches ms' seen
             | (AFuel, _) => (AFuel, seen)
             end
      end.
  End Try.

  Fixpoint apply (fuel : nat) (s : nat) (args : list str) (ro : bool) (seen : list nat)
    : ares * list nat :=
    match fuel with
    | 0 => (AFuel, seen)
    | S f =>
      let '(args1, ro1) := strip args ro in
      let seen1 := s :: (if Nat.eqb (length args1) (length args) then seen else []) in
      if (match args1 with [] => terminal g s | _ => false end) then (AOk [], seen1)
      else try_matches (apply f) args1 ro1 (collect s args1 ro1) seen1
    end.

  (** recursion depth bound: every step either makes progress in (size, flag) or lengthens
      the trail, which holds distinct states *)
  Definition apply_fuel (args : list str) : nat :=
    (2 * args_size args + 2) * (nstates g + 1) + 1.

  Definition fsm_apply (start : nat) (args : list str) : ares :=
    fst (apply (apply_fuel args) start args false []).
End Apply.
