(** C06 — value precedence: command line, then environment, then default. *)
From MowCli Require Import Base Values Cmd ValueProofs.

Section C06.
  Variable parse_float : str -> option str.
  Variable getenv : str -> str.

  (** Command line: when the line binds strings [vs] to a built-in variable, the variable ends up
      holding exactly their parses — all of them, in order, for a multi-valued type (whatever
      the environment or the default had put there: replaced, not extended), the last one for a
      single-valued type — and the parse fails iff one of them does not convert. *)
  Theorem C06_command_line_wins :
    forall (c : container) (vs : list str),
      builtin (ct_value c) = true ->
      kind_matches (d_kind (ct_decl c)) (ct_value c) = true ->
      vs <> [] ->
      match elems_of parse_float (ct_value c) vs with
      | Some es =>
        exists c', fill_one parse_float c vs = Some c' /\
                   ct_user c' = true /\ ct_fromenv c' = false /\
                   items (ct_value c') = if multi_val (ct_value c) then es else [last es (ct_value c)]
      | None => fill_one parse_float c vs = None
      end.
  Proof. exact (fill_one_cli parse_float). Qed.

  (** No command-line value: the container keeps what the declaration left. *)
  Theorem C06_untouched_without_cli :
    forall c : container, fill_one parse_float c [] = Some c.
  Proof. exact (fill_one_none parse_float). Qed.

  (** Declaration, single-valued built-in: the first listed environment variable that is
      non-empty and valid for the type, otherwise the declared default. *)
  Theorem C06_env_then_default_single :
    forall (k : kind) (v : cval) (vars : list str),
      builtin v = true -> multi_val v = false -> is_multi k = false ->
      set_from_env_vars parse_float getenv k v vars =
      match env_single parse_float getenv v vars with
      | Some e => (e, true)
      | None => (v, false)
      end.
  Proof. exact (set_from_env_single parse_float getenv). Qed.

  (** Declaration, multi-valued built-in: the pieces (comma separated, blanks trimmed) of the
      first listed variable that is non-empty and all of whose pieces are valid; otherwise the
      declared default — PARTIAL: only when no non-empty variable was seen at all. If a non-empty
      variable was seen and none is valid the variable is left EMPTY, not at its default
      (known finding K1: setMultivalued clears before it validates). *)
  Theorem C06_env_then_default_multi_partial :
    forall (k : kind) (vars : list str) (v : cval),
      builtin v = true -> multi_val v = true -> is_multi k = true ->
      exists v', set_from_env_vars parse_float getenv k v vars =
                 (v', match env_multi parse_float getenv v vars with Some _ => true | None => false end) /\
                 builtin v' = true /\ multi_val v' = true /\
                 items v' = match env_multi parse_float getenv v vars with
                            | Some es => es
                            | None => if saw_nonempty getenv vars then [] else items v
                            end.
  Proof. exact (set_from_env_multi parse_float getenv). Qed.

  (** a declaration stores the default, then applies the environment; nothing else *)
  Theorem C06_declaration :
    forall (d : decl) (names : list str),
      ct_value (mk_container parse_float getenv d names) =
      fst (set_from_env parse_float getenv (d_kind d) (d_init d) (d_env d)) /\
      ct_fromenv (mk_container parse_float getenv d names) =
      snd (set_from_env parse_float getenv (d_kind d) (d_init d) (d_env d)) /\
      ct_user (mk_container parse_float getenv d names) = false /\
      ct_decl (mk_container parse_float getenv d names) = d.
  Proof. exact (mk_container_value parse_float getenv). Qed.
End C06.
Print Assumptions C06_command_line_wins.
Print Assumptions C06_untouched_without_cli.
Print Assumptions C06_env_then_default_single.
Print Assumptions C06_env_then_default_multi_partial.
Print Assumptions C06_declaration.

(** K1, on the faithful model: IntsOpt default [7], N=zz: the default is lost. *)
Example C06_multi_invalid_env_refuted :
  let ge := fun k : str => if str_eqb k (lit "N") then lit "zz" else [] in
  set_from_env (fun _ => None) ge KInts (VInts [7%Z]) (lit "N") = (VInts [], false).
Proof. vm_compute. reflexivity. Qed.

(** non-vacuity: env list "A B", A empty, B = "3, 4": the pieces of B *)
Example C06_nonvacuous :
  let ge := fun k : str => if str_eqb k (lit "B") then lit "3, 4" else [] in
  set_from_env (fun _ => None) ge KInts (VInts [7%Z]) (lit "A B") = (VInts [3%Z; 4%Z], true).
Proof. vm_compute. reflexivity. Qed.
