(** Spec AST and the recursive-descent parser of internal/parser/parser.go
    (same grammar, same lookahead, same error sites and positions). The Go parser builds
    the automaton while parsing; here parsing yields an AST and [Nfa.thompson] mirrors the
    construction (DESIGN 3.3). *)
From MowCli Require Import Base Lexer.

(** The grammar, exactly as parser.go reads it:
    seq    = { choice }            (seq(true): at least one)
    choice = ratom { '|' ratom }
    ratom  = atom [ '...' ]        (no '...' after '--')
    atom   = ARG | OPTIONS | -x [=<v>] | --xx [=<v>] | -xyz | '(' seq ')' | '[' seq ']' | '--' *)
Inductive seq :=
| SNil
| SCons (c : choice) (s : seq)
with choice :=
| COne (a : ratom)
| CAlt (a : ratom) (c : choice)
with ratom :=
| RAtom (a : atom) (rep : bool)
with atom :=
| AArg (i : nat)                (* index into the declared arguments *)
| AOptions                      (* OPTIONS: all declared options *)
| AOpt (i : nat)                (* -x or --xx: index into the declared options *)
| AGroup (is : list nat)        (* -xyz *)
| ADD                           (* -- *)
| APar (s : seq)
| ASq (s : seq).

Scheme seq_mut := Induction for seq Sort Prop
with choice_mut := Induction for choice Sort Prop
with ratom_mut := Induction for ratom Sort Prop
with atom_mut := Induction for atom Sort Prop.

Inductive pres (A : Type) :=
| POk (a : A) (rest : list token) (ro : bool)
| PErr (msg : str) (rest : list token)
| PFuel.
Arguments POk {A}. Arguments PErr {A}. Arguments PFuel {A}.

Definition msg_eoi := lit "Unexpected end of input".
Definition msg_undecl_arg (n : str) := lit "Undeclared arg " ++ n.
Definition msg_undecl_opt (n : str) := lit "Undeclared option " ++ n.
Definition msg_no_opts := lit "No options after --".
Definition msg_expect_par := lit "Was expecting ClosePar".
Definition msg_expect_sq := lit "Was expecting CloseSq".
Definition msg_atom := lit "Unexpected input: was expecting a command or a positional argument or an option".

Definition can_atom (toks : list token) : bool :=
  match toks with
  | t :: _ =>
    match tk_typ t with
    | TArg | TOptions | TShortOpt | TLongOpt | TOptSeq | TOpenPar | TOpenSq | TDblDash => true
    | _ => false
    end
  | [] => false
  end.

Section Parser.
  (** the two name tables of the command (optionsIdx / argsIdx) *)
  Variable lookup_opt : str -> option nat.
  Variable lookup_arg : str -> option nat.

  (** resolve the letters of a folded token; [None] carries the first undeclared letter *)
  Fixpoint resolve_seq (letters : str) : nat * list nat + ascii :=
    match letters with
    | [] => inl (0, [])
    | c :: l' =>
      match lookup_opt [c_dash; c] with
      | None => inr c
      | Some i => match resolve_seq l' with
                  | inl (_, is) => inl (0, i :: is)
                  | inr c' => inr c'
                  end
      end
    end.

  (** optional '...' after an atom *)
  Definition with_rep (a : atom) (toks : list token) (ro : bool) : pres ratom :=
    match toks with
    | t :: toks' => if ttype_eqb (tk_typ t) TRep then POk (RAtom a true) toks' ro
                    else POk (RAtom a false) toks ro
    | [] => POk (RAtom a false) toks ro
    end.

  (** optional =<value> after a single option *)
  Definition skip_optvalue (toks : list token) : list token :=
    match toks with
    | t :: toks' => if ttype_eqb (tk_typ t) TOptValue then toks' else toks
    | [] => toks
    end.

  Fixpoint p_seq (fuel : nat) (required : bool) (toks : list token) (ro : bool) {struct fuel} : pres seq :=
    match fuel with
    | 0 => PFuel
    | S f =>
      if required || can_atom toks then
        match p_choice f toks ro with
        | POk c toks1 ro1 =>
          match p_seq f false toks1 ro1 with
          | POk s toks2 ro2 => POk (SCons c s) toks2 ro2
          | PErr m r => PErr m r
          | PFuel => PFuel
          end
        | PErr m r => PErr m r
        | PFuel => PFuel
        end
      else POk SNil toks ro
    end
  with p_choice (fuel : nat) (toks : list token) (ro : bool) {struct fuel} : pres choice :=
    match fuel with
    | 0 => PFuel
    | S f =>
      match p_atom f toks ro with
      | POk a toks1 ro1 =>
        match toks1 with
        | t :: toks2 =>
          if ttype_eqb (tk_typ t) TChoice then
            match p_choice f toks2 ro1 with
            | POk c toks3 ro3 => POk (CAlt a c) toks3 ro3
            | PErr m r => PErr m r
            | PFuel => PFuel
            end
          else POk (COne a) toks1 ro1
        | [] => POk (COne a) toks1 ro1
        end
      | PErr m r => PErr m r
      | PFuel => PFuel
      end
    end
  with p_atom (fuel : nat) (toks : list token) (ro : bool) {struct fuel} : pres ratom :=
    match fuel with
    | 0 => PFuel
    | S f =>
      match toks with
      | [] => PErr msg_eoi toks
      | t :: toks1 =>
        match tk_typ t with
        | TArg =>
          match lookup_arg (tk_val t) with
          | None => PErr (msg_undecl_arg (tk_val t)) toks
          | Some i => with_rep (AArg i) toks1 ro
          end
        | TOptions =>
          if ro then PErr msg_no_opts toks else with_rep AOptions toks1 ro
        | TShortOpt | TLongOpt =>
          if ro then PErr msg_no_opts toks else
          match lookup_opt (tk_val t) with
          | None => PErr (msg_undecl_opt (tk_val t)) toks
          | Some i => with_rep (AOpt i) (skip_optvalue toks1) ro
          end
        | TOptSeq =>
          if ro then PErr msg_no_opts toks else
          match resolve_seq (tk_val t) with
          | inr c => PErr (msg_undecl_opt [c_dash; c]) toks
          | inl (_, is) => with_rep (AGroup is) toks1 ro
          end
        | TOpenPar =>
          match p_seq f true toks1 ro with
          | POk s toks2 ro2 =>
            match toks2 with
            | t2 :: toks3 => if ttype_eqb (tk_typ t2) TClosePar then with_rep (APar s) toks3 ro2
                             else PErr msg_expect_par toks2
            | [] => PErr msg_expect_par toks2
            end
          | PErr m r => PErr m r
          | PFuel => PFuel
          end
        | TOpenSq =>
          match p_seq f true toks1 ro with
          | POk s toks2 ro2 =>
            match toks2 with
            | t2 :: toks3 => if ttype_eqb (tk_typ t2) TCloseSq then with_rep (ASq s) toks3 ro2
                             else PErr msg_expect_sq toks2
            | [] => PErr msg_expect_sq toks2
            end
          | PErr m r => PErr m r
          | PFuel => PFuel
          end
        | TDblDash => POk (RAtom ADD false) toks1 true
        | _ => PErr msg_atom toks
        end
      end
    end.

  Inductive parse_result :=
  | ParseOk (s : seq)
  | ParseErr (msg : str) (pos : nat)
  | ParseFuel.

  Definition err_pos (speclen : nat) (rest : list token) : nat :=
    match rest with [] => speclen | t :: _ => tk_pos t end.

  Definition parse_fuel (toks : list token) : nat := 3 * length toks + 4.

  Definition parse_tokens (speclen : nat) (toks : list token) : parse_result :=
    match p_seq (parse_fuel toks) false toks false with
    | POk s [] _ => ParseOk s
    | POk _ (t :: _) _ => ParseErr msg_unexpected (tk_pos t)
    | PErr m rest => ParseErr m (err_pos speclen rest)
    | PFuel => ParseFuel
    end.
End Parser.
