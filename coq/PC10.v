(** C10 — all documented spellings of an option occurrence are interchangeable.
    PROVED on the model for every command whose spec has no "--" atom, at the level of the whole
    search (verdict and every bound value), for every declared-options table in which no option is
    called "-" or "=":
    [C10_same_reading_same_parse]: two command lines with the same clean reading — the same sequence
    of occurrences (option, value), positionals and first "--" — are parsed alike by a compiled command:
    same verdict, same value in every variable. A reading is clean when [RefSem.read], the reading
    the test oracle runs, meets no unreadable token (undeclared name, empty or missing or
    dash-prefixed value) and the line has no Q1 token (DESIGN 4.5); this is decidable ([view]).
    [C10_spellings_read_alike]: every documented spelling of an occurrence (-f, --force, -f=true,
    --force=true; -o v, -o=v, -ov, --out v, --out=v; [MatcherProofs.Spelled]) reads as the one
    symbol (o, v) whatever follows; [C10_folded_read_alike]: so does any folding of adjacent short
    options into one token (-ab -o v, -ab -ov, -abov, -abo v). [C10_respelling_changes_nothing]:
    hence rewriting a group of tokens into another group with the same reading, anywhere before the
    first "--", changes neither the verdict nor any binding, on every well-formed automaton without a
    spec-level "--".
    The proof goes through T4a ([ViewProofs.scan_reads]: the token surgery of matchLongOpt /
    matchShortOpt, residue rewriting of folded tokens and skip-one / skip-two scan included, is the
    removal of the first occurrence of the option from the leading run of the reading), the
    generic group lemma and T3 ([SimProofs.apply_lockstep]: a relation respected by every matcher
    and by the one-time drop of "--" makes the depth-first searches proceed in lockstep).
    NOT covered by the theorem: specs with a "--" atom (there a token after the atom is a positional and
    its spelling is data), lines with an unreadable or Q1 token. Those are covered by the check, which
    compares every line with every single re-spelling and random/maximal foldings on the
    implementation itself, and reports how many of its cases fall under the theorem's hypotheses. *)
From MowCli Require Import Base Nfa Matchers Apply Values Flow Cmd View TermProofs MatcherProofs SimProofs ViewProofs ReadProofs LabelProofs.
From MowCli Require Import Lexer Parser RefSem.

Theorem C10_own_matcher_cannot_tell_spellings_apart :
  forall D o c long v t1 t2 pre rest,
    named D o c long -> Spelled D o c long v t1 -> Spelled D o c long v t2 ->
    scan D o pre (t1 ++ rest) = scan D o pre (t2 ++ rest).
Proof. exact respell_own. Qed.

Theorem C10_own_matcher_binds_the_value :
  forall D o c long v toks pre rest,
    named D o c long -> Spelled D o c long v toks ->
    scan D o pre (toks ++ rest) = Some (v, rev_append pre rest).
Proof. exact own_spelled. Qed.

Theorem C10_other_matchers_step_over :
  forall D o c long v t1 t2 o' rest,
    named D o c long -> Spelled D o c long v t1 -> Spelled D o c long v t2 -> Nat.eqb o o' = false ->
    match scan D o' [] (t1 ++ rest), scan D o' [] (t2 ++ rest) with
    | Some (v1, r1), Some (v2, r2) => v1 = v2 /\ exists r, r1 = t1 ++ r /\ r2 = t2 ++ r
    | None, None => True
    | _, _ => False
    end.
Proof. exact respell_other. Qed.

(** T4a: the scan of opt.Match on a cleanly read command line *)
Theorem C10_scan_is_take :
  forall D, oi_lookup D s_dd = None -> oi_lookup D [c_dash; c_eq] = None ->
  forall one a u, Reads D a u -> forall pre,
    match take one u with
    | Some (v, u') => exists a', scan D one pre a = Some (v, rev_append pre a') /\ Reads D a' u'
    | None => scan D one pre a = None
    end.
Proof. exact scan_reads. Qed.

Theorem C10_spellings_read_alike :
  forall D o c long v toks, named D o c long -> Spelled D o c long v toks -> Prefix D toks [VO o v].
Proof. exact prefix_spelled. Qed.

Theorem C10_folded_read_alike :
  forall D fs us x o v,
    Flags D fs us -> oi_lookup D [c_dash; x] = Some o -> oi_isbool D o = false ->
    (fs <> [] -> Prefix D [c_dash :: fs] us) /\
    (v <> [] -> noeq_head v -> Prefix D [c_dash :: fs ++ x :: v] (us ++ [VO o v])) /\
    (dashed v = false -> Prefix D [c_dash :: fs ++ [x]; v] (us ++ [VO o v])).
Proof.
  intros D fs us x o v Hf Hl Hb. repeat split.
  - intros Hne. now apply prefix_fold_flags.
  - intros Hv Hq. now apply prefix_fold_att.
  - intros Hd. now apply prefix_fold_sep.
Qed.

Theorem C10_respelling_changes_nothing :
  forall D, oi_lookup D s_dd = None -> oi_lookup D [c_dash; c_eq] = None ->
  forall g start pre up t1 t2 ut rest u,
    wf_graph g -> (forall s t, ~ In (LDD, t) (edges g s)) -> start < nstates g ->
    Prefix D pre up -> Prefix D t1 ut -> Prefix D t2 ut -> Reads D rest u ->
    fsm_apply D g start (pre ++ t1 ++ rest) = fsm_apply D g start (pre ++ t2 ++ rest).
Proof. exact respell_same_result. Qed.

Theorem C10_clean_lines_read :
  forall D, oi_lookup D s_dd = None -> oi_lookup D [c_dash; c_eq] = None ->
  forall a u, view D a = Some u -> Reads D a u.
Proof. exact view_reads. Qed.

(** and conversely: the inductive reading of the theorems is exactly the clean executable reading *)
Theorem C10_reads_iff_view :
  forall D, oi_lookup D s_dd = None -> oi_lookup D [c_dash; c_eq] = None ->
  forall a u, Reads D a u <-> view D a = Some u.
Proof. exact reads_iff_view. Qed.

Theorem C10_same_reading_same_parse :
  forall parse_float opts args spec i a1 a2 u,
    compile opts args spec = IOk i ->
    sane (optinfo_of opts) = true -> no_dd_graph (i_graph i) = true ->
    view (optinfo_of opts) a1 = Some u -> view (optinfo_of opts) a2 = Some u ->
    fsm_parse parse_float i a1 = fsm_parse parse_float i a2.
Proof. exact same_view_same_parse. Qed.

(** the hypothesis [no_dd_graph] follows from the syntax of the spec: a spec without a "--" atom
    compiles to an automaton without a "--" transition (used by C02, C09, C10, C11) *)
Theorem C10_spec_without_dd_has_no_dd_transition :
  forall opts args spec i toks e,
    compile opts args spec = IOk i ->
    tokenize spec = LexOk toks ->
    parse_tokens (lookup_name opts) (lookup_name args) (length spec) toks = ParseOk e ->
    seq_has_dd e = false -> no_dd_graph (i_graph i) = true.
Proof. exact compile_no_dd. Qed.

Print Assumptions C10_spec_without_dd_has_no_dd_transition.
Print Assumptions C10_scan_is_take.
Print Assumptions C10_spellings_read_alike.
Print Assumptions C10_folded_read_alike.
Print Assumptions C10_respelling_changes_nothing.
Print Assumptions C10_clean_lines_read.
Print Assumptions C10_reads_iff_view.
Print Assumptions C10_same_reading_same_parse.
Print Assumptions C10_own_matcher_cannot_tell_spellings_apart.
Print Assumptions C10_own_matcher_binds_the_value.
Print Assumptions C10_other_matchers_step_over.

(** non-vacuity: a table with a valued option (-o, --out) and a flag (-f, --force) satisfies the
    hypotheses; and a folded example on the model *)
Definition ex_D : optinfo :=
  mkOI (fun n => if str_eqb n (lit "-o") || str_eqb n (lit "--out") then Some 0
                 else if str_eqb n (lit "-f") || str_eqb n (lit "--force") then Some 1 else None)
       (fun i => Nat.eqb i 1) (fun _ => false).

Example C10_nonvacuous_named : named ex_D 0 "o"%char (lit "--out") /\ named ex_D 1 "f"%char (lit "--force").
Proof. split; constructor; try reflexivity; eexists; eexists; reflexivity. Qed.

Example C10_nonvacuous_spelled :
  Spelled ex_D 0 "o"%char (lit "--out") (lit "v") [lit "-ov"] /\
  Spelled ex_D 0 "o"%char (lit "--out") (lit "v") [lit "--out"; lit "v"] /\
  Spelled ex_D 1 "f"%char (lit "--force") s_true [lit "--force=true"].
Proof.
  repeat split.
  - apply (SpShortAtt ex_D 0 "o"%char (lit "--out") "v"%char []); reflexivity.
  - apply SpLongSep; [reflexivity | split; [discriminate | reflexivity]].
  - apply (SpFlagLongEq ex_D 1 "f"%char (lit "--force")). reflexivity.
Qed.

Example C10_folded_example :
  (m_opt ex_D 0 [lit "-fov"; lit "x"] false, m_opt ex_D 0 [lit "-f"; lit "-o"; lit "v"; lit "x"] false,
   m_opt ex_D 1 [lit "-fov"; lit "x"] false)
  = (Some ([lit "-f"; lit "x"], false, [(KO 0, lit "v")]),
     Some ([lit "-f"; lit "x"], false, [(KO 0, lit "v")]),
     Some ([lit "-ov"; lit "x"], false, [(KO 1, lit "true")])).
Proof. vm_compute. reflexivity. Qed.

(** the hypotheses of [C10_same_reading_same_parse] are met, and the conclusion is not trivial: a
    command with a flag, a valued option and two arguments; five spellings of the same line *)
Definition c10_decls : list decl :=
  [mkDecl true KBool (lit "f force") [] [] false (VBool false) false;
   mkDecl true KString (lit "o out") [] [] false (VStr []) false;
   mkDecl false KString (lit "SRC") [] [] false (VStr []) false].

Example C10_nonvacuous_whole_parse :
  match declare (fun _ => None) (fun _ => []) c10_decls [] [] with
  | inl (opts, args) =>
    match compile opts args (lit "[-f] [-o] SRC") with
    | IOk i =>
      let D := optinfo_of opts in
      let lines := [[lit "-f"; lit "-o"; lit "v"; lit "x"]; [lit "-fov"; lit "x"]; [lit "--force"; lit "--out=v"; lit "x"];
                    [lit "-fo"; lit "v"; lit "x"]; [lit "-f=true"; lit "-o=v"; lit "x"]] in
      sane D && no_dd_graph (i_graph i) &&
      forallb (fun a => match view D a with
                        | Some [VO 0 t; VO 1 v; VP x] => str_eqb t s_true && str_eqb v (lit "v") && str_eqb x (lit "x")
                        | _ => false end) lines &&
      forallb (fun a => match fsm_parse (fun _ => None) i a with PAccept _ _ => true | _ => false end) lines
    | _ => false
    end
  | inr _ => false
  end = true.
Proof. vm_compute. reflexivity. Qed.
