(** C10 — all documented spellings of an option occurrence are interchangeable.
    PARTIAL. Proved, for every declared-options table, every position of the occurrence in the scanned
    run and every rest of the command line: the option's OWN matcher finds an occurrence with the same
    value and the same remaining arguments whichever of the documented spellings is used
    (flag: -f, --force, -f=true, --force=true; valued: -o v, -o=v, -ov, --out v, --out=v, for values
    that are non-empty and do not start with '-' (separate) or '=' (attached)); the matcher of any OTHER
    option steps over the occurrence as a whole, finds the same thing behind it, and leaves it in
    place in its own spelling. NOT yet proved: the lifting of this matcher-level bisimulation through
    State.apply (DESIGN 5/T3) and the folded groupings (-ab -o v / -abov), for which the residue
    rewriting of matchShortOpt must be followed. Both are covered on every run by comparing, on the
    implementation itself, every line with every single re-spelling and random/maximal foldings. *)
From MowCli Require Import Base Matchers MatcherProofs.

Theorem C10_own_matcher_cannot_tell_spellings_apart :
  forall D o c long v t1 t2 pre rest,
    named D o c long -> Spelled D o c long v t1 -> Spelled D o c long v t2 ->
    scan D o pre (t1 ++ rest) = scan D o pre (t2 ++ rest).
Proof. exact respell_own. Qed.

Theorem C10_own_matcher_binds_the_value :
  forall D o c long v toks pre rest,
    named D o c long -> Spelled D o c long v toks ->
    scan D o pre (toks ++ rest) = Some (v, rev_append pre rest).
Proof. exact own_spelled. Qed.

Theorem C10_other_matchers_step_over :
  forall D o c long v t1 t2 o' rest,
    named D o c long -> Spelled D o c long v t1 -> Spelled D o c long v t2 -> Nat.eqb o o' = false ->
    match scan D o' [] (t1 ++ rest), scan D o' [] (t2 ++ rest) with
    | Some (v1, r1), Some (v2, r2) => v1 = v2 /\ exists r, r1 = t1 ++ r /\ r2 = t2 ++ r
    | None, None => True
    | _, _ => False
    end.
Proof. exact respell_other. Qed.

Print Assumptions C10_own_matcher_cannot_tell_spellings_apart.
Print Assumptions C10_own_matcher_binds_the_value.
Print Assumptions C10_other_matchers_step_over.

(** non-vacuity: a table with a valued option (-o, --out) and a flag (-f, --force) satisfies the
    hypotheses; and a folded example on the model *)
Definition ex_D : optinfo :=
  mkOI (fun n => if str_eqb n (lit "-o") || str_eqb n (lit "--out") then Some 0
                 else if str_eqb n (lit "-f") || str_eqb n (lit "--force") then Some 1 else None)
       (fun i => Nat.eqb i 1) (fun _ => false).

Example C10_nonvacuous_named : named ex_D 0 "o"%char (lit "--out") /\ named ex_D 1 "f"%char (lit "--force").
Proof. split; constructor; try reflexivity; eexists; eexists; reflexivity. Qed.

Example C10_nonvacuous_spelled :
  Spelled ex_D 0 "o"%char (lit "--out") (lit "v") [lit "-ov"] /\
  Spelled ex_D 0 "o"%char (lit "--out") (lit "v") [lit "--out"; lit "v"] /\
  Spelled ex_D 1 "f"%char (lit "--force") s_true [lit "--force=true"].
Proof.
  repeat split.
  - apply (SpShortAtt ex_D 0 "o"%char (lit "--out") "v"%char []); reflexivity.
  - apply SpLongSep; [reflexivity | split; [discriminate | reflexivity]].
  - apply (SpFlagLongEq ex_D 1 "f"%char (lit "--force")). reflexivity.
Qed.

Example C10_folded_example :
  (m_opt ex_D 0 [lit "-fov"; lit "x"] false, m_opt ex_D 0 [lit "-f"; lit "-o"; lit "v"; lit "x"] false,
   m_opt ex_D 1 [lit "-fov"; lit "x"] false)
  = (Some ([lit "-f"; lit "x"], false, [(KO 0, lit "v")]),
     Some ([lit "-f"; lit "x"], false, [(KO 0, lit "v")]),
     Some ([lit "-ov"; lit "x"], false, [(KO 1, lit "true")])).
Proof. vm_compute. reflexivity. Qed.
