(** Well-formedness of the compiled automaton: every transition of the graph built by the
    Thompson construction, simplified and sorted, leads to an allocated state. *)
From MowCli Require Import Base Lexer Parser Nfa.

Definition wfg (g : graph) : Prop := forall s l t, In (l, t) (edges g s) -> t < nstates g.

Lemma nth_set_nth_same {A} (l : list A) : forall i x d, i < length l -> nth i (set_nth i x l) d = x.
Proof. induction l as [|a l IH]; intros [|i] x d H; cbn in *; try lia; auto. apply IH. lia. Qed.

Lemma nth_set_nth_other {A} (l : list A) : forall i j x d, i <> j -> nth j (set_nth i x l) d = nth j l d.
Proof.
  induction l as [|a l IH]; intros [|i] [|j] x d H; cbn; try reflexivity; try congruence. apply IH. congruence.
Qed.

Lemma set_nth_length {A} (l : list A) : forall i x, length (set_nth i x l) = length l.
Proof. induction l as [|a l IH]; intros [|i] x; cbn; auto. Qed.

Lemma set_nth_out {A} (l : list A) : forall i x, length l <= i -> set_nth i x l = l.
Proof. induction l as [|a l IH]; intros [|i] x H; cbn in *; try reflexivity; try lia. f_equal. apply IH. lia. Qed.

Lemma nstates_new g : nstates (snd (new_state g)) = S (nstates g) /\ fst (new_state g) = nstates g.
Proof. unfold new_state, nstates. cbn. rewrite app_length. cbn. split; [lia | reflexivity]. Qed.

Lemma edges_new g s : edges (snd (new_state g)) s = edges g s.
Proof.
  unfold new_state, edges. cbn. destruct (Nat.lt_ge_cases s (length (g_tr g))) as [H|H].
  - now rewrite app_nth1.
  - rewrite app_nth2 by lia. rewrite (nth_overflow (g_tr g)) by lia.
    destruct (s - length (g_tr g)) as [|[|k]]; reflexivity.
Qed.

Lemma wfg_new g : wfg g -> wfg (snd (new_state g)).
Proof.
  intros H s l t Hin. rewrite edges_new in Hin. destruct (nstates_new g) as [Hn _]. rewrite Hn.
  specialize (H s l t Hin). lia.
Qed.

Lemma nstates_set_edges g s es : nstates (set_edges g s es) = nstates g.
Proof. unfold nstates, set_edges. cbn. apply set_nth_length. Qed.

Lemma edges_set_edges g s es s' :
  edges (set_edges g s es) s' = if Nat.eqb s s' then (if s <? nstates g then es else edges g s') else edges g s'.
Proof.
  unfold edges, set_edges, nstates. cbn [g_tr]. destruct (Nat.eqb_spec s s') as [<-|Hne].
  - destruct (Nat.ltb_spec s (length (g_tr g))) as [H|H].
    + now apply nth_set_nth_same.
    + now rewrite set_nth_out.
  - now apply nth_set_nth_other.
Qed.

Lemma wfg_set_edges g s es :
  wfg g -> (forall l t, In (l, t) es -> t < nstates g) -> wfg (set_edges g s es).
Proof.
  intros H Hes s' l t Hin. rewrite nstates_set_edges. rewrite edges_set_edges in Hin.
  destruct (Nat.eqb s s'); [destruct (s <? nstates g)|]; eauto.
Qed.

Lemma nstates_add_edge g s l t : nstates (add_edge g s l t) = nstates g.
Proof. apply nstates_set_edges. Qed.

Lemma wfg_add_edge g s l t : wfg g -> t < nstates g -> wfg (add_edge g s l t).
Proof.
  intros H Ht. apply wfg_set_edges; [assumption|]. intros l' t' Hin. apply in_app_or in Hin as [Hin|[Heq|[]]].
  - eapply H; eauto.
  - now injection Heq as <- <-.
Qed.

Lemma wfg_set_terminal g s : wfg g -> wfg (set_terminal g s).
Proof. intros H s' l t Hin. exact (H s' l t Hin). Qed.

Lemma nstates_set_terminal g s : nstates (set_terminal g s) = nstates g.
Proof. reflexivity. Qed.

Combined Scheme ast_mutind from seq_mut, choice_mut, ratom_mut, atom_mut.

(** * The Thompson construction *)
Section Th.
  Variable nopts : nat.

  (** result of a fragment builder: the graph stays well formed, only grows, and the returned
      states are allocated *)
  Definition frag_ok (g : graph) (r : nat * nat * graph) : Prop :=
    let '(s, e, g') := r in wfg g' /\ nstates g <= nstates g' /\ s < nstates g' /\ e < nstates g'.

  Lemma fold_add_edges es : forall g end_,
    wfg g -> end_ < nstates g -> (forall l t, In (l, t) es -> t < nstates g) ->
    let g' := fold_left (fun g' (e : edge) => add_edge g' end_ (fst e) (snd e)) es g in
    wfg g' /\ nstates g' = nstates g.
  Proof.
    induction es as [|[l t] es IH]; intros g end_ Hw He Hes; cbn [fold_left]; [auto|].
    cbn [fst snd].
    assert (Ht : t < nstates g) by (apply (Hes l t); now left).
    destruct (IH (add_edge g end_ l t) end_) as [H1 H2].
    - now apply wfg_add_edge.
    - now rewrite nstates_add_edge.
    - intros l' t' Hin. rewrite nstates_add_edge. apply (Hes l' t'). now right.
    - split; [assumption|]. now rewrite H2, nstates_add_edge.
  Qed.

  Lemma th_seq_cons c s' end_ g :
    th_seq nopts (SCons c s') end_ g =
    let '(cs, g0) := new_state g in
    let '(ce, g0') := new_state g0 in
    let g1 := th_alts nopts c cs ce g0' in
    let g2 := fold_left (fun g' (e : edge) => add_edge g' end_ (fst e) (snd e)) (edges g1 cs) g1 in
    th_seq nopts s' ce g2.
  Proof. reflexivity. Qed.

  Lemma th_alts_one a start end_ g :
    th_alts nopts (COne a) start end_ g =
    let '(s, e, g1) := th_ratom nopts a g in add_edge (add_edge g1 start LEps s) e LEps end_.
  Proof. reflexivity. Qed.

  Lemma th_alts_alt a c' start end_ g :
    th_alts nopts (CAlt a c') start end_ g =
    let '(s, e, g1) := th_ratom nopts a g in
    th_alts nopts c' start end_ (add_edge (add_edge g1 start LEps s) e LEps end_).
  Proof. reflexivity. Qed.

  Lemma th_ratom_eq a rep g :
    th_ratom nopts (RAtom a rep) g =
    let '(s, e, g1) := th_atom nopts a g in (s, e, if rep then add_edge g1 e LEps s else g1).
  Proof. reflexivity. Qed.

  Lemma th_atom_par s g :
    th_atom nopts (APar s) g =
    let '(start, g0) := new_state g in
    let '(ss, g1) := new_state g0 in
    let '(se, g2) := th_seq nopts s ss g1 in (ss, se, g2).
  Proof. reflexivity. Qed.

  Lemma th_atom_sq s g :
    th_atom nopts (ASq s) g =
    let '(start, g0) := new_state g in
    let '(ss, g1) := new_state g0 in
    let '(se, g2) := th_seq nopts s ss g1 in (ss, se, add_edge g2 ss LEps se).
  Proof. reflexivity. Qed.

  Lemma leaf_ok g l :
    wfg g ->
    frag_ok g (let '(start, g0) := new_state g in
               let '(e, g1) := new_state g0 in (start, e, add_edge g1 start l e)).
  Proof.
    intros Hw. destruct (new_state g) as [start g0] eqn:E0. destruct (new_state g0) as [e g1] eqn:E1.
    pose proof (nstates_new g) as [Hn0 Hf0]. rewrite E0 in Hn0, Hf0. cbn [fst snd] in Hn0, Hf0.
    pose proof (nstates_new g0) as [Hn1 Hf1]. rewrite E1 in Hn1, Hf1. cbn [fst snd] in Hn1, Hf1.
    assert (Hw0 : wfg g0) by (pose proof (wfg_new g Hw) as H; now rewrite E0 in H).
    assert (Hw1 : wfg g1) by (pose proof (wfg_new g0 Hw0) as H; now rewrite E1 in H).
    unfold frag_ok. repeat split; [apply wfg_add_edge; [assumption | lia] | rewrite nstates_add_edge; lia ..].
  Qed.

  Theorem thompson_wf :
    (forall s, forall end_ g, wfg g -> end_ < nstates g ->
       wfg (snd (th_seq nopts s end_ g)) /\ nstates g <= nstates (snd (th_seq nopts s end_ g)) /\
       fst (th_seq nopts s end_ g) < nstates (snd (th_seq nopts s end_ g))) /\
    (forall c, forall start end_ g, wfg g -> start < nstates g -> end_ < nstates g ->
       wfg (th_alts nopts c start end_ g) /\ nstates g <= nstates (th_alts nopts c start end_ g)) /\
    (forall a, forall g, wfg g -> frag_ok g (th_ratom nopts a g)) /\
    (forall a, forall g, wfg g -> frag_ok g (th_atom nopts a g)).
  Proof.
    apply ast_mutind.
    - (* SNil *) intros end_ g Hw He. cbn. auto.
    - (* SCons *) intros c IHc s IHs end_ g Hw He. rewrite th_seq_cons.
      destruct (new_state g) as [cs g0] eqn:E0. destruct (new_state g0) as [ce g0'] eqn:E1.
      pose proof (nstates_new g) as [Hn0 Hf0]. rewrite E0 in Hn0, Hf0. cbn [fst snd] in Hn0, Hf0.
      pose proof (nstates_new g0) as [Hn1 Hf1]. rewrite E1 in Hn1, Hf1. cbn [fst snd] in Hn1, Hf1.
      assert (Hw0 : wfg g0) by (pose proof (wfg_new g Hw) as H; now rewrite E0 in H).
      assert (Hw1 : wfg g0') by (pose proof (wfg_new g0 Hw0) as H; now rewrite E1 in H).
      destruct (IHc cs ce g0' Hw1) as [Hw2 Hn2]; [lia | lia |].
      set (g1 := th_alts nopts c cs ce g0') in *.
      destruct (fold_add_edges (edges g1 cs) g1 end_ Hw2) as [Hw3 Hn3]; [lia | intros l t Hin; eapply Hw2; eauto |].
      set (g2 := fold_left _ (edges g1 cs) g1) in *.
      destruct (IHs ce g2 Hw3) as (Hw4 & Hn4 & He4); [lia|].
      cbv zeta. fold g2. repeat split; [assumption | lia | assumption].
    - (* COne *) intros a IHa start end_ g Hw Hs He. rewrite th_alts_one.
      specialize (IHa g Hw). destruct (th_ratom nopts a g) as [[s e] g1]. destruct IHa as (Hw1 & Hn1 & Hs1 & He1).
      split.
      + apply wfg_add_edge; [apply wfg_add_edge; [assumption | assumption] | rewrite nstates_add_edge; lia].
      + rewrite !nstates_add_edge. lia.
    - (* CAlt *) intros a IHa c IHc start end_ g Hw Hs He. rewrite th_alts_alt.
      specialize (IHa g Hw). destruct (th_ratom nopts a g) as [[s e] g1]. destruct IHa as (Hw1 & Hn1 & Hs1 & He1).
      destruct (IHc start end_ (add_edge (add_edge g1 start LEps s) e LEps end_)) as [Hw2 Hn2].
      + apply wfg_add_edge; [apply wfg_add_edge; [assumption | assumption] | rewrite nstates_add_edge; lia].
      + rewrite !nstates_add_edge. lia.
      + rewrite !nstates_add_edge. lia.
      + split; [assumption|]. rewrite !nstates_add_edge in Hn2. lia.
    - (* RAtom *) intros a IHa rep g Hw. rewrite th_ratom_eq.
      specialize (IHa g Hw). destruct (th_atom nopts a g) as [[s e] g1]. destruct IHa as (Hw1 & Hn1 & Hs1 & He1).
      unfold frag_ok. destruct rep; repeat split; auto; [now apply wfg_add_edge | now rewrite nstates_add_edge ..].
    - (* AArg *) intros i g Hw. apply leaf_ok; assumption.
    - (* AOptions *) intros g Hw. apply leaf_ok; assumption.
    - (* AOpt *) intros i g Hw. apply leaf_ok; assumption.
    - (* AGroup *) intros is g Hw. apply leaf_ok; assumption.
    - (* ADD *) intros g Hw. apply leaf_ok; assumption.
    - (* APar *) intros s IHs g Hw. rewrite th_atom_par.
      destruct (new_state g) as [start g0] eqn:E0. destruct (new_state g0) as [ss g1] eqn:E1.
      pose proof (nstates_new g) as [Hn0 Hf0]. rewrite E0 in Hn0, Hf0. cbn [fst snd] in Hn0, Hf0.
      pose proof (nstates_new g0) as [Hn1 Hf1]. rewrite E1 in Hn1, Hf1. cbn [fst snd] in Hn1, Hf1.
      assert (Hw0 : wfg g0) by (pose proof (wfg_new g Hw) as H; now rewrite E0 in H).
      assert (Hw1 : wfg g1) by (pose proof (wfg_new g0 Hw0) as H; now rewrite E1 in H).
      destruct (IHs ss g1 Hw1) as (Hw2 & Hn2 & He2); [lia|].
      destruct (th_seq nopts s ss g1) as [se g2]. cbn [fst snd] in *. repeat split; auto; lia.
    - (* ASq *) intros s IHs g Hw. rewrite th_atom_sq.
      destruct (new_state g) as [start g0] eqn:E0. destruct (new_state g0) as [ss g1] eqn:E1.
      pose proof (nstates_new g) as [Hn0 Hf0]. rewrite E0 in Hn0, Hf0. cbn [fst snd] in Hn0, Hf0.
      pose proof (nstates_new g0) as [Hn1 Hf1]. rewrite E1 in Hn1, Hf1. cbn [fst snd] in Hn1, Hf1.
      assert (Hw0 : wfg g0) by (pose proof (wfg_new g Hw) as H; now rewrite E0 in H).
      assert (Hw1 : wfg g1) by (pose proof (wfg_new g0 Hw0) as H; now rewrite E1 in H).
      destruct (IHs ss g1 Hw1) as (Hw2 & Hn2 & He2); [lia|].
      destruct (th_seq nopts s ss g1) as [se g2]. cbn [fst snd] in *.
      repeat split; [now apply wfg_add_edge | rewrite nstates_add_edge; lia ..].
  Qed.

  Theorem thompson_ok s :
    let '(start, g) := thompson nopts s in wfg g /\ start < nstates g.
  Proof.
    unfold thompson. destruct (new_state empty_graph) as [ss g1] eqn:E1.
    pose proof (nstates_new empty_graph) as [Hn1 Hf1]. rewrite E1 in Hn1, Hf1. cbn [fst snd] in Hn1, Hf1.
    assert (Hw1 : wfg g1).
    { pose proof (wfg_new empty_graph) as H. rewrite E1 in H. apply H. intros s0 l t Hin.
      unfold edges, empty_graph in Hin. cbn in Hin. destruct s0; destruct Hin. }
    destruct thompson_wf as (Hseq & _). destruct (Hseq s ss g1 Hw1) as (Hw2 & Hn2 & He2); [lia|].
    destruct (th_seq nopts s ss g1) as [se g2]. cbn [fst snd] in *.
    split; [now apply wfg_set_terminal | rewrite nstates_set_terminal; lia].
  Qed.
End Th.
