(** Well-formedness of the compiled automaton: every transition of the graph built by the
    Thompson construction, simplified and sorted, leads to an allocated state. *)
From MowCli Require Import Base Lexer Parser Nfa.

Definition wfg (g : graph) : Prop := forall s l t, In (l, t) (edges g s) -> t < nstates g.

Lemma nth_set_nth_same {A} (l : list A) : forall i x d, i < length l -> nth i (set_nth i x l) d = x.
Proof. induction l as [|a l IH]; intros [|i] x d H; cbn in *; try lia; auto. apply IH. lia. Qed.

Lemma nth_set_nth_other {A} (l : list A) : forall i j x d, i <> j -> nth j (set_nth i x l) d = nth j l d.
Proof.
  induction l as [|a l IH]; intros [|i] [|j] x d H; cbn; try reflexivity; try congruence. apply IH. congruence.
Qed.

Lemma set_nth_length {A} (l : list A) : forall i x, length (set_nth i x l) = length l.
Proof. induction l as [|a l IH]; intros [|i] x; cbn; auto. Qed.

Lemma set_nth_out {A} (l : list A) : forall i x, length l <= i -> set_nth i x l = l.
Proof. induction l as [|a l IH]; intros [|i] x H; cbn in *; try reflexivity; try lia. f_equal. apply IH. lia. Qed.

Lemma nstates_new g : nstates (snd (new_state g)) = S (nstates g) /\ fst (new_state g) = nstates g.
Proof. unfold new_state, nstates. cbn. rewrite app_length. cbn. split; [lia | reflexivity]. Qed.

Lemma edges_new g s : edges (snd (new_state g)) s = edges g s.
Proof.
  unfold new_state, edges. cbn. destruct (Nat.lt_ge_cases s (length (g_tr g))) as [H|H].
  - now rewrite app_nth1.
  - rewrite app_nth2 by lia. rewrite (nth_overflow (g_tr g)) by lia.
    destruct (s - length (g_tr g)) as [|[|k]]; reflexivity.
Qed.

Lemma wfg_new g : wfg g -> wfg (snd (new_state g)).
Proof.
  intros H s l t Hin. rewrite edges_new in Hin. destruct (nstates_new g) as [Hn _]. rewrite Hn.
  specialize (H s l t Hin). lia.
Qed.

Lemma nstates_set_edges g s es : nstates (set_edges g s es) = nstates g.
Proof. unfold nstates, set_edges. cbn. apply set_nth_length. Qed.

Lemma edges_set_edges g s es s' :
  edges (set_edges g s es) s' = if Nat.eqb s s' then (if s <? nstates g then es else edges g s') else edges g s'.
Proof.
  unfold edges, set_edges, nstates. cbn [g_tr]. destruct (Nat.eqb_spec s s') as [<-|Hne].
  - destruct (Nat.ltb_spec s (length (g_tr g))) as [H|H].
    + now apply nth_set_nth_same.
    + now rewrite set_nth_out.
  - now apply nth_set_nth_other.
Qed.

Lemma wfg_set_edges g s es :
  wfg g -> (forall l t, In (l, t) es -> t < nstates g) -> wfg (set_edges g s es).
Proof.
  intros H Hes s' l t Hin. rewrite nstates_set_edges. rewrite edges_set_edges in Hin.
  destruct (Nat.eqb s s'); [destruct (s <? nstates g)|]; eauto.
Qed.

Lemma nstates_add_edge g s l t : nstates (add_edge g s l t) = nstates g.
Proof. apply nstates_set_edges. Qed.

Lemma wfg_add_edge g s l t : wfg g -> t < nstates g -> wfg (add_edge g s l t).
Proof.
  intros H Ht. apply wfg_set_edges; [assumption|]. intros l' t' Hin. apply in_app_or in Hin as [Hin|[Heq|[]]].
  - eapply H; eauto.
  - now injection Heq as <- <-.
Qed.

Lemma wfg_set_terminal g s : wfg g -> wfg (set_terminal g s).
Proof. intros H s' l t Hin. exact (H s' l t Hin). Qed.

Lemma nstates_set_terminal g s : nstates (set_terminal g s) = nstates g.
Proof. reflexivity. Qed.

Combined Scheme ast_mutind from seq_mut, choice_mut, ratom_mut, atom_mut.

(** * The Thompson construction *)
Section Th.
  Variable nopts : nat.

  (** result of a fragment builder: the graph stays well formed, only grows, and the returned
      states are allocated *)
  Definition frag_ok (g : graph) (r : nat * nat * graph) : Prop :=
    let '(s, e, g') := r in wfg g' /\ nstates g <= nstates g' /\ s < nstates g' /\ e < nstates g'.

  Lemma fold_add_edges es : forall g end_,
    wfg g -> end_ < nstates g -> (forall l t, In (l, t) es -> t < nstates g) ->
    let g' := fold_left (fun g' (e : edge) => add_edge g' end_ (fst e) (snd e)) es g in
    wfg g' /\ nstates g' = nstates g.
  Proof.
    induction es as [|[l t] es IH]; intros g end_ Hw He Hes; cbn [fold_left]; [auto|].
    cbn [fst snd].
    assert (Ht : t < nstates g) by (apply (Hes l t); now left).
    destruct (IH (add_edge g end_ l t) end_) as [H1 H2].
    - now apply wfg_add_edge.
    - now rewrite nstates_add_edge.
    - intros l' t' Hin. rewrite nstates_add_edge. apply (Hes l' t'). now right.
    - split; [assumption|]. now rewrite H2, nstates_add_edge.
  Qed.

  Lemma th_seq_cons c s' end_ g :
    th_seq nopts (SCons c s') end_ g =
    let '(cs, g0) := new_state g in
    let '(ce, g0') := new_state g0 in
    let g1 := th_alts nopts c cs ce g0' in
    let g2 := fold_left (fun g' (e : edge) => add_edge g' end_ (fst e) (snd e)) (edges g1 cs) g1 in
    th_seq nopts s' ce g2.
  Proof. reflexivity. Qed.

  Lemma th_alts_one a start end_ g :
    th_alts nopts (COne a) start end_ g =
    let '(s, e, g1) := th_ratom nopts a g in add_edge (add_edge g1 start LEps s) e LEps end_.
  Proof. reflexivity. Qed.

  Lemma th_alts_alt a c' start end_ g :
    th_alts nopts (CAlt a c') start end_ g =
    let '(s, e, g1) := th_ratom nopts a g in
    th_alts nopts c' start end_ (add_edge (add_edge g1 start LEps s) e LEps end_).
  Proof. reflexivity. Qed.

  Lemma th_ratom_eq a rep g :
    th_ratom nopts (RAtom a rep) g =
    let '(s, e, g1) := th_atom nopts a g in (s, e, if rep then add_edge g1 e LEps s else g1).
  Proof. reflexivity. Qed.

  Lemma th_atom_par s g :
    th_atom nopts (APar s) g =
    let '(start, g0) := new_state g in
    let '(ss, g1) := new_state g0 in
    let '(se, g2) := th_seq nopts s ss g1 in (ss, se, g2).
  Proof. reflexivity. Qed.

  Lemma th_atom_sq s g :
    th_atom nopts (ASq s) g =
    let '(start, g0) := new_state g in
    let '(ss, g1) := new_state g0 in
    let '(se, g2) := th_seq nopts s ss g1 in (ss, se, add_edge g2 ss LEps se).
  Proof. reflexivity. Qed.

  Lemma leaf_ok g l :
    wfg g ->
    frag_ok g (let '(start, g0) := new_state g in
               let '(e, g1) := new_state g0 in (start, e, add_edge g1 start l e)).
  Proof.
    intros Hw. destruct (new_state g) as [start g0] eqn:E0. destruct (new_state g0) as [e g1] eqn:E1.
    pose proof (nstates_new g) as [Hn0 Hf0]. rewrite E0 in Hn0, Hf0. cbn [fst snd] in Hn0, Hf0.
    pose proof (nstates_new g0) as [Hn1 Hf1]. rewrite E1 in Hn1, Hf1. cbn [fst snd] in Hn1, Hf1.
    assert (Hw0 : wfg g0) by (pose proof (wfg_new g Hw) as H; now rewrite E0 in H).
    assert (Hw1 : wfg g1) by (pose proof (wfg_new g0 Hw0) as H; now rewrite E1 in H).
    unfold frag_ok. repeat split; [apply wfg_add_edge; [assumption | lia] | rewrite nstates_add_edge; lia ..].
  Qed.

  Theorem thompson_wf :
    (forall s, forall end_ g, wfg g -> end_ < nstates g ->
       wfg (snd (th_seq nopts s end_ g)) /\ nstates g <= nstates (snd (th_seq nopts s end_ g)) /\
       fst (th_seq nopts s end_ g) < nstates (snd (th_seq nopts s end_ g))) /\
    (forall c, forall start end_ g, wfg g -> start < nstates g -> end_ < nstates g ->
       wfg (th_alts nopts c start end_ g) /\ nstates g <= nstates (th_alts nopts c start end_ g)) /\
    (forall a, forall g, wfg g -> frag_ok g (th_ratom nopts a g)) /\
    (forall a, forall g, wfg g -> frag_ok g (th_atom nopts a g)).
  Proof.
    apply ast_mutind.
    - (* SNil *) intros end_ g Hw He. cbn. auto.
    - (* SCons *) intros c IHc s IHs end_ g Hw He. rewrite th_seq_cons.
      destruct (new_state g) as [cs g0] eqn:E0. destruct (new_state g0) as [ce g0'] eqn:E1.
      pose proof (nstates_new g) as [Hn0 Hf0]. rewrite E0 in Hn0, Hf0. cbn [fst snd] in Hn0, Hf0.
      pose proof (nstates_new g0) as [Hn1 Hf1]. rewrite E1 in Hn1, Hf1. cbn [fst snd] in Hn1, Hf1.
      assert (Hw0 : wfg g0) by (pose proof (wfg_new g Hw) as H; now rewrite E0 in H).
      assert (Hw1 : wfg g0') by (pose proof (wfg_new g0 Hw0) as H; now rewrite E1 in H).
      destruct (IHc cs ce g0' Hw1) as [Hw2 Hn2]; [lia | lia |].
      set (g1 := th_alts nopts c cs ce g0') in *.
      destruct (fold_add_edges (edges g1 cs) g1 end_ Hw2) as [Hw3 Hn3]; [lia | intros l t Hin; eapply Hw2; eauto |].
      set (g2 := fold_left _ (edges g1 cs) g1) in *.
      destruct (IHs ce g2 Hw3) as (Hw4 & Hn4 & He4); [lia|].
      cbv zeta. fold g2. repeat split; [assumption | lia | assumption].
    - (* COne *) intros a IHa start end_ g Hw Hs He. rewrite th_alts_one.
      specialize (IHa g Hw). destruct (th_ratom nopts a g) as [[s e] g1]. destruct IHa as (Hw1 & Hn1 & Hs1 & He1).
      split.
      + apply wfg_add_edge; [apply wfg_add_edge; [assumption | assumption] | rewrite nstates_add_edge; lia].
      + rewrite !nstates_add_edge. lia.
    - (* CAlt *) intros a IHa c IHc start end_ g Hw Hs He. rewrite th_alts_alt.
      specialize (IHa g Hw). destruct (th_ratom nopts a g) as [[s e] g1]. destruct IHa as (Hw1 & Hn1 & Hs1 & He1).
      destruct (IHc start end_ (add_edge (add_edge g1 start LEps s) e LEps end_)) as [Hw2 Hn2].
      + apply wfg_add_edge; [apply wfg_add_edge; [assumption | assumption] | rewrite nstates_add_edge; lia].
      + rewrite !nstates_add_edge. lia.
      + rewrite !nstates_add_edge. lia.
      + split; [assumption|]. rewrite !nstates_add_edge in Hn2. lia.
    - (* RAtom *) intros a IHa rep g Hw. rewrite th_ratom_eq.
      specialize (IHa g Hw). destruct (th_atom nopts a g) as [[s e] g1]. destruct IHa as (Hw1 & Hn1 & Hs1 & He1).
      unfold frag_ok. destruct rep; repeat split; auto; [now apply wfg_add_edge | now rewrite nstates_add_edge ..].
    - (* AArg *) intros i g Hw. apply leaf_ok; assumption.
    - (* AOptions *) intros g Hw. apply leaf_ok; assumption.
    - (* AOpt *) intros i g Hw. apply leaf_ok; assumption.
    - (* AGroup *) intros is g Hw. apply leaf_ok; assumption.
    - (* ADD *) intros g Hw. apply leaf_ok; assumption.
    - (* APar *) intros s IHs g Hw. rewrite th_atom_par.
      destruct (new_state g) as [start g0] eqn:E0. destruct (new_state g0) as [ss g1] eqn:E1.
      pose proof (nstates_new g) as [Hn0 Hf0]. rewrite E0 in Hn0, Hf0. cbn [fst snd] in Hn0, Hf0.
      pose proof (nstates_new g0) as [Hn1 Hf1]. rewrite E1 in Hn1, Hf1. cbn [fst snd] in Hn1, Hf1.
      assert (Hw0 : wfg g0) by (pose proof (wfg_new g Hw) as H; now rewrite E0 in H).
      assert (Hw1 : wfg g1) by (pose proof (wfg_new g0 Hw0) as H; now rewrite E1 in H).
      destruct (IHs ss g1 Hw1) as (Hw2 & Hn2 & He2); [lia|].
      destruct (th_seq nopts s ss g1) as [se g2]. cbn [fst snd] in *. repeat split; auto; lia.
    - (* ASq *) intros s IHs g Hw. rewrite th_atom_sq.
      destruct (new_state g) as [start g0] eqn:E0. destruct (new_state g0) as [ss g1] eqn:E1.
      pose proof (nstates_new g) as [Hn0 Hf0]. rewrite E0 in Hn0, Hf0. cbn [fst snd] in Hn0, Hf0.
      pose proof (nstates_new g0) as [Hn1 Hf1]. rewrite E1 in Hn1, Hf1. cbn [fst snd] in Hn1, Hf1.
      assert (Hw0 : wfg g0) by (pose proof (wfg_new g Hw) as H; now rewrite E0 in H).
      assert (Hw1 : wfg g1) by (pose proof (wfg_new g0 Hw0) as H; now rewrite E1 in H).
      destruct (IHs ss g1 Hw1) as (Hw2 & Hn2 & He2); [lia|].
      destruct (th_seq nopts s ss g1) as [se g2]. cbn [fst snd] in *.
      repeat split; [now apply wfg_add_edge | rewrite nstates_add_edge; lia ..].
  Qed.

  Theorem thompson_ok s :
    let '(start, g) := thompson nopts s in wfg g /\ start < nstates g.
  Proof.
    unfold thompson. destruct (new_state empty_graph) as [ss g1] eqn:E1.
    pose proof (nstates_new empty_graph) as [Hn1 Hf1]. rewrite E1 in Hn1, Hf1. cbn [fst snd] in Hn1, Hf1.
    assert (Hw1 : wfg g1).
    { pose proof (wfg_new empty_graph) as H. rewrite E1 in H. apply H. intros s0 l t Hin.
      unfold edges, empty_graph in Hin. cbn in Hin. destruct s0; destruct Hin. }
    destruct thompson_wf as (Hseq & _). destruct (Hseq s ss g1 Hw1) as (Hw2 & Hn2 & He2); [lia|].
    destruct (th_seq nopts s ss g1) as [se g2]. cbn [fst snd] in *.
    split; [now apply wfg_set_terminal | rewrite nstates_set_terminal; lia].
  Qed.
End Th.

(** * Prepare: shortcut elimination (with the D2 repair) and sort *)

Lemma first_eps_spec es idx next :
  first_eps es = Some (idx, next) ->
  nth_error es idx = Some (LEps, next) /\ count_eps (remove_at idx es) + 1 = count_eps es /\
  (forall e, In e (remove_at idx es) -> In e es).
Proof.
  revert idx. induction es as [|[l t] es IH]; intros idx; cbn [first_eps]; [discriminate|].
  destruct (is_eps l) eqn:Hl.
  - intros [= <- <-]. destruct l; try discriminate. cbn. unfold count_eps. cbn. repeat split; auto; lia.
  - destruct (first_eps es) as [[i t']|]; [|discriminate]. intros [= <- <-].
    destruct (IH i eq_refl) as (H1 & H2 & H3). cbn [nth_error remove_at]. repeat split; auto.
    + unfold count_eps in *. cbn [filter fst]. rewrite Hl. exact H2.
    + intros e [<-|He]; [now left | right; auto].
Qed.

Lemma count_eps_le_length es : count_eps es <= length es.
Proof. unfold count_eps. induction es as [|e es IH]; cbn; [lia|]. destruct (is_eps (fst e)); cbn; lia. Qed.

Lemma absorb_spec theirs : forall mine,
  (forall e, In e (absorb mine theirs) -> In e mine \/ In e theirs) /\
  count_eps (absorb mine theirs) <= count_eps mine + count_eps theirs /\
  (forall e, In e mine -> In e (absorb mine theirs)).
Proof.
  unfold absorb. induction theirs as [|e theirs IH]; intros mine; cbn [fold_left].
  - repeat split; auto. lia.
  - destruct (has_edge mine e).
    + destruct (IH mine) as (H1 & H2 & H3). repeat split; auto.
      * intros x Hx. destruct (H1 x Hx); auto. right. now right.
      * unfold count_eps in *. cbn [filter]. destruct (is_eps (fst e)); cbn [length]; lia.
    + destruct (IH (mine ++ [e])) as (H1 & H2 & H3). repeat split.
      * intros x Hx. destruct (H1 x Hx) as [Hm|Ht]; [|right; now right].
        apply in_app_or in Hm as [Hm|[<-|[]]]; [now left | right; now left].
      * unfold count_eps in *. rewrite filter_app, app_length in H2. cbn [filter] in *.
        destruct (is_eps (fst e)); cbn [length] in *; lia.
      * intros x Hx. apply H3. apply in_or_app. now left.
Qed.

Lemma fold_len_ge (l : list (list edge)) : forall acc s,
  acc + length (nth s l []) <= fold_left (fun n es => n + length es) l acc.
Proof.
  induction l as [|x l IH]; intros acc s; cbn [fold_left].
  - destruct s; cbn; lia.
  - destruct s as [|s]; cbn [nth].
    + specialize (IH (acc + length x) (length l)). rewrite nth_overflow in IH by lia. cbn in IH. lia.
    + specialize (IH (acc + length x) s). lia.
Qed.

Lemma total_edges_ge g s : length (edges g s) <= total_edges g.
Proof. unfold total_edges, edges. pose proof (fold_len_ge (g_tr g) 0 s). lia. Qed.

Lemma list_eqb_nat_refl js : list_eqb Nat.eqb js js = true.
Proof. induction js as [|x xs IH]; cbn; [reflexivity | now rewrite Nat.eqb_refl]. Qed.

Section SelfLoop.
  Variable s : nat.

  (** invariant of the loop [for s.simplifySelf(start) {}] *)
  Record loop_inv (g0 g : graph) (expanded : list nat) : Prop := mkLI {
    li_wf : wfg g;
    li_n : nstates g = nstates g0;
    li_others : forall t, t <> s -> edges g t = edges g0 t;
    li_nd : NoDup expanded;
    li_lt : forall x, In x expanded -> x < nstates g0
  }.

  Lemma simplify_self_total fuel : forall g0 g expanded,
    loop_inv g0 g expanded -> s < nstates g0 ->
    (nstates g0 - length expanded) * (total_edges g0 + 1) + count_eps (edges g s) < fuel ->
    exists g', simplify_self fuel g s expanded = Some g' /\ wfg g' /\ nstates g' = nstates g0.
  Proof.
    induction fuel as [|f IH]; intros g0 g expanded Hinv Hs Hf; [now apply Nat.nlt_0_r in Hf|].
    cbn [simplify_self].
    destruct (first_eps (edges g s)) as [[idx next]|] eqn:Hfe.
    2:{ exists g. split; [reflexivity|]. split; [apply Hinv | apply Hinv]. }
    destruct (first_eps_spec _ _ _ Hfe) as (Hnth & Hcnt & Hsub).
    destruct Hinv as [Hwf Hn Hoth Hnd Hlt].
    assert (Hnext : next < nstates g0).
    { rewrite <- Hn. apply (Hwf s LEps next). eapply nth_error_In; eauto. }
    set (g1 := set_edges g s (remove_at idx (edges g s))).
    assert (Hs' : s < nstates g) by lia.
    assert (He1 : edges g1 s = remove_at idx (edges g s)).
    { unfold g1. rewrite edges_set_edges, Nat.eqb_refl. apply Nat.ltb_lt in Hs'. now rewrite Hs'. }
    assert (He1o : forall t, t <> s -> edges g1 t = edges g t).
    { intros t Ht. unfold g1. rewrite edges_set_edges. destruct (Nat.eqb_spec s t); [congruence | reflexivity]. }
    assert (Hw1 : wfg g1).
    { unfold g1. apply wfg_set_edges; [assumption|]. intros l t Hin. apply (Hwf s l t). now apply Hsub. }
    assert (Hn1 : nstates g1 = nstates g0) by (unfold g1; now rewrite nstates_set_edges).
    destruct (mem_nat next expanded) eqn:Hm.
    - (* the target was already merged: the shortcut is just dropped *)
      apply IH; [constructor; auto | assumption |].
      + intros t Ht. rewrite He1o by assumption. now apply Hoth.
      + rewrite He1. lia.
    - assert (Hnin : ~ In next expanded).
      { intros Hc. apply Bool.not_true_iff_false in Hm. apply Hm. clear -Hc.
        induction expanded as [|x l IHl]; [destruct Hc|]. cbn. destruct Hc as [->|Hc]; [now rewrite Nat.eqb_refl | rewrite IHl; auto; apply orb_true_r]. }
      set (g2 := set_edges g1 s (absorb (edges g1 s) (edges g1 next))).
      destruct (absorb_spec (edges g1 next) (edges g1 s)) as (Ha1 & Ha2 & Ha3).
      assert (Hs1 : s < nstates g1) by lia.
      assert (He2 : edges g2 s = absorb (edges g1 s) (edges g1 next)).
      { unfold g2. rewrite edges_set_edges, Nat.eqb_refl. apply Nat.ltb_lt in Hs1. now rewrite Hs1. }
      assert (Hw2 : wfg g2).
      { unfold g2. apply wfg_set_edges; [assumption|]. intros l t Hin.
        destruct (Ha1 _ Hin) as [H|H]; eapply Hw1; eauto. }
      assert (Hn2 : nstates g2 = nstates g0) by (unfold g2; now rewrite nstates_set_edges).
      set (g3 := if terminal g2 next then set_terminal g2 s else g2).
      assert (Hw3 : wfg g3) by (unfold g3; destruct (terminal g2 next); [now apply wfg_set_terminal | assumption]).
      assert (Hn3 : nstates g3 = nstates g0) by (unfold g3; destruct (terminal g2 next); assumption).
      assert (He3 : forall t, edges g3 t = edges g2 t) by (intros t; unfold g3; destruct (terminal g2 next); reflexivity).
      assert (Hlen : length expanded < nstates g0).
      { assert (Hincl : incl (next :: expanded) (List.seq 0 (nstates g0))).
        { intros x [<-|Hx]; apply in_seq; [lia | specialize (Hlt x Hx); lia]. }
        assert (Hnd2 : NoDup (next :: expanded)) by (now constructor).
        pose proof (NoDup_incl_length Hnd2 Hincl) as H. rewrite seq_length in H. cbn in H. lia. }
      (* how many shortcuts the target contributes *)
      assert (Hbound : count_eps (edges g1 next) <= total_edges g0 \/ next = s).
      { destruct (Nat.eq_dec next s) as [->|Hne]; [now right|]. left.
        rewrite He1o by assumption. rewrite Hoth by assumption.
        etransitivity; [apply count_eps_le_length | apply total_edges_ge]. }
      apply IH; [constructor; auto | assumption |].
      + intros t Ht. rewrite He3. unfold g2. rewrite edges_set_edges.
        destruct (Nat.eqb_spec s t); [congruence|]. rewrite He1o by assumption. now apply Hoth.
      + now constructor.
      + intros x [<-|Hx]; auto.
      + rewrite He3, He2. cbn [length].
        destruct Hbound as [Hb | ->].
        * assert (Hc1 : count_eps (edges g1 s) + 1 = count_eps (edges g s)) by (rewrite He1; exact Hcnt).
          assert ((nstates g0 - S (length expanded)) * (total_edges g0 + 1) + (total_edges g0 + 1)
                  = (nstates g0 - length expanded) * (total_edges g0 + 1)) by nia.
          lia.
        * (* the state is its own target: nothing new is absorbed *)
          assert (Hsame : count_eps (absorb (edges g1 s) (edges g1 s)) <= count_eps (edges g1 s)).
          { clear. generalize (edges g1 s) as l. intros l. unfold absorb.
            assert (H : forall theirs mine, (forall e, In e theirs -> In e mine) ->
                          fold_left (fun acc e => if has_edge acc e then acc else acc ++ [e]) theirs mine = mine).
            { induction theirs as [|e th IHt]; intros mine Hin; cbn [fold_left]; [reflexivity|].
              assert (He : has_edge mine e = true).
              { unfold has_edge. apply existsb_exists. exists e. split; [apply Hin; now left|].
                unfold edge_eqb. destruct e as [l0 t0]. cbn. rewrite Nat.eqb_refl, andb_true_r.
                destruct l0 as [|i|i|js|]; cbn; rewrite ?Nat.eqb_refl; auto.
                apply list_eqb_nat_refl. }
              rewrite He. apply IHt. intros x Hx. apply Hin. now right. }
            rewrite H; auto. }
          assert (Hc1 : count_eps (edges g1 s) + 1 = count_eps (edges g s)) by (rewrite He1; exact Hcnt).
          nia.
  Qed.
End SelfLoop.

Lemma simplify_self_ok g s :
  wfg g -> s < nstates g ->
  exists g', simplify_self (self_fuel g) g s [] = Some g' /\ wfg g' /\ nstates g' = nstates g.
Proof.
  intros Hw Hs. apply (simplify_self_total s (self_fuel g) g g []); [constructor; auto | assumption |].
  - constructor.
  - intros x [].
  - unfold self_fuel. cbn [length]. pose proof (count_eps_le_length (edges g s)). pose proof (total_edges_ge g s). nia.
Qed.

(** * The depth-first traversal of simplify *)
Definition GoodV (n : nat) (visited : list nat) : Prop := NoDup visited /\ forall x, In x visited -> x < n.

Lemma goodv_length n visited : GoodV n visited -> length visited <= n.
Proof.
  intros [Hnd Hlt].
  assert (Hincl : incl visited (List.seq 0 n)) by (intros x Hx; apply in_seq; specialize (Hlt x Hx); lia).
  pose proof (NoDup_incl_length Hnd Hincl) as H. now rewrite seq_length in H.
Qed.

Lemma mem_nat_iff n l : mem_nat n l = true <-> In n l.
Proof.
  induction l as [|x l IH]; cbn; [split; [discriminate | tauto]|].
  rewrite orb_true_iff, IH, Nat.eqb_eq. split; intros [H|H]; auto.
Qed.

Definition simp_ok (n : nat) (g : graph) (visited : list nat) (r : option (graph * list nat)) (s : option nat) : Prop :=
  exists g' v', r = Some (g', v') /\ wfg g' /\ nstates g' = n /\ GoodV n v' /\ incl visited v' /\
                match s with Some s => In s v' | None => True end.

Theorem simplify_total : forall fuel n g s visited,
  wfg g -> nstates g = n -> s < n -> GoodV n visited ->
  1 <= fuel -> (~ In s visited -> n - length visited < fuel) ->
  simp_ok n g visited (simplify fuel g s visited) (Some s).
Proof.
  induction fuel as [|f IH]; intros n g s visited Hw Hn Hs Hg H1 Hf; [lia|].
  cbn [simplify]. destruct (mem_nat s visited) eqn:Hm.
  - exists g, visited. apply mem_nat_iff in Hm. repeat split; auto; try apply Hg. apply incl_refl.
  - assert (Hnin : ~ In s visited) by (intros Hc; apply mem_nat_iff in Hc; congruence).
    specialize (Hf Hnin).
    assert (Hg1 : GoodV n (s :: visited)).
    { destruct Hg as [Hnd Hlt]. split; [now constructor | intros x [<-|Hx]; auto]. }
    pose proof (goodv_length _ _ Hg1) as Hl1. cbn [length] in Hl1.
    (* the children *)
    assert (Hch : forall es g0 v0,
               wfg g0 -> nstates g0 = n -> GoodV n v0 -> length visited < length v0 ->
               (forall l t, In (l, t) es -> t < n) ->
               simp_ok n g0 v0 (children (simplify f) es g0 v0) None).
    { induction es as [|[l t] es IHes]; intros g0 v0 Hw0 Hn0 Hg0 Hl0 Hes; cbn [children].
      - exists g0, v0. repeat split; auto; try apply Hg0. apply incl_refl.
      - assert (Ht : t < n) by (apply (Hes l t); now left).
        destruct (IH n g0 t v0 Hw0 Hn0 Ht Hg0) as (g2 & v2 & Hr & Hw2 & Hn2 & Hg2 & Hi2 & _).
        + lia.
        + intros _. lia.
        + rewrite Hr.
          destruct (IHes g2 v2 Hw2 Hn2 Hg2) as (g3 & v3 & Hr3 & Hw3 & Hn3 & Hg3 & Hi3 & _).
          * pose proof (NoDup_incl_length (proj1 Hg0) Hi2). lia.
          * intros l' t' Hin. apply (Hes l' t'). now right.
          * exists g3, v3. repeat split; auto; try apply Hg3. eapply incl_tran; eauto. }
    destruct (Hch (edges g s) g (s :: visited) Hw Hn Hg1) as (g2 & v2 & Hr & Hw2 & Hn2 & Hg2 & Hi2 & _).
    + cbn [length]. lia.
    + intros l t Hin. rewrite <- Hn. eapply Hw; eauto.
    + rewrite Hr. destruct (simplify_self_ok g2 s Hw2) as (g3 & Hr3 & Hw3 & Hn3); [lia|].
      rewrite Hr3. exists g3, v2. repeat split; auto; try apply Hg2; try lia.
      * intros x Hx. apply Hi2. now right.
      * apply Hi2. now left.
Qed.

(** * Sorting *)
Lemma insert_edge_in e l x : In x (insert_edge e l) <-> x = e \/ In x l.
Proof.
  induction l as [|y l IH]; cbn [insert_edge].
  - cbn. intuition.
  - destruct (priority (fst e) <=? priority (fst y)); cbn [In]; [intuition|]. rewrite IH. intuition.
Qed.

Lemma sort_edges_in l x : In x (sort_edges l) <-> In x l.
Proof.
  unfold sort_edges. induction l as [|e l IH]; cbn [fold_right]; [tauto|].
  rewrite insert_edge_in, IH. cbn. intuition congruence.
Qed.

Lemma sort_graph_wf g : wfg g -> wfg (sort_graph g) /\ nstates (sort_graph g) = nstates g.
Proof.
  intros Hw. unfold sort_graph, nstates. cbn [g_tr]. rewrite map_length. split; [|reflexivity].
  intros s l t Hin. unfold edges in Hin. cbn [g_tr] in Hin. unfold nstates. cbn [g_tr]. rewrite map_length.
  change [] with (sort_edges []) in Hin. rewrite map_nth in Hin. apply -> sort_edges_in in Hin.
  exact (Hw s l t Hin).
Qed.

(** * Prepare and compile never run out of fuel and yield a well-formed automaton *)
Theorem prepare_ok start g :
  wfg g -> start < nstates g ->
  exists g', prepare start g = Some g' /\ wfg g' /\ nstates g' = nstates g.
Proof.
  intros Hw Hs. unfold prepare.
  destruct (simplify_total (nstates g + 1) (nstates g) g start [] Hw eq_refl Hs) as (g2 & v2 & Hr & Hw2 & Hn2 & _).
  - split; [constructor | intros x []].
  - lia.
  - intros _. cbn [length]. lia.
  - rewrite Hr. destruct (sort_graph_wf g2 Hw2) as [Hw3 Hn3]. eexists. split; [reflexivity|]. split; [assumption | lia].
Qed.

(** * The terminal flags are kept in step with the states *)
Definition wft (g : graph) : Prop := length (g_term g) = nstates g.

Lemma wft_new g : wft g -> wft (snd (new_state g)).
Proof. unfold wft, new_state, nstates. cbn. rewrite !app_length. cbn. lia. Qed.
Lemma wft_set_edges g s es : wft g -> wft (set_edges g s es).
Proof. unfold wft. rewrite nstates_set_edges. auto. Qed.
Lemma wft_add_edge g s l t : wft g -> wft (add_edge g s l t).
Proof. apply wft_set_edges. Qed.
Lemma wft_set_terminal g s : wft g -> wft (set_terminal g s).
Proof. unfold wft, set_terminal, nstates. cbn. now rewrite set_nth_length. Qed.

Lemma wft_fold_add es : forall g end_, wft g ->
  wft (fold_left (fun g' (e : edge) => add_edge g' end_ (fst e) (snd e)) es g).
Proof. induction es as [|e es IH]; intros g end_ H; cbn [fold_left]; [assumption|]. apply IH. now apply wft_add_edge. Qed.

Theorem thompson_wft nopts :
  (forall s, forall end_ g, wft g -> wft (snd (th_seq nopts s end_ g))) /\
  (forall c, forall start end_ g, wft g -> wft (th_alts nopts c start end_ g)) /\
  (forall a, forall g, wft g -> wft (snd (th_ratom nopts a g))) /\
  (forall a, forall g, wft g -> wft (snd (th_atom nopts a g))).
Proof.
  apply ast_mutind.
  - intros end_ g H. exact H.
  - intros c IHc s IHs end_ g H. rewrite th_seq_cons.
    destruct (new_state g) as [cs g0] eqn:E0. destruct (new_state g0) as [ce g0'] eqn:E1.
    assert (H0 : wft g0) by (pose proof (wft_new g H) as X; now rewrite E0 in X).
    assert (H1 : wft g0') by (pose proof (wft_new g0 H0) as X; now rewrite E1 in X).
    cbv zeta. apply IHs. apply wft_fold_add. now apply IHc.
  - intros a IHa start end_ g H. rewrite th_alts_one. specialize (IHa g H).
    destruct (th_ratom nopts a g) as [[s e] g1]. cbn [snd] in IHa. now apply wft_add_edge, wft_add_edge.
  - intros a IHa c IHc start end_ g H. rewrite th_alts_alt. specialize (IHa g H).
    destruct (th_ratom nopts a g) as [[s e] g1]. cbn [snd] in IHa. apply IHc. now apply wft_add_edge, wft_add_edge.
  - intros a IHa rep g H. rewrite th_ratom_eq. specialize (IHa g H).
    destruct (th_atom nopts a g) as [[s e] g1]. cbn [snd] in *. destruct rep; [now apply wft_add_edge | assumption].
  - intros i g H. cbn [th_atom]. destruct (new_state g) as [st g0] eqn:E0. destruct (new_state g0) as [e g1] eqn:E1.
    cbn [snd]. apply wft_add_edge. pose proof (wft_new g0) as X. rewrite E1 in X. apply X.
    pose proof (wft_new g H) as Y. now rewrite E0 in Y.
  - intros g H. cbn [th_atom]. destruct (new_state g) as [st g0] eqn:E0. destruct (new_state g0) as [e g1] eqn:E1.
    cbn [snd]. apply wft_add_edge. pose proof (wft_new g0) as X. rewrite E1 in X. apply X.
    pose proof (wft_new g H) as Y. now rewrite E0 in Y.
  - intros i g H. cbn [th_atom]. destruct (new_state g) as [st g0] eqn:E0. destruct (new_state g0) as [e g1] eqn:E1.
    cbn [snd]. apply wft_add_edge. pose proof (wft_new g0) as X. rewrite E1 in X. apply X.
    pose proof (wft_new g H) as Y. now rewrite E0 in Y.
  - intros js g H. cbn [th_atom]. destruct (new_state g) as [st g0] eqn:E0. destruct (new_state g0) as [e g1] eqn:E1.
    cbn [snd]. apply wft_add_edge. pose proof (wft_new g0) as X. rewrite E1 in X. apply X.
    pose proof (wft_new g H) as Y. now rewrite E0 in Y.
  - intros g H. cbn [th_atom]. destruct (new_state g) as [st g0] eqn:E0. destruct (new_state g0) as [e g1] eqn:E1.
    cbn [snd]. apply wft_add_edge. pose proof (wft_new g0) as X. rewrite E1 in X. apply X.
    pose proof (wft_new g H) as Y. now rewrite E0 in Y.
  - intros s IHs g H. rewrite th_atom_par. destruct (new_state g) as [st g0] eqn:E0. destruct (new_state g0) as [ss g1] eqn:E1.
    assert (H1 : wft g1). { pose proof (wft_new g0) as X. rewrite E1 in X. apply X. pose proof (wft_new g H) as Y. now rewrite E0 in Y. }
    specialize (IHs ss g1 H1). destruct (th_seq nopts s ss g1) as [se g2]. exact IHs.
  - intros s IHs g H. rewrite th_atom_sq. destruct (new_state g) as [st g0] eqn:E0. destruct (new_state g0) as [ss g1] eqn:E1.
    assert (H1 : wft g1). { pose proof (wft_new g0) as X. rewrite E1 in X. apply X. pose proof (wft_new g H) as Y. now rewrite E0 in Y. }
    specialize (IHs ss g1 H1). destruct (th_seq nopts s ss g1) as [se g2]. cbn [snd] in *. now apply wft_add_edge.
Qed.

Lemma thompson_wft_top nopts s : wft (snd (thompson nopts s)).
Proof.
  unfold thompson. destruct (new_state empty_graph) as [ss g1] eqn:E1.
  assert (H1 : wft g1). { pose proof (wft_new empty_graph) as X. rewrite E1 in X. apply X. reflexivity. }
  destruct (thompson_wft nopts) as (Hseq & _). specialize (Hseq s ss g1 H1).
  destruct (th_seq nopts s ss g1) as [se g2]. cbn [snd] in *. now apply wft_set_terminal.
Qed.
