(** C08, the lexer's converse: a string that is tiled by well-shaped tokens, each followed by
    something that cannot continue it (maximal munch), is accepted by the lexer with exactly these
    tokens. Together with [ShapeProofs.tokenize_shapes] and [LexerProofs.tokenize_tiles] this brackets
    the set of accepted spec strings from both sides. *)
From MowCli Require Import Base Lexer LexerProofs ShapeProofs.
Local Arguments Ascii.eqb : simpl never.

Definition head_ok (p : ascii -> bool) (s : str) : Prop := match s with c :: _ => p c = false | [] => True end.

(** what may follow a token so that the lexer ends it there *)
Definition follows (t : token) (s : str) : Prop :=
  match tk_typ t with
  | TShortOpt | TOptSeq => head_ok (fun c => isLetter c || Ascii.eqb c c_dash) s
  | TDblDash => match s with [] => True | c :: _ => dd_end c = true end
  | TLongOpt => head_ok (fun c => isOkLongOpt c false) s
  | TArg | TOptions => head_ok isOkInArg s
  | _ => True
  end.

(** an option value "=<body>" whose body has no '>' *)
Definition value_ok (t : token) : Prop :=
  match tk_typ t with
  | TOptValue => exists body, body <> [] /\ forallb (fun x => negb (Ascii.eqb x ">"%char)) body = true /\
                              tk_val t = c_eq :: "<"%char :: body ++ [">"%char]
  | _ => True
  end.

Inductive WTiles : nat -> str -> list token -> Prop :=
| WNil pos : WTiles pos [] []
| WBlank pos c s ts : blank c = true -> WTiles (S pos) s ts -> WTiles pos (c :: s) ts
| WTok pos t s ts :
    tk_pos t = pos -> shape_b t = true -> value_ok t -> follows t s ->
    WTiles (pos + length (tk_text t)) s ts ->
    WTiles pos (tk_text t ++ s) (t :: ts).

Lemma span_exact p l s : forallb p l = true -> head_ok p s -> span p (l ++ s) = (l, s).
Proof.
  intros Hl Hs. induction l as [|c l IH]; cbn [List.app].
  - destruct s as [|c s]; [reflexivity|]. cbn [span]. cbn in Hs. now rewrite Hs.
  - cbn [forallb] in Hl. apply andb_true_iff in Hl as [Hc Hl]. cbn [span]. rewrite Hc, (IH Hl). reflexivity.
Qed.

Lemma tok_eta t : t = mkTok (tk_typ t) (tk_val t) (tk_pos t).
Proof. now destruct t. Qed.

Lemma not_blank_chars c : (Ascii.eqb c "["%char || Ascii.eqb c "]"%char || Ascii.eqb c "("%char || Ascii.eqb c ")"%char ||
                           Ascii.eqb c "|"%char || Ascii.eqb c "."%char || Ascii.eqb c c_dash || Ascii.eqb c c_eq || isUppercase c) = true ->
                          Ascii.eqb c c_space || Ascii.eqb c c_tab = false.
Proof. destruct c as [[] [] [] [] [] [] [] []]; cbn; intros H; try reflexivity; discriminate. Qed.

Lemma lex_word f pos c more s acc :
  isUppercase c = true -> forallb isOkInArg more = true -> head_ok isOkInArg s ->
  lex (S f) pos ((c :: more) ++ s) acc =
  lex f (pos + length (c :: more)) s
      (mkTok (if str_eqb (c :: more) s_options then TOptions else TArg) (c :: more) pos :: acc).
Proof.
  intros Hup Hmore Hf. cbn [List.app lex]. rewrite (not_blank_chars c) by (rewrite Hup; now rewrite !orb_true_r).
  assert (X : forall k, Ascii.eqb c k = true -> isUppercase k = true) by (intros k E; apply eqb_char in E; now subst).
  destruct (Ascii.eqb c "["%char) eqn:E1; [specialize (X _ E1); discriminate|].
  destruct (Ascii.eqb c "]"%char) eqn:E2; [specialize (X _ E2); discriminate|].
  destruct (Ascii.eqb c "("%char) eqn:E3; [specialize (X _ E3); discriminate|].
  destruct (Ascii.eqb c ")"%char) eqn:E4; [specialize (X _ E4); discriminate|].
  destruct (Ascii.eqb c "|"%char) eqn:E5; [specialize (X _ E5); discriminate|].
  destruct (Ascii.eqb c "."%char) eqn:E6; [specialize (X _ E6); discriminate|].
  destruct (Ascii.eqb c c_dash) eqn:E7; [specialize (X _ E7); discriminate|].
  destruct (Ascii.eqb c c_eq) eqn:E8; [specialize (X _ E8); discriminate|].
  rewrite Hup. rewrite (span_exact isOkInArg more s Hmore Hf). reflexivity.
Qed.

Theorem lex_complete : forall pos s ts, WTiles pos s ts -> forall fuel acc, length s < fuel ->
  lex fuel pos s acc = LexOk (rev acc ++ ts).
Proof.
  induction 1 as [pos | pos c s ts Hb _ IH | pos t s ts Hp Hsh Hv Hf _ IH]; intros fuel acc Hfuel;
    (destruct fuel as [|f]; [lia|]).
  - cbn [lex]. now rewrite app_nil_r.
  - cbn [lex]. unfold blank in Hb. rewrite Hb. replace (pos + 1) with (S pos) by lia. apply IH. cbn in Hfuel. lia.
  - rewrite (tok_eta t) at 2. rewrite Hp. unfold shape_b in Hsh. unfold tk_text in *. unfold follows in Hf. unfold value_ok in Hv.
    assert (Hlen : forall txt, length (txt ++ s) < S f -> length s < f \/ txt = []).
    { intros txt H. rewrite app_length in H. destruct txt; [now right | left; cbn in H; lia]. }
    revert Hsh Hv Hf IH Hfuel. destruct (tk_typ t) eqn:Ety; intros Hsh Hv Hf IH Hfuel.
    + (* ARG *)
      destruct (tk_val t) as [|c more] eqn:Ev; [discriminate|].
      apply andb_true_iff in Hsh as [Hsh Hno]. apply andb_true_iff in Hsh as [Hup Hmore].
      rewrite (lex_word f pos c more s acc Hup Hmore Hf). apply negb_true_iff in Hno. rewrite Hno.
      rewrite IH; [now rewrite rev_cons_app|]. cbn [length List.app] in Hfuel. rewrite app_length in Hfuel. lia.
    + (* ( *) apply str_eqb_eq in Hsh. rewrite Hsh in IH, Hfuel |- *. cbn [List.app].
      change (lex (S f) pos (lit "(" ++ s) acc) with (lex f (pos + 1) s (mkTok TOpenPar (lit "(") pos :: acc)).
      change (pos + length (lit "(")) with (pos + 1) in IH.
      rewrite IH; [now rewrite rev_cons_app | cbn in Hfuel; lia].
    + (* ) *) apply str_eqb_eq in Hsh. rewrite Hsh in IH, Hfuel |- *. cbn [List.app].
      change (lex (S f) pos (lit ")" ++ s) acc) with (lex f (pos + 1) s (mkTok TClosePar (lit ")") pos :: acc)).
      change (pos + length (lit ")")) with (pos + 1) in IH.
      rewrite IH; [now rewrite rev_cons_app | cbn in Hfuel; lia].
    + (* [ *) apply str_eqb_eq in Hsh. rewrite Hsh in IH, Hfuel |- *. cbn [List.app].
      change (lex (S f) pos (lit "[" ++ s) acc) with (lex f (pos + 1) s (mkTok TOpenSq (lit "[") pos :: acc)).
      change (pos + length (lit "[")) with (pos + 1) in IH.
      rewrite IH; [now rewrite rev_cons_app | cbn in Hfuel; lia].
    + (* ] *) apply str_eqb_eq in Hsh. rewrite Hsh in IH, Hfuel |- *. cbn [List.app].
      change (lex (S f) pos (lit "]" ++ s) acc) with (lex f (pos + 1) s (mkTok TCloseSq (lit "]") pos :: acc)).
      change (pos + length (lit "]")) with (pos + 1) in IH.
      rewrite IH; [now rewrite rev_cons_app | cbn in Hfuel; lia].
    + (* | *) apply str_eqb_eq in Hsh. rewrite Hsh in IH, Hfuel |- *. cbn [List.app].
      change (lex (S f) pos (lit "|" ++ s) acc) with (lex f (pos + 1) s (mkTok TChoice (lit "|") pos :: acc)).
      change (pos + length (lit "|")) with (pos + 1) in IH.
      rewrite IH; [now rewrite rev_cons_app | cbn in Hfuel; lia].
    + (* OPTIONS *)
      apply str_eqb_eq in Hsh. rewrite Hsh in IH, Hfuel |- *.
      change s_options with ("O"%char :: lit "PTIONS") in IH, Hfuel |- *.
      rewrite (lex_word f pos "O"%char (lit "PTIONS") s acc eq_refl eq_refl Hf).
      change (str_eqb ("O"%char :: lit "PTIONS") s_options) with true. cbv iota.
      rewrite IH; [now rewrite rev_cons_app|]. rewrite app_length in Hfuel. cbn [length] in Hfuel. lia.
    + (* ... *) apply str_eqb_eq in Hsh. rewrite Hsh in IH, Hfuel |- *. cbn [List.app].
      change (lex (S f) pos (lit "..." ++ s) acc) with (lex f (pos + 3) s (mkTok TRep (lit "...") pos :: acc)).
      change (pos + length (lit "...")) with (pos + 3) in IH.
      rewrite IH; [now rewrite rev_cons_app | cbn in Hfuel; lia].
    + (* -x *)
      destruct (tk_val t) as [|d [|o [|z zs]]] eqn:Ev; try discriminate.
      apply andb_true_iff in Hsh as [Hd Ho]. apply eqb_char in Hd. subst d.
      cbn [List.app lex]. change (Ascii.eqb c_dash c_space || Ascii.eqb c_dash c_tab) with false. cbn [orb].
      change (Ascii.eqb c_dash "["%char) with false. change (Ascii.eqb c_dash "]"%char) with false.
      change (Ascii.eqb c_dash "("%char) with false. change (Ascii.eqb c_dash ")"%char) with false.
      change (Ascii.eqb c_dash "|"%char) with false. change (Ascii.eqb c_dash "."%char) with false.
      rewrite Ascii.eqb_refl. cbv iota. rewrite Ho.
      assert (Hsp : span isLetter s = ([], s)).
      { destruct s as [|c s']; [reflexivity|]. cbn [span]. cbn in Hf. apply orb_false_iff in Hf as [Hf1 _]. now rewrite Hf1. }
      rewrite Hsp. cbn [length Nat.add Nat.ltb Nat.leb].
      assert (Hnd : match s with d :: _ => Ascii.eqb d c_dash = false | [] => True end).
      { destruct s as [|c s']; [exact I|]. cbn in Hf. now apply orb_false_iff in Hf as [_ Hf2]. }
      assert (Hrec : lex f (pos + 2) s (mkTok TShortOpt [c_dash; o] pos :: acc) = LexOk (rev acc ++ mkTok TShortOpt [c_dash; o] pos :: ts)).
      { rewrite IH; [now rewrite rev_cons_app | cbn in Hfuel; lia]. }
      destruct s as [|c s']; [exact Hrec|]. rewrite Hnd. exact Hrec.
    + (* --name *)
      destruct (tk_val t) as [|d1 [|d2 [|e name]]] eqn:Ev; try discriminate.
      apply andb_true_iff in Hsh as [Hsh Hname]. apply andb_true_iff in Hsh as [Hsh He]. apply andb_true_iff in Hsh as [H1 H2].
      apply eqb_char in H1, H2. subst d1 d2.
      cbn [List.app lex]. change (Ascii.eqb c_dash c_space || Ascii.eqb c_dash c_tab) with false. cbn [orb].
      change (Ascii.eqb c_dash "["%char) with false. change (Ascii.eqb c_dash "]"%char) with false.
      change (Ascii.eqb c_dash "("%char) with false. change (Ascii.eqb c_dash ")"%char) with false.
      change (Ascii.eqb c_dash "|"%char) with false. change (Ascii.eqb c_dash "."%char) with false.
      rewrite Ascii.eqb_refl. cbv iota. change (isLetter c_dash) with false. cbv iota. rewrite ?Ascii.eqb_refl. cbv iota.
      assert (Hsp : dd_end e = false).
      { destruct (dd_end e) eqn:E; [|reflexivity]. exfalso. unfold dd_end in E.
        repeat (apply orb_true_iff in E as [E|E]); apply eqb_char in E; subst e; discriminate. }
      rewrite Hsp, He. rewrite (span_exact (fun x => isOkLongOpt x false) name s Hname Hf).
      rewrite IH; [now rewrite rev_cons_app|]. cbn [length List.app] in Hfuel |- *. rewrite app_length in Hfuel. lia.
    + (* -xyz *)
      apply andb_true_iff in Hsh as [Hlen2 Hall].
      destruct (tk_val t) as [|o letters] eqn:Ev; [discriminate|]. destruct letters as [|l1 ls]; [discriminate|].
      cbn [forallb] in Hall. apply andb_true_iff in Hall as [Ho Hls].
      cbn [List.app lex]. change (Ascii.eqb c_dash c_space || Ascii.eqb c_dash c_tab) with false. cbn [orb].
      change (Ascii.eqb c_dash "["%char) with false. change (Ascii.eqb c_dash "]"%char) with false.
      change (Ascii.eqb c_dash "("%char) with false. change (Ascii.eqb c_dash ")"%char) with false.
      change (Ascii.eqb c_dash "|"%char) with false. change (Ascii.eqb c_dash "."%char) with false.
      rewrite Ascii.eqb_refl. cbv iota. rewrite Ho.
      assert (Hf1 : head_ok isLetter s).
      { destruct s as [|c s']; [exact I|]. cbn in Hf |- *. now apply orb_false_iff in Hf as [Hf1 _]. }
      change (l1 :: ls ++ s) with ((l1 :: ls) ++ s). rewrite (span_exact isLetter (l1 :: ls) s Hls Hf1). cbn [length Nat.add Nat.ltb Nat.leb].
      assert (Hnd : match s with d :: _ => Ascii.eqb d c_dash = false | [] => True end).
      { destruct s as [|c s']; [exact I|]. cbn in Hf. now apply orb_false_iff in Hf as [_ Hf2]. }
      assert (Hrec : lex f (pos + S (S (S (length ls)))) s (mkTok TOptSeq (o :: l1 :: ls) pos :: acc)
                     = LexOk (rev acc ++ mkTok TOptSeq (o :: l1 :: ls) pos :: ts)).
      { rewrite IH; [now rewrite rev_cons_app|]. cbn [length List.app] in Hfuel. rewrite app_length in Hfuel. cbn [length] in Hfuel. lia. }
      cbn [length List.app] in Hrec. 
      destruct s as [|c s']; [exact Hrec|]. rewrite Hnd. exact Hrec.
    + (* =<value> *)
      destruct Hv as (body & Hbne & Hbody & Eval). rewrite Eval in IH |- *.
      cbn [List.app lex]. change (Ascii.eqb c_eq c_space || Ascii.eqb c_eq c_tab) with false. cbn [orb].
      change (Ascii.eqb c_eq "["%char) with false. change (Ascii.eqb c_eq "]"%char) with false.
      change (Ascii.eqb c_eq "("%char) with false. change (Ascii.eqb c_eq ")"%char) with false.
      change (Ascii.eqb c_eq "|"%char) with false. change (Ascii.eqb c_eq "."%char) with false.
      change (Ascii.eqb c_eq c_dash) with false. rewrite Ascii.eqb_refl. cbv iota.
      change (Ascii.eqb "<"%char "<"%char) with true. cbv iota.
      rewrite <- app_assoc. cbn [List.app].
      assert (Hsp : span (fun x => negb (Ascii.eqb x ">"%char)) (body ++ ">"%char :: s) = (body, ">"%char :: s)).
      { apply span_exact; [exact Hbody | cbn; reflexivity]. }
      rewrite Hsp. destruct body as [|b0 body']; [congruence|].
      match goal with |- lex _ ?p _ _ = _ =>
        replace p with (pos + length (c_eq :: "<"%char :: (b0 :: body') ++ [">"%char]))
          by (cbn [length]; rewrite app_length; cbn [length]; lia) end.
      rewrite IH; [now rewrite rev_cons_app|].
      rewrite Eval in Hfuel. cbn [length List.app] in Hfuel. rewrite !app_length in Hfuel. cbn [length] in Hfuel. lia.
    + (* -- *)
      apply str_eqb_eq in Hsh. rewrite Hsh in IH, Hfuel |- *. unfold s_dd in *.
      cbn [List.app lex]. change (Ascii.eqb c_dash c_space || Ascii.eqb c_dash c_tab) with false. cbn [orb].
      change (Ascii.eqb c_dash "["%char) with false. change (Ascii.eqb c_dash "]"%char) with false.
      change (Ascii.eqb c_dash "("%char) with false. change (Ascii.eqb c_dash ")"%char) with false.
      change (Ascii.eqb c_dash "|"%char) with false. change (Ascii.eqb c_dash "."%char) with false.
      rewrite Ascii.eqb_refl. cbv iota. change (isLetter c_dash) with false. cbv iota. rewrite ?Ascii.eqb_refl. cbv iota.
      assert (Hrec : lex f (pos + 2) s (mkTok TDblDash [c_dash; c_dash] pos :: acc) = LexOk (rev acc ++ mkTok TDblDash [c_dash; c_dash] pos :: ts)).
      { rewrite IH; [now rewrite rev_cons_app | cbn in Hfuel; lia]. }
      destruct s as [|c s']; [exact Hrec|]. rewrite Hf. exact Hrec.
Qed.

Theorem tokenize_complete s ts : WTiles 0 s ts -> tokenize s = LexOk ts.
Proof. intros H. unfold tokenize. now rewrite (lex_complete 0 s ts H (length s + 1) []) by lia. Qed.

(** * And conversely: what the lexer accepts is such a tiling *)
Lemma span_spec p l a b : span p l = (a, b) -> l = a ++ b /\ forallb p a = true /\ head_ok p b.
Proof.
  intros H. destruct (span_eq _ _ _ _ H) as [E _]. split; [exact E|]. split.
  - pose proof (span_forallb p l) as X. now rewrite H in X.
  - destruct b as [|g r]; [exact I|]. exact (span_stop p l a g r H).
Qed.

Theorem lex_wtiles : forall fuel pos rest acc ts,
  lex fuel pos rest acc = LexOk ts -> exists ts', ts = rev acc ++ ts' /\ WTiles pos rest ts'.
Proof.
  induction fuel as [|f IH]; intros pos rest acc ts; [discriminate|].
  destruct rest as [|c r1]; cbn [lex].
  { intros [= <-]. exists []. split; [now rewrite app_nil_r | constructor]. }
  (* one more token [t] whose text is [txt] *)
  assert (Hpush : forall t txt r p,
            tk_pos t = pos -> tk_text t = txt -> p = pos + length txt ->
            shape_b t = true -> value_ok t -> follows t r ->
            lex f p r (t :: acc) = LexOk ts ->
            exists ts', ts = rev acc ++ ts' /\ WTiles pos (txt ++ r) ts').
  { intros t txt r p Hp Ht -> Hs Hv Hfo Hl. destruct (IH _ _ _ _ Hl) as (ts' & -> & W).
    exists (t :: ts'). split; [apply rev_cons_app|]. rewrite <- Ht. apply WTok; auto. now rewrite Ht. }
  destruct (Ascii.eqb c c_space || Ascii.eqb c c_tab) eqn:Hb.
  { intros Hl. destruct (IH _ _ _ _ Hl) as (ts' & -> & W). exists ts'. split; [reflexivity|].
    apply WBlank; [exact Hb|]. now replace (S pos) with (pos + 1) by lia. }
  destruct (Ascii.eqb c "["%char) eqn:E1.
  { apply eqb_char in E1. subst c. apply (Hpush (mkTok TOpenSq (lit "[") pos) (lit "[") r1); auto; exact I. }
  destruct (Ascii.eqb c "]"%char) eqn:E2.
  { apply eqb_char in E2. subst c. apply (Hpush (mkTok TCloseSq (lit "]") pos) (lit "]") r1); auto; exact I. }
  destruct (Ascii.eqb c "("%char) eqn:E3.
  { apply eqb_char in E3. subst c. apply (Hpush (mkTok TOpenPar (lit "(") pos) (lit "(") r1); auto; exact I. }
  destruct (Ascii.eqb c ")"%char) eqn:E4.
  { apply eqb_char in E4. subst c. apply (Hpush (mkTok TClosePar (lit ")") pos) (lit ")") r1); auto; exact I. }
  destruct (Ascii.eqb c "|"%char) eqn:E5.
  { apply eqb_char in E5. subst c. apply (Hpush (mkTok TChoice (lit "|") pos) (lit "|") r1); auto; exact I. }
  destruct (Ascii.eqb c "."%char) eqn:E6.
  { destruct r1 as [|d1 r2]; [discriminate|]. destruct (Ascii.eqb d1 "."%char) eqn:F1; [|discriminate].
    destruct r2 as [|d2 r3]; [discriminate|]. destruct (Ascii.eqb d2 "."%char) eqn:F2; [|discriminate].
    apply eqb_char in E6, F1, F2. subst c d1 d2.
    apply (Hpush (mkTok TRep (lit "...") pos) (lit "...") r3); auto; exact I. }
  destruct (Ascii.eqb c c_dash) eqn:E7.
  { apply eqb_char in E7. subst c. destruct r1 as [|o r2]; [discriminate|]. destruct (isLetter o) eqn:Hl.
    - destruct (span isLetter r2) as [letters r3] eqn:Hsp. destruct (span_spec _ _ _ _ Hsp) as (-> & Hall & Hstop).
      set (tk := if 2 <? 2 + length letters then mkTok TOptSeq (o :: letters) pos else mkTok TShortOpt [c_dash; o] pos).
      assert (Hnd : match r3 with d :: _ => Ascii.eqb d c_dash = false | [] => True end -> 
                    lex f (pos + (2 + length letters)) r3 (tk :: acc) = LexOk ts ->
                    exists ts', ts = rev acc ++ ts' /\ WTiles pos (c_dash :: o :: letters ++ r3) ts').
      { intros Hdash Hlx. change (c_dash :: o :: letters ++ r3) with ((c_dash :: o :: letters) ++ r3).
        apply (Hpush tk (c_dash :: o :: letters) r3 (pos + (2 + length letters))); auto.
        - unfold tk. now destruct letters.
        - unfold tk. destruct letters; reflexivity.
        - unfold tk. destruct letters as [|l1 ls]; unfold shape_b; cbn [tk_typ tk_val length Nat.add Nat.ltb Nat.leb].
          + now rewrite Ascii.eqb_refl, Hl.
          + cbn [andb]. change (forallb isLetter (o :: l1 :: ls)) with (isLetter o && forallb isLetter (l1 :: ls)). now rewrite Hl, Hall.
        - unfold tk. destruct letters; exact I.
        - assert (F : head_ok (fun c => isLetter c || Ascii.eqb c c_dash) r3).
          { destruct r3 as [|d r4]; [exact I|]. cbn in Hstop, Hdash |- *. now rewrite Hstop, Hdash. }
          unfold tk. destruct letters; exact F. }
      destruct r3 as [|d r4]; [apply Hnd; exact I|]. destruct (Ascii.eqb d c_dash) eqn:Ed; [discriminate|]. apply Hnd. reflexivity.
    - destruct (Ascii.eqb o c_dash) eqn:Hd; [|discriminate]. apply eqb_char in Hd. subst o.
      assert (Hdd : forall r, (match r with [] => True | c :: _ => dd_end c = true end) ->
                lex f (pos + 2) r (mkTok TDblDash s_dd pos :: acc) = LexOk ts ->
                exists ts', ts = rev acc ++ ts' /\ WTiles pos (c_dash :: c_dash :: r) ts').
      { intros r Hr Hlx. change (c_dash :: c_dash :: r) with (s_dd ++ r).
        apply (Hpush (mkTok TDblDash s_dd pos) s_dd r (pos + 2)); auto; exact I. }
      destruct r2 as [|e r3]; [apply Hdd; exact I|].
      destruct (dd_end e) eqn:He; [apply Hdd; exact He|].
      destruct (isOkLongOpt e true) eqn:Hok; [|discriminate].
      destruct (span (fun x => isOkLongOpt x false) r3) as [name r4] eqn:Hsp. destruct (span_spec _ _ _ _ Hsp) as (-> & Hall & Hstop).
      intros Hlx. change (c_dash :: c_dash :: e :: name ++ r4) with ((c_dash :: c_dash :: e :: name) ++ r4).
      apply (Hpush (mkTok TLongOpt (c_dash :: c_dash :: e :: name) pos) (c_dash :: c_dash :: e :: name) r4 (pos + (3 + length name))); auto.
      + unfold shape_b. cbn [tk_typ tk_val]. now rewrite !Ascii.eqb_refl, Hok, Hall.
      + exact I. }
  destruct (Ascii.eqb c c_eq) eqn:E8.
  { apply eqb_char in E8. subst c. destruct r1 as [|l r2]; [discriminate|]. destruct (Ascii.eqb l "<"%char) eqn:Hlt; [|discriminate].
    apply eqb_char in Hlt. subst l.
    destruct (span (fun x => negb (Ascii.eqb x ">"%char)) r2) as [body r3] eqn:Hsp. destruct (span_spec _ _ _ _ Hsp) as (-> & Hall & Hstop).
    destruct r3 as [|g r4]; [discriminate|]. destruct body as [|b0 body]; [discriminate|].
    assert (Hg : g = ">"%char) by (cbn in Hstop; apply negb_false_iff in Hstop; now apply eqb_char in Hstop). subst g.
    intros Hlx.
    replace (c_eq :: "<"%char :: (b0 :: body) ++ ">"%char :: r4) with ((c_eq :: "<"%char :: (b0 :: body) ++ [">"%char]) ++ r4)
      by (cbn; now rewrite <- app_assoc).
    apply (Hpush (mkTok TOptValue (c_eq :: "<"%char :: (b0 :: body) ++ [">"%char]) pos) _ r4 (pos + (3 + length (b0 :: body)))); auto.
    - cbn [length]. rewrite app_length. cbn [length]. lia.
    - unfold shape_b. cbn [tk_typ tk_val]. rewrite Ascii.eqb_refl. cbn [andb].
      change (Ascii.eqb "<"%char "<"%char) with true. cbn [andb].
      change (b0 :: body ++ [">"%char]) with ((b0 :: body) ++ [">"%char]). rewrite last_is_app, andb_true_r.
      rewrite app_length. cbn [length]. destruct (length body); reflexivity.
    - exists (b0 :: body). repeat split; [discriminate | exact Hall]. 
    - exact I. }
  destruct (isUppercase c) eqn:E9; [|discriminate].
  destruct (span isOkInArg r1) as [more r2] eqn:Hsp. destruct (span_spec _ _ _ _ Hsp) as (-> & Hall & Hstop).
  intros Hlx. change (c :: more ++ r2) with ((c :: more) ++ r2).
  apply (Hpush (mkTok (if str_eqb (c :: more) s_options then TOptions else TArg) (c :: more) pos) (c :: more) r2 (pos + length (c :: more))); auto.
  - destruct (str_eqb (c :: more) s_options); reflexivity.
  - unfold shape_b. destruct (str_eqb (c :: more) s_options) eqn:Eo; cbn [tk_typ tk_val]; [exact Eo | now rewrite E9, Hall, Eo].
  - destruct (str_eqb (c :: more) s_options); exact I.
  - destruct (str_eqb (c :: more) s_options); exact Hstop.
Qed.

(** the lexical grammar of specs *)
Theorem tokenize_iff_wtiles s ts : tokenize s = LexOk ts <-> WTiles 0 s ts.
Proof.
  split; [|apply tokenize_complete]. intros H. unfold tokenize in H.
  destruct (lex_wtiles _ _ _ _ _ H) as (ts' & -> & W). exact W.
Qed.
