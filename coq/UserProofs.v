(** C15 at the level of the command line as read: the SetByUser flag of an option is raised iff the option is
    WRITTEN on the command line (it has an occurrence in the reading), for compiled commands whose automaton
    has no spec-level "--" and command lines that read cleanly. Composition of [ValueProofs.setbyuser_iff]
    (flag iff the accepting path bound a command-line string) with [AccountProofs] (the strings bound to an
    option are its occurrences in the reading). *)
From MowCli Require Import Base Nfa Matchers Apply Values Flow Cmd View ValueProofs CompileProofs AccountProofs.

Section User.
  Variable parse_float : str -> option str.
  Variable getenv : str -> str.

  Theorem setbyuser_iff_written ds spec i argv opts' args' u :
    do_init parse_float getenv ds spec = IOk i ->
    sane (optinfo_of (i_opts i)) = true -> no_dd_graph (i_graph i) = true ->
    view (optinfo_of (i_opts i)) argv = Some u ->
    fsm_parse parse_float i argv = PAccept opts' args' ->
    forall k c, nth_error opts' k = Some c -> (ct_user c = true <-> occs k u <> []).
  Proof.
    intros Hi Hsane Hnd Hv Hp k c Hk.
    destruct (setbyuser_iff parse_float getenv ds spec i argv opts' args' Hi Hp) as (bs & Hrun & Ho & _).
    rewrite (Ho k c Hk).
    unfold do_init in Hi. destruct (declare parse_float getenv ds [] []) as [[opts args]|m]; [|discriminate].
    destruct (compile_total opts args (match spec with [] => default_spec opts args | _ => spec end)) as [_ Hc].
    destruct (Hc i Hi) as (_ & _ & Eo & _). rewrite Eo in *.
    destruct (accepted_values_are_the_written_values opts args _ i argv u bs Hi Hsane Hnd Hv Hrun) as [Hvals _].
    now rewrite Hvals.
  Qed.
  (** the arguments: a string bound to an argument variable is one of the positional tokens of the reading *)
  Lemma values_for_KA_in_poss k bs v : In v (values_for (KA k) bs) -> In v (b_poss bs).
  Proof.
    unfold values_for, b_poss. intros H. apply in_map_iff in H. destruct H as ([k' w] & E & H).
    cbn [snd] in E. subst w. apply filter_In in H. destruct H as [H Hk]. cbn [fst] in Hk.
    apply in_flat_map. exists (k', v). split; [exact H|]. destruct k' as [o|a]; cbn [fst snd key_eqb] in *.
    - discriminate.
    - now left.
  Qed.

  (** the flag of an argument is raised only by a positional token written on the line: some token of the
      reading's positionals is bound to it; so a line without positional tokens leaves every argument's flag down,
      whatever the environment and the defaults are *)
  Theorem setbyuser_arg_needs_a_positional ds spec i argv opts' args' u :
    do_init parse_float getenv ds spec = IOk i ->
    sane (optinfo_of (i_opts i)) = true -> no_dd_graph (i_graph i) = true ->
    view (optinfo_of (i_opts i)) argv = Some u ->
    fsm_parse parse_float i argv = PAccept opts' args' ->
    forall k c, nth_error args' k = Some c -> ct_user c = true -> exists v, In v (poss u).
  Proof.
    intros Hi Hsane Hnd Hv Hp k c Hk Hu.
    destruct (setbyuser_iff parse_float getenv ds spec i argv opts' args' Hi Hp) as (bs & Hrun & _ & Ha).
    apply (Ha k c Hk) in Hu.
    unfold do_init in Hi. destruct (declare parse_float getenv ds [] []) as [[opts args]|m]; [|discriminate].
    destruct (compile_total opts args (match spec with [] => default_spec opts args | _ => spec end)) as [_ Hc].
    destruct (Hc i Hi) as (_ & _ & Eo & _). rewrite Eo in *.
    destruct (accepted_values_are_the_written_values opts args _ i argv u bs Hi Hsane Hnd Hv Hrun) as [_ Hpos].
    unfold positional_bindings in Hpos. rewrite <- Hpos.
    destruct (values_for (KA k) bs) as [|v vs] eqn:E; [now elim Hu|].
    exists v. apply (values_for_KA_in_poss k). rewrite E. now left.
  Qed.

  Corollary no_positional_no_arg_flag ds spec i argv opts' args' u :
    do_init parse_float getenv ds spec = IOk i ->
    sane (optinfo_of (i_opts i)) = true -> no_dd_graph (i_graph i) = true ->
    view (optinfo_of (i_opts i)) argv = Some u -> poss u = [] ->
    fsm_parse parse_float i argv = PAccept opts' args' ->
    Forall (fun c => ct_user c = false) args'.
  Proof.
    intros Hi Hsane Hnd Hv Hn Hp. apply Forall_forall. intros c Hin.
    destruct (In_nth_error _ _ Hin) as [k Hk].
    destruct (ct_user c) eqn:E; [|reflexivity].
    destruct (setbyuser_arg_needs_a_positional ds spec i argv opts' args' u Hi Hsane Hnd Hv Hp k c Hk E) as [v Hv'].
    rewrite Hn in Hv'. destruct Hv'.
  Qed.
End User.
