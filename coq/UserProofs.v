(** C15 at the level of the command line as read: the SetByUser flag of an option is raised iff the option is
    WRITTEN on the command line (it has an occurrence in the reading), for compiled commands whose automaton
    has no spec-level "--" and command lines that read cleanly. Composition of [ValueProofs.setbyuser_iff]
    (flag iff the accepting path bound a command-line string) with [AccountProofs] (the strings bound to an
    option are its occurrences in the reading). *)
From MowCli Require Import Base Nfa Matchers Apply Values Flow Cmd View ValueProofs CompileProofs AccountProofs.

Section User.
  Variable parse_float : str -> option str.
  Variable getenv : str -> str.

  Theorem setbyuser_iff_written ds spec i argv opts' args' u :
    do_init parse_float getenv ds spec = IOk i ->
    sane (optinfo_of (i_opts i)) = true -> no_dd_graph (i_graph i) = true ->
    view (optinfo_of (i_opts i)) argv = Some u ->
    fsm_parse parse_float i argv = PAccept opts' args' ->
    forall k c, nth_error opts' k = Some c -> (ct_user c = true <-> occs k u <> []).
  Proof.
    intros Hi Hsane Hnd Hv Hp k c Hk.
    destruct (setbyuser_iff parse_float getenv ds spec i argv opts' args' Hi Hp) as (bs & Hrun & Ho & _).
    rewrite (Ho k c Hk).
    unfold do_init in Hi. destruct (declare parse_float getenv ds [] []) as [[opts args]|m]; [|discriminate].
    destruct (compile_total opts args (match spec with [] => default_spec opts args | _ => spec end)) as [_ Hc].
    destruct (Hc i Hi) as (_ & _ & Eo & _). rewrite Eo in *.
    destruct (accepted_values_are_the_written_values opts args _ i argv u bs Hi Hsane Hnd Hv Hrun) as [Hvals _].
    now rewrite Hvals.
  Qed.
End User.
