(** C20 — applications are independent and deterministic. PARTIAL: the theorems carry the logic
    that makes interference impossible (no cross-container dependence in fillContainers whatever the
    map iteration order; a read-only shared store); the schedules the Go scheduler actually produces
    and the memory model are observed on the running code under the race detector, not proved. *)
From Coq Require Import Sorting.Sorted Sorting.Permutation.
From MowCli Require Import Base Nfa Matchers Apply Values Cmd ValueProofs OrderProofs SortProofs NamedProofs RerunProofs Generated Tie.

Section C20.
  Variable parse_float : str -> option str.

  (** (i) fillContainers iterates a Go map. In the model every container is filled from its own
      bindings only: the result for container k is [fill_one] of that container on the strings bound
      to k, independently of every other container — so any iteration order gives the same values on
      success, and a failure of any container is a failure in every order. *)
  Theorem C20_map_order :
    forall cs i mk bs,
      match fill parse_float cs i mk bs with
      | Some cs' => length cs' = length cs /\
                    forall k c, nth_error cs k = Some c ->
                                exists c', nth_error cs' k = Some c' /\
                                           fill_one parse_float c (values_for (mk (i + k)) bs) = Some c'
      | None => exists k c, nth_error cs k = Some c /\
                            fill_one parse_float c (values_for (mk (i + k)) bs) = None
      end.
  Proof.
    induction cs as [|c cs IH]; intros i mk bs; cbn [fill].
    - split; [reflexivity|]. intros k c Hk. destruct k; discriminate.
    - destruct (fill_one parse_float c (values_for (mk i) bs)) as [c1|] eqn:H1.
      + specialize (IH (S i) mk bs). destruct (fill parse_float cs (S i) mk bs) as [cs1|]; cbn [option_map].
        * destruct IH as [Hl IH]. split; [cbn; now rewrite Hl|]. intros k c0 Hk. destruct k as [|k]; cbn in Hk.
          -- injection Hk as <-. exists c1. rewrite Nat.add_0_r. auto.
          -- destruct (IH k c0 Hk) as (c' & Hn & Hf). exists c'. split; [assumption|].
             now replace (i + S k) with (S i + k) by lia.
        * destruct IH as (k & c0 & Hk & Hf). exists (S k), c0. split; [assumption|].
          now replace (i + S k) with (S i + k) by lia.
      + exists 0, c. rewrite Nat.add_0_r. auto.
  Qed.

  (** (i') the same as an execution: fsm.Parse with its two passes over the bound containers made in ANY order — the
      random order of a Go map (before the repair D11), the order of the names (since), any other — returns what the
      model's pass in declaration order returns. The orders may depend on what was bound; they must visit no
      container twice and every container that was bound something. (For containers that share a destination
      variable the order IS observable: that was D11; the model has no such containers and the check compares
      rebuilt runs of the real library for them.) *)
  Theorem C20_any_visiting_order :
    forall (oo oa : list binding -> list nat) i argv,
      covers (i_opts i) KO oo -> covers (i_args i) KA oa ->
      fsm_parse_visiting parse_float oo oa i argv = fsm_parse parse_float i argv.
  Proof. exact (fsm_parse_any_order parse_float). Qed.

  (** the hypotheses are satisfiable: the declaration order and its reverse both cover *)
  Example C20_orders_exist : forall cs mk,
    covers cs mk (fun _ => List.seq 0 (length cs)) /\ covers cs mk (fun _ => rev (List.seq 0 (length cs))).
  Proof.
    intros cs mk. split; intros bs; split.
    - apply seq_NoDup.
    - intros k Hk _. apply in_seq. lia.
    - apply NoDup_rev, seq_NoDup.
    - intros k Hk _. apply in_rev. rewrite rev_involutive. apply in_seq. lia.
  Qed.

  (** (i'') the order the repaired library chooses (D11): the keys of the map sorted by the declared Name. The map
      hands the bound containers out in an order that changes from run to run and sort.Slice is not stable, yet the
      sorted list is a function of the set of bound containers: a permutation of them in which no Name is smaller
      than an earlier one is unique, because the declaration checks make the Names of bindable containers pairwise
      different. So what fillContainers does is determined by the declarations and the bindings even when
      containers share a destination. *)
  Variable getenv : str -> str.
  Theorem C20_sorted_visit_is_a_function :
    forall ds opts args (o1 o2 : list nat),
      declare parse_float getenv ds [] [] = inl (opts, args) ->
      NoDup o1 -> (forall k, In k o1 -> bindable opts k) -> Permutation o1 o2 ->
      go_sorted nat (name_at opts) o1 -> go_sorted nat (name_at opts) o2 -> o1 = o2.
  Proof. exact (sorted_visit_is_a_function parse_float getenv). Qed.

  (** ... and for the options that an accepted line binds nothing has to be assumed: an occurrence is recognised by
      looking a name up, so a bound option has a name ([NamedProofs.bound_options_are_bindable]) *)
  Theorem C20_fill_order_of_an_accepted_line_is_unique :
    forall ds opts args g start argv bs (o1 o2 : list nat),
      declare parse_float getenv ds [] [] = inl (opts, args) ->
      fsm_apply (optinfo_of opts) g start argv = AOk bs ->
      NoDup o1 -> (forall k, In k o1 -> values_for (KO k) bs <> []) -> Permutation o1 o2 ->
      go_sorted nat (name_at opts) o1 -> go_sorted nat (name_at opts) o2 -> o1 = o2.
  Proof. exact (fill_order_of_an_accepted_line_is_unique parse_float getenv). Qed.

  Theorem C20_sorted_visit_is_a_function_args :
    forall ds opts args (o1 o2 : list nat),
      declare parse_float getenv ds [] [] = inl (opts, args) ->
      NoDup o1 -> (forall k, In k o1 -> k < length args) -> Permutation o1 o2 ->
      go_sorted nat (name_at args) o1 -> go_sorted nat (name_at args) o2 -> o1 = o2.
  Proof. exact (sorted_visit_is_a_function_args parse_float getenv). Qed.

  (** (i-4) one application OBJECT given the same line twice: fsm.Parse leaves the containers changed (values, SetByUser,
      ValueSetFromEnv cleared where the line gave a value) and the second Run starts from there. For variables of the
      built-in kinds and a command none of whose options is backed by the environment, the second parse of the same
      line accepts and leaves every container exactly as the first did. With an environment-backed option this
      fails ([C20_rerun_with_env_refuted]: the quirk Q12, outside the property's quantifier, like Q10). *)
  Theorem C20_rerun_same_line :
    forall i argv opts' args',
      Forall plain (i_opts i) -> Forall plain (i_args i) ->
      Forall (fun c => ct_fromenv c = false) (i_opts i) ->
      fsm_parse parse_float i argv = PAccept opts' args' ->
      fsm_parse parse_float (after_run i opts' args') argv = PAccept opts' args'.
  Proof. exact (rerun_same_line parse_float). Qed.

  (** ... whose hypotheses follow from the declarations: built-in kinds with defaults of their kind, no environment
      variable named, any spec, any line *)
  Theorem C20_rerun_same_line_program :
    forall ds spec i argv opts' args',
      Forall decl_plain ds -> Forall (fun d => fields (d_env d) = []) ds ->
      do_init parse_float getenv ds spec = IOk i ->
      fsm_parse parse_float i argv = PAccept opts' args' ->
      fsm_parse parse_float (after_run i opts' args') argv = PAccept opts' args'.
  Proof. exact (rerun_same_line_program parse_float getenv). Qed.

  (** (i-5) fillContainers as the library runs it since D11 — the bound containers in the order of their names, the first
      failing Set aborting the pass and leaving the containers as they are at that point ([Cmd.fill_partial]) — succeeds
      exactly when the model's pass in declaration order does, with the same containers; so what an accepting parse
      leaves behind ([Cmd.fsm_parse_state], the state a second Run of the object starts from, also after a conversion
      error) is what [fsm_parse] returns. *)
  Theorem C20_names_order_pass_agrees :
    forall cs mk bs cs',
      fill parse_float cs 0 mk bs = Some cs' <-> fill_partial parse_float cs (fill_order cs mk bs) mk bs = (cs', true).
  Proof. exact (fill_partial_iff_fill parse_float). Qed.

  Theorem C20_state_after_an_accepted_line :
    forall i argv opts' args',
      fsm_parse parse_float i argv = PAccept opts' args' ->
      fsm_parse_state parse_float i argv = after_run i opts' args'.
  Proof. exact (fsm_parse_state_accept parse_float). Qed.
End C20.

Example C20_rerun_with_env_refuted : q12_second_verdict = Some false.
Proof. exact rerun_with_env_refuted. Qed.

(** Go's order on strings, on the names of the witness of D11 and of the seeded change C20-Q: "a aa" < "b bb",
    "N" < "n num" (upper case first), a proper prefix first *)
Example C20_string_order :
  (str_ltb (lit "a aa") (lit "b bb") = true) /\ (str_ltb (lit "N") (lit "n num") = true) /\
  (str_ltb (lit "ab") (lit "abc") = true) /\ (str_ltb (lit "b") (lit "ab") = false).
Proof. vm_compute. auto. Qed.

(** (ii) non-interference with a read-only shared store. Each application owns its local state
    ([L]: command tree, containers, automaton states, parse contexts, step chain); the shared store
    [G] (the package-level variables) is only read by a step. Then, whatever the interleaving, the
    state of application i depends only on how many of its own steps were scheduled: it is its solo
    run. *)
Section NI.
  Variables (L G : Type).
  Variable step : G -> L -> L.      (* one step of an application; a finished one steps to itself *)

  Fixpoint run_sched (g : G) (ls : list L) (sched : list nat) : list L :=
    match sched with
    | [] => ls
    | i :: s => match nth_error ls i with
                | Some l => run_sched g (set_nth i (step g l) ls) s
                | None => run_sched g ls s
                end
    end.

  Fixpoint solo (g : G) (l : L) (n : nat) : L :=
    match n with 0 => l | S n' => solo g (step g l) n' end.

  Lemma nth_error_set_nth_same {A} (l : list A) : forall i x y,
    nth_error l i = Some y -> nth_error (set_nth i x l) i = Some x.
  Proof. induction l as [|a l IH]; intros [|i] x y; cbn; try discriminate; eauto. Qed.

  Lemma nth_error_set_nth_other {A} (l : list A) : forall i j x,
    i <> j -> nth_error (set_nth i x l) j = nth_error l j.
  Proof.
    induction l as [|a l IH]; intros [|i] [|j] x Hne; cbn; try reflexivity; try congruence.
    apply IH. congruence.
  Qed.

  Theorem C20_noninterference :
    forall g sched ls i l,
      nth_error ls i = Some l ->
      nth_error (run_sched g ls sched) i = Some (solo g l (count_occ Nat.eq_dec sched i)).
  Proof.
    intros g sched. induction sched as [|j s IH]; intros ls i l Hi; cbn [run_sched count_occ solo]; [assumption|].
    destruct (nth_error ls j) as [lj|] eqn:Hj.
    - destruct (Nat.eq_dec j i) as [->|Hne].
      + rewrite Hi in Hj. injection Hj as <-.
        rewrite (IH _ i (step g l) (nth_error_set_nth_same ls i (step g l) l Hi)). reflexivity.
      + apply IH. now rewrite nth_error_set_nth_other.
    - destruct (Nat.eq_dec j i) as [->|Hne]; [congruence|]. now apply IH.
  Qed.
End NI.

(** (iii) the premise of (ii) for the current source, regenerated on every run (Tie 2): the
    package-level variables of the library that could hold mutable state are the three indirections of
    cli.go (variables initialised with an immutable constant-like value, such as the two sentinel errors,
    cannot), and no function of the library assigns any package-level variable, directly or through an
    index, a field or a pointer. *)
Theorem C20_shared_store_is_read_only :
  g_package_vars = [("exiter", "."); ("stdOut", "."); ("stdErr", ".")]%string
  /\ g_package_var_writes = [].
Proof. exact tie_package_state. Qed.

Print Assumptions C20_map_order.
Print Assumptions C20_any_visiting_order.
Print Assumptions C20_sorted_visit_is_a_function.
Print Assumptions C20_sorted_visit_is_a_function_args.
Print Assumptions C20_fill_order_of_an_accepted_line_is_unique.
Print Assumptions C20_rerun_same_line.
Print Assumptions C20_rerun_same_line_program.
Print Assumptions C20_names_order_pass_agrees.
Print Assumptions C20_state_after_an_accepted_line.
Print Assumptions C20_noninterference.
Print Assumptions C20_shared_store_is_read_only.
