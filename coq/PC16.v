(** C16 — a missing spec means [OPTIONS] ARG1 ARG2 ... *)
From MowCli Require Import Base Values Flow Cmd DeclProofs NormProofs.

Section C16.
  Variable parse_float : str -> option str.
  Variable getenv : str -> str.

  (** For every list of declarations, environment and command line: an application whose root
      command has no spec behaves exactly like the same application with the explicit spec
      "[OPTIONS] " (omitted when no option is declared) followed by its argument names in
      declaration order ([default_spec]) — the whole result of Run is equal: end, trace, error
      stream, bound values. *)
  Theorem C16_default :
    forall (c : cmd) (ver : option (str * str)) (argv : list str) opts args,
      c_spec c = [] ->
      declare parse_float getenv (root_decls (mkApp c ver)) [] [] = inl (opts, args) ->
      run parse_float getenv (mkApp c ver) argv =
      run parse_float getenv (mkApp (with_spec c (default_spec opts args)) ver) argv.
  Proof. exact (run_default_spec parse_float getenv). Qed.

  (** the same at every level of the tree: doInit of any command *)
  Theorem C16_default_init :
    forall ds opts args,
      declare parse_float getenv ds [] [] = inl (opts, args) ->
      do_init parse_float getenv ds [] = do_init parse_float getenv ds (default_spec opts args).
  Proof. exact (do_init_default parse_float getenv). Qed.

  (** and its usage line shows that spec *)
  Theorem C16_usage :
    forall ds opts args i path has_subs desc,
      declare parse_float getenv ds [] [] = inl (opts, args) ->
      do_init parse_float getenv ds [] = IOk i ->
      i_spec i = default_spec opts args /\
      hd [] (help_header path i has_subs desc) =
      lit "Usage: " ++ concat_str [c_space] path
          ++ (match trim_space (default_spec opts args) with [] => [] | _ => c_space :: trim_space (default_spec opts args) end)
          ++ (if has_subs then lit " COMMAND [arg...]" else []).
  Proof. exact (usage_shows_default parse_float getenv). Qed.

  (** The whole tree at once, the version flag declared first or last: give EVERY command of the application
      that has no spec — the root and every sub-command at any depth — the spec synthesised from its own
      declarations ([norm_app]: "[OPTIONS] " iff it declares an option, then its argument names in declaration
      order); Run gives the same result for every argument vector. *)
  Theorem C16_default_everywhere :
    forall (a : cliapp) (argv : list str),
      run parse_float getenv (norm_app parse_float getenv a) argv = run parse_float getenv a argv.
  Proof. exact (run_norm parse_float getenv). Qed.
End C16.
Print Assumptions C16_default_everywhere.
Print Assumptions C16_default.
Print Assumptions C16_default_init.
Print Assumptions C16_usage.

Example C16_nonvacuous :
  let ds := [mkDecl true KBool (lit "f") [] [] false (VBool false) false;
             mkDecl false KString (lit "SRC") [] [] false (VStr []) false;
             mkDecl false KString (lit "A_1") [] [] false (VStr []) false] in
  match declare (fun _ => None) (fun _ => []) ds [] [] with
  | inl (o, a) => default_spec o a
  | inr _ => []
  end = lit "[OPTIONS] SRC A_1 ".
Proof. vm_compute. reflexivity. Qed.

(** the normal form of a two-level application: both missing specs are filled in *)
Example C16_everywhere_nonvacuous :
  let pf := fun _ : str => None in
  let ge := fun _ : str => [] in
  let sub := Cmd (lit "run r") [] [] false [] None
                 [mkDecl false KString (lit "SRC") [] [] false (VStr []) false;
                  mkDecl true KBool (lit "f") [] [] false (VBool false) false]
                 HAbsent HReturns HAbsent [] in
  let root := Cmd (lit "app") [] [] false [] (Some 0)
                  [mkDecl true KBool (lit "v") [] [] false (VBool false) false]
                  HAbsent HReturns HAbsent [sub] in
  let a := norm_app pf ge (mkApp root None) in
  (c_spec (a_root a), map c_spec (c_subs (a_root a))) = (lit "[OPTIONS] ", [lit "[OPTIONS] SRC "]).
Proof. vm_compute. reflexivity. Qed.
