(** C19 — custom value types are driven through the documented protocol. The call log of an
    instrumented value ("S:"tok for Set(tok), "C" for Clear) is part of the model's state. *)
From MowCli Require Import Base Matchers Values Cmd ValueProofs.

Section C19.
  Variable parse_float : str -> option str.
  Variable getenv : str -> str.

  (** Parse time. A custom value bound to no token is not called at all. Otherwise it is cleared
      exactly once iff it has Clear(), then receives exactly the bound tokens, in order, through
      Set; the first failing Set makes the invocation a usage error ([None] = PConv). *)
  Theorem C19_protocol :
    forall (c : container) (cu : custom) (log : list str) (vs : list str),
      d_kind (ct_decl c) = KCustom cu -> ct_value c = VCustom log ->
      fill_one parse_float c vs =
      match vs with
      | [] => Some c
      | _ => let pre := if cu_clear cu then [lit "C"] else [] in
             if snd (calls_until_failure vs)
             then Some (mkCont (ct_decl c) (ct_names c)
                               (VCustom ((log ++ pre) ++ fst (calls_until_failure vs))) (ct_default c) false true)
             else None
      end.
  Proof. exact (fill_one_custom parse_float). Qed.

  (** A type whose IsBoolFlag() is true is a flag for the option matcher (and then receives
      Set("true"): [Matchers.match_long] / [short_loop] record [s_true] for flags). *)
  Theorem C19_flag :
    forall opts i c cu,
      nth_error opts i = Some c -> d_kind (ct_decl c) = KCustom cu ->
      oi_isbool (optinfo_of opts) i = cu_isbool cu.
  Proof. exact custom_flag. Qed.

  (** Declaration time (SetFromEnv), type without Clear(): Set(v) for each listed variable with a
      non-empty value, in order, until one succeeds. *)
  Theorem C19_env_single :
    forall k vars log, is_multi k = false ->
      set_from_env_vars parse_float getenv k (VCustom log) vars =
      (VCustom (log ++ fst (env_calls_single getenv vars)), snd (env_calls_single getenv vars)).
  Proof. exact (set_from_env_custom_single parse_float getenv). Qed.

  (** Declaration time, type with Clear(): per non-empty variable Clear, then Set of each comma
      separated, trimmed piece; after a failing piece Clear again and try the next variable. *)
  Theorem C19_env_multi :
    forall k vars log, is_multi k = true ->
      set_from_env_vars parse_float getenv k (VCustom log) vars =
      (VCustom (log ++ fst (env_calls_multi getenv vars)), snd (env_calls_multi getenv vars)).
  Proof. exact (set_from_env_custom_multi parse_float getenv). Qed.
End C19.
Print Assumptions C19_protocol.
Print Assumptions C19_flag.
Print Assumptions C19_env_single.
Print Assumptions C19_env_multi.

(** non-vacuity: a custom flag with Clear, env "e1, e2", line "-x --val=w" *)
Example C19_nonvacuous :
  let cu := mkCustom true true false false in
  let ge := fun k : str => if str_eqb k (lit "V") then lit "e1, e2" else [] in
  let ds := [mkDecl true (KCustom cu) (lit "x val") [] (lit "V") false (VCustom []) true] in
  match do_init (fun _ => None) ge ds (lit "[-x...]") with
  | IOk i => match fsm_parse (fun _ => None) i [lit "-x"; lit "--val=w"] with
             | PAccept [o] [] => ct_value o
             | _ => VCustom []
             end
  | _ => VCustom []
  end = VCustom [lit "C"; lit "S:e1"; lit "S:e2"; lit "C"; lit "S:true"; lit "S:w"].
Proof. vm_compute. reflexivity. Qed.
