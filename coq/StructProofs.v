(** C01, structural half: a command line is accepted by the compiled command iff it is in the
    language of the spec read as a regular expression over matcher steps. *)
From MowCli Require Import Base Lexer Parser Nfa Matchers Apply Values Flow Cmd
     ApplyProofs TermProofs NfaProofs ParserProofs CompileProofs CompleteProofs PrepareProofs ThompsonProofs.

Section NE.
  Variable lookup_opt : str -> option nat.
  Variable lookup_arg : str -> option nat.
  Notation p_seq := (p_seq lookup_opt lookup_arg).
  Notation p_choice := (p_choice lookup_opt lookup_arg).
  Notation p_atom := (p_atom lookup_opt lookup_arg).

  Lemma with_rep_ne a toks ro ra r ro' :
    with_rep a toks ro = POk ra r ro' -> ne_atom a = true -> ne_ratom ra = true.
  Proof.
    unfold with_rep. destruct toks as [|t toks]; [intros [= <- _ _]; auto|].
    destruct (ttype_eqb (tk_typ t) TRep); intros [= <- _ _]; auto.
  Qed.

  (** the parser never produces an empty group: ( ) and [ ] are parsed with seq(true) *)
  Theorem parser_ne : forall fuel,
    (forall toks ro a r ro', p_atom fuel toks ro = POk a r ro' -> ne_ratom a = true) /\
    (forall toks ro c r ro', p_choice fuel toks ro = POk c r ro' -> ne_choice c = true) /\
    (forall req toks ro s r ro', p_seq fuel req toks ro = POk s r ro' ->
                                 ne_seq s = true /\ (req = true -> s <> SNil)).
  Proof.
    induction fuel as [|f (IHa & IHc & IHs)]; [repeat split; discriminate|].
    assert (Ha : forall toks ro a r ro', p_atom (S f) toks ro = POk a r ro' -> ne_ratom a = true).
    { intros toks ro a r ro'. cbn [Parser.p_atom]. destruct toks as [|t toks1]; [discriminate|].
      assert (Hgroup : forall (mk : seq -> atom) (closing : ttype) (msg : str),
                 (forall s, s <> SNil -> ne_seq s = true -> ne_atom (mk s) = true) ->
                   match p_seq f true toks1 ro with
                   | POk s toks2 ro2 =>
                     match toks2 with
                     | t2 :: toks3 => if ttype_eqb (tk_typ t2) closing then with_rep (mk s) toks3 ro2
                                      else PErr msg toks2
                     | [] => PErr msg toks2
                     end
                   | PErr m r => PErr m r
                   | PFuel => PFuel
                   end = POk a r ro' -> ne_ratom a = true).
      { intros mk closing msg Hmk.
        destruct (p_seq f true toks1 ro) as [s toks2 ro2|m r0|] eqn:Hs; try discriminate.
        destruct (IHs _ _ _ _ _ _ Hs) as [Hn Hr]. specialize (Hr eq_refl).
        destruct toks2 as [|t2 toks3]; [discriminate|].
        destruct (ttype_eqb (tk_typ t2) closing); [|discriminate].
        intros H. apply with_rep_ne in H; [assumption|]. now apply Hmk. }
      destruct (tk_typ t); try discriminate.
      - destruct (lookup_arg (tk_val t)); [|discriminate]. intros H. now apply with_rep_ne in H.
      - apply (Hgroup APar TClosePar msg_expect_par). intros s Hs Hn. cbn. destruct s; [congruence | assumption].
      - apply (Hgroup ASq TCloseSq msg_expect_sq). intros s Hs Hn. cbn. destruct s; [congruence | assumption].
      - destruct ro; [discriminate|]. intros H. now apply with_rep_ne in H.
      - destruct ro; [discriminate|]. destruct (lookup_opt (tk_val t)); [|discriminate].
        intros H. now apply with_rep_ne in H.
      - destruct ro; [discriminate|]. destruct (lookup_opt (tk_val t)); [|discriminate].
        intros H. now apply with_rep_ne in H.
      - destruct ro; [discriminate|]. destruct (resolve_seq lookup_opt (tk_val t)) as [[x js]|c0]; [|discriminate].
        intros H. now apply with_rep_ne in H.
      - intros [= <- _ _]. reflexivity. }
    assert (Hc : forall toks ro c r ro', p_choice (S f) toks ro = POk c r ro' -> ne_choice c = true).
    { intros toks ro c r ro'. rewrite p_choice_unfold.
      destruct (p_atom f toks ro) as [a toks1 ro1|m r0|] eqn:Hat; try discriminate.
      pose proof (IHa _ _ _ _ _ Hat) as Hna.
      destruct toks1 as [|t toks2]; [intros [= <- _ _]; exact Hna|].
      destruct (ttype_eqb (tk_typ t) TChoice); [|intros [= <- _ _]; exact Hna].
      destruct (p_choice f toks2 ro1) as [c0 toks3 ro3|m r0|] eqn:Hch; try discriminate.
      intros [= <- _ _]. cbn. rewrite Hna. exact (IHc _ _ _ _ _ Hch). }
    split; [exact Ha|]. split; [exact Hc|].
    intros req toks ro s r ro'. rewrite p_seq_unfold.
    destruct (req || can_atom toks) eqn:Hreq.
    - destruct (p_choice f toks ro) as [c toks1 ro1|m r0|] eqn:Hch; try discriminate.
      destruct (p_seq f false toks1 ro1) as [s0 toks2 ro2|m r0|] eqn:Hs; try discriminate.
      intros [= <- _ _]. split; [|discriminate]. cbn. rewrite (IHc _ _ _ _ _ Hch). exact (proj1 (IHs _ _ _ _ _ _ Hs)).
    - intros [= <- _ _]. split; [reflexivity|]. intros ->. discriminate.
  Qed.
End NE.

Lemma parse_tokens_ne lo la n toks e : parse_tokens lo la n toks = ParseOk e -> ne_seq e = true.
Proof.
  unfold parse_tokens.
  destruct (Parser.p_seq lo la (parse_fuel toks) false toks false) as [s r ro'|m r|] eqn:Hp; try discriminate.
  destruct r; [|discriminate]. intros [= <-].
  destruct (parser_ne lo la (parse_fuel toks)) as (_ & _ & H). exact (proj1 (H _ _ _ _ _ _ Hp)).
Qed.

(** * C01, structural statement.
    Whenever a spec compiles, the compiled command accepts a command line exactly when the spec's
    syntax tree, read as a regular expression over matcher steps (sequence = composition,
    | = union, [ ] = optional, ... = one or more), has a run consuming the whole line; the
    bindings found by the search are those of such a run. *)
Theorem compile_accepts_iff_language opts args spec i toks e :
  compile opts args spec = IOk i ->
  tokenize spec = LexOk toks ->
  parse_tokens (lookup_name opts) (lookup_name args) (length spec) toks = ParseOk e ->
  forall argv,
    (exists bs, fsm_apply (optinfo_of opts) (i_graph i) (i_start i) argv = AOk bs) <->
    (exists bs, Accepts (optinfo_of opts) (length opts) e (argv, false) bs).
Proof.
  intros Hc Hl Hp argv. unfold compile in Hc. rewrite Hl, Hp in Hc.
  pose proof (thompson_ok (length opts) e) as Hok.
  pose proof (thompson_wft_top (length opts) e) as Hwt.
  pose proof (thompson_correct (optinfo_of opts) (length opts) e (parse_tokens_ne _ _ _ _ _ Hp)) as Hth.
  destruct (thompson (length opts) e) as [start g] eqn:Et. cbn [fst snd] in *. destruct Hok as [Hw Hs].
  destruct (prepare start g) as [g'|] eqn:Hpr; [|discriminate]. injection Hc as <-. cbn [i_graph i_start].
  pose proof (prepare_same_runs (optinfo_of opts) start g g' Hw Hwt Hs Hpr) as Hsame.
  destruct (prepare_ok start g Hw Hs) as (g'' & Hpr' & Hw' & Hn'). rewrite Hpr in Hpr'. injection Hpr' as <-.
  split.
  - intros [bs Ha]. exists bs. apply fsm_apply_sound in Ha. apply Hsame in Ha.
    exact (proj1 (Hth (argv, false) bs) Ha).
  - intros [bs Ha]. apply (proj2 (Hth (argv, false) bs)) in Ha. cbn [fst snd] in Ha. apply Hsame in Ha.
    eapply fsm_apply_complete; [exact Hw' | rewrite Hn'; exact Hs | exact Ha].
Qed.

(** and the bindings recorded by an accepting search are those of a run of the expression *)
Theorem compile_bindings_from_language opts args spec i toks e :
  compile opts args spec = IOk i ->
  tokenize spec = LexOk toks ->
  parse_tokens (lookup_name opts) (lookup_name args) (length spec) toks = ParseOk e ->
  forall argv bs,
    fsm_apply (optinfo_of opts) (i_graph i) (i_start i) argv = AOk bs ->
    Accepts (optinfo_of opts) (length opts) e (argv, false) bs.
Proof.
  intros Hc Hl Hp argv bs Ha. unfold compile in Hc. rewrite Hl, Hp in Hc.
  pose proof (thompson_ok (length opts) e) as Hok.
  pose proof (thompson_wft_top (length opts) e) as Hwt.
  pose proof (thompson_correct (optinfo_of opts) (length opts) e (parse_tokens_ne _ _ _ _ _ Hp)) as Hth.
  destruct (thompson (length opts) e) as [start g] eqn:Et. cbn [fst snd] in *. destruct Hok as [Hw Hs].
  destruct (prepare start g) as [g'|] eqn:Hpr; [|discriminate]. injection Hc as <-. cbn [i_graph i_start] in Ha.
  pose proof (prepare_same_runs (optinfo_of opts) start g g' Hw Hwt Hs Hpr) as Hsame.
  apply fsm_apply_sound in Ha. apply Hsame in Ha. exact (proj1 (Hth (argv, false) bs) Ha).
Qed.
