(** C08 — a spec string compiles iff it is well-formed; errors point inside the string.
    PARTIAL: proved here are the totality of lexer and parser, that every error position lies
    inside the string at a token (or at its end), that the tokens of an accepted spec tile its
    non-blank characters with faithful text and position, and that compilation stops before
    anything runs. The equivalence of the recursive-descent parser with the declarative grammar
    (the "iff well-formed" direction against an independent grammar) is NOT proved: it is covered by
    the independent maximal-munch lexer / recogniser used as oracle by the check. *)
From MowCli Require Import Base Lexer Parser Values Flow Cmd LexerProofs ParserProofs.

(** the lexer never runs out of the fuel [tokenize] gives it *)
Theorem C08_lexer_total : forall s, tokenize s <> LexFuel.
Proof. exact tokenize_total. Qed.

(** a lexer error position lies inside the string (the end included) *)
Theorem C08_lexer_error_inside : forall s m p, tokenize s = LexErr m p -> p <= length s.
Proof. exact tokenize_error_inside. Qed.

(** every non-blank character of an accepted spec belongs to exactly one token, whose text is the
    substring at its reported position; tokens are in order and disjoint ([Tiles]) *)
Theorem C08_tokens_partition : forall s ts, tokenize s = LexOk ts -> Tiles 0 s ts.
Proof. exact tokenize_tiles. Qed.

Theorem C08_token_text_and_position :
  forall s ts t, tokenize s = LexOk ts -> In t ts ->
    tk_pos t + length (tk_text t) <= length s /\
    firstn (length (tk_text t)) (skipn (tk_pos t) s) = tk_text t.
Proof.
  intros s ts t H Hin. apply tokenize_tiles in H. split.
  - destruct (tiles_positions _ _ _ H t Hin). lia.
  - pose proof (tiles_substring _ _ _ H t Hin) as Hs. now rewrite Nat.sub_0_r in Hs.
Qed.

(** the parser never runs out of fuel, and reports errors at a token of its input or at the end *)
Theorem C08_parser_total :
  forall lo la speclen toks, parse_tokens lo la speclen toks <> ParseFuel.
Proof. exact parse_tokens_total. Qed.

Theorem C08_parser_error_at_token :
  forall lo la speclen toks m p,
    parse_tokens lo la speclen toks = ParseErr m p ->
    p = speclen \/ exists t, In t toks /\ p = tk_pos t.
Proof. exact parse_tokens_error_at_token. Qed.

(** hence every compile error of a command lies inside its spec string *)
Theorem C08_error_inside :
  forall opts args spec m p,
    compile opts args spec = ISpecErr m p -> p <= length spec.
Proof.
  intros opts args spec m p. unfold compile.
  destruct (tokenize spec) as [toks|m0 p0|] eqn:Hl.
  - destruct (parse_tokens _ _ _ toks) as [ast|m1 p1|] eqn:Hp.
    + destruct (Nfa.thompson _ _) as [st g]. destruct (Nfa.prepare st g); discriminate.
    + intros [= <- <-]. apply parse_tokens_error_at_token in Hp as [->|(t & Hin & ->)]; [lia|].
      apply tokenize_tiles in Hl. destruct (tiles_positions _ _ _ Hl t Hin). lia.
    + discriminate.
  - intros [= <- <-]. now apply tokenize_error_inside in Hl.
  - discriminate.
Qed.

(** Run panics with the spec error before any Action or interceptor runs *)
Theorem C08_panics_before_hooks :
  forall pf ge a argv m p,
    do_init pf ge (root_decls a) (c_spec (a_root a)) = ISpecErr m p ->
    run pf ge a argv = mkResult (RPanicSpec m p) [] [] [].
Proof. intros pf ge a argv m p H. unfold run. now rewrite H. Qed.

Print Assumptions C08_lexer_total.
Print Assumptions C08_lexer_error_inside.
Print Assumptions C08_tokens_partition.
Print Assumptions C08_token_text_and_position.
Print Assumptions C08_parser_total.
Print Assumptions C08_parser_error_at_token.
Print Assumptions C08_error_inside.
Print Assumptions C08_panics_before_hooks.

(** D5, repaired: a dangling '-' is an error inside the string *)
Example C08_dangling_dash : tokenize (lit "- X") = LexErr msg_optname 1.
Proof. vm_compute. reflexivity. Qed.

Example C08_nonvacuous :
  tokenize (lit "[-f] SRC... --out=<file>") =
  LexOk [mkTok TOpenSq (lit "[") 0; mkTok TShortOpt (lit "-f") 1; mkTok TCloseSq (lit "]") 3;
         mkTok TArg (lit "SRC") 5; mkTok TRep (lit "...") 8; mkTok TLongOpt (lit "--out") 12;
         mkTok TOptValue (lit "=<file>") 17].
Proof. vm_compute. reflexivity. Qed.
