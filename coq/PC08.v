(** C08 — a spec string compiles iff it is well-formed; errors point inside the string.
    PROVED on the model:
    [C08_compiles_iff_grammar]: a spec compiles iff the lexer accepts it and the declarative grammar of
    the spec language ([GrammarProofs.GSeq]: seq = {choice}; choice = ratom {'|' ratom}; ratom = atom
    ['...'] but not after '--'; atom = ARG | OPTIONS | -x [=<v>] | --xx [=<v>] | -xyz | '(' seq1 ')' |
    '[' seq1 ']' | '--'; brackets balanced and non-empty; every option and argument declared; no option
    after '--' in the text) derives its tokens — [C08_parser_iff_grammar]: the recursive-descent parser
    returns a syntax tree exactly when the grammar derives the token list, and that tree
    ([GrammarProofs.parser_sound], [parser_complete]); [C08_token_shapes]: every token of an accepted
    spec has the shape the grammar names for its kind (short -x, folded -xyz of letters, long --name,
    upper-case argument other than OPTIONS, OPTIONS, "--", "=<text>", "...", "|", brackets);
    [C08_tokens_partition] / [C08_token_text_and_position]: every non-blank character belongs to exactly
    one token whose text and position are faithful; [C08_error_inside]: every compile error position
    lies inside the string (at a token, or at its end); [C08_panics_before_hooks]: Run panics with the
    spec error before any Action or interceptor runs; totality of lexer and parser.
    [C08_lexer_iff_tiling]: the lexer accepts a string with tokens [ts] iff the string is tiled by [ts]:
    well-shaped tokens at their reported positions, blanks elsewhere, each token followed by something
    that cannot continue it (maximal munch; "--" must be followed by a space or the end: Q5);
    [C08_compiles_iff_wellformed] puts the two halves together for strings. Nothing of the property is
    left unproved on the model; the check compares the implementation with the model and with an
    independent maximal-munch lexer and recogniser. *)
From MowCli Require Import Base Lexer Parser Values Flow Cmd LexerProofs ParserProofs GrammarProofs ShapeProofs MunchProofs TraceProofs Generated TieLex.

(** the lexer never runs out of the fuel [tokenize] gives it *)
Theorem C08_lexer_total : forall s, tokenize s <> LexFuel.
Proof. exact tokenize_total. Qed.

(** a lexer error position lies inside the string (the end included) *)
Theorem C08_lexer_error_inside : forall s m p, tokenize s = LexErr m p -> p <= length s.
Proof. exact tokenize_error_inside. Qed.

(** every non-blank character of an accepted spec belongs to exactly one token, whose text is the
    substring at its reported position; tokens are in order and disjoint ([Tiles]) *)
Theorem C08_tokens_partition : forall s ts, tokenize s = LexOk ts -> Tiles 0 s ts.
Proof. exact tokenize_tiles. Qed.

Theorem C08_token_text_and_position :
  forall s ts t, tokenize s = LexOk ts -> In t ts ->
    tk_pos t + length (tk_text t) <= length s /\
    firstn (length (tk_text t)) (skipn (tk_pos t) s) = tk_text t.
Proof.
  intros s ts t H Hin. apply tokenize_tiles in H. split.
  - destruct (tiles_positions _ _ _ H t Hin). lia.
  - pose proof (tiles_substring _ _ _ H t Hin) as Hs. now rewrite Nat.sub_0_r in Hs.
Qed.

(** the parser never runs out of fuel, and reports errors at a token of its input or at the end *)
Theorem C08_parser_total :
  forall lo la speclen toks, parse_tokens lo la speclen toks <> ParseFuel.
Proof. exact parse_tokens_total. Qed.

Theorem C08_parser_error_at_token :
  forall lo la speclen toks m p,
    parse_tokens lo la speclen toks = ParseErr m p ->
    p = speclen \/ exists t, In t toks /\ p = tk_pos t.
Proof. exact parse_tokens_error_at_token. Qed.

(** hence every compile error of a command lies inside its spec string *)
Theorem C08_error_inside :
  forall opts args spec m p,
    compile opts args spec = ISpecErr m p -> p <= length spec.
Proof.
  intros opts args spec m p. unfold compile.
  destruct (tokenize spec) as [toks|m0 p0|] eqn:Hl.
  - destruct (parse_tokens _ _ _ toks) as [ast|m1 p1|] eqn:Hp.
    + destruct (Nfa.thompson _ _) as [st g]. destruct (Nfa.prepare st g); discriminate.
    + intros [= <- <-]. apply parse_tokens_error_at_token in Hp as [->|(t & Hin & ->)]; [lia|].
      apply tokenize_tiles in Hl. destruct (tiles_positions _ _ _ Hl t Hin). lia.
    + discriminate.
  - intros [= <- <-]. now apply tokenize_error_inside in Hl.
  - discriminate.
Qed.

(** Run panics with the spec error before any Action or interceptor runs *)
Theorem C08_panics_before_hooks :
  forall pf ge a argv m p,
    do_init pf ge (root_decls a) (c_spec (a_root a)) = ISpecErr m p ->
    run pf ge a argv = mkResult (RPanicSpec m p) [] [] [].
Proof. intros pf ge a argv m p H. unfold run. now rewrite H. Qed.

(** ... and so does the spec (or declaration) error of ANY command of the tree that Run initialises on
    its way down, whatever the argument vector: nothing has run when it panics *)
Theorem C08_panics_before_hooks_at_any_level :
  forall pf ge a argv,
    (exists m p, r_outcome (run pf ge a argv) = RPanicSpec m p) \/
    (exists m, r_outcome (run pf ge a argv) = RPanicDecl m) ->
    r_trace (run pf ge a argv) = [].
Proof.
  intros pf ge a argv H. apply run_error_runs_nothing.
  destruct H as [(m & p & ->)|(m & ->)]; reflexivity.
Qed.

(** Tie 2: the byte predicates the lexer of the CURRENT SOURCE decides with — their own source text run on all
    256 bytes by tools/srcscan on every run, tables in Generated.v — are the predicates of the model's lexer,
    for every byte (and both values of the "first character" flag of a long option name) *)
Theorem C08_source_byte_classes_are_the_models :
  forall c f, (g_isLowercase c, g_isUppercase c, g_isDigit c, g_isLetter c, g_isOkInArg c, g_isOkLongOpt c f)
            = (isLowercase c, isUppercase c, isDigit c, isLetter c, isOkInArg c, isOkLongOpt c f).
Proof. exact tie_lexer_classes. Qed.

(** the recursive-descent parser and the declarative grammar accept the same token lists, with the
    same syntax tree *)
Theorem C08_parser_iff_grammar :
  forall lo la speclen toks e,
    parse_tokens lo la speclen toks = ParseOk e <-> exists ro', GSeq lo la false toks e ro'.
Proof. exact parse_tokens_iff_grammar. Qed.

Theorem C08_compiles_iff_grammar :
  forall opts args spec,
    (exists i, compile opts args spec = IOk i) <->
    (exists toks e ro', tokenize spec = LexOk toks /\ GSeq (lookup_name opts) (lookup_name args) false toks e ro').
Proof. exact compile_iff_grammar. Qed.

(** the tokens of an accepted spec have the shapes the grammar names *)
Theorem C08_token_shapes : forall s ts, tokenize s = LexOk ts -> forallb shape_b ts = true.
Proof. exact tokenize_shapes. Qed.

(** the lexical grammar: a string is accepted by the lexer, with the tokens [ts], iff it is tiled by
    [ts] — well-shaped tokens at their positions, blanks elsewhere — each token followed by something
    that cannot continue it (maximal munch) *)
Theorem C08_lexer_iff_tiling : forall s ts, tokenize s = LexOk ts <-> WTiles 0 s ts.
Proof. exact tokenize_iff_wtiles. Qed.

(** hence, for strings: a spec compiles iff it is such a tiling by tokens that the grammar derives *)
Theorem C08_compiles_iff_wellformed :
  forall opts args spec,
    (exists i, compile opts args spec = IOk i) <->
    (exists toks e ro', WTiles 0 spec toks /\ GSeq (lookup_name opts) (lookup_name args) false toks e ro').
Proof.
  intros opts args spec. rewrite compile_iff_grammar. split; intros (toks & e & ro' & H & G); exists toks, e, ro';
    (split; [now apply tokenize_iff_wtiles | exact G]).
Qed.

Print Assumptions C08_lexer_iff_tiling.
Print Assumptions C08_compiles_iff_wellformed.
Print Assumptions C08_parser_iff_grammar.
Print Assumptions C08_compiles_iff_grammar.
Print Assumptions C08_token_shapes.
Print Assumptions C08_lexer_total.
Print Assumptions C08_lexer_error_inside.
Print Assumptions C08_tokens_partition.
Print Assumptions C08_token_text_and_position.
Print Assumptions C08_parser_total.
Print Assumptions C08_parser_error_at_token.
Print Assumptions C08_error_inside.
Print Assumptions C08_panics_before_hooks.
Print Assumptions C08_panics_before_hooks_at_any_level.
Print Assumptions C08_source_byte_classes_are_the_models.

(** D5, repaired: a dangling '-' is an error inside the string *)
Example C08_dangling_dash : tokenize (lit "- X") = LexErr msg_optname 1.
Proof. vm_compute. reflexivity. Qed.

Example C08_nonvacuous :
  tokenize (lit "[-f] SRC... --out=<file>") =
  LexOk [mkTok TOpenSq (lit "[") 0; mkTok TShortOpt (lit "-f") 1; mkTok TCloseSq (lit "]") 3;
         mkTok TArg (lit "SRC") 5; mkTok TRep (lit "...") 8; mkTok TLongOpt (lit "--out") 12;
         mkTok TOptValue (lit "=<file>") 17].
Proof. vm_compute. reflexivity. Qed.

(** a derivation in the grammar, built by hand, for the tokens of "[-f] X...": the grammar is
    inhabited independently of the parser *)
Example C08_grammar_example :
  let lo := fun n => if str_eqb n (lit "-f") then Some 0 else None in
  let la := fun n => if str_eqb n (lit "X") then Some 0 else None in
  GSeq lo la false
       [mkTok TOpenSq (lit "[") 0; mkTok TShortOpt (lit "-f") 1; mkTok TCloseSq (lit "]") 3;
        mkTok TArg (lit "X") 5; mkTok TRep (lit "...") 6]
       (SCons (COne (RAtom (ASq (SCons (COne (RAtom (AOpt 0) false)) SNil)) false))
              (SCons (COne (RAtom (AArg 0) true)) SNil)) false.
Proof.
  intros lo la.
  apply (GCons lo la false [mkTok TOpenSq (lit "[") 0; mkTok TShortOpt (lit "-f") 1; mkTok TCloseSq (lit "]") 3] _ false
               [mkTok TArg (lit "X") 5; mkTok TRep (lit "...") 6]).
  - apply GOne, GPlain.
    apply (GSq lo la false (mkTok TOpenSq (lit "[") 0) [mkTok TShortOpt (lit "-f") 1] _ false (mkTok TCloseSq (lit "]") 3));
      [reflexivity | | discriminate | reflexivity].
    apply (GCons lo la false [mkTok TShortOpt (lit "-f") 1] _ false []); [|constructor].
    apply GOne, GPlain, GOpt; [now left | reflexivity].
  - apply (GCons lo la false [mkTok TArg (lit "X") 5; mkTok TRep (lit "...") 6] _ false []); [|constructor].
    apply GOne. apply (GRep lo la false [mkTok TArg (lit "X") 5] (AArg 0) false (mkTok TRep (lit "...") 6)); [|discriminate|reflexivity].
    apply GArg; reflexivity.
Qed.
