(** The spec lexer: it always terminates with the fuel it is given, its error positions lie
    inside the string, and the tokens of an accepted spec tile its non-blank characters. *)
From MowCli Require Import Base Lexer.

Lemma span_app p l : fst (span p l) ++ snd (span p l) = l.
Proof.
  induction l as [|c l IH]; [reflexivity|]. cbn [span]. destruct (p c); [|reflexivity].
  destruct (span p l) as [a b]. cbn in *. now rewrite IH.
Qed.

Lemma span_length p l : length (fst (span p l)) + length (snd (span p l)) = length l.
Proof. rewrite <- (span_app p l) at 3. now rewrite app_length. Qed.

Lemma span_eq p l a b : span p l = (a, b) -> l = a ++ b /\ length l = length a + length b.
Proof.
  intros H. pose proof (span_app p l) as H1. pose proof (span_length p l) as H2.
  rewrite H in H1, H2. cbn in *. split; [now symmetry | lia].
Qed.

(** the text a token stands for in the spec string *)
Definition tk_text (t : token) : str :=
  match tk_typ t with
  | TOptSeq => c_dash :: tk_val t
  | _ => tk_val t
  end.

Definition blank (c : ascii) : bool := Ascii.eqb c c_space || Ascii.eqb c c_tab.

(** [Tiles pos s ts]: the tokens [ts], in order, are substrings of [s] (which starts at offset
    [pos]) at exactly their reported positions, pairwise disjoint, and every character outside them
    is a blank *)
Inductive Tiles : nat -> str -> list token -> Prop :=
| TilesNil pos : Tiles pos [] []
| TilesBlank pos c s ts : blank c = true -> Tiles (S pos) s ts -> Tiles pos (c :: s) ts
| TilesTok pos t s ts :
    tk_pos t = pos -> tk_text t <> [] ->
    Tiles (pos + length (tk_text t)) s ts ->
    Tiles pos (tk_text t ++ s) (t :: ts).

Inductive lex_ok : lexres -> nat -> str -> list token -> Prop :=
| LexOkSpec ts pos rest acc ts' : ts = rev acc ++ ts' -> Tiles pos rest ts' -> lex_ok (LexOk ts) pos rest acc
| LexErrSpec m p pos rest acc : pos <= p <= pos + length rest -> lex_ok (LexErr m p) pos rest acc.

Lemma rev_cons_app {A} (x : A) acc ts : rev (x :: acc) ++ ts = rev acc ++ x :: ts.
Proof. cbn. now rewrite <- app_assoc. Qed.

(** one more token [t] with text [txt] in front *)
Lemma lex_ok_tok r pos txt rest acc t :
  tk_pos t = pos -> tk_text t = txt -> txt <> [] ->
  lex_ok r (pos + length txt) rest (t :: acc) ->
  lex_ok r pos (txt ++ rest) acc.
Proof.
  intros Hp Ht Hne H. inversion H as [ts p0 r0 a0 ts' Hts Htl | m p p0 r0 a0 Hr]; subst.
  - eapply LexOkSpec; [apply rev_cons_app|]. apply TilesTok; auto.
  - apply LexErrSpec. rewrite app_length. lia.
Qed.

Lemma lex_ok_blank r pos c rest acc :
  blank c = true -> lex_ok r (pos + 1) rest acc -> lex_ok r pos (c :: rest) acc.
Proof.
  intros Hb H. inversion H as [ts p0 r0 a0 ts' Hts Htl | m p p0 r0 a0 Hr]; subst.
  - eapply LexOkSpec; [reflexivity|]. apply TilesBlank; [assumption|]. now replace (S pos) with (pos + 1) by lia.
  - apply LexErrSpec. cbn [length]. lia.
Qed.

Ltac err_here := apply LexErrSpec; cbn [length]; rewrite ?app_length; cbn [length]; lia.

Lemma eqb_char c k : Ascii.eqb c k = true -> c = k.
Proof. apply Ascii.eqb_eq. Qed.

(** the main invariant: enough fuel, then the result describes the input faithfully *)
Theorem lex_spec : forall fuel pos rest acc,
  length rest < fuel -> lex_ok (lex fuel pos rest acc) pos rest acc.
Proof.
  induction fuel as [|f IH]; intros pos rest acc Hlen; [lia|].
  destruct rest as [|c r1]; cbn [lex].
  - eapply LexOkSpec; [now rewrite app_nil_r | constructor].
  - cbn [length] in Hlen.
    destruct (Ascii.eqb c c_space || Ascii.eqb c c_tab) eqn:Hb.
    { apply lex_ok_blank; [exact Hb|]. apply IH. lia. }
    destruct (Ascii.eqb c "["%char) eqn:E1.
    { change (c :: r1) with ([c] ++ r1).
      apply lex_ok_tok with (t := mkTok TOpenSq [c] pos); [reflexivity | reflexivity | discriminate | apply IH; lia]. }
    destruct (Ascii.eqb c "]"%char) eqn:E2.
    { change (c :: r1) with ([c] ++ r1).
      apply lex_ok_tok with (t := mkTok TCloseSq [c] pos); [reflexivity | reflexivity | discriminate | apply IH; lia]. }
    destruct (Ascii.eqb c "("%char) eqn:E3.
    { change (c :: r1) with ([c] ++ r1).
      apply lex_ok_tok with (t := mkTok TOpenPar [c] pos); [reflexivity | reflexivity | discriminate | apply IH; lia]. }
    destruct (Ascii.eqb c ")"%char) eqn:E4.
    { change (c :: r1) with ([c] ++ r1).
      apply lex_ok_tok with (t := mkTok TClosePar [c] pos); [reflexivity | reflexivity | discriminate | apply IH; lia]. }
    destruct (Ascii.eqb c "|"%char) eqn:E5.
    { change (c :: r1) with ([c] ++ r1).
      apply lex_ok_tok with (t := mkTok TChoice [c] pos); [reflexivity | reflexivity | discriminate | apply IH; lia]. }
    destruct (Ascii.eqb c "."%char) eqn:E6.
    { destruct r1 as [|d1 r2]; [err_here|].
      destruct (Ascii.eqb d1 "."%char) eqn:F1; [|err_here].
      destruct r2 as [|d2 r3]; [err_here|].
      destruct (Ascii.eqb d2 "."%char) eqn:F2; [|err_here].
      apply eqb_char in E6, F1, F2. subst c d1 d2.
      change ("."%char :: "."%char :: "."%char :: r3) with (lit "..." ++ r3).
      apply lex_ok_tok with (t := mkTok TRep (lit "...") pos); [reflexivity | reflexivity | discriminate |].
      apply IH. cbn [length] in *. lia. }
    destruct (Ascii.eqb c c_dash) eqn:E7.
    { apply eqb_char in E7. subst c.
      destruct r1 as [|o r2]; [err_here|].
      destruct (isLetter o) eqn:Hl.
      - destruct (span isLetter r2) as [letters r3] eqn:Hsp.
        destruct (span_eq _ _ _ _ Hsp) as [-> Hlr]. cbn [length] in Hlen. rewrite app_length in Hlen.
        set (tk := if 2 <? 2 + length letters then mkTok TOptSeq (o :: letters) pos
                   else mkTok TShortOpt [c_dash; o] pos).
        assert (Htxt : tk_text tk = c_dash :: o :: letters /\ tk_pos tk = pos).
        { unfold tk. destruct letters as [|l1 ls]; cbn; auto. }
        destruct Htxt as [Htxt Hpos].
        assert (Hrec : lex_ok (lex f (pos + (2 + length letters)) r3 (tk :: acc)) pos
                              (c_dash :: o :: letters ++ r3) acc).
        { change (c_dash :: o :: letters ++ r3) with ((c_dash :: o :: letters) ++ r3).
          apply lex_ok_tok with (t := tk); [assumption | assumption | discriminate |].
          cbn [length]. replace (pos + S (S (length letters))) with (pos + (2 + length letters)) by lia.
          apply IH. lia. }
        destruct r3 as [|d r4]; [exact Hrec|].
        destruct (Ascii.eqb d c_dash); [|exact Hrec].
        apply LexErrSpec. cbn [length]. rewrite app_length. cbn [length]. lia.
      - destruct (Ascii.eqb o c_dash) eqn:Hd; [|err_here].
        apply eqb_char in Hd. subst o.
        assert (Hdd : forall r, length r < f ->
                  lex_ok (lex f (pos + 2) r (mkTok TDblDash s_dd pos :: acc)) pos (c_dash :: c_dash :: r) acc).
        { intros r Hr. change (c_dash :: c_dash :: r) with (s_dd ++ r).
          apply lex_ok_tok with (t := mkTok TDblDash s_dd pos); [reflexivity | reflexivity | discriminate |].
          apply IH. exact Hr. }
        destruct r2 as [|e r3]; [apply Hdd; cbn [length] in *; lia|].
        destruct (dd_end e) eqn:He; [apply Hdd; cbn [length] in *; lia|].
        destruct (isOkLongOpt e true) eqn:Hok; [|err_here].
        destruct (span (fun x => isOkLongOpt x false) r3) as [name r4] eqn:Hsp.
        destruct (span_eq _ _ _ _ Hsp) as [-> Hlr]. cbn [length] in Hlen. rewrite app_length in Hlen.
        change (c_dash :: c_dash :: e :: name ++ r4) with ((c_dash :: c_dash :: e :: name) ++ r4).
        apply lex_ok_tok with (t := mkTok TLongOpt (c_dash :: c_dash :: e :: name) pos);
          [reflexivity | reflexivity | discriminate |].
        cbn [length]. replace (pos + S (S (S (length name)))) with (pos + (3 + length name)) by lia.
        apply IH. lia. }
    destruct (Ascii.eqb c c_eq) eqn:E8.
    { destruct r1 as [|l r2]; [err_here|].
      destruct (Ascii.eqb l "<"%char) eqn:Hlt; [|err_here].
      destruct (span (fun x => negb (Ascii.eqb x ">"%char)) r2) as [body r3] eqn:Hsp.
      destruct (span_eq _ _ _ _ Hsp) as [-> Hlr]. cbn [length] in Hlen. rewrite app_length in Hlen.
      destruct r3 as [|g r4].
      - apply LexErrSpec. cbn [length]. rewrite app_length. cbn [length]. lia.
      - destruct body as [|b0 body]; [err_here|].
        cbn [length] in Hlen.
        replace (c :: l :: (b0 :: body) ++ g :: r4) with ((c :: l :: (b0 :: body) ++ [g]) ++ r4)
          by (cbn; now rewrite <- app_assoc).
        apply lex_ok_tok with (t := mkTok TOptValue (c :: l :: (b0 :: body) ++ [g]) pos);
          [reflexivity | reflexivity | discriminate |].
        cbn [length]. rewrite app_length. cbn [length].
        match goal with |- lex_ok (lex f ?p _ _) ?q _ _ => replace q with p by lia end.
        apply IH. lia. }
    destruct (isUppercase c) eqn:E9; [|err_here].
    destruct (span isOkInArg r1) as [more r2] eqn:Hsp.
    destruct (span_eq _ _ _ _ Hsp) as [-> Hlr]. rewrite app_length in Hlen.
    change (c :: more ++ r2) with ((c :: more) ++ r2).
    apply lex_ok_tok with (t := mkTok (if str_eqb (c :: more) s_options then TOptions else TArg) (c :: more) pos);
      [reflexivity | destruct (str_eqb (c :: more) s_options); reflexivity | discriminate |].
    apply IH. lia.
Qed.

(** * Consequences *)

Theorem tokenize_total s : tokenize s <> LexFuel.
Proof.
  unfold tokenize. pose proof (lex_spec (length s + 1) 0 s []) as H.
  intros Hf. rewrite Hf in H. assert (Hl : length s < length s + 1) by lia. specialize (H Hl). inversion H.
Qed.

Theorem tokenize_error_inside s m p : tokenize s = LexErr m p -> p <= length s.
Proof.
  unfold tokenize. intros Hf. pose proof (lex_spec (length s + 1) 0 s []) as H.
  rewrite Hf in H. assert (Hl : length s < length s + 1) by lia. specialize (H Hl). inversion H; lia.
Qed.

Theorem tokenize_tiles s ts : tokenize s = LexOk ts -> Tiles 0 s ts.
Proof.
  unfold tokenize. intros Hf. pose proof (lex_spec (length s + 1) 0 s []) as H.
  rewrite Hf in H. assert (Hl : length s < length s + 1) by lia. specialize (H Hl).
  inversion H as [ts0 p0 r0 a0 ts' Hts Htl | ]; subst. cbn in Htl. exact Htl.
Qed.

(** what tiling means, spelled out: positions increase, texts are the substrings there, the gaps
    are blanks *)
Lemma tiles_positions pos s ts :
  Tiles pos s ts ->
  forall t, In t ts -> pos <= tk_pos t /\ tk_pos t + length (tk_text t) <= pos + length s.
Proof.
  induction 1 as [pos | pos c s ts Hb Ht IH | pos t s ts Hp Hne Ht IH]; intros t0 Hin.
  - destruct Hin.
  - destruct (IH t0 Hin). cbn [length]. lia.
  - rewrite app_length. destruct Hin as [<-|Hin]; [lia|]. destruct (IH t0 Hin). lia.
Qed.

Lemma tiles_substring pos s ts :
  Tiles pos s ts ->
  forall t, In t ts -> firstn (length (tk_text t)) (skipn (tk_pos t - pos) s) = tk_text t.
Proof.
  induction 1 as [pos | pos c s ts Hb Ht IH | pos t s ts Hp Hne Ht IH]; intros t0 Hin.
  - destruct Hin.
  - pose proof (tiles_positions _ _ _ Ht t0 Hin) as [Hge _].
    replace (tk_pos t0 - pos) with (S (tk_pos t0 - S pos)) by lia. cbn [skipn]. now apply IH.
  - destruct Hin as [<-|Hin].
    + rewrite Hp, Nat.sub_diag. cbn [skipn]. rewrite firstn_app, firstn_all, Nat.sub_diag. cbn. now rewrite app_nil_r.
    + pose proof (tiles_positions _ _ _ Ht t0 Hin) as [Hge _].
      rewrite skipn_app.
      replace (tk_pos t0 - pos - length (tk_text t)) with (tk_pos t0 - (pos + length (tk_text t))) by lia.
      rewrite skipn_all2 by lia. cbn [List.app]. now apply IH.
Qed.
