(** C01, the direction that holds without reservation: what a compiled command accepts is a sentence of the
    DOCUMENTED language, in which an option group "takes its listed options in any order" — any non-empty
    sequence of occurrences of listed options from the leading run, not necessarily all of them ([VSI], the
    "ideal" reading). The implementation's group is greedy ([SymProofs.VS]: it takes every occurrence there is);
    a greedy reading is in particular an ideal one, so acceptance is always justified by the documented
    semantics. The converse is the known finding K2: an ideal sentence that needs the group to leave an occurrence
    to a later atom is rejected ([ideal_k2_witness] exhibits such a sentence). *)
From MowCli Require Import Base Parser Nfa Matchers Apply View ViewProofs SymProofs.

(** any non-empty sequence of occurrences of listed options, each the first of its option in what is left *)
Inductive VTakes (js : list nat) : list vs -> list binding -> list vs -> Prop :=
| VTOne o v u u' : In o js -> take o u = Some (v, u') -> VTakes js u [(KO o, v)] u'
| VTMore o v u u1 bs u2 : In o js -> take o u = Some (v, u1) -> VTakes js u1 bs u2 -> VTakes js u ((KO o, v) :: bs) u2.

Section Ideal.
  Variable D : optinfo.
  Variable nopts : nat.

  Inductive v_grp_ideal (js : list nat) : vcfg -> vcfg -> list binding -> Prop :=
  | VGITake u bs u' : u <> [] -> VTakes js u bs u' -> v_grp_ideal js (u, false) (u', false) bs
  | VGIEnv u o : u <> [] -> In o js -> oi_fromenv D o = true -> v_grp_ideal js (u, false) (u, false) [].

  Definition vistep (l : label) (c c' : vcfg) (b : list binding) : Prop :=
    let c0 := vstrip c in
    match l with
    | LEps => c' = c0 /\ b = []
    | LArg i => v_arg i c0 = Some (c', b)
    | LOpt o => v_opt D o c0 = Some (c', b)
    | LGrp js => v_grp_ideal js c0 c' b
    | LDD => False
    end.

  (** the spec as a regular expression over symbol steps, groups read ideally *)
  Inductive VSI : seq -> vcfg -> vcfg -> list binding -> Prop :=
  | VSINil c : VSI SNil c c []
  | VSICons ch s c c1 c2 b1 b2 : VCI ch c c1 b1 -> VSI s c1 c2 b2 -> VSI (SCons ch s) c c2 (b1 ++ b2)
  with VCI : choice -> vcfg -> vcfg -> list binding -> Prop :=
  | VCIOne a c c' b : VRI a c c' b -> VCI (COne a) c c' b
  | VCIAltL a ch c c' b : VRI a c c' b -> VCI (CAlt a ch) c c' b
  | VCIAltR a ch c c' b : VCI ch c c' b -> VCI (CAlt a ch) c c' b
  with VRI : ratom -> vcfg -> vcfg -> list binding -> Prop :=
  | VRIOnce a rep c c' b : VAI a c c' b -> VRI (RAtom a rep) c c' b
  | VRIMore a c c1 c2 b1 b2 : VAI a c c1 b1 -> VRI (RAtom a true) c1 c2 b2 -> VRI (RAtom a true) c c2 (b1 ++ b2)
  with VAI : atom -> vcfg -> vcfg -> list binding -> Prop :=
  | VAIArg i c c' b : vistep (LArg i) c c' b -> VAI (AArg i) c c' b
  | VAIOptions c c' b : vistep (LGrp (List.seq 0 nopts)) c c' b -> VAI AOptions c c' b
  | VAIOpt i c c' b : vistep (LOpt i) c c' b -> VAI (AOpt i) c c' b
  | VAIGroup js c c' b : vistep (LGrp js) c c' b -> VAI (AGroup js) c c' b
  | VAIPar s c c' b : VSI s c c' b -> VAI (APar s) c c' b
  | VAISqSome s c c' b : VSI s c c' b -> VAI (ASq s) c c' b
  | VAISqNone s c : VAI (ASq s) c c [].

  Definition VAcceptsIdeal (e : seq) (c : vcfg) (bs : list binding) : Prop :=
    exists c', VSI e c c' bs /\ fst (vstrip c') = [].

  (** a greedy take is a take *)
  Lemma first_take_in js u o v u' : first_take js u = Some (o, v, u') -> In o js /\ take o u = Some (v, u').
  Proof.
    induction js as [|j js IH]; cbn [first_take]; [discriminate|].
    destruct (take j u) as [[v0 u0]|] eqn:E.
    - intros [= <- <- <-]. split; [now left | exact E].
    - intros H. destruct (IH H). split; [now right | assumption].
  Qed.

  Lemma vgreedy_takes js u bs u' : VGreedy js u bs u' -> bs <> [] -> VTakes js u bs u'.
  Proof.
    intros H. induction H as [x Hn | x o v x1 rest m Hf Hg IH]; intros Hne; [congruence|].
    destruct (first_take_in _ _ _ _ _ Hf) as [Hin Ht].
    destruct rest as [|b rest].
    - inversion Hg; subst. eapply VTOne; eauto.
    - eapply VTMore; eauto. apply IH. discriminate.
  Qed.

  Lemma v_grp_ideal_of js c c' b : v_grp D js c c' b -> v_grp_ideal js c c' b.
  Proof.
    intros H. inversion H as [u bs u' Hne Hg Hc]; subst.
    destruct b as [|b0 bs].
    - inversion Hg; subst. destruct Hc as [X|(o & Hin & He)]; [congruence|]. eapply VGIEnv; eauto.
    - apply VGITake; [assumption|]. apply vgreedy_takes; [assumption | discriminate].
  Qed.

  (** every greedy reading is an ideal reading, with the same bindings *)
  Theorem greedy_is_ideal :
    (forall s c c' b, VS D nopts s c c' b -> VSI s c c' b) /\
    (forall ch c c' b, VC D nopts ch c c' b -> VCI ch c c' b) /\
    (forall a c c' b, VR D nopts a c c' b -> VRI a c c' b) /\
    (forall a c c' b, VA D nopts a c c' b -> VAI a c c' b).
  Proof.
    apply (vden_mutind D nopts).
    - intros c. constructor.
    - intros ch s c c1 c2 b1 b2 _ H1 _ H2. econstructor; eassumption.
    - intros a c c' b _ H. now constructor.
    - intros a ch c c' b _ H. now apply VCIAltL.
    - intros a ch c c' b _ H. now apply VCIAltR.
    - intros a rep c c' b _ H. now apply VRIOnce.
    - intros a c c1 c2 b1 b2 _ H1 _ H2. eapply VRIMore; eassumption.
    - intros i c c' b H. constructor. exact H.
    - intros c c' b H. constructor. unfold vmstep in H. unfold vistep. now apply v_grp_ideal_of.
    - intros o c c' b H. constructor. exact H.
    - intros js c c' b H. constructor. unfold vmstep in H. unfold vistep. now apply v_grp_ideal_of.
    - intros s c c' b _ H. now constructor.
    - intros s c c' b _ H. now apply VAISqSome.
    - intros s c. apply VAISqNone.
  Qed.

  Theorem accepts_is_ideal e c bs : VAccepts D nopts e c bs -> VAcceptsIdeal e c bs.
  Proof. intros (c' & H & E). exists c'. split; [now apply (proj1 greedy_is_ideal) | exact E]. Qed.
End Ideal.

(** * End to end *)
From MowCli Require Import Lexer Values Flow Cmd RefSem.

Theorem accepted_lines_are_ideal_sentences opts args spec i toks e a u bs :
  compile opts args spec = IOk i ->
  tokenize spec = LexOk toks ->
  parse_tokens (lookup_name opts) (lookup_name args) (length spec) toks = ParseOk e ->
  seq_has_dd e = false -> sane (optinfo_of opts) = true -> view (optinfo_of opts) a = Some u ->
  fsm_apply (optinfo_of opts) (i_graph i) (i_start i) a = AOk bs ->
  VAcceptsIdeal (optinfo_of opts) (length opts) e (u, false) bs.
Proof.
  intros Hc Hl Hp Hd Hsane Hv Hrun. apply accepts_is_ideal.
  now apply (proj2 (compile_accepts_iff_symbols opts args spec i toks e a u Hc Hl Hp Hd Hsane Hv)).
Qed.

(** K2: spec "-ab -a" (group of options 0 and 1, then option 0), line "-a -a", i.e. two occurrences of option 0: an
    ideal sentence (the group takes the first occurrence, the single option the second) that no greedy reading
    accepts (the group takes both and leaves nothing for the single option) *)
Example ideal_k2_witness :
  let D := mkOI (fun _ => None) (fun _ => true) (fun _ => false) in
  let e := SCons (COne (RAtom (AGroup [0; 1]) false)) (SCons (COne (RAtom (AOpt 0) false)) SNil) in
  let u := [VO 0 (lit "true"); VO 0 (lit "true")] in
  VAcceptsIdeal D 2 e (u, false) [(KO 0, lit "true"); (KO 0, lit "true")] /\
  ~ exists bs, VAccepts D 2 e (u, false) bs.
Proof.
  cbn zeta. split.
  - exists ([], false). split; [|reflexivity].
    change [(KO 0, lit "true"); (KO 0, lit "true")] with ([(KO 0, lit "true")] ++ ([(KO 0, lit "true")] ++ [])).
    eapply VSICons.
    + apply VCIOne, VRIOnce, VAIGroup. unfold vistep. cbn [vstrip fst].
      apply VGITake; [discriminate|]. eapply VTOne; [now left | reflexivity].
    + eapply VSICons; [|apply VSINil]. apply VCIOne, VRIOnce, VAIOpt. unfold vistep. reflexivity.
  - intros (bs & c' & H & Hend).
    inversion H as [|ch s c c1 c2 b1 b2 H1 H2]; subst.
    inversion H1 as [a c0 c0' b0 Hr| |]; subst. inversion Hr as [a0 rep c0 c0' b0 Ha|]; subst.
    inversion Ha as [| | |js c0 c0' b0 Hm| | |]; subst. unfold vmstep in Hm. cbn [vstrip fst] in Hm.
    inversion Hm as [u0 bs0 u0' Hne Hg Hc]; subst.
    (* the greedy group takes both occurrences *)
    inversion Hg as [u1 Hn | u1 o v u2 bs1 m Hf Hg1]; subst; [cbn in Hn; discriminate|].
    cbn in Hf. injection Hf as <- <- <-.
    inversion Hg1 as [u1 Hn | u1 o v u2 bs2 m2 Hf2 Hg2]; subst; [cbn in Hn; discriminate|].
    cbn in Hf2. injection Hf2 as <- <- <-.
    inversion Hg2 as [u1 Hn | u1 o v u2 bs3 m3 Hf3 Hg3]; subst; [|cbn in Hf3; discriminate].
    (* nothing is left for the single option, which is not backed by the environment *)
    inversion H2 as [|ch2 s2 c3 c4 c5 b3 b4 H3 H4]; subst.
    inversion H3 as [a c0 c0' b0 Hr2| |]; subst. inversion Hr2 as [a0 rep c0 c0' b0 Ha2|]; subst.
    inversion Ha2 as [| |o c0 c0' b0 Hm2| | | |]; subst. unfold vmstep in Hm2. cbn in Hm2. discriminate.
Qed.
