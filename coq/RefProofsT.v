(** T4b with a target: the executable reference matcher [RefSem.r_match], run with the per-variable lists of
    values observed on the implementation (its "derivation" mode, the oracle of C02 and of the streams judged by
    the reference semantics), says Yes exactly when some sentence reading of the symbol-level language
    [SymProofs.VAccepts] binds, variable by variable and in order, exactly those values.
    Specs without "--", greedy-with-environment mode. The proof generalises [RefProofs]: the relation on
    (symbols, options-ended) now records the bindings of every step, and the continuation-passing matcher is
    shown to explore exactly the steps whose bindings the target can still absorb ([binds]). *)
From MowCli Require Import Base Parser Nfa Matchers View RefSem NfaProofs SymProofs RefProofs.

Definition st3 (p : pst) (t : target) : rstate := mkRS (fst p) (snd p) t.

(** the target absorbs a list of bindings, one after the other *)
Fixpoint binds (bs : list binding) (t : target) : option target :=
  match bs with
  | [] => Some t
  | (k, v) :: bs' => match bind k v t with Some t' => binds bs' t' | None => None end
  end.

Lemma binds_app b1 b2 t : binds (b1 ++ b2) t = match binds b1 t with Some t' => binds b2 t' | None => None end.
Proof.
  revert t. induction b1 as [|[k v] b1 IH]; intros t; cbn [binds List.app]; [reflexivity|].
  destruct (bind k v t); [apply IH | reflexivity].
Qed.

Lemma binds_none bs : binds bs None = Some None.
Proof. induction bs as [|[k v] bs IH]; cbn [binds bind]; [reflexivity | exact IH]. Qed.

Section RefT.
  Variable RD : rdecl.
  Variable nopts : nat.
  Notation md := (Greedy true).

  (** * The leaves, with their bindings *)
  Definition b_arg (i : nat) (p : pst) : option (pst * list binding) :=
    let q := pstrip p in match fst q with P t :: u' => Some ((u', snd q), [(KA i, t)]) | _ => None end.

  Definition b_opt (o : nat) (p : pst) : option (pst * list binding) :=
    let q := pstrip p in
    let fb := if rd_env RD o then Some (q, []) else None in
    if snd q then fb
    else match take_occ o (fst q) with Some (v, u') => Some ((u', false), [(KO o, v)]) | None => fb end.

  (** the greedy loop as a pure function: what is taken, and what is left *)
  Fixpoint g_take (fuel : nat) (js : list nat) (u : list sym) : list binding * list sym :=
    match fuel with
    | 0 => ([], u)
    | S f =>
      match first_some (fun o => match take_occ o u with Some (v, u') => Some (o, v, u') | None => None end) js with
      | Some (o, v, u') => let (bs, u'') := g_take f js u' in ((KO o, v) :: bs, u'')
      | None => ([], u)
      end
    end.

  Lemma greedy_take_g fuel js : forall u t tk,
    greedy_take fuel js u t tk =
    match binds (fst (g_take fuel js u)) t with
    | Some t' => Some (snd (g_take fuel js u), t', match fst (g_take fuel js u) with [] => tk | _ => true end)
    | None => None
    end.
  Proof.
    induction fuel as [|f IH]; intros u t tk; cbn [greedy_take g_take]; [reflexivity|].
    destruct (first_some _ js) as [[[o v] u1]|]; [|reflexivity].
    destruct (g_take f js u1) as [bs u2] eqn:G. cbn [fst snd binds].
    destruct (bind (KO o) v t) as [t1|]; [|reflexivity].
    rewrite IH, G. cbn [fst snd]. destruct (binds bs t1); [|reflexivity]. destruct bs; reflexivity.
  Qed.

  Definition b_grp (js : list nat) (p : pst) : option (pst * list binding) :=
    let q := pstrip p in
    if snd q then None else
    match fst q with
    | [] => None
    | _ => let (bs, u') := g_take (S (length (fst q))) js (fst q) in
           match bs with
           | [] => if existsb (rd_env RD) js then Some (q, []) else None
           | _ => Some ((u', false), bs)
           end
    end.

  (** the leaves of [RefProofs] are these with the bindings forgotten *)
  Lemma b_arg_p i p : p_arg p = option_map fst (b_arg i p).
  Proof. unfold p_arg, b_arg. destruct (fst (pstrip p)) as [|[o v s|t| |t|t] u]; reflexivity. Qed.

  Lemma b_opt_p o p : p_opt RD o p = option_map fst (b_opt o p).
  Proof.
    unfold p_opt, b_opt. destruct (snd (pstrip p)); [destruct (rd_env RD o); reflexivity|].
    destruct (take_occ o (fst (pstrip p))) as [[v u']|]; [reflexivity | destruct (rd_env RD o); reflexivity].
  Qed.

  Lemma b_grp_p js p : p_grp RD js p = option_map fst (b_grp js p).
  Proof.
    unfold p_grp, b_grp. destruct (snd (pstrip p)); [reflexivity|].
    destruct (fst (pstrip p)) as [|s u] eqn:E; [reflexivity|].
    rewrite greedy_take_g. cbn [binds]. rewrite binds_none.
    destruct (g_take (S (length (s :: u))) js (s :: u)) as [bs u']. cbn [fst snd].
    destruct bs; [destruct (existsb (rd_env RD) js); reflexivity | reflexivity].
  Qed.

  (** the continuation-passing leaves, for any target *)
  Lemma rstrip_st3 p t : rstrip (st3 p t) = st3 (pstrip p) t.
  Proof. unfold rstrip, pstrip, st3. destruct p as [[|[o v s|tk| |tk|tk] u] ro]; reflexivity. Qed.

  Lemma k_arg_b i p t k :
    k_arg i (st3 p t) k =
    match b_arg i p with
    | Some (q, bs) => match binds bs t with Some t' => k (st3 q t') | None => No end
    | None => No
    end.
  Proof.
    unfold k_arg, b_arg. rewrite rstrip_st3. destruct (pstrip p) as [u0 ro]. unfold st3. cbn [rs_u rs_ro rs_t fst snd].
    destruct u0 as [|[o v s|tk| |tk|tk] u]; try reflexivity. cbn [binds]. destruct (bind (KA i) tk t); reflexivity.
  Qed.

  Lemma k_opt_b o p t k :
    k_opt RD o (st3 p t) k =
    match b_opt o p with
    | Some (q, bs) => match binds bs t with Some t' => k (st3 q t') | None => No end
    | None => No
    end.
  Proof.
    unfold k_opt, b_opt. rewrite rstrip_st3. destruct (pstrip p) as [u ro]. unfold st3. cbn [rs_u rs_ro rs_t fst snd].
    destruct ro; [destruct (rd_env RD o); reflexivity|].
    destruct (take_occ o u) as [[v u']|]; [cbn [binds]; destruct (bind (KO o) v t); reflexivity|].
    destruct (rd_env RD o); reflexivity.
  Qed.

  Lemma k_group_b js p t k :
    k_group RD md js (st3 p t) k =
    match b_grp js p with
    | Some (q, bs) => match binds bs t with Some t' => k (st3 q t') | None => No end
    | None => No
    end.
  Proof.
    unfold k_group, b_grp. rewrite rstrip_st3. destruct (pstrip p) as [u0 ro]. unfold st3. cbn [rs_u rs_ro rs_t fst snd].
    destruct ro; [reflexivity|].
    destruct u0 as [|s u]; [reflexivity|].
    rewrite greedy_take_g. destruct (g_take (S (length (s :: u))) js (s :: u)) as [bs u']. cbn [fst snd].
    destruct bs as [|b bs].
    - cbn [binds andb]. destruct (existsb (rd_env RD) js); reflexivity.
    - destruct (binds (b :: bs) t); reflexivity.
  Qed.

  (** * The spec as a relation on (symbols, options-ended), with the bindings of the reading *)
  Inductive BS : seq -> pst -> pst -> list binding -> Prop :=
  | BSNil p : BS SNil p p []
  | BSCons ch s p p1 p2 b1 b2 : BC ch p p1 b1 -> BS s p1 p2 b2 -> BS (SCons ch s) p p2 (b1 ++ b2)
  with BC : choice -> pst -> pst -> list binding -> Prop :=
  | BCOne a p q b : BR a p q b -> BC (COne a) p q b
  | BCAltL a ch p q b : BR a p q b -> BC (CAlt a ch) p q b
  | BCAltR a ch p q b : BC ch p q b -> BC (CAlt a ch) p q b
  with BR : ratom -> pst -> pst -> list binding -> Prop :=
  | BROnce a rep p q b : BA a p q b -> BR (RAtom a rep) p q b
  | BRMore a p p1 q b1 b2 : BA a p p1 b1 -> BR (RAtom a true) p1 q b2 -> BR (RAtom a true) p q (b1 ++ b2)
  with BA : atom -> pst -> pst -> list binding -> Prop :=
  | BAArg i p q b : b_arg i p = Some (q, b) -> BA (AArg i) p q b
  | BAOptions p q b : b_grp (List.seq 0 nopts) p = Some (q, b) -> BA AOptions p q b
  | BAOpt o p q b : b_opt o p = Some (q, b) -> BA (AOpt o) p q b
  | BAGroup js p q b : b_grp js p = Some (q, b) -> BA (AGroup js) p q b
  | BAPar s p q b : BS s p q b -> BA (APar s) p q b
  | BASqSome s p q b : BS s p q b -> BA (ASq s) p q b
  | BASqNone s p : BA (ASq s) p p [].

  Scheme BS_mut := Induction for BS Sort Prop
  with BC_mut := Induction for BC Sort Prop
  with BR_mut := Induction for BR Sort Prop
  with BA_mut := Induction for BA Sort Prop.
  Combined Scheme bden_mutind from BS_mut, BC_mut, BR_mut, BA_mut.

  (** forgetting the bindings gives the relation of [RefProofs] *)
  Theorem bs_ps :
    (forall s p q b, BS s p q b -> PS RD nopts s p q) /\ (forall c p q b, BC c p q b -> PC RD nopts c p q) /\
    (forall a p q b, BR a p q b -> PR RD nopts a p q) /\ (forall a p q b, BA a p q b -> PA RD nopts a p q).
  Proof.
    apply bden_mutind.
    - intros p. constructor.
    - intros ch s p p1 p2 b1 b2 _ H1 _ H2. econstructor; eassumption.
    - intros a p q b _ H. now constructor.
    - intros a ch p q b _ H. now apply PCAltL.
    - intros a ch p q b _ H. now apply PCAltR.
    - intros a rep p q b _ H. now apply PROnce.
    - intros a p p1 q b1 b2 _ H1 _ H2. eapply PRMore; eassumption.
    - intros i p q b e. constructor. rewrite (b_arg_p i), e. reflexivity.
    - intros p q b e. constructor. rewrite b_grp_p, e. reflexivity.
    - intros o p q b e. constructor. rewrite b_opt_p, e. reflexivity.
    - intros js p q b e. constructor. rewrite b_grp_p, e. reflexivity.
    - intros s p q b _ H. now constructor.
    - intros s p q b _ H. now apply PASqSome.
    - intros s p. apply PASqNone.
  Qed.

  (** a step that binds something consumes something *)
  Lemma g_take_len fuel js : forall u, length (snd (g_take fuel js u)) + length (fst (g_take fuel js u)) <= length u.
  Proof.
    induction fuel as [|f IH]; intros u; cbn [g_take]; [cbn; lia|].
    destruct (first_some _ js) as [[[o v] u1]|] eqn:Ef; [|cbn; lia].
    assert (L : length u1 < length u).
    { clear -Ef. induction js as [|j js IHj]; cbn [first_some] in Ef; [discriminate|].
      destruct (take_occ j u) as [[v' u'']|] eqn:E; [injection Ef as <- <- <-; eapply take_occ_len; eauto | auto]. }
    specialize (IH u1). destruct (g_take f js u1) as [bs u2]. cbn [fst snd length] in *. lia.
  Qed.

  Definition binds_consume (p q : pst) (b : list binding) : Prop := b <> [] -> mu q < mu p.

  Lemma pstrip_mu_le p : mu (pstrip p) <= mu p.
  Proof. apply pstrip_mu. Qed.

  Lemma b_arg_consume i p q b : b_arg i p = Some (q, b) -> binds_consume p q b.
  Proof.
    intros H _. assert (Hp : p_arg p = Some q) by (rewrite (b_arg_p i), H; reflexivity).
    apply p_arg_ok in Hp. tauto.
  Qed.

  Lemma b_opt_consume o p q b : b_opt o p = Some (q, b) -> binds_consume p q b.
  Proof.
    unfold b_opt. pose proof (pstrip_mu_le p) as M. destruct (pstrip p) as [u ro]. cbn [fst snd].
    assert (Hfb : (if rd_env RD o then Some ((u, ro), @nil binding) else None) = Some (q, b) -> binds_consume p q b).
    { destruct (rd_env RD o); [|discriminate]. intros [= <- <-] X. congruence. }
    destruct ro; [exact Hfb|]. destruct (take_occ o u) as [[v u']|] eqn:Et; [|exact Hfb].
    intros [= <- <-] _. apply take_occ_len in Et. unfold mu in *. cbn [fst snd] in *. lia.
  Qed.

  Lemma b_grp_consume js p q b : b_grp js p = Some (q, b) -> binds_consume p q b.
  Proof.
    unfold b_grp. pose proof (pstrip_mu_le p) as M. destruct (pstrip p) as [u ro]. cbn [fst snd].
    destruct ro; [discriminate|]. destruct u as [|s u]; [discriminate|].
    pose proof (g_take_len (S (length (s :: u))) js (s :: u)) as L.
    destruct (g_take (S (length (s :: u))) js (s :: u)) as [bs u']. cbn [fst snd] in L.
    destruct bs as [|b0 bs].
    - destruct (existsb (rd_env RD) js); [|discriminate]. intros [= <- <-] X. congruence.
    - intros [= <- <-] _. unfold mu in *. cbn [fst snd length] in *. lia.
  Qed.

  Theorem bden_consume :
    (forall s p q b, BS s p q b -> binds_consume p q b) /\ (forall c p q b, BC c p q b -> binds_consume p q b) /\
    (forall a p q b, BR a p q b -> binds_consume p q b) /\ (forall a p q b, BA a p q b -> binds_consume p q b).
  Proof.
    destruct (den_ok RD nopts) as (OkS & OkC & OkR & OkA). destruct bs_ps as (FS & FC & FR & FA).
    assert (Hmu : forall p q, step_ok p q -> mu q <= mu p) by (intros p q ([->|L] & _); lia).
    assert (Hcat : forall (p p1 p2 : pst) (b1 b2 : list binding), mu p1 <= mu p -> mu p2 <= mu p1 ->
               binds_consume p p1 b1 -> binds_consume p1 p2 b2 -> binds_consume p p2 (b1 ++ b2)).
    { intros p p1 p2 b1 b2 M1 M2 H1 H2 Hne. destruct b1 as [|x b1].
      - cbn in Hne. specialize (H2 Hne). lia.
      - assert (mu p1 < mu p) by (apply H1; discriminate). lia. }
    apply bden_mutind.
    - intros p X. congruence.
    - intros ch s p p1 p2 b1 b2 Hc H1 Hs H2.
      apply Hcat with p1; [apply Hmu; eapply OkC; exact (FC _ _ _ _ Hc) | apply Hmu; eapply OkS; exact (FS _ _ _ _ Hs) | exact H1 | exact H2].
    - intros a p q b _ H. exact H.
    - intros a ch p q b _ H. exact H.
    - intros a ch p q b _ H. exact H.
    - intros a rep p q b _ H. exact H.
    - intros a p p1 q b1 b2 Ha H1 Hr H2.
      apply Hcat with p1; [apply Hmu; eapply OkA; exact (FA _ _ _ _ Ha) | apply Hmu; eapply OkR; exact (FR _ _ _ _ Hr) | exact H1 | exact H2].
    - intros i p q b e. eapply b_arg_consume; eauto.
    - intros p q b e. eapply b_grp_consume; eauto.
    - intros o p q b e. eapply b_opt_consume; eauto.
    - intros js p q b e. eapply b_grp_consume; eauto.
    - intros s p q b _ H. exact H.
    - intros s p q b _ H. exact H.
    - intros s p X. congruence.
  Qed.

  (** * The continuation-passing matcher explores exactly the readings whose bindings the target absorbs *)
  Inductive IterB (a : atom) : pst -> pst -> list binding -> Prop :=
  | ItB1 p q b : BA a p q b -> IterB a p q b
  | ItB2 p p1 q b1 b2 : BA a p p1 b1 -> IterB a p1 q b2 -> IterB a p q (b1 ++ b2).

  Lemma binds_app_some b1 b2 t t' : binds (b1 ++ b2) t = Some t' <-> exists t1, binds b1 t = Some t1 /\ binds b2 t1 = Some t'.
  Proof.
    rewrite binds_app. destruct (binds b1 t) as [t1|]; split.
    - intros H. exists t1. auto.
    - intros (t2 & [= <-] & H). exact H.
    - discriminate.
    - intros (t2 & X & _). discriminate.
  Qed.

  Definition hit (R : pst -> pst -> list binding -> Prop) (p : pst) (t : target) (k : rstate -> verdict) : Prop :=
    exists q b t', R p q b /\ binds b t = Some t' /\ k (st3 q t') = Yes.

  Lemma leaf_hit (f : pst -> option (pst * list binding)) (R : pst -> pst -> list binding -> Prop) p t k :
    (forall q b, R p q b <-> f p = Some (q, b)) ->
    (match f p with
     | Some (q, bs) => match binds bs t with Some t' => k (st3 q t') | None => No end
     | None => No
     end = Yes <-> hit R p t k).
  Proof.
    intros HR. unfold hit. destruct (f p) as [[q bs]|] eqn:E.
    - destruct (binds bs t) as [t'|] eqn:Eb.
      + split; [intros H; exists q, bs, t'; repeat split; [now apply HR | assumption | assumption]|].
        intros (q' & b' & t2 & H & Hb & Hk). apply HR in H. injection H as <- <-. rewrite Eb in Hb. injection Hb as <-. exact Hk.
      + split; [discriminate|]. intros (q' & b' & t2 & H & Hb & Hk). apply HR in H. injection H as <- <-. congruence.
    - split; [discriminate|]. intros (q' & b' & t2 & H & _). apply HR in H. discriminate.
  Qed.

  Theorem cps_correct_t :
    (forall s, seq_has_dd s = false -> forall fuel p t k, mu p < fuel ->
       (r_seq RD md nopts s fuel (st3 p t) k = Yes <-> hit (BS s) p t k)) /\
    (forall c, choice_has_dd c = false -> forall fuel p t k, mu p < fuel ->
       (r_choice RD md nopts c fuel (st3 p t) k = Yes <-> hit (BC c) p t k)) /\
    (forall a, ratom_has_dd a = false -> forall fuel p t k, mu p < fuel ->
       (r_ratom RD md nopts a fuel (st3 p t) k = Yes <-> hit (BR a) p t k)) /\
    (forall a, atom_has_dd a = false -> forall fuel p t k, mu p < fuel ->
       (r_atom RD md nopts a fuel (st3 p t) k = Yes <-> hit (BA a) p t k)).
  Proof.
    destruct (den_ok RD nopts) as (OkS & OkC & OkR & OkA). destruct bs_ps as (FS & FC & FR & FA).
    destruct bden_consume as (_ & _ & _ & CA).
    assert (Hmu : forall p q, step_ok p q -> mu q <= mu p) by (intros p q ([->|L] & _); lia).
    unfold hit. apply ast_mutind.
    - (* SNil *) intros _ fuel p t k _. cbn [r_seq]. split.
      + intros H. exists p, [], t. repeat split; [constructor | exact H].
      + intros (q & b & t' & Hq & Hb & Hk). inversion Hq; subst. cbn in Hb. injection Hb as <-. exact Hk.
    - (* SCons *) intros c IHc s IHs Hd fuel p t k Hf. cbn in Hd. apply orb_false_iff in Hd as [Hd1 Hd2].
      change (r_seq RD md nopts (SCons c s) fuel (st3 p t) k) with
        (r_choice RD md nopts c fuel (st3 p t) (fun st' => r_seq RD md nopts s fuel st' k)).
      rewrite (IHc Hd1 fuel p t _ Hf). split.
      + intros (q1 & b1 & t1 & H1 & Hb1 & H2).
        apply (IHs Hd2 fuel q1 t1 k) in H2; [|pose proof (Hmu _ _ (OkC _ _ _ (FC _ _ _ _ H1))); lia].
        destruct H2 as (q & b2 & t' & H2 & Hb2 & Hk). exists q, (b1 ++ b2), t'.
        repeat split; [econstructor; eauto | apply binds_app_some; eauto | exact Hk].
      + intros (q & b & t' & Hq & Hb & Hk). inversion Hq as [|ch s0 p0 p1 p2 b1 b2 H1 H2]; subst.
        apply binds_app_some in Hb as (t1 & Hb1 & Hb2). exists p1, b1, t1. repeat split; [exact H1 | exact Hb1|].
        apply (IHs Hd2 fuel p1 t1 k); [pose proof (Hmu _ _ (OkC _ _ _ (FC _ _ _ _ H1))); lia|]. exists q, b2, t'. auto.
    - (* COne *) intros a IHa Hd fuel p t k Hf. cbn in Hd.
      change (r_choice RD md nopts (COne a) fuel (st3 p t) k) with (r_ratom RD md nopts a fuel (st3 p t) k).
      rewrite (IHa Hd fuel p t k Hf). split; intros (q & b & t' & H & Hb & Hk); exists q, b, t'; (repeat split; [|exact Hb|exact Hk]);
        [now constructor | now inversion H].
    - (* CAlt *) intros a IHa c IHc Hd fuel p t k Hf. cbn in Hd. apply orb_false_iff in Hd as [Hd1 Hd2].
      change (r_choice RD md nopts (CAlt a c) fuel (st3 p t) k) with
        (vor (r_ratom RD md nopts a fuel (st3 p t) k) (fun _ => r_choice RD md nopts c fuel (st3 p t) k)).
      rewrite vor_yes, (IHa Hd1 fuel p t k Hf), (IHc Hd2 fuel p t k Hf). split.
      + intros [(q & b & t' & H & Hb & Hk)|(q & b & t' & H & Hb & Hk)]; exists q, b, t'; (repeat split; [|exact Hb|exact Hk]);
          [now apply BCAltL | now apply BCAltR].
      + intros (q & b & t' & H & Hb & Hk). inversion H; subst; [left | right]; eauto 6.
    - (* RAtom *) intros a IHa rep Hd fuel p t k Hf. cbn in Hd. destruct rep.
      + change (r_ratom RD md nopts (RAtom a true) fuel (st3 p t) k) with
          ((fix loop (n : nat) (st : rstate) : verdict :=
              match n with
              | 0 => No
              | S n' => r_atom RD md nopts a fuel st
                               (fun st' => vor (k st') (fun _ => if progress st st' then loop n' st' else No))
              end) fuel (st3 p t)).
        set (loop := fix loop (n : nat) (st : rstate) : verdict :=
              match n with
              | 0 => No
              | S n' => r_atom RD md nopts a fuel st
                               (fun st' => vor (k st') (fun _ => if progress st st' then loop n' st' else No))
              end).
        assert (Hsound : forall n p0 t0, mu p0 < fuel -> loop n (st3 p0 t0) = Yes ->
                                         exists q b t', BR (RAtom a true) p0 q b /\ binds b t0 = Some t' /\ k (st3 q t') = Yes).
        { induction n as [|n IHn]; intros p0 t0 Hf0; [discriminate|]. cbn [loop].
          rewrite (IHa Hd fuel p0 t0 _ Hf0). intros (q1 & b1 & t1 & H1 & Hb1 & H2). apply vor_yes in H2 as [H2|H2].
          - exists q1, b1, t1. repeat split; [now apply BROnce | exact Hb1 | exact H2].
          - change (progress (st3 p0 t0) (st3 q1 t1)) with (prog p0 q1) in H2. destruct (prog p0 q1); [|discriminate].
            destruct (IHn q1 t1) as (q & b2 & t' & Hq & Hb2 & Hk); [pose proof (Hmu _ _ (OkA _ _ _ (FA _ _ _ _ H1))); lia | exact H2|].
            exists q, (b1 ++ b2), t'. repeat split; [eapply BRMore; eauto | apply binds_app_some; eauto | exact Hk]. }
        assert (Hiter : forall p0 q b, BR (RAtom a true) p0 q b -> IterB a p0 q b).
        { intros p0 q b H. remember (RAtom a true) as ra eqn:Era.
          induction H as [a0 rep p0 q0 b0 H1 | a0 p0 p1 q0 b1 b2 H1 Hrest IH]; inversion Era; subst.
          - now apply ItB1.
          - eapply ItB2; eauto. }
        assert (Hcomplete : forall q p0 b, IterB a p0 q b -> forall n t0 t', mu p0 < fuel -> mu p0 < n ->
                                           binds b t0 = Some t' -> k (st3 q t') = Yes -> loop n (st3 p0 t0) = Yes).
        { intros q p0 b Hit.
          induction Hit as [p0 q0 b0 H1 | p0 p1 q0 b1 b2 H1 Hrest IH]; intros n t0 t' Hf0 Hn Hb Hk.
          - destruct n as [|n]; [lia|]. cbn [loop]. rewrite (IHa Hd fuel p0 t0 _ Hf0).
            exists q0, b0, t'. repeat split; [exact H1 | exact Hb|]. apply vor_yes. now left.
          - pose proof (OkA _ _ _ (FA _ _ _ _ H1)) as Hok. destruct (prog_spec p0 p1 Hok) as [[P1 P2] P3].
            apply binds_app_some in Hb as (t1 & Hb1 & Hb2).
            destruct (prog p0 p1) eqn:Ep.
            + destruct n as [|n]; [lia|]. cbn [loop]. rewrite (IHa Hd fuel p0 t0 _ Hf0).
              exists p1, b1, t1. repeat split; [exact H1 | exact Hb1|]. apply vor_yes. right.
              change (progress (st3 p0 t0) (st3 p1 t1)) with (prog p0 p1). rewrite Ep.
              apply (IH n t1 t'); [pose proof (Hmu _ _ Hok); lia | specialize (P1 eq_refl); lia | exact Hb2 | exact Hk].
            + (* an iteration without progress changes nothing and binds nothing: skip it *)
              pose proof (P3 eq_refl) as Eq. subst p1.
              assert (b1 = []) as -> by (destruct b1 as [|x b1]; [reflexivity|]; exfalso;
                                         assert (mu p0 < mu p0) by (apply (CA _ _ _ _ H1); discriminate); lia).
              cbn in Hb1. injection Hb1 as <-. apply (IH n t0 t'); assumption. }
        split; [apply Hsound; exact Hf|]. intros (q & b & t' & Hq & Hb & Hk).
        apply (Hcomplete q p b (Hiter p q b Hq) fuel t t'); [exact Hf | | exact Hb | exact Hk].
        unfold mu in *. destruct (snd p); lia.
      + change (r_ratom RD md nopts (RAtom a false) fuel (st3 p t) k) with (r_atom RD md nopts a fuel (st3 p t) k).
        rewrite (IHa Hd fuel p t k Hf). split; intros (q & b & t' & H & Hb & Hk); exists q, b, t'; (repeat split; [|exact Hb|exact Hk]);
          [now constructor | now inversion H].
    - (* ARG *) intros i _ fuel p t k _. cbn [r_atom]. rewrite k_arg_b.
      apply (leaf_hit (b_arg i) (BA (AArg i))). intros q b. split; [intros H; now inversion H | intros H; now constructor].
    - (* OPTIONS *) intros _ fuel p t k _. cbn [r_atom]. rewrite k_group_b.
      apply (leaf_hit (b_grp (List.seq 0 nopts)) (BA AOptions)). intros q b. split; [intros H; now inversion H | intros H; now constructor].
    - (* option *) intros o _ fuel p t k _. cbn [r_atom]. rewrite k_opt_b.
      apply (leaf_hit (b_opt o) (BA (AOpt o))). intros q b. split; [intros H; now inversion H | intros H; now constructor].
    - (* group *) intros js _ fuel p t k _. cbn [r_atom]. rewrite k_group_b.
      apply (leaf_hit (b_grp js) (BA (AGroup js))). intros q b. split; [intros H; now inversion H | intros H; now constructor].
    - (* -- *) intros Hd. cbn in Hd. discriminate.
    - (* ( ) *) intros s IHs Hd fuel p t k Hf. cbn in Hd.
      change (r_atom RD md nopts (APar s) fuel (st3 p t) k) with (r_seq RD md nopts s fuel (st3 p t) k).
      rewrite (IHs Hd fuel p t k Hf). split; intros (q & b & t' & H & Hb & Hk); exists q, b, t'; (repeat split; [|exact Hb|exact Hk]);
        [now constructor | now inversion H].
    - (* [ ] *) intros s IHs Hd fuel p t k Hf. cbn in Hd.
      change (r_atom RD md nopts (ASq s) fuel (st3 p t) k) with (vor (r_seq RD md nopts s fuel (st3 p t) k) (fun _ => k (st3 p t))).
      rewrite vor_yes, (IHs Hd fuel p t k Hf). split.
      + intros [(q & b & t' & H & Hb & Hk)|Hk]; [exists q, b, t'; repeat split; [now apply BASqSome | exact Hb | exact Hk] |
                                                   exists p, [], t; repeat split; [apply BASqNone | exact Hk]].
      + intros (q & b & t' & H & Hb & Hk). inversion H; subst; [left; eauto 6 | right; cbn in Hb; injection Hb as <-; exact Hk].
  Qed.
End RefT.

(** * From (symbols with their source tokens) to the erased symbols of [SymProofs], bindings kept *)
Section EraseT.
  Variable D : optinfo.
  Variable nopts : nat.
  Notation RD := (rdecl_of D).

  Lemma b_arg_v i p w : erase_all (fst p) = Some w ->
    match b_arg i p with
    | Some (q, b) => exists w', erase_all (fst q) = Some w' /\ v_arg i (vstrip (w, snd p)) = Some ((w', snd q), b)
    | None => v_arg i (vstrip (w, snd p)) = None
    end.
  Proof.
    intros Hw. destruct (pstrip_vstrip p w Hw) as [E1 E2]. unfold b_arg, v_arg.
    destruct (pstrip p) as [u ro]. destruct (vstrip (w, snd p)) as [w0 r0]. cbn [fst snd] in *. subst r0.
    destruct u as [|s u]; [injection E1 as <-; reflexivity|].
    apply erase_all_cons in E1 as (x & w' & Hx & Hw' & ->).
    destruct s as [o v src|t| |t|t]; cbn in Hx; try discriminate; injection Hx as <-; try reflexivity.
    exists w'. auto.
  Qed.

  Lemma b_opt_v o p w : erase_all (fst p) = Some w ->
    match b_opt RD o p with
    | Some (q, b) => exists w', erase_all (fst q) = Some w' /\ v_opt D o (vstrip (w, snd p)) = Some ((w', snd q), b)
    | None => v_opt D o (vstrip (w, snd p)) = None
    end.
  Proof.
    intros Hw. destruct (pstrip_vstrip p w Hw) as [E1 E2]. unfold b_opt, v_opt. cbn [rd_env rdecl_of].
    destruct (pstrip p) as [u ro]. destruct (vstrip (w, snd p)) as [w0 r0]. cbn [fst snd] in *. subst r0.
    assert (Hfb : match (if oi_fromenv D o then Some ((u, ro), @nil binding) else None) with
                  | Some (q, b) => exists w', erase_all (fst q) = Some w' /\
                                           (if oi_fromenv D o then Some ((w0, ro), @nil binding) else None) = Some ((w', snd q), b)
                  | None => (if oi_fromenv D o then Some ((w0, ro), @nil binding) else None) = None
                  end).
    { destruct (oi_fromenv D o); [exists w0; auto | reflexivity]. }
    destruct ro; [exact Hfb|].
    pose proof (take_occ_take o u w0 E1) as Ht. destruct (take_occ o u) as [[v u']|].
    - destruct Ht as (w' & -> & E'). exists w'. auto.
    - rewrite Ht. exact Hfb.
  Qed.

  Lemma g_take_vgreedy fuel js : forall u w, erase_all u = Some w -> length u < fuel ->
    exists w', VGreedy js w (fst (g_take fuel js u)) w' /\ erase_all (snd (g_take fuel js u)) = Some w'.
  Proof.
    induction fuel as [|f IH]; intros u w Hw Hf; [lia|]. cbn [g_take].
    pose proof (first_some_take js u w Hw) as Hfs.
    destruct (first_some _ js) as [[[o v] u1]|] eqn:Ef.
    - destruct Hfs as (w1 & Ft & E1).
      assert (L : length u1 < length u).
      { clear -Ef. induction js as [|j js IHj]; cbn [first_some] in Ef; [discriminate|].
        destruct (take_occ j u) as [[v' u'']|] eqn:E; [injection Ef as <- <- <-; eapply take_occ_len; eauto | auto]. }
      destruct (IH u1 w1 E1 ltac:(lia)) as (w' & G & E').
      destruct (g_take f js u1) as [bs u2]. cbn [fst snd] in *. exists w'. split; [eapply VGStep; eauto | exact E'].
    - cbn [fst snd]. exists w. split; [now constructor | exact Hw].
  Qed.

  Lemma b_grp_fwd js p q b w : erase_all (fst p) = Some w -> b_grp RD js p = Some (q, b) ->
    exists w', erase_all (fst q) = Some w' /\ v_grp D js (vstrip (w, snd p)) (w', snd q) b.
  Proof.
    intros Hw. destruct (pstrip_vstrip p w Hw) as [E1 E2]. unfold b_grp.
    destruct (pstrip p) as [u ro]. destruct (vstrip (w, snd p)) as [w0 r0]. cbn [fst snd] in *. subst r0.
    destruct ro; [discriminate|]. destruct u as [|s u]; [discriminate|].
    destruct (g_take_vgreedy (S (length (s :: u))) js (s :: u) w0 E1 (Nat.lt_succ_diag_r _)) as (w' & VG & E').
    assert (Hne : w0 <> []) by (intros ->; destruct (erase_all_nil_iff _ _ E1) as [_ X]; specialize (X eq_refl); discriminate).
    destruct (g_take (S (length (s :: u))) js (s :: u)) as [bs u']. cbn [fst snd] in *.
    destruct bs as [|b0 bs].
    - destruct (existsb (rd_env RD) js) eqn:Ee; [|discriminate]. intros [= <- <-]. cbn [fst snd].
      inversion VG; subst. exists w'. split; [exact E1|]. constructor; auto. right. now apply existsb_env.
    - intros [= <- <-]. exists w'. split; [exact E'|]. constructor; auto. left. discriminate.
  Qed.

  Lemma b_grp_bwd js p w w' b : erase_all (fst p) = Some w -> v_grp D js (vstrip (w, snd p)) (w', false) b ->
    exists q, b_grp RD js p = Some (q, b) /\ erase_all (fst q) = Some w' /\ snd q = false.
  Proof.
    intros Hw Hg. destruct (pstrip_vstrip p w Hw) as [E1 E2]. unfold b_grp.
    destruct (pstrip p) as [u ro]. destruct (vstrip (w, snd p)) as [w0 r0]. cbn [fst snd] in *. subst r0.
    inversion Hg as [u0 bs u0' Hne VG Hc]; subst.
    destruct u as [|s u]; [injection E1 as <-; congruence|].
    destruct (g_take_vgreedy (S (length (s :: u))) js (s :: u) w0 E1 (Nat.lt_succ_diag_r _)) as (w2 & VG2 & E').
    destruct (g_take (S (length (s :: u))) js (s :: u)) as [bs2 u']. cbn [fst snd] in *.
    destruct (vgreedy_det js w0 b w' VG bs2 w2 VG2) as [-> ->].
    destruct bs2 as [|b0 bs2].
    - destruct Hc as [X|X]; [congruence|]. apply existsb_env in X. rewrite X.
      inversion VG2; subst. exists (s :: u, false). auto.
    - exists (u', false). auto.
  Qed.

  Theorem bs_vs :
    (forall s p q b, BS RD nopts s p q b -> forall w, erase_all (fst p) = Some w ->
       exists w', VS D nopts s (w, snd p) (w', snd q) b /\ erase_all (fst q) = Some w') /\
    (forall c p q b, BC RD nopts c p q b -> forall w, erase_all (fst p) = Some w ->
       exists w', VC D nopts c (w, snd p) (w', snd q) b /\ erase_all (fst q) = Some w') /\
    (forall a p q b, BR RD nopts a p q b -> forall w, erase_all (fst p) = Some w ->
       exists w', VR D nopts a (w, snd p) (w', snd q) b /\ erase_all (fst q) = Some w') /\
    (forall a p q b, BA RD nopts a p q b -> forall w, erase_all (fst p) = Some w ->
       exists w', VA D nopts a (w, snd p) (w', snd q) b /\ erase_all (fst q) = Some w').
  Proof.
    apply bden_mutind.
    - intros p w Hw. exists w. split; [constructor | assumption].
    - intros ch s p p1 p2 b1 b2 _ IH1 _ IH2 w Hw. destruct (IH1 w Hw) as (w1 & H1 & E1). destruct (IH2 w1 E1) as (w2 & H2 & E2).
      exists w2. split; [econstructor; eauto | assumption].
    - intros a p q b _ IH w Hw. destruct (IH w Hw) as (w' & H & E). exists w'. split; [now constructor | assumption].
    - intros a ch p q b _ IH w Hw. destruct (IH w Hw) as (w' & H & E). exists w'. split; [now apply VCAltL | assumption].
    - intros a ch p q b _ IH w Hw. destruct (IH w Hw) as (w' & H & E). exists w'. split; [now apply VCAltR | assumption].
    - intros a rep p q b _ IH w Hw. destruct (IH w Hw) as (w' & H & E). exists w'. split; [now apply VROnce | assumption].
    - intros a p p1 q b1 b2 _ IH1 _ IH2 w Hw. destruct (IH1 w Hw) as (w1 & H1 & E1). destruct (IH2 w1 E1) as (w2 & H2 & E2).
      exists w2. split; [eapply VRMore; eauto | assumption].
    - intros i p q b Hq w Hw. pose proof (b_arg_v i p w Hw) as X. rewrite Hq in X. destruct X as (w' & E & V).
      exists w'. split; [constructor; exact V | assumption].
    - intros p q b Hq w Hw. destruct (b_grp_fwd _ p q b w Hw Hq) as (w' & E & V). exists w'. split; [constructor; exact V | assumption].
    - intros o p q b Hq w Hw. pose proof (b_opt_v o p w Hw) as X. rewrite Hq in X. destruct X as (w' & E & V).
      exists w'. split; [constructor; exact V | assumption].
    - intros js p q b Hq w Hw. destruct (b_grp_fwd _ p q b w Hw Hq) as (w' & E & V). exists w'. split; [constructor; exact V | assumption].
    - intros s p q b _ IH w Hw. destruct (IH w Hw) as (w' & H & E). exists w'. split; [now constructor | assumption].
    - intros s p q b _ IH w Hw. destruct (IH w Hw) as (w' & H & E). exists w'. split; [now apply VASqSome | assumption].
    - intros s p w Hw. exists w. split; [apply VASqNone | assumption].
  Qed.

  Theorem vs_bs :
    (forall s c c' b, VS D nopts s c c' b -> forall p, erase_all (fst p) = Some (fst c) -> snd p = snd c ->
       exists q, BS RD nopts s p q b /\ erase_all (fst q) = Some (fst c') /\ snd q = snd c') /\
    (forall ch c c' b, VC D nopts ch c c' b -> forall p, erase_all (fst p) = Some (fst c) -> snd p = snd c ->
       exists q, BC RD nopts ch p q b /\ erase_all (fst q) = Some (fst c') /\ snd q = snd c') /\
    (forall a c c' b, VR D nopts a c c' b -> forall p, erase_all (fst p) = Some (fst c) -> snd p = snd c ->
       exists q, BR RD nopts a p q b /\ erase_all (fst q) = Some (fst c') /\ snd q = snd c') /\
    (forall a c c' b, VA D nopts a c c' b -> forall p, erase_all (fst p) = Some (fst c) -> snd p = snd c ->
       exists q, BA RD nopts a p q b /\ erase_all (fst q) = Some (fst c') /\ snd q = snd c').
  Proof.
    apply (vden_mutind D nopts).
    - intros c p Hw Hr. exists p. split; [constructor | auto].
    - intros ch s c c1 c2 b1 b2 _ IH1 _ IH2 p Hw Hr. destruct (IH1 p Hw Hr) as (q1 & H1 & E1 & R1).
      destruct (IH2 q1 E1 R1) as (q2 & H2 & E2 & R2). exists q2. split; [econstructor; eauto | auto].
    - intros a c c' b _ IH p Hw Hr. destruct (IH p Hw Hr) as (q & H & X). exists q. split; [now constructor | exact X].
    - intros a ch c c' b _ IH p Hw Hr. destruct (IH p Hw Hr) as (q & H & X). exists q. split; [now apply BCAltL | exact X].
    - intros a ch c c' b _ IH p Hw Hr. destruct (IH p Hw Hr) as (q & H & X). exists q. split; [now apply BCAltR | exact X].
    - intros a rep c c' b _ IH p Hw Hr. destruct (IH p Hw Hr) as (q & H & X). exists q. split; [now apply BROnce | exact X].
    - intros a c c1 c2 b1 b2 _ IH1 _ IH2 p Hw Hr. destruct (IH1 p Hw Hr) as (q1 & H1 & E1 & R1).
      destruct (IH2 q1 E1 R1) as (q2 & H2 & E2 & R2). exists q2. split; [eapply BRMore; eauto | auto].
    - intros i [w r] [w' r'] b Hm p Hw Hr. cbn [fst snd] in *. subst r. unfold vmstep in Hm.
      pose proof (b_arg_v i p w Hw) as X. destruct (b_arg i p) as [[q b2]|] eqn:Eq; [|congruence].
      destruct X as (w2 & E & V). rewrite V in Hm. injection Hm as <- <- <-. exists q. split; [now constructor | auto].
    - intros [w r] [w' r'] b Hm p Hw Hr. cbn [fst snd] in *. subst r. unfold vmstep in Hm.
      assert (r' = false) as -> by (inversion Hm; reflexivity).
      destruct (b_grp_bwd _ p w w' b Hw Hm) as (q & Hq & E & R). exists q. split; [now constructor | auto].
    - intros o [w r] [w' r'] b Hm p Hw Hr. cbn [fst snd] in *. subst r. unfold vmstep in Hm.
      pose proof (b_opt_v o p w Hw) as X. destruct (b_opt RD o p) as [[q b2]|] eqn:Eq; [|congruence].
      destruct X as (w2 & E & V). rewrite V in Hm. injection Hm as <- <- <-. exists q. split; [now constructor | auto].
    - intros js [w r] [w' r'] b Hm p Hw Hr. cbn [fst snd] in *. subst r. unfold vmstep in Hm.
      assert (r' = false) as -> by (inversion Hm; reflexivity).
      destruct (b_grp_bwd _ p w w' b Hw Hm) as (q & Hq & E & R). exists q. split; [now constructor | auto].
    - intros s c c' b _ IH p Hw Hr. destruct (IH p Hw Hr) as (q & H & X). exists q. split; [now constructor | exact X].
    - intros s c c' b _ IH p Hw Hr. destruct (IH p Hw Hr) as (q & H & X). exists q. split; [now apply BASqSome | exact X].
    - intros s c p Hw Hr. exists p. split; [apply BASqNone | auto].
  Qed.

  (** what a Yes with a target means: the target, a list of expected values per variable, is absorbed
      completely by the bindings of the reading, in their order *)
  Definition absorbed (bs : list binding) (t : target) : Prop :=
    exists t', binds bs t = Some t' /\ target_done t' = true.

  Theorem r_match_decides_target e w u t :
    seq_has_dd e = false -> erase_all (read RD w) = Some u ->
    (r_match RD (Greedy true) nopts e w t = Yes <-> exists bs, VAccepts D nopts e (u, false) bs /\ absorbed bs t).
  Proof.
    intros Hd Hu. unfold r_match. rewrite Hd. cbn [andb].
    destruct (cps_correct_t RD nopts) as (C & _).
    change (mkRS (read RD w) false t) with (st3 (read RD w, false) t).
    rewrite (C e Hd (length (read RD w) + 2) (read RD w, false) t final) by (unfold mu; cbn [fst snd]; lia).
    assert (Hfinal : forall q w' t', erase_all (fst q) = Some w' ->
              (final (st3 q t') = Yes <-> fst (vstrip (w', snd q)) = [] /\ target_done t' = true)).
    { intros q w' t' E. unfold final. rewrite rstrip_st3. unfold st3. cbn [rs_u rs_t].
      destruct (pstrip_vstrip q w' E) as [E1 _]. rewrite <- (erase_all_nil_iff _ _ E1).
      destruct (fst (pstrip q)); [destruct (target_done t'); split; [auto | intros [_ X]; congruence | discriminate | intros [_ X]; congruence]|].
      split; [discriminate | intros [X _]; discriminate]. }
    unfold hit, absorbed. split.
    - intros (q & b & t' & Hbs & Hb & Hf). destruct bs_vs as (F & _). destruct (F e _ q b Hbs u Hu) as (w' & Hvs & E). cbn [fst snd] in Hvs.
      apply (Hfinal q w' t' E) in Hf as [Hend Hdone].
      exists b. split; [exists (w', snd q); split; [exact Hvs | exact Hend] | exists t'; auto].
    - intros (bs & ([w' r'] & Hvs & Hend) & t' & Hb & Hdone). destruct vs_bs as (B & _).
      destruct (B e (u, false) (w', r') bs Hvs (read RD w, false) Hu eq_refl) as (q & Hps & E & R). cbn [fst snd] in *. subst r'.
      exists q, bs, t'. repeat split; [exact Hps | exact Hb|]. apply (Hfinal q w' t' E). auto.
  Qed.
End EraseT.

(** * What "absorbed" says, variable by variable *)
Lemma key_eqb_iff a b : key_eqb a b = true <-> a = b.
Proof.
  destruct a as [i|i], b as [j|j]; cbn [key_eqb]; try (split; [discriminate | congruence]);
    rewrite Nat.eqb_eq; split; congruence.
Qed.

Lemma key_eqb_refl' a : key_eqb a a = true.
Proof. now apply key_eqb_iff. Qed.

(** the values expected for a variable: those of the first entry under its key *)
Fixpoint expected (k : key) (l : list (key * list str)) : list str :=
  match l with
  | [] => []
  | (k', vs) :: l' => if key_eqb k k' then vs else expected k l'
  end.

(** the values a list of bindings gives a variable, in order *)
Definition bound_to (k : key) (bs : list binding) : list str :=
  map snd (filter (fun b : binding => key_eqb (fst b) k) bs).

Lemma expect_pop_spec k v l l' : expect_pop k v l = Some l' ->
  map fst l' = map fst l /\ In k (map fst l) /\
  forall k2, expected k2 l = if key_eqb k2 k then v :: expected k2 l' else expected k2 l'.
Proof.
  revert l'. induction l as [|[k' vs] l IH]; intros l'; cbn [expect_pop]; [discriminate|].
  destruct (key_eqb k k') eqn:Ek.
  - apply key_eqb_iff in Ek. subst k'. destruct vs as [|v' vs']; [discriminate|].
    destruct (str_eqb v v') eqn:Ev; [|discriminate]. apply str_eqb_eq in Ev. subst v'. intros [= <-].
    split; [reflexivity|]. split; [now left|]. intros k2. cbn [expected].
    destruct (key_eqb k2 k) eqn:E2; reflexivity.
  - destruct (expect_pop k v l) as [l1|] eqn:Ep; [|discriminate]. cbn [option_map]. intros [= <-].
    destruct (IH l1 eq_refl) as (M & I & X). split; [cbn; now rewrite M|]. split; [now right|].
    intros k2. cbn [expected]. destruct (key_eqb k2 k') eqn:E2.
    + apply key_eqb_iff in E2. subst k2. assert (key_eqb k' k = false) as ->; [|reflexivity].
      destruct (key_eqb k' k) eqn:E3; [|reflexivity]. apply key_eqb_iff in E3. subst k'. now rewrite key_eqb_refl' in Ek.
    + apply X.
Qed.

Lemma expect_pop_complete k v l vs : In k (map fst l) -> expected k l = v :: vs -> exists l', expect_pop k v l = Some l'.
Proof.
  induction l as [|[k' ws] l IH]; cbn [map In expected expect_pop]; [tauto|].
  destruct (key_eqb k k') eqn:Ek.
  - intros _ ->. rewrite str_eqb_refl. eauto.
  - intros [E|I]; [cbn [fst] in E; subst k'; now rewrite key_eqb_refl' in Ek|]. intros He. destruct (IH I He) as (l' & ->). cbn. eauto.
Qed.

Lemma target_done_spec l : NoDup (map fst l) ->
  (target_done (Some l) = true <-> forall k, In k (map fst l) -> expected k l = []).
Proof.
  cbn [target_done]. induction l as [|[k vs] l IH]; intros Hnd; cbn [forallb map In expected snd]; [tauto|].
  inversion Hnd as [|? ? Hni Hnd']; subst. rewrite andb_true_iff, (IH Hnd'). split.
  - intros [Hv Hl] k2 [E|I].
    + subst k2. rewrite key_eqb_refl'. destruct vs; [reflexivity | discriminate].
    + destruct (key_eqb k2 k) eqn:E2; [apply key_eqb_iff in E2; subst k2; contradiction | now apply Hl].
  - intros H. split.
    + specialize (H k (or_introl eq_refl)). rewrite key_eqb_refl' in H. now subst vs.
    + intros k2 I. specialize (H k2 (or_intror I)).
      destruct (key_eqb k2 k) eqn:E2; [apply key_eqb_iff in E2; subst k2; contradiction | exact H].
Qed.

(** the readable form: with one entry per variable, the target is absorbed iff every binding is for a listed
    variable and every listed variable is bound, in order, exactly to its expected values *)
Theorem absorbed_spec bs : forall l, NoDup (map fst l) ->
  (absorbed bs (Some l) <->
   (forall b, In b bs -> In (fst b) (map fst l)) /\ (forall k, In k (map fst l) -> bound_to k bs = expected k l)).
Proof.
  unfold absorbed. induction bs as [|[k v] bs IH]; intros l Hnd.
  - cbn [binds In]. split.
    + intros (t' & [= <-] & Hd). split; [tauto|]. intros k I. cbn. symmetry. now apply (proj1 (target_done_spec l Hnd) Hd).
    + intros [_ H]. exists (Some l). split; [reflexivity|]. apply (target_done_spec l Hnd). intros k I. symmetry. now apply H.
  - cbn [binds bind]. split.
    + intros (t' & Hb & Hd). destruct (expect_pop k v l) as [l1|] eqn:Ep; [|discriminate]. cbn [option_map] in Hb.
      destruct (expect_pop_spec k v l l1 Ep) as (M & I & X).
      assert (Hnd1 : NoDup (map fst l1)) by (now rewrite M).
      destruct (proj1 (IH l1 Hnd1) (ex_intro _ t' (conj Hb Hd))) as [A B]. split.
      * intros b [<-|Hin]; [exact I | rewrite <- M; now apply A].
      * intros k2 I2. unfold bound_to. cbn [filter fst]. rewrite X. rewrite <- M in I2. specialize (B k2 I2). unfold bound_to in B.
        destruct (key_eqb k k2) eqn:E.
        -- apply key_eqb_iff in E. subst k2. rewrite key_eqb_refl'. cbn [map snd]. now rewrite B.
        -- assert (key_eqb k2 k = false) as ->; [|exact B].
           destruct (key_eqb k2 k) eqn:E3; [|reflexivity]. apply key_eqb_iff in E3. subst k2. now rewrite key_eqb_refl' in E.
    + intros [A B]. assert (I : In k (map fst l)) by (apply (A (k, v)); now left).
      pose proof (B k I) as Bk. unfold bound_to in Bk. cbn [filter fst] in Bk. rewrite key_eqb_refl' in Bk. cbn [map snd] in Bk.
      destruct (expect_pop_complete k v l _ I (eq_sym Bk)) as (l1 & Ep). rewrite Ep. cbn [option_map].
      destruct (expect_pop_spec k v l l1 Ep) as (M & _ & X).
      assert (Hnd1 : NoDup (map fst l1)) by (now rewrite M).
      apply (IH l1 Hnd1). split.
      * intros b Hin. rewrite M. apply A. now right.
      * intros k2 I2. rewrite M in I2. specialize (B k2 I2). unfold bound_to in B |- *. cbn [filter fst] in B. rewrite X in B.
        destruct (key_eqb k k2) eqn:E.
        -- apply key_eqb_iff in E. subst k2. rewrite key_eqb_refl' in B. cbn [map snd] in B. now injection B.
        -- assert (E' : key_eqb k2 k = false).
           { destruct (key_eqb k2 k) eqn:E3; [|reflexivity]. apply key_eqb_iff in E3. subst k2. now rewrite key_eqb_refl' in E. }
           rewrite E' in B. exact B.
Qed.

(** * The oracle of C02, both ways *)
Definition project (keys : list key) (bs : list binding) : list (key * list str) :=
  map (fun k => (k, bound_to k bs)) keys.

Lemma map_fst_project keys bs : map fst (project keys bs) = keys.
Proof. unfold project. rewrite map_map. cbn. apply map_id. Qed.

Lemma expected_project keys bs k : In k keys -> expected k (project keys bs) = bound_to k bs.
Proof.
  induction keys as [|k' keys IH]; cbn [In project map expected]; [tauto|].
  destruct (key_eqb k k') eqn:E.
  - apply key_eqb_iff in E. now subst k'.
  - intros [->|I]; [now rewrite key_eqb_refl' in E | exact (IH I)].
Qed.

Section Oracle.
  Variable D : optinfo.
  Variable nopts : nat.
  Notation RD := (rdecl_of D).

  (** soundness: a Yes for a list of expected values per variable (one entry per variable) exhibits a sentence
      reading whose bindings are for listed variables only and give every listed variable exactly its values,
      in order *)
  Theorem oracle_sound e w u l :
    seq_has_dd e = false -> erase_all (read RD w) = Some u -> NoDup (map fst l) ->
    r_match RD (Greedy true) nopts e w (Some l) = Yes ->
    exists bs, VAccepts D nopts e (u, false) bs /\
               (forall b, In b bs -> In (fst b) (map fst l)) /\
               (forall k, In k (map fst l) -> bound_to k bs = expected k l).
  Proof.
    intros Hd Hu Hnd Hy. apply (r_match_decides_target D nopts e w u (Some l) Hd Hu) in Hy as (bs & Hacc & Hab).
    exists bs. split; [exact Hacc|]. now apply absorbed_spec.
  Qed.

  (** completeness: the values that a sentence reading binds, projected variable by variable on any duplicate-free
      list of variables that covers the reading's bindings, are answered Yes *)
  Theorem oracle_complete e w u bs keys :
    seq_has_dd e = false -> erase_all (read RD w) = Some u -> NoDup keys ->
    (forall b, In b bs -> In (fst b) keys) ->
    VAccepts D nopts e (u, false) bs ->
    r_match RD (Greedy true) nopts e w (Some (project keys bs)) = Yes.
  Proof.
    intros Hd Hu Hnd Hcov Hacc. apply (r_match_decides_target D nopts e w u _ Hd Hu). exists bs. split; [exact Hacc|].
    apply absorbed_spec; rewrite map_fst_project; [exact Hnd|]. split; [exact Hcov|].
    intros k I. symmetry. now apply expected_project.
  Qed.
End Oracle.

(** * End to end: the oracle answers Yes on what a compiled command binds *)
From MowCli Require Import Lexer Values Flow Cmd Apply.

Theorem oracle_accepts_the_commands_bindings opts args spec i toks e a u bs keys :
  compile opts args spec = IOk i ->
  tokenize spec = LexOk toks ->
  parse_tokens (lookup_name opts) (lookup_name args) (length spec) toks = ParseOk e ->
  seq_has_dd e = false -> sane (optinfo_of opts) = true -> view (optinfo_of opts) a = Some u ->
  fsm_apply (optinfo_of opts) (i_graph i) (i_start i) a = AOk bs ->
  NoDup keys -> (forall b, In b bs -> In (fst b) keys) ->
  r_match (rdecl_of (optinfo_of opts)) (Greedy true) (length opts) e a (Some (project keys bs)) = Yes.
Proof.
  intros Hc Hl Hp Hd Hsane Hv Hrun Hnd Hcov.
  destruct (compile_accepts_iff_symbols opts args spec i toks e a u Hc Hl Hp Hd Hsane Hv) as [_ H].
  apply (oracle_complete (optinfo_of opts) (length opts) e a u bs keys Hd); [|exact Hnd | exact Hcov | exact (H bs Hrun)].
  unfold view in Hv. destruct (has_q1 (rdecl_of (optinfo_of opts)) a); [discriminate | exact Hv].
Qed.
