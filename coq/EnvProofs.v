(** C12 on the model: an environment value for an option only enlarges the set of accepted command
    lines, and leaves the values of the options written on the command line as they were. *)
From MowCli Require Import Base Nfa Matchers Apply View ApplyProofs TermProofs MatcherProofs SimProofs ViewProofs
     CompleteProofs AccountProofs GroupProofs.

Section Env.
  Variables D D' : optinfo.
  Hypothesis Hmore : more_env D D'.
  Hypothesis Hnodd : oi_lookup D s_dd = None.
  Hypothesis Hnoeq : oi_lookup D [c_dash; c_eq] = None.

  (** every accepting run without the extra environment values is an accepting run with them, with
      the same bindings *)
  Theorem acc_mono g s a ro bs : Acc D g s a ro bs -> forall u, View D a ro u -> Acc D' g s a ro bs.
  Proof.
    induction 1 as [s a ro He Ht | s a ro l t rem ro' b bs' Hedge Hrun Hrest IH]; intros u Hv.
    - now apply AccEnd.
    - destruct (strip_acct D Hnodd Hnoeq a ro u Hv) as (u1 & Hv1 & _).
      pose proof (strip_idem a ro) as Hid.
      destruct (strip a ro) as [a1 r1] eqn:Es. cbn [fst snd] in *.
      assert (Hnext : exists u2, View D rem ro' u2).
      { destruct l as [|i|o|js|].
        - destruct (step_acct D Hnodd Hnoeq LEps a1 r1 u1 rem ro' b ltac:(discriminate) Hv1 Hid Hrun) as (u2 & H2 & _). eauto.
        - destruct (step_acct D Hnodd Hnoeq (LArg i) a1 r1 u1 rem ro' b ltac:(discriminate) Hv1 Hid Hrun) as (u2 & H2 & _). eauto.
        - destruct (step_acct D Hnodd Hnoeq (LOpt o) a1 r1 u1 rem ro' b ltac:(discriminate) Hv1 Hid Hrun) as (u2 & H2 & _). eauto.
        - destruct (step_acct D Hnodd Hnoeq (LGrp js) a1 r1 u1 rem ro' b ltac:(discriminate) Hv1 Hid Hrun) as (u2 & H2 & _). eauto.
        - cbn in Hrun. injection Hrun as <- <- <-. exists (map VP a1). reflexivity. }
      destruct Hnext as (u2 & Hv2).
      eapply AccStep; [exact Hedge | | exact (IH u2 Hv2)].
      rewrite Es. cbn [fst snd]. eapply (step_mono D D' Hmore Hnodd Hnoeq); eauto.
  Qed.

  (** hence: accepted without them, accepted with them *)
  Theorem env_only_enlarges g start a u bs :
    wf_graph g -> start < nstates g -> Reads D a u ->
    fsm_apply D g start a = AOk bs -> exists bs', fsm_apply D' g start a = AOk bs'.
  Proof.
    intros Hwf Hs Hr Ha. apply fsm_apply_sound in Ha.
    apply (fsm_apply_complete D' g Hwf start a bs Hs). now apply (acc_mono g start a false bs Ha u).
  Qed.

  (** and every option written on the command line keeps its values *)
  Theorem env_keeps_written_values g start a u bs bs' :
    (forall s t, ~ In (LDD, t) (edges g s)) -> Reads D a u ->
    fsm_apply D g start a = AOk bs -> fsm_apply D' g start a = AOk bs' ->
    forall o, b_occs o bs' = b_occs o bs.
  Proof.
    intros Hnd Hr Ha Ha' o.
    destruct (accepted_bindings_are_the_reading D Hnodd Hnoeq g start a u bs Hnd Hr Ha) as [H _].
    destruct (accepted_bindings_are_the_reading D' (Hnodd' D D' Hmore Hnodd) (Hnoeq' D D' Hmore Hnoeq) g start a u bs' Hnd
                (reads_ext D D' Hmore a u Hr) Ha') as [H' _].
    now rewrite H, H'.
  Qed.
End Env.

(** * The same for EVERY command line and every automaton (after the D8 repair)
    No hypothesis on the line (it may hold malformed tokens, folded tokens carrying '=', anything) nor on the
    spec (a spec-level "--" included): a run accepted without the extra environment values is, step by step,
    a run with them, with the same bindings. *)
Section EnvAll.
  Variables D D' : optinfo.
  Hypothesis Hmore : more_env D D'.

  Theorem acc_mono_all g s a ro bs : Acc D g s a ro bs -> Acc D' g s a ro bs.
  Proof.
    induction 1 as [s a ro He Ht | s a ro l t rem ro' b bs' Hedge Hrun Hrest IH].
    - now apply AccEnd.
    - eapply AccStep; [exact Hedge | | exact IH]. now apply (step_mono_all D D' Hmore).
  Qed.

  Theorem env_only_enlarges_all g start a bs :
    wf_graph g -> start < nstates g ->
    fsm_apply D g start a = AOk bs -> exists bs', fsm_apply D' g start a = AOk bs'.
  Proof.
    intros Hwf Hs Ha. apply fsm_apply_sound in Ha.
    apply (fsm_apply_complete D' g Hwf start a bs Hs). now apply acc_mono_all.
  Qed.
End EnvAll.
