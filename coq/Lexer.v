(** Model of internal/lexer/lexer.go: Tokenize (with the D5 repair: a '-' followed by
    something that is neither a letter nor '-' is an error). *)
From MowCli Require Import Base.

Inductive ttype :=
| TArg | TOpenPar | TClosePar | TOpenSq | TCloseSq | TChoice | TOptions | TRep
| TShortOpt | TLongOpt | TOptSeq | TOptValue | TDblDash.

Definition ttype_eqb (a b : ttype) : bool :=
  match a, b with
  | TArg, TArg | TOpenPar, TOpenPar | TClosePar, TClosePar | TOpenSq, TOpenSq
  | TCloseSq, TCloseSq | TChoice, TChoice | TOptions, TOptions | TRep, TRep
  | TShortOpt, TShortOpt | TLongOpt, TLongOpt | TOptSeq, TOptSeq
  | TOptValue, TOptValue | TDblDash, TDblDash => true
  | _, _ => false
  end.

Record token := mkTok { tk_typ : ttype; tk_val : str; tk_pos : nat }.

Inductive lexres :=
| LexOk (ts : list token)
| LexErr (msg : str) (pos : nat)
| LexFuel.

(** character classes (re-derived from the source by tools/srcscan into Generated.v and
    proved equal there) *)
Definition isLowercase (c : ascii) := in_range 97 122 c.
Definition isUppercase (c : ascii) := in_range 65 90 c.
Definition isDigit (c : ascii) := in_range 48 57 c.
Definition isLetter (c : ascii) := isLowercase c || isUppercase c.
Definition c_us : ascii := "_"%char.
Definition isOkInArg (c : ascii) := isUppercase c || isDigit c || Ascii.eqb c c_us.
Definition isOkLongOpt (c : ascii) (first : bool) :=
  isLetter c || isDigit c || Ascii.eqb c c_us || (negb first && Ascii.eqb c c_dash).

(** what may follow the end-of-options marker "--" (D14: a blank, a bracket, a parenthesis, a choice bar) *)
Definition dd_end (c : ascii) : bool :=
  Ascii.eqb c c_space || Ascii.eqb c c_tab || Ascii.eqb c "["%char || Ascii.eqb c "]"%char
  || Ascii.eqb c "("%char || Ascii.eqb c ")"%char || Ascii.eqb c "|"%char.

Fixpoint span (p : ascii -> bool) (l : str) : str * str :=
  match l with
  | c :: l' => if p c then let (a, b) := span p l' in (c :: a, b) else ([], l)
  | [] => ([], [])
  end.

Definition msg_dot2 := lit "Unexpected end of usage, was expecting '..'".
Definition msg_dot1 := lit "Unexpected end of usage, was expecting '.'".
Definition msg_optname_eof := lit "Unexpected end of usage, was expecting an option name".
Definition msg_optname := lit "Was expecting an option name".
Definition msg_invalid := lit "Invalid syntax".
Definition msg_longname := lit "Was expecting a long option name".
Definition msg_eqlt := lit "Unexpected end of usage, was expecting '=<'".
Definition msg_unclosed := lit "Unclosed option value".
Definition msg_optvalue := lit "Was expecting an option value".
Definition msg_unexpected := lit "Unexpected input".

Definition s_options := lit "OPTIONS".

(** [lex fuel pos rest acc]: [rest] is usage[pos:], [acc] the tokens so far, reversed *)
Fixpoint lex (fuel : nat) (pos : nat) (rest : str) (acc : list token) : lexres :=
  match fuel with
  | 0 => LexFuel
  | S fuel' =>
    match rest with
    | [] => LexOk (rev acc)
    | c :: r1 =>
      if Ascii.eqb c c_space || Ascii.eqb c c_tab then lex fuel' (pos + 1) r1 acc
      else if Ascii.eqb c "["%char then lex fuel' (pos + 1) r1 (mkTok TOpenSq [c] pos :: acc)
      else if Ascii.eqb c "]"%char then lex fuel' (pos + 1) r1 (mkTok TCloseSq [c] pos :: acc)
      else if Ascii.eqb c "("%char then lex fuel' (pos + 1) r1 (mkTok TOpenPar [c] pos :: acc)
      else if Ascii.eqb c ")"%char then lex fuel' (pos + 1) r1 (mkTok TClosePar [c] pos :: acc)
      else if Ascii.eqb c "|"%char then lex fuel' (pos + 1) r1 (mkTok TChoice [c] pos :: acc)
      else if Ascii.eqb c "."%char then
        match r1 with
        | d1 :: r2 =>
          if Ascii.eqb d1 "."%char then
            match r2 with
            | d2 :: r3 =>
              if Ascii.eqb d2 "."%char
              then lex fuel' (pos + 3) r3 (mkTok TRep (lit "...") pos :: acc)
              else LexErr msg_dot1 (pos + 2)
            | [] => LexErr msg_dot1 (pos + 2)
            end
          else LexErr msg_dot2 (pos + 1)
        | [] => LexErr msg_dot2 (pos + 1)
        end
      else if Ascii.eqb c c_dash then
        match r1 with
        | [] => LexErr msg_optname_eof (pos + 1)
        | o :: r2 =>
          if isLetter o then
            let (letters, r3) := span isLetter r2 in
            let n := 2 + length letters in   (* pos' - start *)
            let tk := if 2 <? n then mkTok TOptSeq (o :: letters) pos
                      else mkTok TShortOpt [c_dash; o] pos in
            match r3 with
            | d :: _ => if Ascii.eqb d c_dash then LexErr msg_invalid (pos + n)
                        else lex fuel' (pos + n) r3 (tk :: acc)
            | [] => lex fuel' (pos + n) r3 (tk :: acc)
            end
          else if Ascii.eqb o c_dash then
            match r2 with
            | [] => lex fuel' (pos + 2) r2 (mkTok TDblDash s_dd pos :: acc)
            | e :: r3 =>
              if dd_end e then lex fuel' (pos + 2) r2 (mkTok TDblDash s_dd pos :: acc)
              else if isOkLongOpt e true then
                let (name, r4) := span (fun x => isOkLongOpt x false) r3 in
                let n := 3 + length name in
                lex fuel' (pos + n) r4 (mkTok TLongOpt (c_dash :: c_dash :: e :: name) pos :: acc)
              else LexErr msg_longname (pos + 2)
            end
          else LexErr msg_optname (pos + 1)
        end
      else if Ascii.eqb c c_eq then
        match r1 with
        | [] => LexErr msg_eqlt (pos + 1)
        | l :: r2 =>
          if Ascii.eqb l "<"%char then
            let (body, r3) := span (fun x => negb (Ascii.eqb x ">"%char)) r2 in
            match r3 with
            | [] => LexErr msg_unclosed (pos + 2 + length body)
            | g :: r4 =>
              match body with
              | [] => LexErr msg_optvalue (pos + 2)
              | _ => let n := 3 + length body in
                     lex fuel' (pos + n) r4 (mkTok TOptValue (c :: l :: body ++ [g]) pos :: acc)
              end
            end
          else LexErr msg_eqlt (pos + 1)
        end
      else if isUppercase c then
        let (more, r2) := span isOkInArg r1 in
        let s := c :: more in
        let typ := if str_eqb s s_options then TOptions else TArg in
        lex fuel' (pos + length s) r2 (mkTok typ s pos :: acc)
      else LexErr msg_unexpected pos
    end
  end.

Definition tokenize (usage : str) : lexres := lex (length usage + 1) 0 usage [].
