(** C13 — typed values agree with strconv; unparsable values are usage errors.
    strconv.ParseFloat is an oracle (Section variable [parse_float]; the check feeds it from Go's
    own strconv); ParseInt(s,10,64) and ParseBool are Gallina functions characterised below. *)
From MowCli Require Import Base Values Cmd ValueProofs.

Section C13.
  Variable parse_float : str -> option str.

  (** For every built-in variable and every token: Set succeeds iff the token parses at the
      variable's element type ([elem_of]: ParseBool / ParseInt / ParseFloat / the token itself, on
      the exact byte string); then a single-valued variable holds that parse and a multi-valued one
      has it appended; a failing Set leaves the variable unchanged. *)
  Theorem C13_set_agrees_with_strconv :
    forall v s, builtin v = true ->
      match elem_of parse_float v s with
      | Some e => exists v', vset_log parse_float v s = (v', true) /\ builtin v' = true /\
                             multi_val v' = multi_val v /\
                             (forall s', elem_of parse_float v' s' = elem_of parse_float v s') /\
                             items v' = if multi_val v then items v ++ [e] else [e]
      | None => vset_log parse_float v s = (v, false)
      end.
  Proof. exact (vset_log_builtin parse_float). Qed.

  (** string types bind the token unchanged, byte for byte *)
  Theorem C13_strings_verbatim :
    forall s l, elem_of parse_float (VStr l) s = Some (VStr s) /\
                forall ls, elem_of parse_float (VStrs ls) s = Some (VStr s).
  Proof. intros; split; reflexivity. Qed.

  (** command-line delivery: the parse of a level fails (usage error, C07) iff one of the bound
      tokens does not convert; otherwise the variable holds exactly the parses *)
  Theorem C13_command_line :
    forall (c : container) (vs : list str),
      builtin (ct_value c) = true ->
      kind_matches (d_kind (ct_decl c)) (ct_value c) = true ->
      vs <> [] ->
      match elems_of parse_float (ct_value c) vs with
      | Some es =>
        exists c', fill_one parse_float c vs = Some c' /\
                   ct_user c' = true /\ ct_fromenv c' = false /\
                   items (ct_value c') = if multi_val (ct_value c) then es else [last es (ct_value c)]
      | None => fill_one parse_float c vs = None
      end.
  Proof. exact (fill_one_cli parse_float). Qed.
End C13.

(** the grammar of the integer parser: optional sign, one or more decimal digits and nothing else,
    value in the 64-bit range *)
Theorem C13_parse_int_spec :
  forall s,
    parse_int s =
    let '(neg, ds) := match s with
                      | c :: s' => if Ascii.eqb c "+"%char then (false, s')
                                   else if Ascii.eqb c c_dash then (true, s') else (false, s)
                      | [] => (false, s)
                      end in
    match ds with
    | [] => None
    | _ => if forallb is_digit ds
           then let z := if neg then (- digits_value 0 ds)%Z else digits_value 0 ds in
                if (int_min <=? z)%Z && (z <=? int_max)%Z then Some z else None
           else None
    end.
Proof. exact parse_int_spec. Qed.

(** the twelve spellings of ParseBool *)
Theorem C13_parse_bool_spec :
  forall s,
    parse_bool s =
    if mem_str s [lit "1"; lit "t"; lit "T"; lit "TRUE"; lit "true"; lit "True"] then Some true
    else if mem_str s [lit "0"; lit "f"; lit "F"; lit "FALSE"; lit "false"; lit "False"] then Some false
    else None.
Proof. exact parse_bool_spec. Qed.

Print Assumptions C13_set_agrees_with_strconv.
Print Assumptions C13_strings_verbatim.
Print Assumptions C13_command_line.
Print Assumptions C13_parse_int_spec.
Print Assumptions C13_parse_bool_spec.

Example C13_nonvacuous :
  (parse_int (lit "9223372036854775807"), parse_int (lit "9223372036854775808"),
   parse_int (lit "-9223372036854775808"), parse_int (lit "+07"), parse_int (lit "1_000"),
   parse_int (lit " 1"), parse_int (lit "0x10"), parse_int (lit "-"), parse_bool (lit "tRue"))
  = (Some 9223372036854775807%Z, None, Some (-9223372036854775808)%Z, Some 7%Z, None, None, None, None, None).
Proof. vm_compute. reflexivity. Qed.
